import MJ.Proofs.EvalFrame
import MJ.Proofs.Scoping
/-!
# The names bound in a scope cell are never unbound (C03)

`exec` only adds bindings to the cells that stay (`set`, set-blocks, macro declarations write the
innermost cell; the cells pushed for a body are dropped again): a name that is bound in a cell before
a statement is bound in it afterwards.  Used by the simulation to know that the names a macro body
certainly assigned (`assignedBy`) are found in the cells of the call.
-/
namespace MJ.C03
open MJ.Eval

/-- `x` is bound in cell `id` -/
def BoundCell (h : Heap) (id : Nat) (x : String) : Prop := ∃ cell, h[id]? = some cell ∧ (assocGet x cell).isSome = true

def HeapLe (h h' : Heap) : Prop := ∀ id x, BoundCell h id x → BoundCell h' id x

theorem HeapLe.refl (h : Heap) : HeapLe h h := fun _ _ hb => hb
theorem HeapLe.trans {a b c : Heap} (h1 : HeapLe a b) (h2 : HeapLe b c) : HeapLe a c := fun id x hb => h2 id x (h1 id x hb)

theorem isSome_assocSet' {α : Type} (x y : String) (v : α) (c : List (String × α)) (h : (assocGet y c).isSome = true) :
    (assocGet y (assocSet x v c)).isSome = true := by
  by_cases hy : y = x
  · subst hy; simp [assocGet_assocSet_same]
  · rw [assocGet_assocSet_other x y v c hy]; exact h

theorem HeapLe.heapSet (h : Heap) (cell : Nat) (x : String) (v : Val) : HeapLe h (heapSet h cell x v) := by
  intro id y ⟨c, hc, hy⟩
  by_cases hid : id = cell
  · subst hid
    have hlt : id < h.length := by
      cases hl : decide (id < h.length) with
      | true => exact of_decide_eq_true hl
      | false =>
        have : h.length ≤ id := Nat.le_of_not_lt (of_decide_eq_false hl)
        rw [List.getElem?_eq_none this] at hc; cases hc
    refine ⟨assocSet x v h[id], heapSet_getElem?_same h id x v hlt, ?_⟩
    rw [List.getElem?_eq_getElem hlt] at hc; cases hc
    exact isSome_assocSet' x y v _ hy
  · exact ⟨c, by rw [heapSet_getElem?_ne _ _ _ _ _ hid]; exact hc, hy⟩

theorem HeapLe.heapSetAll : ∀ (bs : List (String × Val)) (h : Heap) (cell : Nat), HeapLe h (heapSetAll h cell bs)
  | [], h, _ => HeapLe.refl h
  | (x, v) :: rest, h, cell => (HeapLe.heapSet h cell x v).trans (HeapLe.heapSetAll rest _ cell)

def ExecKeys (fuel : Nat) : Prop :=
  ∀ ctx stack σ s σ' fl, exec fuel ctx stack σ s = .ok (σ', fl) → HeapLe σ.heap σ'.heap
def BlockKeys (fuel : Nat) : Prop :=
  ∀ ctx stack σ ss σ' fl, execBlock fuel ctx stack σ ss = .ok (σ', fl) → HeapLe σ.heap σ'.heap

theorem blockKeys_of_exec (n : Nat) (he : ExecKeys n) (hb : BlockKeys n) : BlockKeys (n + 1) := by
  intro ctx stack σ ss σ' fl h
  cases ss with
  | nil => simp [execBlock] at h; obtain ⟨h1, _⟩ := h; subst h1; exact HeapLe.refl _
  | cons s rest =>
    simp only [execBlock] at h
    split at h
    · simp at h
    · rename_i σ1 hs
      exact (he _ _ _ _ _ _ hs).trans (hb _ _ _ _ _ _ h)
    · rename_i σ1 fl1 _ hs
      simp at h; obtain ⟨h1, _⟩ := h; subst h1
      exact he _ _ _ _ _ _ hs

theorem execKeys_of_block (n : Nat) (hb : BlockKeys n) : ExecKeys (n + 1) := by
  intro ctx stack σ s σ' fl h
  cases s with
  | text t => simp [exec] at h; obtain ⟨h1, _⟩ := h; subst h1; exact HeapLe.refl _
  | emit e =>
    simp only [exec, bind, Except.bind] at h
    split at h
    · simp at h
    · simp at h; obtain ⟨h1, _⟩ := h; subst h1; exact HeapLe.refl _
  | ifS c t f =>
    simp only [exec, bind, Except.bind] at h
    split at h
    · simp at h
    · split at h <;> exact hb _ _ _ _ _ _ h
  | forS target iter flt body els =>
    have key : ∀ (kept : List Val) (sized : Bool),
        (match kept with
          | [] => execBlock n ctx stack σ els
          | _ :: _ => (execIters n ctx stack σ target body (kept.zip (loopInfos sized kept))).bind
              fun σ2 => .ok (σ2, Flow.normal)) = .ok (σ', fl) → HeapLe σ.heap σ'.heap := by
      intro kept sized hk
      cases kept with
      | nil => exact hb _ _ _ _ _ _ hk
      | cons k ks =>
        simp only [Except.bind] at hk
        split at hk
        · simp at hk
        · rename_i σ2 hit
          simp at hk; obtain ⟨h1, _⟩ := hk; subst h1
          rw [execIters_heap hit]; exact HeapLe.refl _
    simp only [exec, bind, Except.bind] at h
    split at h
    · simp at h
    · split at h
      · simp at h
      · cases flt with
        | none => exact key _ _ h
        | some c =>
          simp only at h
          split at h
          · simp at h
          · split at h
            · exact key _ _ h
            · simp at h
  | set target e =>
    simp only [exec, bind, Except.bind] at h
    split at h
    · simp at h
    · split at h
      · simp at h
      · split at h
        · simp at h
        · rename_i cell hc
          simp at h; obtain ⟨h1, _⟩ := h; subst h1
          exact HeapLe.heapSetAll _ _ _
  | setBlock x filters body =>
    simp only [exec, bind, Except.bind] at h
    split at h
    · simp at h
    · rename_i r hr
      split at h
      · rename_i σ1
        split at h
        · simp at h
        · split at h
          · simp at h
          · rename_i cell hc
            simp at h; obtain ⟨h1, _⟩ := h; subst h1
            exact (hb _ _ _ _ _ _ hr).trans (HeapLe.heapSet _ _ _ _)
      · simp at h; obtain ⟨h1, _⟩ := h; subst h1
        have f := hb _ _ _ _ _ _ hr
        exact f
  | withS binds body =>
    simp only [exec, bind, Except.bind] at h
    split at h
    · simp at h
    · rename_i heap1 hw
      split at h
      · simp at h
      · rename_i r hr
        simp at h; obtain ⟨h1, _⟩ := h; subst h1
        have f1 := bindWith_frame _ _ _ _ _ _ hw
        have f2 := execBlock_frame hr
        have := take_of_frame σ.heap [] stack r.1.heap (f1.trans f2)
        simp [this]; exact HeapLe.refl _
  | filterBlock filters body =>
    simp only [exec, bind, Except.bind] at h
    split at h
    · simp at h
    · rename_i r hr
      split at h
      · split at h
        · simp at h
        · simp at h; obtain ⟨h1, _⟩ := h; subst h1
          have f := hb _ _ _ _ _ _ hr
          exact f
      · simp at h; obtain ⟨h1, _⟩ := h; subst h1
        have f := hb _ _ _ _ _ _ hr
        exact f
  | macroS name params defaults body uc =>
    simp only [exec, bind, Except.bind] at h
    split at h
    · simp at h
    · rename_i cell hc
      simp at h; obtain ⟨h1, _⟩ := h; subst h1
      exact HeapLe.heapSet _ _ _ _
  | callBlock callee args params defaults body uc =>
    simp only [exec, bind, Except.bind] at h
    repeat' (split at h)
    all_goals first
      | (simp at h; done)
      | (simp at h; obtain ⟨h1, _⟩ := h; subst h1; exact HeapLe.refl _)
  | breakS => simp [exec] at h; obtain ⟨h1, _⟩ := h; subst h1; exact HeapLe.refl _
  | continueS => simp [exec] at h; obtain ⟨h1, _⟩ := h; subst h1; exact HeapLe.refl _



theorem keys_all : ∀ fuel, ExecKeys fuel ∧ BlockKeys fuel := by
  intro fuel
  induction fuel with
  | zero =>
    refine ⟨?_, ?_⟩
    · intro ctx stack σ s σ' fl h; simp [exec] at h
    · intro ctx stack σ ss σ' fl h; simp [execBlock] at h
  | succ n ih =>
    obtain ⟨he, hb⟩ := ih
    exact ⟨execKeys_of_block n hb, blockKeys_of_exec n he hb⟩

theorem exec_keys {fuel ctx stack σ s σ' fl} (h : exec fuel ctx stack σ s = .ok (σ', fl)) : HeapLe σ.heap σ'.heap :=
  (keys_all fuel).1 _ _ _ _ _ _ h

theorem execBlock_keys {fuel ctx stack σ ss σ' fl} (h : execBlock fuel ctx stack σ ss = .ok (σ', fl)) :
    HeapLe σ.heap σ'.heap := (keys_all fuel).2 _ _ _ _ _ _ h

theorem bindWith_keys : ∀ (fuel : Nat) (ctx : Scope) (heap : Heap) (stack : List Nat)
    (binds : List (Target × Expr)) (heap' : Heap),
    bindWith fuel ctx heap stack binds = .ok heap' → HeapLe heap heap' := by
  intro fuel
  induction fuel with
  | zero => intro ctx heap stack binds heap' h; simp [bindWith] at h
  | succ n ih =>
    intro ctx heap stack binds heap' h
    cases binds with
    | nil => simp [bindWith] at h; subst h; exact HeapLe.refl _
    | cons b rest =>
      obtain ⟨t, e⟩ := b
      simp only [bindWith] at h
      split at h
      · simp at h
      · split at h
        · simp at h
        · split at h
          · simp at h
          · exact (HeapLe.heapSetAll _ _ _).trans (ih _ _ _ _ _ h)

/-! ## what a statement certainly binds -/

theorem BoundCell.heapSet_same (h : Heap) (cell : Nat) (x : String) (v : Val) (hc : cell < h.length) :
    BoundCell (heapSet h cell x v) cell x :=
  ⟨_, heapSet_getElem?_same h cell x v hc, by simp [assocGet_assocSet_same]⟩

theorem heapSetAll_bound : ∀ (bs : List (String × Val)) (h : Heap) (cell : Nat), cell < h.length →
    ∀ x, x ∈ bs.map (·.1) → BoundCell (heapSetAll h cell bs) cell x
  | [], _, _, _, x, hx => by simp at hx
  | (y, v) :: rest, h, cell, hc, x, hx => by
    simp only [heapSetAll]
    simp only [List.map_cons, List.mem_cons] at hx
    rcases hx with rfl | hx
    · exact HeapLe.heapSetAll rest _ cell cell x (BoundCell.heapSet_same h cell x v hc)
    · exact heapSetAll_bound rest _ cell (by rw [heapSet_length]; exact hc) x hx

mutual
theorem bindTarget_names : ∀ (t : Target) (v : Val) (bs : List (String × Val)), bindTarget t v = .ok bs →
    bs.map (·.1) = MJ.Compile.targetNames t
  | .var x, v, bs, h => by simp [bindTarget] at h; subst h; simp [MJ.Compile.targetNames]
  | .tuple ts, v, bs, h => by
    simp only [MJ.Compile.targetNames]
    cases v <;> simp only [bindTarget] at h <;> first | exact bindTargets_names ts _ bs h | (simp at h)
theorem bindTargets_names : ∀ (ts : List Target) (vs : List Val) (bs : List (String × Val)), bindTargets ts vs = .ok bs →
    bs.map (·.1) = MJ.Compile.targetsNames ts
  | [], [], bs, h => by simp [bindTargets] at h; subst h; rfl
  | [], _ :: _, _, h => by simp [bindTargets] at h
  | _ :: _, [], _, h => by simp [bindTargets] at h
  | t :: ts, v :: vs, bs, h => by
    simp only [bindTargets] at h
    split at h
    · rename_i b1 hb1
      split at h
      · rename_i b2 hb2
        simp at h; subst h
        simp [MJ.Compile.targetsNames, bindTarget_names t v b1 hb1, bindTargets_names ts vs b2 hb2]
      · simp at h
    · simp at h
end

theorem bindWith_bound : ∀ (fuel : Nat) (ctx : Scope) (heap : Heap) (T : Nat) (st : List Nat)
    (binds : List (Target × Expr)) (heap' : Heap),
    bindWith fuel ctx heap (T :: st) binds = .ok heap' → T < heap.length →
    ∀ x, x ∈ MJ.Compile.bindsNames binds → BoundCell heap' T x := by
  intro fuel
  induction fuel with
  | zero => intro ctx heap T st binds heap' h; simp [bindWith] at h
  | succ n ih =>
    intro ctx heap T st binds heap' h hT x hx
    cases binds with
    | nil => simp [MJ.Compile.bindsNames] at hx
    | cons b rest =>
      obtain ⟨t, e⟩ := b
      simp only [bindWith, topCell] at h
      split at h
      · simp at h
      · rename_i v hv
        split at h
        · simp at h
        · rename_i bs hbs
          simp only [MJ.Compile.bindsNames, List.mem_append] at hx
          rcases hx with hx | hx
          · exact bindWith_keys _ _ _ _ _ _ h T x
              (heapSetAll_bound bs heap T hT x (by rw [bindTarget_names t v bs hbs]; exact hx))
          · exact ih _ _ _ _ _ _ h (by rw [heapSetAll_length]; exact hT) x hx

/-- after a statement that ended normally, the names it certainly assigns are bound in the innermost cell -/
theorem exec_assigned_bound {n ctx T r σ st σ'} (h : exec n ctx (T :: r) σ st = .ok (σ', .normal))
    (hT : T < σ.heap.length) : ∀ x, x ∈ MJ.Compile.assignedBy st → BoundCell σ'.heap T x := by
  intro x hx
  cases n with
  | zero => simp [exec] at h
  | succ m =>
    cases st with
    | set t e =>
      simp only [MJ.Compile.assignedBy] at hx
      simp only [exec, bind, Except.bind, topCell] at h
      split at h
      · simp at h
      · split at h
        · simp at h
        · rename_i bs hbs
          simp at h; subst h
          exact heapSetAll_bound bs σ.heap T hT x (by rw [bindTarget_names t _ bs hbs]; exact hx)
    | setBlock y fs body =>
      simp only [MJ.Compile.assignedBy, List.mem_singleton] at hx
      subst hx
      simp only [exec, bind, Except.bind, topCell] at h
      split at h
      · simp at h
      · rename_i r' hr
        split at h
        · rename_i σ1
          split at h
          · simp at h
          · simp at h; subst h
            have hf := execBlock_frame hr
            exact BoundCell.heapSet_same _ T x _ (by rw [hf.1]; exact hT)
        · rename_i σ1 fl hne
          simp at h
          exact absurd h.2 (fun e => hne (by rw [e]))
    | macroS name params defaults body uc =>
      simp only [MJ.Compile.assignedBy, List.mem_singleton] at hx
      subst hx
      simp only [exec, bind, Except.bind, topCell] at h
      simp at h; subst h
      exact BoundCell.heapSet_same _ T x _ hT
    | _ => simp [MJ.Compile.assignedBy] at hx

end MJ.C03
