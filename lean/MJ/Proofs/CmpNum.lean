import MJ.Proofs.CmpKey
/-!
# The numeric comparison of `Value::cmp` is exact

`cmpN x y = compare (numKey x) (numKey y)`: integers of all four widths and floats are ordered by
their exact values (`numKey` = value · 2^1074; ±0 identified; infinities and NaNs continued in
`total_cmp` order).
-/
namespace MJ.CmpNum
open MJ MJ.Val MJ.Cmp MJ.F64 MJ.CmpKey

theorem compare_congr_int {a b c d : Int} (h1 : a < b ↔ c < d) (h2 : b < a ↔ d < c) :
    compare a b = compare c d := by
  simp only [Int.compare_eq_ite_lt]
  by_cases x : a < b
  · rw [if_pos x, if_pos (h1.mp x)]
  · rw [if_neg x, if_neg (fun h => x (h1.mpr h))]
    by_cases y : b < a
    · rw [if_pos y, if_pos (h2.mp y)]
    · rw [if_neg y, if_neg (fun h => y (h2.mpr h))]

theorem compare_nat_int (a b : Nat) : compare a b = compare (a : Int) (b : Int) := by
  simp only [Int.compare_eq_ite_lt, Nat.compare_eq_ite_lt]
  by_cases x : a < b
  · have : (a : Int) < b := by omega
    rw [if_pos x, if_pos this]
  · have : ¬ (a : Int) < b := by omega
    rw [if_neg x, if_neg this]
    by_cases y : b < a
    · have : (b : Int) < a := by omega
      rw [if_pos y, if_pos this]
    · have : ¬ (b : Int) < a := by omega
      rw [if_neg y, if_neg this]

theorem scale_pos : (0 : Int) < (scale : Int) := by
  have : 0 < scale := Nat.pow_pos (by omega)
  omega

theorem compare_mul_scale (a b : Int) :
    compare (a * (scale : Int)) (b * (scale : Int)) = compare a b := by
  apply compare_congr_int
  · constructor
    · intro h; exact Int.lt_of_mul_lt_mul_right h (Int.le_of_lt scale_pos)
    · intro h; exact Int.mul_lt_mul_of_pos_right h scale_pos
  · constructor
    · intro h; exact Int.lt_of_mul_lt_mul_right h (Int.le_of_lt scale_pos)
    · intro h; exact Int.mul_lt_mul_of_pos_right h scale_pos

/-! ## integers -/

theorem toI128_int (x : N) (hx : x.isFloat = false) :
    x.toI128 = if i128Min ≤ x.int ∧ x.int ≤ i128Max then some x.int else none := by
  cases x <;> simp only [N.isFloat, reduceCtorEq] at hx <;> rfl

theorem cmpI128U128_eq (l : Int) (r : Nat) : cmpI128U128 l r = compare l (r : Int) := by
  unfold cmpI128U128
  by_cases h : l < 0
  · rw [if_pos h]
    exact (Int.compare_eq_lt.mpr (by omega)).symm
  · rw [if_neg h, compare_nat_int]
    have : ((l.toNat : Nat) : Int) = l := by omega
    rw [this]

theorem cmpUncoercible_int (x y : N) (hx : x.isFloat = false) (hy : y.isFloat = false) :
    cmpUncoercible x y = compare x.int y.int := by
  cases x <;> simp only [N.isFloat, reduceCtorEq] at hx <;>
  cases y <;> simp only [N.isFloat, reduceCtorEq] at hy <;>
    simp only [cmpUncoercible, number, N.int, cmpI128U128_eq, compare_nat_int, Int.compare_swap]

/-- the `_ =>` arm of `coerce` on two integers -/
theorem coerce_arm_int (x y : N) (hx : x.isFloat = false) (hy : y.isFloat = false) :
    (match (match x.toI128, y.toI128 with
            | some a, some b => some (Co.i a b)
            | _, _ => none) with
      | some (.f a b) => cmpF64 a b
      | some (.i a b) => compare a b
      | none => cmpUncoercible x y) = compare x.int y.int := by
  rw [toI128_int x hx, toI128_int y hy]
  by_cases h1 : i128Min ≤ x.int ∧ x.int ≤ i128Max
  · by_cases h2 : i128Min ≤ y.int ∧ y.int ≤ i128Max
    · rw [if_pos h1, if_pos h2]
    · rw [if_pos h1, if_neg h2]; exact cmpUncoercible_int x y hx hy
  · rw [if_neg h1]; exact cmpUncoercible_int x y hx hy

/-- integers of any two widths are compared by value -/
theorem cmpN_int (x y : N) (hx : x.isFloat = false) (hy : y.isFloat = false) :
    cmpN x y = compare x.int y.int := by
  cases x <;> simp only [N.isFloat, reduceCtorEq] at hx <;>
  cases y <;> simp only [N.isFloat, reduceCtorEq] at hy
  case u64.u64 a b => simp only [cmpN, coerceN, N.int]
  case i64.i64 a b => simp only [cmpN, coerceN, N.int]
  case i128.i128 a b => simp only [cmpN, coerceN, N.int]
  case u128.u128 a b => simp only [cmpN, N.int, compare_nat_int]
  all_goals
    simp only [cmpN, coerceN]
    exact coerce_arm_int _ _ rfl rfl

end MJ.CmpNum

namespace MJ.CmpNum
open MJ MJ.Val MJ.Cmp MJ.F64 MJ.CmpKey

/-- stage 1: integers only -/
theorem numSpec_int : NumSpec (fun n => n.isFloat = false) := by
  intro x y hx hy
  rw [cmpN_int x y hx hy]
  have kx : numKey x = x.int * (scale : Int) := by
    cases x <;> simp only [N.isFloat, reduceCtorEq] at hx <;> rfl
  have ky : numKey y = y.int * (scale : Int) := by
    cases y <;> simp only [N.isFloat, reduceCtorEq] at hy <;> rfl
  rw [kx, ky, compare_mul_scale]

end MJ.CmpNum
