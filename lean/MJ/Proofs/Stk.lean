import MJ.Model.Stk
/-!
# Soundness of the operand-stack certificate checker (helper lemmas for C01 `no_underflow`)

`Gam a cs`: the cells `cs` (top first) are described by the abstract entry `a`; `GamS` lifts this to
stacks.  `Inv`: the certificate describes the machine state — in the outermost recursion level the
whole abstract stack of the current pc describes the operand stack; in a level entered through
`loop(…)` into the recursive loop at `t`, the part of the abstract stack *above the floor of `t`*
describes the (relative) operand stack, and the suspended caller, once it gets its result pushed,
satisfies the invariant at its return address.
-/
namespace MJ.Stk

inductive Gam : AE → List Cell → Prop where
  | v (c : Cell) : Gam .v [c]
  | z : Gam .z [.num 0]
  | o : Gam .o [.num 1]
  | l (m : Nat) : Gam (.l m) [.list m]
  | s (min k : Nat) (cs : List Cell) : min ≤ k → cs.length = k → Gam (.s min) (.num k :: cs)
  | p (min k : Nat) (cs : List Cell) : min ≤ k → cs.length = k + 1 → Gam (.p min) (.num k :: cs)

inductive GamS : List AE → List Cell → Prop where
  | nil : GamS [] []
  | cons {a as cs rest} : Gam a cs → GamS as rest → GamS (a :: as) (cs ++ rest)

theorem Gam_single {a : AE} {cs : List Cell} (h : a.single = true) (g : Gam a cs) : ∃ c, cs = [c] := by
  cases g <;> simp [AE.single] at h <;> exact ⟨_, rfl⟩

theorem Gam_le {a b : AE} {cs : List Cell} (h : a.le b = true) (g : Gam a cs) : Gam b cs := by
  cases g with
  | v c => cases b <;> simp [AE.le] at h; exact .v c
  | z =>
    cases b <;> simp [AE.le] at h
    · exact .v _
    · exact .z
    · subst h; exact .s 0 0 [] (Nat.le_refl _) rfl
  | o =>
    cases b <;> simp [AE.le] at h
    · exact .v _
    · exact .o
  | l m =>
    cases b <;> simp [AE.le] at h
    · exact .v _
    · subst h; exact .l m
  | s min k cs h1 h2 =>
    cases b <;> simp [AE.le] at h
    exact .s _ k cs (by omega) h2
  | p min k cs h1 h2 =>
    cases b <;> simp [AE.le] at h
    exact .p _ k cs (by omega) h2

theorem leStk_length {as bs : List AE} (h : leStk as bs = true) : as.length = bs.length := by
  induction as generalizing bs with
  | nil => cases bs <;> simp [leStk] at h ⊢
  | cons a as ih =>
    cases bs with
    | nil => simp [leStk] at h
    | cons b bs =>
      simp only [leStk, Bool.and_eq_true] at h
      simp [ih h.2]

theorem GamS_le {as bs : List AE} {st : List Cell} (h : leStk as bs = true) (g : GamS as st) : GamS bs st := by
  induction g generalizing bs with
  | nil => cases bs <;> simp [leStk] at h; exact .nil
  | cons ga _ ih =>
    cases bs with
    | nil => simp [leStk] at h
    | cons b bs =>
      simp only [leStk, Bool.and_eq_true] at h
      exact .cons (Gam_le h.1 ga) (ih h.2)

theorem leStk_take {as bs : List AE} (n : Nat) (h : leStk as bs = true) : leStk (as.take n) (bs.take n) = true := by
  induction as generalizing bs n with
  | nil => cases bs <;> simp [leStk] at h ⊢
  | cons a as ih =>
    cases bs with
    | nil => simp [leStk] at h
    | cons b bs =>
      simp only [leStk, Bool.and_eq_true] at h
      cases n with
      | zero => simp [leStk]
      | succ n => simp [leStk, h.1, ih n h.2]

theorem leStk_append_take {out lo C : List AE} (h : leStk (out ++ lo) C = true) :
    leStk out (C.take out.length) = true := by
  have := leStk_take out.length h
  simpa using this

/-- an all-single prefix of `n` abstract entries is `n` cells -/
theorem GamS_singles {stk : List AE} {st : List Cell} (n : Nat) (hn : n ≤ stk.length)
    (hs : (stk.take n).all AE.single = true) (g : GamS stk st) :
    n ≤ st.length ∧ GamS (stk.drop n) (st.drop n) := by
  induction n generalizing stk st with
  | zero => simpa using g
  | succ n ih =>
    cases g with
    | nil => simp at hn
    | @cons a as cs rest ga gr =>
      simp only [List.take_succ_cons, List.all_cons, Bool.and_eq_true] at hs
      obtain ⟨c, rfl⟩ := Gam_single hs.1 ga
      have := ih (by simpa using hn) hs.2 gr
      simp only [List.singleton_append, List.length_cons, List.drop_succ_cons]
      exact ⟨by omega, this.2⟩

theorem GamS_pushV {stk : List AE} {st cs : List Cell} (g : GamS stk st) :
    GamS (List.replicate cs.length .v ++ stk) (cs ++ st) := by
  induction cs with
  | nil => simpa using g
  | cons c cs ih =>
    have : GamS (.v :: (List.replicate cs.length .v ++ stk)) ([c] ++ (cs ++ st)) := .cons (.v c) ih
    simpa [List.replicate_succ] using this

theorem GamS_cons1 {a : AE} {c : Cell} {stk : List AE} {st : List Cell} (ga : Gam a [c]) (g : GamS stk st) :
    GamS (a :: stk) (c :: st) := by
  have : GamS (a :: stk) ([c] ++ st) := .cons ga g
  simpa using this

/-- inversion for a single entry on top -/
theorem GamS_top_single {a : AE} {stk : List AE} {st : List Cell} (h : a.single = true) (g : GamS (a :: stk) st) :
    ∃ c rest, st = c :: rest ∧ Gam a [c] ∧ GamS stk rest := by
  cases g with
  | @cons _ _ cs rest ga gr =>
    obtain ⟨c, rfl⟩ := Gam_single h ga
    exact ⟨c, rest, rfl, ga, gr⟩

/-- the items guaranteed by the popped lists -/
def cellItems (cs : List Cell) : Nat :=
  cs.foldl (fun acc c => match c with | .list m => acc + m | _ => acc) 0

theorem foldl_cellItems_acc (cs : List Cell) (a : Nat) :
    cs.foldl (fun acc c => match c with | .list m => acc + m | _ => acc) a = a + cellItems cs := by
  unfold cellItems
  induction cs generalizing a with
  | nil => simp
  | cons c cs ih =>
    simp only [List.foldl_cons]
    rw [ih, ih (match c with | .list m => 0 + m | _ => 0)]
    cases c <;> simp <;> omega

theorem foldl_sumMin_acc (xs : List AE) (a : Nat) :
    xs.foldl (fun acc x => acc + minItems x) a = a + sumMin xs := by
  unfold sumMin
  induction xs generalizing a with
  | nil => simp
  | cons x xs ih =>
    simp only [List.foldl_cons]
    rw [ih, ih (0 + minItems x)]
    omega

theorem sumMin_le_cellItems {stk : List AE} {st : List Cell} (n : Nat) (hn : n ≤ stk.length)
    (hs : (stk.take n).all AE.single = true) (g : GamS stk st) :
    sumMin (stk.take n) ≤ cellItems (st.take n) := by
  induction n generalizing stk st with
  | zero => simp [sumMin]
  | succ n ih =>
    cases g with
    | nil => simp at hn
    | @cons a as cs rest ga gr =>
      simp only [List.take_succ_cons, List.all_cons, Bool.and_eq_true] at hs
      obtain ⟨c, rfl⟩ := Gam_single hs.1 ga
      have h := ih (by simpa using hn) hs.2 gr
      simp only [List.singleton_append, List.take_succ_cons]
      unfold sumMin cellItems
      simp only [List.foldl_cons]
      rw [foldl_sumMin_acc, foldl_cellItems_acc]
      cases ga <;> simp [minItems] <;> omega

theorem GamS_cons_inv {a : AE} {as : List AE} {st : List Cell} (g : GamS (a :: as) st) :
    ∃ cs rest, st = cs ++ rest ∧ Gam a cs ∧ GamS as rest := by
  generalize hx : a :: as = x at g
  cases g with
  | nil => cases hx
  | @cons a' as' cs rest ga gr =>
    cases hx
    exact ⟨cs, rest, rfl, ga, gr⟩

theorem Gam_s_inv {m : Nat} {cs : List Cell} (g : Gam (.s m) cs) :
    ∃ k cs', cs = .num k :: cs' ∧ m ≤ k ∧ cs'.length = k := by
  generalize hx : AE.s m = x at g
  cases g <;> cases hx
  exact ⟨_, _, rfl, by assumption, by assumption⟩

theorem Gam_p_inv {m : Nat} {cs : List Cell} (g : Gam (.p m) cs) :
    ∃ k cs', cs = .num k :: cs' ∧ m ≤ k ∧ cs'.length = k + 1 := by
  generalize hx : AE.p m = x at g
  cases g <;> cases hx
  exact ⟨_, _, rfl, by assumption, by assumption⟩

theorem Gam_z_inv {cs : List Cell} (g : Gam .z cs) : cs = [.num 0] := by
  generalize hx : AE.z = x at g
  cases g <;> cases hx
  rfl

theorem Gam_o_inv {cs : List Cell} (g : Gam .o cs) : cs = [.num 1] := by
  generalize hx : AE.o = x at g
  cases g <;> cases hx
  rfl

theorem Gam_l_inv {m : Nat} {cs : List Cell} (g : Gam (.l m) cs) : cs = [.list m] := by
  generalize hx : AE.l m = x at g
  cases g <;> cases hx
  rfl

theorem GamS_top_s {m : Nat} {as : List AE} {st : List Cell} (g : GamS (.s m :: as) st) :
    ∃ k cs rest, st = .num k :: (cs ++ rest) ∧ m ≤ k ∧ cs.length = k ∧ GamS as rest := by
  obtain ⟨cs, rest, rfl, ga, gr⟩ := GamS_cons_inv g
  obtain ⟨k, cs', rfl, h1, h2⟩ := Gam_s_inv ga
  exact ⟨k, cs', rest, rfl, h1, h2, gr⟩

theorem GamS_top_p {m : Nat} {as : List AE} {st : List Cell} (g : GamS (.p m :: as) st) :
    ∃ k cs rest, st = .num k :: (cs ++ rest) ∧ m ≤ k ∧ cs.length = k + 1 ∧ GamS as rest := by
  obtain ⟨cs, rest, rfl, ga, gr⟩ := GamS_cons_inv g
  obtain ⟨k, cs', rfl, h1, h2⟩ := Gam_p_inv ga
  exact ⟨k, cs', rest, rfl, h1, h2, gr⟩

theorem GamS_top_z {as : List AE} {st : List Cell} (g : GamS (.z :: as) st) :
    ∃ rest, st = .num 0 :: rest ∧ GamS as rest := by
  obtain ⟨cs, rest, rfl, ga, gr⟩ := GamS_cons_inv g
  rw [Gam_z_inv ga]
  exact ⟨rest, rfl, gr⟩

theorem GamS_top_o {as : List AE} {st : List Cell} (g : GamS (.o :: as) st) :
    ∃ rest, st = .num 1 :: rest ∧ GamS as rest := by
  obtain ⟨cs, rest, rfl, ga, gr⟩ := GamS_cons_inv g
  rw [Gam_o_inv ga]
  exact ⟨rest, rfl, gr⟩

theorem GamS_top_l {m : Nat} {as : List AE} {st : List Cell} (g : GamS (.l m :: as) st) :
    ∃ rest, st = .list m :: rest ∧ GamS as rest := by
  obtain ⟨cs, rest, rfl, ga, gr⟩ := GamS_cons_inv g
  rw [Gam_l_inv ga]
  exact ⟨rest, rfl, gr⟩

theorem GamS_top1 {a : AE} {as : List AE} {c : Cell} {rest : List Cell} (h : a.single = true)
    (g : GamS (a :: as) (c :: rest)) : Gam a [c] ∧ GamS as rest := by
  obtain ⟨c', r', heq, ga, gr⟩ := GamS_top_single h g
  cases heq
  exact ⟨ga, gr⟩

/-- the abstract effect of a straight-line instruction describes every concrete result -/
theorem absStk_sim {i : Instr} {hi out : List AE} {st st' : List Cell}
    (ha : absStk i hi = some out) (g : GamS hi st) (hs : StkStep i st st') : GamS out st' := by
  cases hs with
  | eff a b st cs hb =>
    simp only [absStk] at ha
    split at ha
    · rename_i hc
      cases ha
      have := GamS_singles a hc.1 hc.2 g
      have h2 := GamS_pushV (cs := cs) this.2
      rw [hb] at h2
      exact h2
    · cases ha
  | loadZero st => simp only [absStk] at ha; cases ha; exact GamS_cons1 .z g
  | loadOne st => simp only [absStk] at ha; cases ha; exact GamS_cons1 .o g
  | loadList m st => simp only [absStk] at ha; cases ha; exact GamS_cons1 (.l m) g
  | buildList n st =>
    simp only [absStk] at ha
    split at ha
    · rename_i hc
      cases ha
      exact GamS_cons1 (.l n) (GamS_singles n hc.1 hc.2 g).2
    · cases ha
  | buildDyn k rest c =>
    simp only [absStk] at ha
    split at ha
    · cases ha
      obtain ⟨k', cs', rest', heq, h1, h2, gr⟩ := GamS_top_s g
      simp only [List.cons.injEq, Cell.num.injEq] at heq
      obtain ⟨rfl, rfl⟩ := heq
      have : (cs' ++ rest').drop k = rest' := by rw [← h2]; simp
      rw [this]
      exact GamS_cons1 (.v c) gr
    · cases ha
      obtain ⟨rest', heq, gr⟩ := GamS_top_z g
      simp only [List.cons.injEq, Cell.num.injEq] at heq
      obtain ⟨rfl, rfl⟩ := heq
      exact GamS_cons1 (.v c) gr
    · cases ha
  | unpackLists n st items hitems =>
    simp only [absStk] at ha
    split at ha
    · rename_i hc
      cases ha
      have h1 := GamS_singles n hc.1 hc.2 g
      have h2 := sumMin_le_cellItems n hc.1 hc.2 g
      have h3 : cellItems (st.take n) ≤ items.length := hitems
      have : GamS (.s (sumMin (hi.take n)) :: hi.drop n) ((.num items.length :: items) ++ st.drop n) :=
        .cons (.s _ items.length items (by omega) rfl) h1.2
      simpa using this
    · cases ha
  | call n recv fn st c =>
    simp only [absStk] at ha
    split at ha
    · rename_i hc
      cases ha
      exact GamS_cons1 (.v c) (GamS_singles n hc.1 hc.2.1 g).2
    · cases ha
  | callDyn recv fn k rest c =>
    simp only [absStk] at ha
    split at ha
    · split at ha
      · cases ha
        obtain ⟨k', cs', rest', heq, h1, h2, gr⟩ := GamS_top_s g
        simp only [List.cons.injEq, Cell.num.injEq] at heq
        obtain ⟨rfl, rfl⟩ := heq
        have : (cs' ++ rest').drop k = rest' := by rw [← h2]; simp
        rw [this]
        exact GamS_cons1 (.v c) gr
      · cases ha
    · split at ha
      · cases ha
        obtain ⟨rest', heq, gr⟩ := GamS_top_z g
        simp only [List.cons.injEq, Cell.num.injEq] at heq
        obtain ⟨rfl, rfl⟩ := heq
        exact GamS_cons1 (.v c) gr
      · cases ha
    · cases ha
  | swap a b rest =>
    simp only [absStk] at ha
    split at ha
    · split at ha
      · rename_i x k arest hx
        cases ha
        obtain ⟨ga, g1⟩ := GamS_top1 hx g
        obtain ⟨k', cs', rest', heq, h1, h2, gr⟩ := GamS_top_s g1
        simp only [List.cons.injEq] at heq
        obtain ⟨rfl, rfl⟩ := heq
        have : GamS (.p k :: arest) ((.num k' :: a :: cs') ++ rest') :=
          .cons (.p _ k' (a :: cs') h1 (by simp [h2])) gr
        simpa using this
      · cases ha
    · split at ha
      · rename_i x arest hx
        cases ha
        obtain ⟨ga, g1⟩ := GamS_top1 hx g
        obtain ⟨rest', heq, gr⟩ := GamS_top_z g1
        simp only [List.cons.injEq] at heq
        obtain ⟨rfl, rfl⟩ := heq
        have : GamS (.p 0 :: arest) ((.num 0 :: [a]) ++ rest) :=
          .cons (.p _ 0 [a] (Nat.le_refl _) rfl) gr
        simpa using this
      · cases ha
    · split at ha
      · rename_i x y arest _ _ hxy
        cases ha
        obtain ⟨ga, g1⟩ := GamS_top1 hxy.1 g
        obtain ⟨gb, g2⟩ := GamS_top1 hxy.2 g1
        exact GamS_cons1 gb (GamS_cons1 ga g2)
      · cases ha
    · cases ha
  | addNum x y rest =>
    simp only [absStk] at ha
    split at ha
    · rename_i k arest
      cases ha
      obtain ⟨r1, heq, g1⟩ := GamS_top_o g
      simp only [List.cons.injEq, Cell.num.injEq] at heq
      obtain ⟨rfl, rfl⟩ := heq
      obtain ⟨k', cs', rest', heq, h1, h2, gr⟩ := GamS_top_p g1
      simp only [List.cons.injEq, Cell.num.injEq] at heq
      obtain ⟨rfl, rfl⟩ := heq
      have : GamS (.s (k + 1) :: arest) ((.num (x + 1) :: cs') ++ rest') :=
        .cons (.s _ (x + 1) cs' (by omega) h2) gr
      simpa using this
    · split at ha
      · rename_i a b arest _ hab
        cases ha
        obtain ⟨ga, g1⟩ := GamS_top1 hab.1 g
        obtain ⟨gb, g2⟩ := GamS_top1 hab.2 g1
        exact GamS_cons1 (.v _) g2
      · cases ha
    · cases ha
  | addOther a b rest c hne =>
    simp only [absStk] at ha
    split at ha
    · exfalso
      obtain ⟨r1, heq, g1⟩ := GamS_top_o g
      simp only [List.cons.injEq] at heq
      obtain ⟨rfl, rfl⟩ := heq
      obtain ⟨k', cs', rest', heq, h1, h2, gr⟩ := GamS_top_p g1
      simp only [List.cons.injEq] at heq
      exact hne k' 1 ⟨rfl, heq.1⟩
    · split at ha
      · rename_i a' b' arest _ hab
        cases ha
        obtain ⟨ga, g1⟩ := GamS_top1 hab.1 g
        obtain ⟨gb, g2⟩ := GamS_top1 hab.2 g1
        exact GamS_cons1 (.v _) g2
      · cases ha
    · cases ha
  | dupTop a rest =>
    simp only [absStk] at ha
    split at ha
    · split at ha
      · rename_i x arest hx
        cases ha
        obtain ⟨ga, g1⟩ := GamS_top1 hx g
        exact GamS_cons1 ga (GamS_cons1 ga g1)
      · cases ha
    · cases ha
  | buildMacro o n m x rest c =>
    simp only [absStk] at ha
    split at ha
    · split at ha
      · rename_i m' y arest hy
        cases ha
        obtain ⟨r1, heq, g1⟩ := GamS_top_l g
        simp only [List.cons.injEq] at heq
        obtain ⟨_, rfl⟩ := heq
        obtain ⟨gb, g2⟩ := GamS_top1 hy g1
        exact GamS_cons1 (.v c) g2
      · cases ha
    · cases ha

theorem StkStep_straight {i : Instr} {st st' : List Cell} (h : StkStep i st st') : isStraight i = true := by
  cases h <;> rfl

theorem absEdges_straight {i : Instr} (pc : Nat) (A : Abs) (h : isStraight i = true) :
    absEdges pc i A = (absStk i A.stk).map (fun out => [(pc + 1, ⟨out, A.loops⟩)]) := by
  cases i <;> simp [isStraight] at h <;> simp only [absEdges] <;> cases absStk _ A.stk <;> rfl

/-- the abstract effect is only defined where the Rust code does not panic -/
theorem absStk_pre {i : Instr} {hi out : List AE} {s : State} (hs : isStraight i = true)
    (ha : absStk i hi = some out) (g : GamS hi s.stack) : pre i s = true := by
  cases i <;> simp [isStraight] at hs <;> simp only [absStk] at ha <;> simp only [pre]
  case eff a b =>
    split at ha
    · rename_i hc; simpa using (GamS_singles a hc.1 hc.2 g).1
    · cases ha
  case buildList n =>
    split at ha
    · rename_i hc; simpa using (GamS_singles n hc.1 hc.2 g).1
    · cases ha
  case buildDyn =>
    split at ha
    · obtain ⟨k, cs, rest, heq, _, h2, _⟩ := GamS_top_s g
      rw [heq]; simp [h2]
    · obtain ⟨rest, heq, _⟩ := GamS_top_z g
      rw [heq]; simp
    · cases ha
  case unpackLists n =>
    split at ha
    · rename_i hc; simpa using (GamS_singles n hc.1 hc.2 g).1
    · cases ha
  case call n recv fn =>
    split at ha
    · rename_i hc
      have := (GamS_singles n hc.1 hc.2.1 g).1
      simp [this, hc.2.2]
    · cases ha
  case callDyn recv fn =>
    split at ha
    · split at ha
      · rename_i hm
        obtain ⟨k, cs, rest, heq, h1, h2, _⟩ := GamS_top_s g
        rw [heq]; simp [h2]; omega
      · cases ha
    · split at ha
      · rename_i hm
        obtain ⟨rest, heq, _⟩ := GamS_top_z g
        rw [heq]; simp [hm]
      · cases ha
    · cases ha
  case swap =>
    split at ha
    · split at ha
      · rename_i x k arest hx
        obtain ⟨c, r1, h1, _, g1⟩ := GamS_top_single hx g
        obtain ⟨k', cs', rest', heq, _, _, _⟩ := GamS_top_s g1
        rw [h1, heq]; simp
      · cases ha
    · split at ha
      · rename_i x arest hx
        obtain ⟨c, r1, h1, _, g1⟩ := GamS_top_single hx g
        obtain ⟨rest', heq, _⟩ := GamS_top_z g1
        rw [h1, heq]; simp
      · cases ha
    · split at ha
      · rename_i x y arest _ _ hxy
        obtain ⟨c, r1, h1, _, g1⟩ := GamS_top_single hxy.1 g
        obtain ⟨c2, r2, h2, _, _⟩ := GamS_top_single hxy.2 g1
        rw [h1, h2]; simp
      · cases ha
    · cases ha
  case add =>
    split at ha
    · obtain ⟨r1, heq, g1⟩ := GamS_top_o g
      obtain ⟨k', cs', rest', heq2, _, _, _⟩ := GamS_top_p g1
      rw [heq, heq2]; simp
    · split at ha
      · rename_i a b arest _ hab
        obtain ⟨c, r1, h1, _, g1⟩ := GamS_top_single hab.1 g
        obtain ⟨c2, r2, h2, _, _⟩ := GamS_top_single hab.2 g1
        rw [h1, h2]; simp
      · cases ha
    · cases ha
  case dupTop =>
    split at ha
    · split at ha
      · rename_i x arest hx
        obtain ⟨c, r1, h1, _, _⟩ := GamS_top_single hx g
        rw [h1]; simp
      · cases ha
    · cases ha
  case buildMacro o n =>
    split at ha
    · split at ha
      · rename_i m y arest hy
        obtain ⟨r1, heq, g1⟩ := GamS_top_l g
        obtain ⟨c2, r2, h2, _, _⟩ := GamS_top_single hy g1
        rw [heq, h2]
      · cases ha
    · cases ha

/-! ## The invariant -/

/-- the current recursion level as the certificate sees it: `f` = its floor, `base` = the recursive
    loop it was entered through (`none`: the level the region started at) -/
def Cur (code : Code) (cert : Cert) (base : Option Nat) (A : Abs) (st : List Cell) (lp : List Bool) (f : Nat) : Prop :=
  f ≤ A.stk.length ∧ GamS (A.stk.take (A.stk.length - f)) st ∧
  (match base with
   | none => f = 0 ∧ lp = List.replicate A.loops.length false
   | some t => ∃ B inner, isRecLoop code t = true ∧ look cert t = some B ∧ floorOf cert t = some f ∧
        A.loops = inner ++ t :: B.loops ∧ lp = List.replicate inner.length false ++ [true])

def Head (code : Code) (cert : Cert) (saved : List Saved) (pc : Nat) (st : List Cell) (lp : List Bool) : Prop :=
  ∃ A base f, look cert pc = some A ∧ Cur code cert base A st lp f ∧ base.isNone = saved.isEmpty

/-- every suspended caller, once its result is pushed, satisfies the invariant at its return address -/
def Tail (code : Code) (cert : Cert) : List Saved → Prop
  | [] => True
  | sv :: rest => ∀ r : List Cell, r.length = (if sv.capture then 1 else 0) →
      Head code cert rest sv.ret (r ++ sv.stack) sv.loops ∧ Tail code cert rest

def Inv (code : Code) (cert : Cert) (s : State) : Prop :=
  Head code cert s.saved s.pc s.stack s.loops ∧ Tail code cert s.saved

theorem look_lt {cert : Cert} {pc : Nat} {A : Abs} (h : look cert pc = some A) : pc < cert.size := by
  unfold look at h
  by_cases hlt : pc < cert.size
  · exact hlt
  · rw [Array.getElem?_eq_none (by omega)] at h
    simp at h

theorem checkPc_of {code : Code} {cert : Cert} (h : checkStk code cert = true) {pc : Nat} {A : Abs}
    (hl : look cert pc = some A) : checkPc code cert pc = true := by
  unfold checkStk at h
  simp only [Bool.and_eq_true, List.all_eq_true] at h
  exact h.2 pc (List.mem_range.mpr (look_lt hl))

theorem floorsOf_zero {code : Code} {cert : Cert} {L fs : List Nat} (h : floorsOf code cert L = some fs) : 0 ∈ fs := by
  induction L generalizing fs with
  | nil => simp [floorsOf] at h; subst h; simp
  | cons t L ih =>
    simp only [floorsOf] at h
    cases hL : floorsOf code cert L with
    | none => rw [hL] at h; simp at h
    | some fs' =>
      rw [hL] at h
      simp only at h
      split at h
      · cases hf : floorOf cert t with
        | none => rw [hf] at h; simp at h
        | some f => rw [hf] at h; simp at h; subst h; exact List.mem_cons_of_mem _ (ih hL)
      · simp at h; subst h; exact ih hL

theorem floorsOf_mem {code : Code} {cert : Cert} {L fs : List Nat} (h : floorsOf code cert L = some fs)
    {t f : Nat} (ht : t ∈ L) (hr : isRecLoop code t = true) (hf : floorOf cert t = some f) : f ∈ fs := by
  induction L generalizing fs with
  | nil => simp at ht
  | cons u L ih =>
    simp only [floorsOf] at h
    cases hL : floorsOf code cert L with
    | none => rw [hL] at h; simp at h
    | some fs' =>
      rw [hL] at h
      simp only at h
      rcases List.mem_cons.mp ht with rfl | ht'
      · rw [if_pos hr, hf] at h
        simp at h; subst h; simp
      · split at h
        · cases hf' : floorOf cert u with
          | none => rw [hf'] at h; simp at h
          | some f' => rw [hf'] at h; simp at h; subst h; exact List.mem_cons_of_mem _ (ih hL ht')
        · simp at h; subst h; exact ih hL ht'

theorem checkAt_of {code : Code} {cert : Cert} (h : checkStk code cert = true) {pc : Nat} {A : Abs}
    (hl : look cert pc = some A) {base : Option Nat} {st : List Cell} {lp : List Bool} {f : Nat}
    (hc : Cur code cert base A st lp f) : checkAt code cert pc A f = true := by
  have hp := checkPc_of h hl
  unfold checkPc at hp
  rw [hl] at hp
  simp only at hp
  cases hfs : floorsOf code cert A.loops with
  | none => rw [hfs] at hp; simp at hp
  | some fs =>
    rw [hfs] at hp
    simp only [List.all_eq_true] at hp
    apply hp
    cases base with
    | none =>
      have : f = 0 := hc.2.2.1
      subst this
      exact floorsOf_zero hfs
    | some t =>
      obtain ⟨B, inner, hr, _, hf, hloops, _⟩ := hc.2.2
      exact floorsOf_mem hfs (by rw [hloops]; simp) hr hf

/-- what `checkAt` says about the edges of the instruction at `pc` -/
theorem edges_of {code : Code} {cert : Cert} {pc : Nat} {A : Abs} {f : Nat} {i : Instr}
    (h : checkAt code cert pc A f = true) (hi : code[pc]? = some i) :
    ∃ es, absEdges pc i ⟨A.stk.take (A.stk.length - f), A.loops⟩ = some es ∧
      ∀ e ∈ es, ∃ C, look cert e.1 = some C ∧
        leStk (e.2.stk ++ A.stk.drop (A.stk.length - f)) C.stk = true ∧ e.2.loops = C.loops := by
  unfold checkAt at h
  rw [hi] at h
  simp only [Bool.and_eq_true] at h
  cases he : absEdges pc i ⟨A.stk.take (A.stk.length - f), A.loops⟩ with
  | none => rw [he] at h; simp at h
  | some es =>
    rw [he] at h
    refine ⟨es, rfl, ?_⟩
    intro e hmem
    have := h.2
    simp only [List.all_eq_true] at this
    have he' := this e hmem
    cases hlk : look cert e.1 with
    | none => rw [hlk] at he'; simp at he'
    | some C =>
      rw [hlk] at he'
      simp only [Bool.and_eq_true, decide_eq_true_eq] at he'
      exact ⟨C, rfl, he'.1, he'.2⟩

/-- an edge that leaves the live loops alone carries the invariant of the level along -/
theorem cur_edge {code : Code} {cert : Cert} {base : Option Nat} {A C : Abs} {st st' : List Cell}
    {lp : List Bool} {f : Nat} {out : List AE} (hc : Cur code cert base A st lp f)
    (hle : leStk (out ++ A.stk.drop (A.stk.length - f)) C.stk = true) (hloops : A.loops = C.loops)
    (g : GamS out st') : Cur code cert base C st' lp f := by
  obtain ⟨hf, _, hb⟩ := hc
  have hlen := leStk_length hle
  simp only [List.length_append, List.length_drop] at hlen
  have hCl : C.stk.length - f = out.length := by omega
  refine ⟨by omega, ?_, ?_⟩
  · rw [hCl]
    exact GamS_le (leStk_append_take hle) g
  · rw [← hloops]; exact hb

/-- the stack part of `Cur` along a certified edge -/
theorem cur_stack {code : Code} {cert : Cert} {base : Option Nat} {A C : Abs} {st st' : List Cell}
    {lp : List Bool} {f : Nat} {out : List AE} (hc : Cur code cert base A st lp f)
    (hle : leStk (out ++ A.stk.drop (A.stk.length - f)) C.stk = true) (g : GamS out st') :
    f ≤ C.stk.length ∧ GamS (C.stk.take (C.stk.length - f)) st' := by
  obtain ⟨hf, _, _⟩ := hc
  have hlen := leStk_length hle
  simp only [List.length_append, List.length_drop] at hlen
  have hCl : C.stk.length - f = out.length := by omega
  refine ⟨by omega, ?_⟩
  rw [hCl]
  exact GamS_le (leStk_append_take hle) g

/-- follow a certified edge that keeps the live loops -/
theorem head_edge {code : Code} {cert : Cert} {saved : List Saved} {A : Abs} {base : Option Nat} {f : Nat}
    {st st' : List Cell} {lp : List Bool} (hc : Cur code cert base A st lp f)
    (hbs : base.isNone = saved.isEmpty) {es : List (Nat × Abs)}
    (hall : ∀ e ∈ es, ∃ C, look cert e.1 = some C ∧
        leStk (e.2.stk ++ A.stk.drop (A.stk.length - f)) C.stk = true ∧ e.2.loops = C.loops)
    {pc' : Nat} {out : List AE} (hmem : (pc', (⟨out, A.loops⟩ : Abs)) ∈ es) (g : GamS out st') :
    Head code cert saved pc' st' lp := by
  obtain ⟨C, hlC, hle, hloops⟩ := hall _ hmem
  exact ⟨C, base, f, hlC, cur_edge hc hle hloops g, hbs⟩

theorem replicate_false_cons {n : Nat} {L : List Bool} (h : List.replicate n false = false :: L) :
    ∃ m, n = m + 1 ∧ L = List.replicate m false := by
  cases n with
  | zero => simp at h
  | succ m => simp [List.replicate_succ] at h; exact ⟨m, rfl, h.symm⟩

/-- the return state of a recursion site is certified: the caller's continuation with the result pushed -/
theorem site_return {code : Code} {cert : Cert} {saved : List Saved} {pc : Nat} {A : Abs} {base : Option Nat}
    {f : Nat} {st : List Cell} {lp : List Bool} {i : Instr} {arg : Cell} {rest : List Cell} {cap : Bool}
    (hca : checkAt code cert pc A f = true) (hi : code[pc]? = some i) (hc : Cur code cert base A st lp f)
    (hbs : base.isNone = saved.isEmpty)
    (hsite : recursionSite i st = some (arg, rest, cap)) (hnum : arg.isNum = false) :
    ∀ r : List Cell, r.length = (if cap then 1 else 0) → Head code cert saved (pc + 1) (r ++ rest) lp := by
  intro r hr
  obtain ⟨es, he, hall⟩ := edges_of hca hi
  unfold recursionSite at hsite
  split at hsite
  · -- call 1 _ true
    rename_i recv a rest'
    simp only [Option.some.injEq, Prod.mk.injEq] at hsite
    obtain ⟨rfl, rfl, rfl⟩ := hsite
    rw [absEdges_straight _ _ rfl] at he
    cases ha : absStk (.call 1 recv true) (A.stk.take (A.stk.length - f)) with
    | none => rw [ha] at he; simp at he
    | some out =>
      rw [ha] at he
      simp only [Option.map_some, Option.some.injEq] at he
      subst he
      simp only [if_true] at hr
      obtain ⟨c, rfl⟩ : ∃ c, r = [c] := by
        cases r with
        | nil => simp at hr
        | cons c r' => cases r' with
          | nil => exact ⟨c, rfl⟩
          | cons _ _ => simp at hr
      have hs : StkStep (.call 1 recv true) (a :: rest') (c :: (a :: rest').drop 1) := .call 1 recv true _ c
      exact head_edge hc hbs hall (by simp) (absStk_sim ha hc.2.1 hs)
  · -- callDyn _ true with one argument
    rename_i recv a rest'
    simp only [Option.some.injEq, Prod.mk.injEq] at hsite
    obtain ⟨rfl, rfl, rfl⟩ := hsite
    rw [absEdges_straight _ _ rfl] at he
    cases ha : absStk (.callDyn recv true) (A.stk.take (A.stk.length - f)) with
    | none => rw [ha] at he; simp at he
    | some out =>
      rw [ha] at he
      simp only [Option.map_some, Option.some.injEq] at he
      subst he
      simp only [if_true] at hr
      obtain ⟨c, rfl⟩ : ∃ c, r = [c] := by
        cases r with
        | nil => simp at hr
        | cons c r' => cases r' with
          | nil => exact ⟨c, rfl⟩
          | cons _ _ => simp at hr
      have hs : StkStep (.callDyn recv true) (.num 1 :: a :: rest') (c :: (a :: rest').drop 1) :=
        .callDyn recv true 1 _ c
      exact head_edge hc hbs hall (by simp) (absStk_sim ha hc.2.1 hs)
  · -- fastRecurse
    rename_i a rest'
    simp only [Option.some.injEq, Prod.mk.injEq] at hsite
    obtain ⟨rfl, rfl, rfl⟩ := hsite
    simp only [Bool.false_eq_true, if_false] at hr
    have hr0 : r = [] := List.eq_nil_of_length_eq_zero hr
    subst hr0
    have g := hc.2.1
    generalize A.stk.take (A.stk.length - f) = hi at he g
    cases hi with
    | nil => simp [absEdges] at he
    | cons x xs =>
      cases x with
      | s k =>
        exfalso
        obtain ⟨k', cs', rest'', heq, _, _, _⟩ := GamS_top_s g
        simp only [List.cons.injEq] at heq
        rw [heq.1] at hnum
        simp [Cell.isNum] at hnum
      | p k => simp [absEdges, AE.single] at he
      | v =>
        simp only [absEdges, AE.single, if_true, Option.some.injEq] at he
        subst he
        exact head_edge hc hbs hall (by simp) (GamS_top1 rfl g).2
      | z =>
        simp only [absEdges, AE.single, if_true, Option.some.injEq] at he
        subst he
        exact head_edge hc hbs hall (by simp) (GamS_top1 rfl g).2
      | o =>
        simp only [absEdges, AE.single, if_true, Option.some.injEq] at he
        subst he
        exact head_edge hc hbs hall (by simp) (GamS_top1 rfl g).2
      | l m =>
        simp only [absEdges, AE.single, if_true, Option.some.injEq] at he
        subst he
        exact head_edge hc hbs hall (by simp) (GamS_top1 rfl g).2
  · cases hsite

theorem checkAt_zero {code : Code} {cert : Cert} (h : checkStk code cert = true) {pc : Nat} {A : Abs}
    (hl : look cert pc = some A) : checkAt code cert pc A 0 = true := by
  have hp := checkPc_of h hl
  unfold checkPc at hp
  rw [hl] at hp
  simp only at hp
  cases hfs : floorsOf code cert A.loops with
  | none => rw [hfs] at hp; simp at hp
  | some fs =>
    rw [hfs] at hp
    simp only [List.all_eq_true] at hp
    exact hp 0 (floorsOf_zero hfs)

theorem recLoop_certified {code : Code} {cert : Cert} (h : checkStk code cert = true) {t : Nat}
    (ht : code[t]? = some (.pushLoop true)) :
    ∃ B x restB, look cert t = some B ∧ B.stk = x :: restB ∧ floorOf cert t = some restB.length ∧
      isRecLoop code t = true := by
  have hrec : isRecLoop code t = true := by simp [isRecLoop, ht]
  unfold checkStk at h
  simp only [Bool.and_eq_true, List.all_eq_true] at h
  have hlt : t < code.size := by
    by_cases hlt : t < code.size
    · exact hlt
    · rw [Array.getElem?_eq_none (by omega)] at ht; cases ht
  have := h.1.2 t (List.mem_range.mpr hlt)
  rw [hrec] at this
  simp only [Bool.not_true, Bool.false_or] at this
  unfold floorOf at this ⊢
  cases hl : look cert t with
  | none => rw [hl] at this; simp at this
  | some B =>
    rw [hl] at this
    simp only at this ⊢
    cases hB : B.stk with
    | nil => rw [hB] at this; simp at this
    | cons x restB => exact ⟨B, x, restB, rfl, hB, by simp, hrec⟩

/-- the state right after a recursion entered the recursive loop at `t` -/
theorem recursion_entry {code : Code} {cert : Cert} (h : checkStk code cert = true) {t : Nat}
    (ht : code[t]? = some (.pushLoop true)) {sv : Saved} {saved : List Saved} :
    Head code cert (sv :: saved) (t + 1) [] [true] := by
  obtain ⟨B, x, restB, hlB, hBstk, hfl, hrec⟩ := recLoop_certified h ht
  have hca := checkAt_zero h hlB
  obtain ⟨es, he, hall⟩ := edges_of hca ht
  simp only [Nat.sub_zero, List.take_length, List.drop_length, List.append_nil] at he hall
  simp only [absEdges, hBstk] at he
  split at he
  · simp only [Option.some.injEq] at he
    subst he
    obtain ⟨C, hlC, hle, hloops⟩ := hall _ (List.mem_singleton.mpr rfl)
    simp only at hle hloops
    have hlen := leStk_length hle
    refine ⟨C, some t, restB.length, hlC, ⟨by omega, ?_, B, [], hrec, hlB, hfl, by simp [← hloops], by simp⟩, by simp⟩
    have : C.stk.length - restB.length = 0 := by omega
    rw [this]
    exact .nil
  · cases he

/-- the base part of `Cur` after `PushLoop` at `pc` -/
theorem cur_push {code : Code} {cert : Cert} {base : Option Nat} {A C : Abs} {st st' : List Cell}
    {lp : List Bool} {f pc : Nat} {out : List AE} (hc : Cur code cert base A st lp f)
    (hle : leStk (out ++ A.stk.drop (A.stk.length - f)) C.stk = true) (hloops : pc :: A.loops = C.loops)
    (g : GamS out st') : Cur code cert base C st' (false :: lp) f := by
  obtain ⟨h1, h2⟩ := cur_stack hc hle g
  refine ⟨h1, h2, ?_⟩
  obtain ⟨_, _, hb⟩ := hc
  cases base with
  | none =>
    simp only at hb ⊢
    refine ⟨hb.1, ?_⟩
    rw [← hloops, hb.2]
    simp [List.replicate_succ]
  | some t =>
    simp only at hb ⊢
    obtain ⟨B, inner, hr, hlB, hf, hl, hlp⟩ := hb
    refine ⟨B, pc :: inner, hr, hlB, hf, ?_, ?_⟩
    · rw [← hloops, hl]; rfl
    · rw [hlp]; simp [List.replicate_succ]

/-- the base part of `Cur` after a `PopLoopFrame` that leaves an ordinary loop -/
theorem cur_pop {code : Code} {cert : Cert} {base : Option Nat} {A C : Abs} {st st' : List Cell}
    {L : List Bool} {f u : Nat} {L' : List Nat} {out : List AE} (hc : Cur code cert base A st (false :: L) f)
    (hA : A.loops = u :: L')
    (hle : leStk (out ++ A.stk.drop (A.stk.length - f)) C.stk = true) (hloops : L' = C.loops)
    (g : GamS out st') : Cur code cert base C st' L f := by
  obtain ⟨h1, h2⟩ := cur_stack hc hle g
  refine ⟨h1, h2, ?_⟩
  obtain ⟨_, _, hb⟩ := hc
  cases base with
  | none =>
    simp only at hb ⊢
    refine ⟨hb.1, ?_⟩
    have := hb.2
    rw [hA] at this
    simp only [List.length_cons, List.replicate_succ, List.cons.injEq, true_and] at this
    rw [← hloops]; exact this
  | some t =>
    simp only at hb ⊢
    obtain ⟨B, inner, hr, hlB, hf, hl, hlp⟩ := hb
    cases inner with
    | nil => simp at hlp
    | cons w inner' =>
      simp only [List.length_cons, List.replicate_succ, List.cons_append, List.cons.injEq, true_and] at hlp
      rw [hA] at hl
      simp only [List.cons_append, List.cons.injEq] at hl
      exact ⟨B, inner', hr, hlB, hf, by rw [← hloops]; exact hl.2, hlp⟩

/-- one step of the machine preserves the invariant -/
theorem step_inv {code : Code} {cert : Cert} (h : checkStk code cert = true) {s s' : State}
    (hinv : Inv code cert s) (hstep : Step code s s') : Inv code cert s' := by
  obtain ⟨⟨A, base, f, hl, hc, hbs⟩, htail⟩ := hinv
  have hca := checkAt_of h hl hc
  cases hstep with
  | @straight i st' hi hpre hss =>
    obtain ⟨es, he, hall⟩ := edges_of hca hi
    rw [absEdges_straight _ _ (StkStep_straight hss)] at he
    cases ha : absStk i (A.stk.take (A.stk.length - f)) with
    | none => rw [ha] at he; simp at he
    | some out =>
      rw [ha] at he
      simp only [Option.map_some, Option.some.injEq] at he
      subst he
      exact ⟨head_edge hc hbs hall (by simp) (absStk_sim ha hc.2.1 hss), htail⟩
  | @recurse i t arg rest cap hi hpre hsite hnum ht =>
    refine ⟨recursion_entry h ht, ?_⟩
    intro r hr
    exact ⟨site_return hca hi hc hbs hsite hnum r hr, htail⟩
  | @pushLoop r a rest hi hst =>
    obtain ⟨es, he, hall⟩ := edges_of hca hi
    have g := hc.2.1
    rw [hst] at g
    generalize hhi : A.stk.take (A.stk.length - f) = hi' at he g
    cases hi' with
    | nil => simp [absEdges] at he
    | cons x xs =>
      simp only [absEdges] at he
      split at he
      · rename_i hx
        simp only [Option.some.injEq] at he
        subst he
        obtain ⟨C, hlC, hle, hloops⟩ := hall _ (List.mem_singleton.mpr rfl)
        have hc' : Cur code cert base A (a :: rest) s.loops f := by rw [← hst]; exact hc
        exact ⟨⟨C, base, f, hlC, cur_push hc' hle hloops (GamS_top1 hx g).2, hbs⟩, htail⟩
      · cases he
  | @iterNext t c hi hne =>
    obtain ⟨es, he, hall⟩ := edges_of hca hi
    simp only [absEdges] at he
    split at he
    · cases he
    · simp only [Option.some.injEq] at he
      subst he
      exact ⟨head_edge hc hbs hall (by simp) (GamS_cons1 (.v c) hc.2.1), htail⟩
  | @iterEnd t hi hne =>
    obtain ⟨es, he, hall⟩ := edges_of hca hi
    simp only [absEdges] at he
    split at he
    · cases he
    · simp only [Option.some.injEq] at he
      subst he
      exact ⟨head_edge hc hbs hall (by simp) hc.2.1, htail⟩
  | @popLoop L hi hlp =>
    obtain ⟨es, he, hall⟩ := edges_of hca hi
    simp only [absEdges] at he
    split at he
    · rename_i u L' hA
      simp only [Option.some.injEq] at he
      subst he
      obtain ⟨C, hlC, hle, hloops⟩ := hall _ (List.mem_singleton.mpr rfl)
      have hc' : Cur code cert base A s.stack (false :: L) f := by rw [← hlp]; exact hc
      exact ⟨⟨C, base, f, hlC, cur_pop hc' hA hle hloops hc.2.1, hbs⟩, htail⟩
    · cases he
  | @popLoopRet L sv rest r hi hlp hsv hr =>
    rw [hsv] at htail
    exact htail r hr
  | @jump t hi =>
    obtain ⟨es, he, hall⟩ := edges_of hca hi
    simp only [absEdges, Option.some.injEq] at he
    subst he
    exact ⟨head_edge hc hbs hall (by simp) hc.2.1, htail⟩
  | @jumpIfFalseFall t a rest hi hst =>
    obtain ⟨es, he, hall⟩ := edges_of hca hi
    have g := hc.2.1
    rw [hst] at g
    generalize hhi : A.stk.take (A.stk.length - f) = hi' at he g
    cases hi' with
    | nil => simp [absEdges] at he
    | cons x xs =>
      simp only [absEdges] at he
      split at he
      · rename_i hx
        simp only [Option.some.injEq] at he
        subst he
        exact ⟨head_edge hc hbs hall (by simp) (GamS_top1 hx g).2, htail⟩
      · cases he
  | @jumpIfFalseJump t a rest hi hst =>
    obtain ⟨es, he, hall⟩ := edges_of hca hi
    have g := hc.2.1
    rw [hst] at g
    generalize hhi : A.stk.take (A.stk.length - f) = hi' at he g
    cases hi' with
    | nil => simp [absEdges] at he
    | cons x xs =>
      simp only [absEdges] at he
      split at he
      · rename_i hx
        simp only [Option.some.injEq] at he
        subst he
        exact ⟨head_edge hc hbs hall (by simp) (GamS_top1 hx g).2, htail⟩
      · cases he
  | @orPopFall t a rest hi hst =>
    have g := hc.2.1
    rw [hst] at g
    rcases hi with hi | hi
    all_goals
      obtain ⟨es, he, hall⟩ := edges_of hca hi
      generalize hhi : A.stk.take (A.stk.length - f) = hi' at he g
      cases hi' with
      | nil => simp [absEdges] at he
      | cons x xs =>
        simp only [absEdges] at he
        split at he
        · rename_i hx
          simp only [Option.some.injEq] at he
          subst he
          exact ⟨head_edge hc hbs hall (by simp) (GamS_top1 hx g).2, htail⟩
        · cases he
  | @orPopJump t a rest hi hst =>
    have g := hc.2.1
    rcases hi with hi | hi
    all_goals
      obtain ⟨es, he, hall⟩ := edges_of hca hi
      generalize hhi : A.stk.take (A.stk.length - f) = hi' at he g
      cases hi' with
      | nil => simp [absEdges] at he
      | cons x xs =>
        simp only [absEdges] at he
        split at he
        · rename_i hx
          simp only [Option.some.injEq] at he
          subst he
          exact ⟨head_edge (out := x :: xs) hc hbs hall (by simp) g, htail⟩
        · cases he

theorem GamS_nil_inv {st : List Cell} (g : GamS [] st) : st = [] := by
  generalize hx : ([] : List AE) = x at g
  cases g with
  | nil => rfl
  | cons _ _ => cases hx

theorem GamS_length_pos {x : AE} {xs : List AE} {st : List Cell} (g : GamS (x :: xs) st) : 1 ≤ st.length := by
  obtain ⟨cs, rest, rfl, ga, _⟩ := GamS_cons_inv g
  cases ga <;> simp

/-- in every state the invariant describes, the instruction about to execute does not panic -/
theorem inv_pre {code : Code} {cert : Cert} (h : checkStk code cert = true) {s : State}
    (hinv : Inv code cert s) {i : Instr} (hi : code[s.pc]? = some i) : pre i s = true := by
  obtain ⟨⟨A, base, f, hl, hc, hbs⟩, _⟩ := hinv
  have hca := checkAt_of h hl hc
  obtain ⟨es, he, _⟩ := edges_of hca hi
  have g := hc.2.1
  by_cases hs : isStraight i = true
  · rw [absEdges_straight _ _ hs] at he
    cases ha : absStk i (A.stk.take (A.stk.length - f)) with
    | none => rw [ha] at he; simp at he
    | some out => exact absStk_pre hs ha g
  · generalize hhi : A.stk.take (A.stk.length - f) = hi' at he g
    cases i <;> simp [isStraight] at hs <;> simp only [pre]
    case pushLoop r =>
      cases hi' with
      | nil => simp [absEdges] at he
      | cons x xs => simpa using GamS_length_pos g
    case iterate t =>
      simp only [absEdges] at he
      split at he
      · cases he
      · rename_i hne
        obtain ⟨_, _, hb⟩ := hc
        cases base with
        | none =>
          simp only at hb
          rw [hb.2]
          cases hA : A.loops with
          | nil => simp [hA] at hne
          | cons _ _ => simp
        | some t' =>
          simp only at hb
          obtain ⟨B, inner, _, _, _, _, hlp⟩ := hb
          rw [hlp]; simp
    case popLoopFrame =>
      simp only [absEdges] at he
      split at he
      · rename_i u L' hA
        replace hA : A.loops = u :: L' := hA
        obtain ⟨_, _, hb⟩ := hc
        cases base with
        | none =>
          simp only at hb
          rw [hb.2, hA]
          simp [List.replicate_succ]
        | some t' =>
          simp only at hb
          obtain ⟨B, inner, hr, hlB, hf, hloops, hlp⟩ := hb
          cases inner with
          | cons w inner' => rw [hlp]; simp [List.replicate_succ]
          | nil =>
            rw [hlp]
            simp only [List.length_nil, List.replicate_zero, List.nil_append]
            cases hsv : s.saved with
            | nil => rw [hsv] at hbs; simp at hbs
            | cons _ _ => simp
      · cases he
    case jumpIfFalse t =>
      cases hi' with
      | nil => simp [absEdges] at he
      | cons x xs => simpa using GamS_length_pos g
    case jumpIfFalseOrPop t =>
      cases hi' with
      | nil => simp [absEdges] at he
      | cons x xs => simpa using GamS_length_pos g
    case jumpIfTrueOrPop t =>
      cases hi' with
      | nil => simp [absEdges] at he
      | cons x xs => simpa using GamS_length_pos g
    case fastRecurse =>
      cases hi' with
      | nil => simp [absEdges] at he
      | cons x xs => simpa using GamS_length_pos g

/-- region entries satisfy the invariant -/
theorem init_inv {code : Code} {cert : Cert} (h : checkStk code cert = true) {s : State} (hs : Init code s) :
    Inv code cert s := by
  obtain ⟨e, he, hpc, hlen, hlp, hsv⟩ := hs
  unfold checkStk at h
  simp only [Bool.and_eq_true, List.all_eq_true, decide_eq_true_eq] at h
  have hl := h.1.1 e he
  rw [← hpc] at hl
  refine ⟨⟨_, none, 0, hl, ⟨Nat.zero_le _, ?_, rfl, by simp [hlp]⟩, by simp [hsv]⟩, by rw [hsv]; trivial⟩
  simp only [Nat.sub_zero, List.take_length]
  rw [← hlen]
  have : ∀ st : List Cell, GamS (List.replicate st.length .v) st := by
    intro st
    have := GamS_pushV (stk := []) (st := []) (cs := st) .nil
    simpa using this
  exact this s.stack

theorem reach_inv {code : Code} {cert : Cert} (h : checkStk code cert = true) {s t : State}
    (hs : Inv code cert s) (hr : Reach code s t) : Inv code cert t := by
  induction hr with
  | refl => exact hs
  | tail _ hstep ih => exact step_inv h ih hstep

end MJ.Stk
