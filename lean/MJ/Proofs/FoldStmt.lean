import MJ.Model.FoldStmt
import MJ.Proofs.Fold
/-! Helper lemmas for the statement level of C04: hoisting keeps the shape, hence the block table and
    the macro declarations, and keeps the value of every compiled head expression. -/
namespace MJ.Fold

section
variable {P : Prims} {R : Env → Prop}

mutual
  theorem hoistS_blocks : ∀ (s s' : Stmt), HoistS P R s s' → registeredBlocks s' = registeredBlocks s
    | .mk k n hs bs, s', h => by
      rw [HoistS] at h
      obtain ⟨hs', bs', rfl, _, hb⟩ := h
      simp only [registeredBlocks]
      rw [hoistBodies_blocks bs bs' hb]
  theorem hoistStmts_blocks : ∀ (t t' : Stmts), HoistStmts P R t t' → blocksOfStmts t' = blocksOfStmts t
    | .nil, t', h => by rw [HoistStmts] at h; subst h; rfl
    | .cons s rest, t', h => by
      rw [HoistStmts] at h
      obtain ⟨s', rest', rfl, hs, hr⟩ := h
      simp only [blocksOfStmts]
      rw [hoistS_blocks s s' hs, hoistStmts_blocks rest rest' hr]
  theorem hoistBodies_blocks : ∀ (b b' : Bodies), HoistBodies P R b b' → blocksOfBodies b' = blocksOfBodies b
    | .nil, b', h => by rw [HoistBodies] at h; subst h; rfl
    | .cons t rest, b', h => by
      rw [HoistBodies] at h
      obtain ⟨t', rest', rfl, ht, hr⟩ := h
      simp only [blocksOfBodies]
      rw [hoistStmts_blocks t t' ht, hoistBodies_blocks rest rest' hr]
end

mutual
  theorem hoistS_macros : ∀ (s s' : Stmt), HoistS P R s s' → declaredMacros s' = declaredMacros s
    | .mk k n hs bs, s', h => by
      rw [HoistS] at h
      obtain ⟨hs', bs', rfl, _, hb⟩ := h
      simp only [declaredMacros]
      rw [hoistBodies_macros bs bs' hb]
  theorem hoistStmts_macros : ∀ (t t' : Stmts), HoistStmts P R t t' → macrosOfStmts t' = macrosOfStmts t
    | .nil, t', h => by rw [HoistStmts] at h; subst h; rfl
    | .cons s rest, t', h => by
      rw [HoistStmts] at h
      obtain ⟨s', rest', rfl, hs, hr⟩ := h
      simp only [macrosOfStmts]
      rw [hoistS_macros s s' hs, hoistStmts_macros rest rest' hr]
  theorem hoistBodies_macros : ∀ (b b' : Bodies), HoistBodies P R b b' → macrosOfBodies b' = macrosOfBodies b
    | .nil, b', h => by rw [HoistBodies] at h; subst h; rfl
    | .cons t rest, b', h => by
      rw [HoistBodies] at h
      obtain ⟨t', rest', rfl, ht, hr⟩ := h
      simp only [macrosOfBodies]
      rw [hoistStmts_macros t t' ht, hoistBodies_macros rest rest' hr]
end

variable (m : Mode) (ρ : Env)

theorem hoistList_C (hP : P.Lawful) (es es' : Exprs) (hw : es.WF) (h : HoistList P ρ es es') :
    evalCList P m ρ es' = evalCList P m ρ es := by
  rw [evalCList_eq' m ρ hP es' (hoistList_WF' ρ es es' hw h), evalCList_eq' m ρ hP es hw]
  exact hoistList_rt' m ρ hP es es' hw h

mutual
  theorem hoistS_headVals (hP : P.Lawful) (hρ : R ρ) : ∀ (s s' : Stmt), s.WF → HoistS P R s s' →
      headVals P m ρ s' = headVals P m ρ s
    | .mk k n hs bs, s', hw, h => by
      rw [HoistS] at h
      obtain ⟨hs', bs', rfl, hh, hb⟩ := h
      simp only [Stmt.WF] at hw
      simp only [headVals]
      rw [hoistList_C m ρ hP hs hs' hw.1 (hh ρ hρ), hoistBodies_headVals hP hρ bs bs' hw.2 hb]
  theorem hoistStmts_headVals (hP : P.Lawful) (hρ : R ρ) : ∀ (t t' : Stmts), t.WF → HoistStmts P R t t' →
      headValsStmts P m ρ t' = headValsStmts P m ρ t
    | .nil, t', _, h => by rw [HoistStmts] at h; subst h; rfl
    | .cons s rest, t', hw, h => by
      rw [HoistStmts] at h
      obtain ⟨s', rest', rfl, hs, hr⟩ := h
      simp only [Stmts.WF] at hw
      simp only [headValsStmts]
      rw [hoistS_headVals hP hρ s s' hw.1 hs, hoistStmts_headVals hP hρ rest rest' hw.2 hr]
  theorem hoistBodies_headVals (hP : P.Lawful) (hρ : R ρ) : ∀ (b b' : Bodies), b.WF → HoistBodies P R b b' →
      headValsBodies P m ρ b' = headValsBodies P m ρ b
    | .nil, b', _, h => by rw [HoistBodies] at h; subst h; rfl
    | .cons t rest, b', hw, h => by
      rw [HoistBodies] at h
      obtain ⟨t', rest', rfl, ht, hr⟩ := h
      simp only [Bodies.WF] at hw
      simp only [headValsBodies]
      rw [hoistStmts_headVals hP hρ t t' hw.1 ht, hoistBodies_headVals hP hρ rest rest' hw.2 hr]
end

end
end MJ.Fold
