import MJ.Model.NumF
import MJ.Proofs.CmpNumFloatEq
/-! Helper lemmas for the float part of C08 (property theorems: `MJ/Props/C08.lean`).
Builds on C07's lemmas about the bit-pattern model (`MJ/Proofs/CmpF64*.lean`). -/
namespace MJ.NumF
open MJ.F64 MJ.Val MJ.Cmp

/-- `s` (in units of `2^-1074`) is the magnitude of a finite double -/
def Representable (s : Nat) : Prop := ∃ m, m < infMag ∧ scaledOfMag m = s

theorem P53_eq : P53 = 2 * P52 := by decide

theorem split_mag (m : Nat) : m = m / P52 * P52 + m % P52 := by
  have := Nat.div_add_mod m P52
  rw [Nat.mul_comm] at this
  exact this.symm

/-- rounding a representable magnitude gives its own bits back: the encoder inverts the decoder -/
theorem encodeRat_exact (m : Nat) (hm : m < infMag) : encodeRat (scaledOfMag m) 1 = m := by
  have hf : m % P52 < P52 := Nat.mod_lt _ P52_pos
  have hsplit := split_mag m
  have he : m / P52 < 2047 := by
    rw [infMag_eq] at hm
    exact (Nat.div_lt_iff_lt_mul P52_pos).2 hm
  generalize m / P52 = e at *
  generalize m % P52 = f at *
  subst hsplit
  unfold encodeRat
  simp only [Nat.div_one, Nat.mod_one]
  by_cases h0 : e = 0
  · subst h0
    have hs : scaledOfMag (0 * P52 + f) = f := by
      unfold scaledOfMag
      have : (0 * P52 + f) / P52 = 0 := by rw [Nat.zero_mul, Nat.zero_add]; exact Nat.div_eq_of_lt hf
      rw [this, if_pos rfl, Nat.zero_mul, Nat.zero_add, Nat.mod_eq_of_lt hf]
    rw [hs]
    have : f < P53 := by rw [P53_eq]; omega
    rw [if_pos this, if_neg (by omega)]
    omega
  · have hs := scaledOfMag_em e f (by omega) (by omega)
    rw [hs]
    by_cases h1 : e = 1
    · subst h1
      have : (P52 + f) * 2 ^ (1 - 1) = P52 + f := by simp
      rw [this]
      have hlt : P52 + f < P53 := by rw [P53_eq]; omega
      rw [if_pos hlt, if_neg (by omega)]
      omega
    · have hpos : 0 < 2 ^ (e - 1) := Nat.pow_pos (by omega)
      have hk1 : 2 ^ (e - 1) = 2 * 2 ^ (e - 2) := by
        rw [show e - 1 = (e - 2) + 1 by omega, Nat.pow_succ, Nat.mul_comm]
      have hpos2 : 0 < 2 ^ (e - 2) := Nat.pow_pos (by omega)
      -- the exponent of the scaled value
      have hlog : ((P52 + f) * 2 ^ (e - 1)).log2 = 51 + e := by
        have hne : (P52 + f) * 2 ^ (e - 1) ≠ 0 := by
          have : 0 < (P52 + f) * 2 ^ (e - 1) := Nat.mul_pos (by have := P52_pos; omega) hpos
          omega
        rw [Nat.log2_eq_iff hne]
        constructor
        · have : 2 ^ (51 + e) = P52 * 2 ^ (e - 1) := by
            rw [P52_eq, ← Nat.pow_add]; congr 1; omega
          rw [this]
          exact Nat.mul_le_mul_right _ (by omega)
        · have : 2 ^ (51 + e + 1) = (P52 + P52) * 2 ^ (e - 1) := by
            rw [show 51 + e + 1 = 53 + (e - 1) by omega, Nat.pow_add,
              show (2 : Nat) ^ 53 = P52 + P52 by decide]
          rw [this]
          exact Nat.mul_lt_mul_of_pos_right (by omega) hpos
      have hge : ¬ (P52 + f) * 2 ^ (e - 1) < P53 := by
        rw [P53_eq, hk1]
        have : P52 * 2 ≤ (P52 + f) * (2 * 2 ^ (e - 2)) :=
          Nat.mul_le_mul (by omega) (by omega)
        omega
      rw [if_neg hge, hlog, show 51 + e - 52 = e - 1 by omega,
        Nat.mul_div_cancel _ hpos, Nat.mul_mod_left]
      have hhalf : 0 < 2 ^ (e - 1 - 1) := Nat.pow_pos (by omega)
      have hin : ¬ (2 ^ (e - 1 - 1) < 0 ∨ 0 = 2 ^ (e - 1 - 1) ∧ (0 ≠ 0 ∨ (P52 + f) % 2 = 1)) := by omega
      have hm' : (e - 1 + 1) * P52 + (P52 + f - P52) = e * P52 + f := by
        rw [show e - 1 + 1 = e by omega]; omega
      rw [if_neg hin, hm', if_neg (by omega)]

theorem infMag_lt_P63' : infMag < P63 := by decide

/-- decoding a signed result -/
theorem key_signedBits (neg : Bool) (m : Nat) (hm : m < infMag) :
    key (signedBits neg m) = (if neg then -(scaledOfMag m : Int) else (scaledOfMag m : Int)) ∧
    isFinite (signedBits neg m) = true ∧ sign (signedBits neg m) = neg ∧ mag (signedBits neg m) = m := by
  have hlt : m < P63 := Nat.lt_trans hm infMag_lt_P63'
  cases neg with
  | true =>
    obtain ⟨s1, s2⟩ := sign_of_neg hlt
    simp only [signedBits, if_true]
    refine ⟨?_, ?_, s1, s2⟩
    · unfold key scaled; rw [s1, s2]; simp
    · unfold isFinite; rw [s2]; simp; exact hm
  | false =>
    obtain ⟨s1, s2⟩ := sign_of_lt hlt
    simp only [signedBits, Bool.false_eq_true, if_false, Nat.zero_add]
    refine ⟨?_, ?_, s1, s2⟩
    · unfold key scaled; rw [s1, s2]; simp
    · unfold isFinite; rw [s2]; simp; exact hm

/-- a representable signed value survives the encoder -/
theorem key_signed_encode (neg : Bool) (s : Nat) (h : Representable s) :
    key (signedBits neg (encodeRat s 1)) = (if neg then -(s : Int) else (s : Int)) ∧
    isFinite (signedBits neg (encodeRat s 1)) = true := by
  obtain ⟨m, hm, rfl⟩ := h
  rw [encodeRat_exact m hm]
  exact ⟨(key_signedBits neg m hm).1, (key_signedBits neg m hm).2.1⟩

/-- the magnitude of any finite float is representable -/
theorem representable_scaled {b : Nat} (h : isFinite b = true) : Representable (scaled b) := by
  unfold isFinite at h
  exact ⟨mag b, by simpa using h, rfl⟩

/-! ### unary minus and `abs` -/

theorem mag_lt_P63 (b : Nat) : mag b < P63 := Nat.mod_lt _ (by decide)

theorem mag_fneg (b : Nat) : mag (fneg b) = mag b := by
  unfold fneg
  split
  · exact (sign_of_lt (mag_lt_P63 b)).2
  · exact (sign_of_neg (mag_lt_P63 b)).2

theorem sign_fneg (b : Nat) : sign (fneg b) = !sign b := by
  unfold fneg
  cases h : sign b with
  | true => simp only [if_true]; rw [(sign_of_lt (mag_lt_P63 b)).1]; rfl
  | false => simp only [Bool.false_eq_true, if_false]; rw [(sign_of_neg (mag_lt_P63 b)).1]; rfl

/-- `-x` is exact -/
theorem key_fneg (b : Nat) : key (fneg b) = -key b := by
  unfold key scaled
  rw [mag_fneg, sign_fneg]
  cases sign b <;> simp

/-- `x.abs()` is exact -/
theorem key_fabs (b : Nat) : key (fabs b) = ((key b).natAbs : Int) := by
  have h := sign_of_lt (mag_lt_P63 b)
  unfold fabs
  unfold key scaled
  rw [h.1, h.2]
  cases sign b <;> simp

theorem isFinite_fneg (b : Nat) : isFinite (fneg b) = isFinite b := by
  unfold isFinite; rw [mag_fneg]

/-! ### `%`, `rem_euclid`, `f64_div_euclid` -/

/-- the exact value as sign and magnitude -/
theorem key_eq (b : Nat) : key b = if sign b then -(scaled b : Int) else (scaled b : Int) := rfl

/-- float `%` (fmod) is the truncated remainder of the exact values; its result always fits the
    format, which is the hypothesis -/
theorem key_fmod (a b : Nat) (hrep : Representable (scaled a % scaled b)) :
    key (fmod a b) = Int.tmod (key a) (key b) ∧ isFinite (fmod a b) = true := by
  obtain ⟨h1, h2⟩ := key_signed_encode (sign a) _ hrep
  refine ⟨?_, h2⟩
  unfold fmod
  rw [h1, key_eq a, key_eq b]
  cases sign a <;> cases sign b <;>
    simp only [if_true, if_false, Bool.false_eq_true, Int.neg_tmod, Int.tmod_neg, Int.ofNat_tmod]

theorem key_ofKey (k : Int) (h : Representable k.natAbs) :
    key (ofKey k) = k ∧ isFinite (ofKey k) = true := by
  obtain ⟨h1, h2⟩ := key_signed_encode (decide (k < 0)) _ h
  refine ⟨?_, h2⟩
  unfold ofKey
  rw [h1]
  by_cases hk : k < 0
  · simp only [hk, decide_true, if_true]; omega
  · simp only [hk, decide_false, Bool.false_eq_true, if_false]; omega

/-- an addition whose exact result fits the format is exact -/
theorem key_fadd (a b : Nat) (h : Representable (key a + key b).natAbs) :
    key (fadd a b) = key a + key b ∧ isFinite (fadd a b) = true := by
  unfold fadd
  simp only []
  by_cases h0 : key a + key b = 0
  · rw [if_pos h0, h0]
    cases (sign a && sign b) <;> exact ⟨by decide, by decide⟩
  · rw [if_neg h0]
    exact key_ofKey _ h

/-- `rem_euclid` on floats: when the value it has to produce fits the format, it produces the
    Euclidean remainder of the exact values -/
theorem key_fremEuclid (a b : Nat) (h1 : Representable (scaled a % scaled b))
    (h2 : Representable (MJ.Num.fRemEuclid (key a) (key b)).natAbs) :
    key (fremEuclid a b) = MJ.Num.fRemEuclid (key a) (key b) ∧ isFinite (fremEuclid a b) = true := by
  obtain ⟨hk, hfin⟩ := key_fmod a b h1
  unfold fremEuclid MJ.Num.fRemEuclid at *
  simp only [] at *
  rw [hk]
  by_cases hneg : (key a).tmod (key b) < 0
  · rw [if_pos hneg] at h2 ⊢
    rw [if_pos hneg]
    have hab : key (fabs b) = ((key b).natAbs : Int) := key_fabs b
    have := key_fadd (fmod a b) (fabs b) (by rw [hk, hab]; exact h2)
    rw [hk, hab] at this
    exact this
  · rw [if_neg hneg, if_neg hneg]
    exact ⟨hk, hfin⟩

/-- dividing an exact multiple: the rounding sees an integer -/
theorem encodeRat_mul (x q : Nat) (hq : 0 < q) : encodeRat (x * q) q = encodeRat x 1 := by
  unfold encodeRat
  simp only [Nat.mul_div_cancel _ hq, Nat.mul_mod_left, Nat.div_one, Nat.mod_one, Nat.mul_zero]
  have e1 : (q < 0 ∨ 0 = q ∧ x % 2 = 1) ↔ (1 < 0 ∨ 0 = 1 ∧ x % 2 = 1) := by omega
  simp only [e1]

/-- integers below `2^53` are doubles -/
theorem representable_int (n : Nat) (hn : n < P53) : Representable (n * scale) := by
  have hlog : n.log2 < 1000 := by
    by_cases h0 : n = 0
    · subst h0; decide
    · have : n.log2 < 53 := (Nat.log2_lt h0).2 (by rw [show (2 : Nat) ^ 53 = P53 by decide]; exact hn)
      omega
  obtain ⟨h1, h2⟩ := ofNat_spec n hlog
  refine ⟨ofNat n, h1, ?_⟩
  rw [h2]
  congr 1
  unfold rnd
  by_cases h0 : n = 0
  · rw [if_pos h0, h0]
  · rw [if_neg h0]
    have : n.log2 ≤ 52 := by
      have : n.log2 < 53 := (Nat.log2_lt h0).2 (by rw [show (2 : Nat) ^ 53 = P53 by decide]; exact hn)
      omega
    simp only [this, if_true]

/-- the sign bit of a non-zero float -/
theorem sign_of_key_ne (b : Nat) (h : key b ≠ 0) : sign b = decide (key b < 0) := by
  rw [key_eq] at h ⊢
  cases hs : sign b with
  | true =>
    rw [hs] at h
    simp only [if_true] at h ⊢
    have : (0 : Int) ≤ (scaled b : Int) := Int.natCast_nonneg _
    simp only [true_eq_decide_iff]; omega
  | false =>
    rw [hs] at h
    simp only [Bool.false_eq_true, if_false] at h ⊢
    have : (0 : Int) ≤ (scaled b : Int) := Int.natCast_nonneg _
    simp only [false_eq_decide_iff]; omega

theorem natAbs_mul_scale (z : Int) : (z * (scale : Int)).natAbs = z.natAbs * scale := by
  rw [Int.natAbs_mul, Int.natAbs_natCast]

/-- the value of a signed magnitude `|z|·2^1074` whose sign bit is right when `z ≠ 0` -/
theorem signed_int_value (neg : Bool) (z : Int) (hs : z ≠ 0 → neg = decide (z < 0)) :
    (if neg then -((z.natAbs * scale : Nat) : Int) else ((z.natAbs * scale : Nat) : Int)) = z * (scale : Int) := by
  by_cases hz : z = 0
  · subst hz; cases neg <;> simp
  · have := hs hz
    subst this
    by_cases hn : z < 0
    · simp only [hn, decide_true, if_true, Int.natCast_mul]
      rw [show ((z.natAbs : Nat) : Int) = -z by omega, Int.neg_mul, Int.neg_neg]
    · simp only [hn, decide_false, Bool.false_eq_true, if_false, Int.natCast_mul]
      rw [show ((z.natAbs : Nat) : Int) = z by omega]

theorem decide_mul_scale_neg (z : Int) : decide (z * (scale : Int) < 0) = decide (z < 0) := by
  have hp : (0 : Int) < (scale : Int) := int_scale_pos
  by_cases hn : z < 0
  · have : z * (scale : Int) < 0 := Int.mul_neg_of_neg_of_pos hn hp
    simp [hn, this]
  · have : 0 ≤ z * (scale : Int) := Int.mul_nonneg (by omega) (by omega)
    have h2 : ¬ z * (scale : Int) < 0 := by omega
    simp [hn, h2]

/-- the division of an exact multiple `b·Q` by `b`, `|Q| < 2^53`, is `Q` exactly -/
theorem key_fdiv_exact (d b : Nat) (Q : Int) (hd : key d = key b * Q) (hb : key b ≠ 0)
    (hQ : Q.natAbs < P53) :
    key (fdiv d b) = Q * (scale : Int) ∧ isFinite (fdiv d b) = true := by
  have hsb : 0 < scaled b := by
    have := MJ.CmpNum.key_natAbs b
    have : (key b).natAbs ≠ 0 := by omega
    omega
  have hsd : scaled d = Q.natAbs * scaled b := by
    rw [← MJ.CmpNum.key_natAbs d, hd, Int.natAbs_mul, MJ.CmpNum.key_natAbs, Nat.mul_comm]
  unfold fdiv
  rw [hsd, show Q.natAbs * scaled b * scale = (Q.natAbs * scale) * scaled b by
    rw [Nat.mul_assoc, Nat.mul_assoc, Nat.mul_comm (scaled b) scale], encodeRat_mul _ _ hsb]
  obtain ⟨h1, h2⟩ := key_signed_encode (sign d != sign b) _ (representable_int _ hQ)
  refine ⟨?_, h2⟩
  rw [h1]
  apply signed_int_value
  intro hq0
  have hdne : key d ≠ 0 := by rw [hd]; exact Int.mul_ne_zero hb hq0
  rw [sign_of_key_ne d hdne, sign_of_key_ne b hb, hd]
  by_cases hbn : key b < 0
  · by_cases hqn : Q < 0
    · have : 0 < key b * Q := Int.mul_pos_of_neg_of_neg hbn hqn
      have h3 : ¬ key b * Q < 0 := by omega
      simp [hbn, hqn, h3]
    · have : key b * Q < 0 := Int.mul_neg_of_neg_of_pos hbn (by omega)
      simp [hbn, hqn, this]
  · have hbp : 0 < key b := by omega
    by_cases hqn : Q < 0
    · have : key b * Q < 0 := Int.mul_neg_of_pos_of_neg hbp hqn
      simp [hbn, hqn, this]
    · have : 0 < key b * Q := Int.mul_pos hbp (by omega)
      have h3 : ¬ key b * Q < 0 := by omega
      simp [hbn, hqn, h3]

/-- `round()` of a float that is an integer below `2^53` is that integer -/
theorem key_fround_int (x : Nat) (z : Int) (hx : key x = z * (scale : Int)) (hz : z.natAbs < P53) :
    key (fround x) = z * (scale : Int) ∧ isFinite (fround x) = true := by
  have hsx : scaled x = z.natAbs * scale := by
    rw [← MJ.CmpNum.key_natAbs x, hx, natAbs_mul_scale]
  have hsp : 0 < scale := scale_pos'
  unfold fround
  simp only []
  rw [hsx, Nat.mul_div_cancel _ hsp, Nat.mul_mod_left, if_neg (by omega)]
  obtain ⟨h1, h2⟩ := key_signed_encode (sign x) _ (representable_int _ hz)
  refine ⟨?_, h2⟩
  rw [h1]
  apply signed_int_value
  intro hz0
  have hne : key x ≠ 0 := by
    rw [hx]; exact Int.mul_ne_zero hz0 (by have := int_scale_pos; omega)
  rw [sign_of_key_ne x hne, hx, decide_mul_scale_neg]

theorem fRemEuclid_eq_emod (a b : Int) (hb : b ≠ 0) : MJ.Num.fRemEuclid a b = a % b := by
  unfold MJ.Num.fRemEuclid
  simp only []
  rw [Int.tmod_eq_emod]
  have h0 := Int.emod_nonneg a hb
  have h1 := Int.emod_lt a hb
  split <;> split <;> omega

/-- `ops::f64_div_euclid`: when the remainder, the difference `a - r` and the quotient fit the
    format (`|q| < 2^53`), the result is the Euclidean quotient of the exact values -/
theorem key_fdivEuclid (a b : Nat) (hb : key b ≠ 0)
    (h1 : Representable (scaled a % scaled b))
    (h2 : Representable (key a % key b).natAbs)
    (h3 : Representable (key a - key a % key b).natAbs)
    (h4 : (key a / key b).natAbs < P53) :
    key (fdivEuclid a b) = key a / key b * (scale : Int) ∧ isFinite (fdivEuclid a b) = true := by
  have hR := fRemEuclid_eq_emod (key a) (key b) hb
  obtain ⟨hr, _⟩ := key_fremEuclid a b h1 (by rw [hR]; exact h2)
  rw [hR] at hr
  -- d = a - r
  have hdk : key a + key (fneg (fremEuclid a b)) = key a - key a % key b := by
    rw [key_fneg, hr]; omega
  obtain ⟨hd, hdf⟩ := key_fadd a (fneg (fremEuclid a b)) (by rw [hdk]; exact h3)
  rw [hdk] at hd
  have hmul : key a - key a % key b = key b * (key a / key b) := by
    have := Int.emod_def (key a) (key b); omega
  rw [hmul] at hd
  obtain ⟨hq, hqf⟩ := key_fdiv_exact _ b _ hd hb h4
  have e : fdivEuclid a b = fround (fdiv (fadd a (fneg (fremEuclid a b))) b) := by
    simp only [fdivEuclid, fsub, hdf, hqf, Bool.not_true, Bool.false_eq_true, if_false]
  rw [e]
  exact key_fround_int _ _ hq h4

/-! ### `<int> as f64` -/

/-- below `2^53` the conversion is exact -/
theorem rnd_small (n : Nat) (hn : n < P53) : rnd n = n := by
  unfold rnd
  by_cases h0 : n = 0
  · rw [if_pos h0, h0]
  · rw [if_neg h0]
    have : n.log2 ≤ 52 := by
      have : n.log2 < 53 := (Nat.log2_lt h0).2 (by rw [show (2 : Nat) ^ 53 = P53 by decide]; exact hn)
      omega
    simp only [this, if_true]

/-- above, the error is at most half a unit in the last place (`2^(⌊log2 n⌋ - 52)`), in both
    directions; together with C07's `rnd_above`/`rnd_below` (no double lies strictly between `n`
    and `rnd n`) this is "correctly rounded" -/
theorem rnd_half_ulp (n : Nat) (hl : 52 < n.log2) :
    2 * (rnd n - n) ≤ 2 ^ (n.log2 - 52) ∧ 2 * (n - rnd n) ≤ 2 ^ (n.log2 - 52) := by
  have h0 : n ≠ 0 := by
    intro h; subst h; simp at hl
  unfold rnd
  rw [if_neg h0]
  simp only []
  rw [if_neg (by omega)]
  have hk : 2 ^ (n.log2 - 52) = 2 * 2 ^ (n.log2 - 52 - 1) := by
    rw [show n.log2 - 52 = (n.log2 - 52 - 1) + 1 by omega, Nat.pow_succ, Nat.mul_comm]
    simp
  have hdm := Nat.div_add_mod n (2 ^ (n.log2 - 52))
  have hr : n % 2 ^ (n.log2 - 52) < 2 ^ (n.log2 - 52) := Nat.mod_lt _ (Nat.pow_pos (by omega))
  generalize n / 2 ^ (n.log2 - 52) = q at *
  generalize n % 2 ^ (n.log2 - 52) = r at *
  generalize 2 ^ (n.log2 - 52 - 1) = half at *
  generalize 2 ^ (n.log2 - 52) = u at *
  subst hk
  have hq : 2 * half * q = q * (2 * half) := Nat.mul_comm _ _
  split
  · rename_i hup
    have : (q + 1) * (2 * half) = q * (2 * half) + 2 * half := by
      rw [Nat.add_mul, Nat.one_mul]
    rw [this]
    omega
  · rename_i hdown
    omega

/-- ties go to the even neighbour -/
theorem rnd_tie_even (n : Nat) (hl : 52 < n.log2)
    (htie : n % 2 ^ (n.log2 - 52) = 2 ^ (n.log2 - 52 - 1)) :
    (rnd n / 2 ^ (n.log2 - 52)) % 2 = 0 := by
  have h0 : n ≠ 0 := by
    intro h; subst h; simp at hl
  have hpos : 0 < 2 ^ (n.log2 - 52) := Nat.pow_pos (by omega)
  have hhalf : 0 < 2 ^ (n.log2 - 52 - 1) := Nat.pow_pos (by omega)
  unfold rnd
  rw [if_neg h0]
  simp only []
  rw [if_neg (by omega), htie]
  split
  · rename_i h
    rw [Nat.mul_div_cancel _ hpos]
    omega
  · rename_i h
    rw [Nat.mul_div_cancel _ hpos]
    omega

end MJ.NumF
