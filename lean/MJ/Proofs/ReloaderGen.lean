import MJ.Proofs.ReloaderInv
namespace MJ.Reloader

/-! ## environment identity: the generation number identifies the environment object -/

/-- `a` was handed out from (an earlier state of) the environment `e` or a predecessor of it -/
def RecBefore (a : AcqRec) (e : Env) : Prop :=
  a.env.gen ≤ e.gen ∧
  (a.env.gen = e.gen → a.env.builtAt = e.builtAt ∧ a.env.freshAt ≤ e.freshAt ∧ a.env.clears ≤ e.clears)

structure GenInv (σ : State) : Prop where
  env : ∀ e, σ.env = some e → 1 ≤ e.gen ∧ e.gen ≤ σ.creates ∧ e.builtAt ≤ e.freshAt ∧ e.freshAt < σ.now
  building : ∀ c, σ.cur = some c → ((∃ ops, c.pc = .creating ops) ∨ (∃ s ops, c.pc = .innerSet s ops)) →
    c.buildStart < σ.now ∧ 1 ≤ σ.creates ∧ ∀ e, σ.env = some e → e.gen < σ.creates
  log : ∀ a ∈ σ.acqLog, 1 ≤ a.env.gen ∧ ∃ e, σ.env = some e ∧ RecBefore a e
  pair : ∀ a1 ∈ σ.acqLog, ∀ a2 ∈ σ.acqLog, a1.env.gen = a2.env.gen → a1.env.builtAt = a2.env.builtAt

theorem genInv_init (ths : List Thread) : GenInv (init ths) := by
  constructor <;> simp [init]

set_option maxHeartbeats 1000000 in
theorem genInv_stepActive {σ σ' : State} {c : Active} (h : GenInv σ) (hc : σ.cur = some c)
    (hs : stepActive σ c = some σ') : GenInv σ' := by
  obtain ⟨h1, h2, h3, h4⟩ := h
  unfold stepActive at hs
  repeat' split at hs
  all_goals first
    | (cases hs; done)
    | (cases hs
       constructor <;> simp_all [RecBefore] <;> grind)

theorem genInv_step {σ σ' : State} {i : Nat} (h : GenInv σ) (hs : step σ i = some σ') : GenInv σ' := by
  obtain ⟨h1, h2, h3, h4⟩ := h
  unfold step at hs
  split at hs
  · split at hs
    · rename_i hc
      split at hs <;> cases hs <;> constructor <;> simp_all [RecBefore] <;> grind
    · cases hs
  · split at hs
    · split at hs
      · rename_i c hc htid
        exact genInv_stepActive ⟨h1, h2, h3, h4⟩ hc hs
      · cases hs
    · cases hs
  all_goals first
    | (cases hs; done)
    | (cases hs
       constructor <;> simp_all [RecBefore] <;> grind)

theorem genInv_of_reachable {σ : State} (h : Reachable σ) : GenInv σ := by
  induction h with
  | init ths _ => exact genInv_init ths
  | step i _ hs ih => exact genInv_step ih hs


end MJ.Reloader
