import MJ.Model.SerdeValue
import MJ.Model.Json
import MJ.Proofs.SerdeLemmas
/-! `Value` as the target of a deserialisation: on plain data `reval` is the normalisation `normV`, and
the normalisation keeps the JSON image (C16). -/
namespace MJ.Serde

mutual
theorem reval_clean : ∀ (v : V), cleanV v = true → reval v = .ok (normV v)
  | .undefined, _ => rfl
  | .none, _ => rfl
  | .bool _, _ => rfl
  | .int _ _, _ => rfl
  | .f64 _, _ => rfl
  | .str _ _, _ => rfl
  | .bytes _, _ => rfl
  | .obj _, h => by simp [cleanV] at h
  | .invalid, h => by simp [cleanV] at h
  | .seq t xs, h => by
    simp only [cleanV] at h
    simp only [reval, normV, revalList_clean xs h, mapOk_ok]
  | .map kvs, h => by
    simp only [cleanV, Bool.and_eq_true] at h
    simp only [reval, normV, revalPairs_clean kvs h.1, mapOk_ok, buildMap_distinct _ h.2]
theorem revalList_clean : ∀ (xs : List V), cleanVList xs = true → revalList xs = .ok (normVList xs)
  | [], _ => rfl
  | x :: xs, h => by
    simp only [cleanVList, Bool.and_eq_true] at h
    simp only [revalList, normVList, reval_clean x h.1, revalList_clean xs h.2, consR_ok]
theorem revalPairs_clean : ∀ (kvs : List (V × V)), cleanVPairs kvs = true → revalPairs kvs = .ok (normVPairs kvs)
  | [], _ => rfl
  | (k, v) :: rest, h => by
    simp only [cleanVPairs, Bool.and_eq_true] at h
    simp only [revalPairs, normVPairs, reval_clean k h.1.1, reval_clean v h.1.2, revalPairs_clean rest h.2,
      pairR_ok, consR_ok]
end

end MJ.Serde

namespace MJ.Json
open MJ.Serde

theorem keyOf_normV : ∀ (k : V), keyOf (normV k) = keyOf k
  | .undefined => rfl
  | .none => rfl
  | .bool _ => rfl
  | .int _ _ => rfl
  | .f64 _ => rfl
  | .str _ _ => rfl
  | .bytes _ => rfl
  | .seq _ _ => rfl
  | .map _ => rfl
  | .obj _ => rfl
  | .invalid => rfl

mutual
/-- reading a value back into a `Value` does not change its JSON image -/
theorem jsonOf_normV : ∀ (v : V), jsonOf (normV v) = jsonOf v
  | .undefined => rfl
  | .none => rfl
  | .bool _ => rfl
  | .int _ _ => rfl
  | .f64 _ => rfl
  | .str _ _ => rfl
  | .bytes _ => rfl
  | .obj _ => rfl
  | .invalid => rfl
  | .seq t xs => by simp only [normV, jsonOf, jsonOfList_normV xs]
  | .map kvs => by simp only [normV, jsonOf, jsonOfPairs_normV kvs]
theorem jsonOfList_normV : ∀ (xs : List V), jsonOfList (normVList xs) = jsonOfList xs
  | [] => rfl
  | x :: xs => by simp only [normVList, jsonOfList, jsonOf_normV x, jsonOfList_normV xs]
theorem jsonOfPairs_normV : ∀ (kvs : List (V × V)), jsonOfPairs (normVPairs kvs) = jsonOfPairs kvs
  | [] => rfl
  | (k, v) :: rest => by
    simp only [normVPairs, jsonOfPairs, keyOf_normV k, jsonOf_normV v, jsonOfPairs_normV rest]
end

end MJ.Json
