import MJ.Proofs.LocSpans
/-!
Helper lemmas for C14, part 4: the arithmetic of `render_debug_info`.
-/
namespace MJ.Loc
open MJ

theorem mem_enum {α : Type} (lines : List α) (p : Nat × α)
    (hp : p ∈ (List.range lines.length).zip lines) : lines[p.1]? = some p.2 := by
  obtain ⟨i, hi, rfl⟩ := List.mem_iff_getElem.mp hp
  simp at hi
  simp [List.getElem_zip, hi]

theorem enum_fst {α : Type} (lines : List α) :
    ((List.range lines.length).zip lines).map Prod.fst = List.range lines.length := by
  rw [List.map_fst_zip]; simp

theorem enum_getElem? {α : Type} (lines : List α) (i : Nat) (h : i < lines.length) :
    ((List.range lines.length).zip lines)[i]? = some (i, lines[i]) := by
  simp [List.getElem?_zip_eq_some, h]

theorem take_range'_min (s n m : Nat) : (List.range' s n).take m = List.range' s (min m n) := by
  rcases Nat.le_total n m with h | h
  · rw [List.take_range'_of_length_le h, Nat.min_eq_right h]
  · rw [List.take_range'_of_length_ge h, Nat.min_eq_left h]

/-- the window never panics for any line number a `usize` can hold -/
theorem window_total {α : Type} (lines : List α) (line : Option Nat)
    (h : line.getD 1 < 18446744073709551616) : ∃ r, window lines line = .ok r := by
  unfold window
  simp only []
  rw [usize_ok _ (by omega)]
  exact ⟨_, rfl⟩

/-- for a line inside the source: the line itself, up to three lines directly before and up to
    three directly after it, each paired with its own text -/
theorem window_spec {α : Type} (lines : List α) (line : Nat) (h1 : 1 ≤ line) (h2 : line ≤ lines.length)
    (hsz : lines.length < 18446744073709551616) :
    ∃ pre cur post, window lines (some line) = .ok (pre, some (line - 1, cur), post) ∧
      lines[line - 1]? = some cur ∧
      pre.map Prod.fst = List.range' (line - 1 - min 3 (line - 1)) (min 3 (line - 1)) ∧
      post.map Prod.fst = List.range' line (min 3 (lines.length - line)) ∧
      ∀ p ∈ pre ++ post, lines[p.1]? = some p.2 := by
  have hidx : line - 1 < lines.length := by omega
  refine ⟨(((List.range lines.length).zip lines).drop (line - 1 - 3)).take (min 3 (line - 1)), lines[line - 1],
    (((List.range lines.length).zip lines).drop line).take 3, ?_, by simp [hidx], ?_, ?_, ?_⟩
  · unfold window
    simp only [Option.getD_some]
    rw [usize_ok _ (by omega), enum_getElem? lines (line - 1) hidx]
    have : line - 1 + 1 = line := by omega
    simp only [this]
  · rw [List.map_take, List.map_drop, enum_fst, List.range_eq_range', List.drop_range', take_range'_min]
    congr 1 <;> omega
  · rw [List.map_take, List.map_drop, enum_fst, List.range_eq_range', List.drop_range', take_range'_min]
    congr 1 <;> omega
  · intro p hp
    apply mem_enum
    rcases List.mem_append.mp hp with hp | hp
    · exact List.mem_of_mem_drop (List.mem_of_mem_take hp)
    · exact List.mem_of_mem_drop (List.mem_of_mem_take hp)

/-- tokens that start and end on the same (unsaturated) line have their columns in order, so the
    saturating subtraction of the caret width is exact -/
theorem cols_ordered (src : List Char) (a b : Nat) (hab : a ≤ b) (hb : b ≤ src.length)
    (hline : (posOf (src.take a)).1 = (posOf (src.take b)).1) (hsat : (posOf (src.take b)).1 < 65535) :
    (posOf (src.take a)).2 ≤ (posOf (src.take b)).2 := by
  have hsplit : src.take b = src.take a ++ (src.drop a).take (b - a) := by
    have : b = a + (b - a) := by omega
    conv => lhs; rw [this]
    rw [List.take_add]
  rw [hsplit, posOf_append] at hline hsat ⊢
  generalize (src.drop a).take (b - a) = mid at *
  have hle := posOf_le (src.take a)
  generalize hp : posOf (src.take a) = pa at *
  obtain ⟨l, c⟩ := pa
  simp only [] at hle hline hsat ⊢
  rw [foldl_stepChar mid l c hle.1 hle.2] at hline hsat ⊢
  simp only [] at hline hsat ⊢
  have hno : mid.count '\n' = 0 := by omega
  have hnm : '\n' ∉ mid := by
    intro hm
    have := List.count_pos_iff.mpr hm
    omega
  simp only [hnm, if_false]
  omega

end MJ.Loc
