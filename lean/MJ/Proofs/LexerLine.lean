import MJ.Proofs.LexerTop
/-! A line statement / line comment behaves as the block / comment tag occupying that whole line:
with `trim_blocks` and `lstrip_blocks` on, the rules give the same text for the line form and for
the template in which every line statement is written as the block tag and every line comment as
the comment tag (`tagForm`). -/
namespace MJ.Lexer

/-- the block / comment tag a line statement / line comment stands for -/
def Tag.tagForm (g : Tag) : Tag :=
  match g.kind with
  | .lineStmt ts => ⟨.block ts, .none, .none⟩
  | .lineComment body => ⟨.comment body, .none, .none⟩
  | _ => g

def tailTagForm (tail : List (Tag × List Char)) : List (Tag × List Char) :=
  tail.map fun gt => (gt.1.tagForm, gt.2)

def Tmpl.tagForm (tm : Tmpl) : Tmpl := ⟨tm.head, tailTagForm tm.tail⟩

/-- nothing but the line break stands behind a line statement on its line -/
def noTrail (tail : List (Tag × List Char)) : Bool :=
  tail.all fun gt => !(gt.1.marker == .lineStmt) || (gt.2.takeWhile isHws).isEmpty

/-- line statements and line comments carry no markers -/
def lineMarksNone (tail : List (Tag × List Char)) : Bool :=
  tail.all fun gt => !gt.1.isLine || (gt.1.l == .none && gt.1.r == .none)

theorem cfg_eta (cfg : Cfg) (h1 : cfg.trim = true) (h2 : cfg.lstrip = true) :
    ({ cfg with trim := true, lstrip := true } : Cfg) = cfg := by
  cases cfg; simp_all

theorem specTail_tagForm (cfg : Cfg) (vm bm : List Char) (h1 : cfg.trim = true) (h2 : cfg.lstrip = true)
    (tail : List (Tag × List Char)) :
    ∀ (first : Bool) (l : Nat) (t : List Char), noTrail tail = true → lineMarksNone tail = true →
      specTail cfg vm bm first l t tail = specTail cfg vm bm first l t (tailTagForm tail) := by
  induction tail with
  | nil => intro _ _ _ _ _; rfl
  | cons a tail ih =>
    obtain ⟨g, t'⟩ := a
    intro first l t hnt hm
    simp only [noTrail, List.all_cons, Bool.and_eq_true] at hnt
    simp only [lineMarksNone, List.all_cons, Bool.and_eq_true] at hm
    have ih' := fun f l t => ih f l t hnt.2 hm.2
    simp only [tailTagForm, List.map_cons, specTail]
    have hr : rightCutG cfg first g t = rightCutG cfg first g.tagForm t := by
      cases g with
      | mk kind gl gr =>
        cases kind <;> try rfl
        all_goals
          simp only [Tag.isLine, Bool.not_true, Bool.false_or, Bool.and_eq_true, beq_iff_eq] at hm
          obtain ⟨⟨rfl, rfl⟩, _⟩ := hm
          simp [rightCutG, cfgFor, Tag.isLine, Tag.tagForm, Tag.blockish, cfg_eta cfg h1 h2]
    have ho : tagOut cfg vm bm g = tagOut cfg vm bm g.tagForm := by
      cases g with
      | mk kind gl gr => cases kind <;> rfl
    have hlc : leftCutG cfg g t' = leftCutG cfg g.tagForm t' := by
      cases g with
      | mk kind gl gr =>
        cases kind <;> try rfl
        · -- line statement: the blanks behind it are empty
          simp only [Tag.isLine, Bool.not_true, Bool.false_or, Bool.and_eq_true, beq_iff_eq] at hm
          obtain ⟨⟨rfl, rfl⟩, _⟩ := hm
          have hnt1 := hnt.1
          simp only [Tag.marker, beq_self_eq_true, Bool.not_true, Bool.false_or, List.isEmpty_iff] at hnt1
          have hd : t'.dropWhile isHws = t' := by
            have := List.takeWhile_append_dropWhile (p := isHws) (l := t')
            rw [hnt1] at this; simpa using this
          simp [leftCutG, lineCut, hnt1, hd, Tag.tagForm, leftCut, cfgFor, Tag.isLine, Tag.blockish, h1]
        · simp only [Tag.isLine, Bool.not_true, Bool.false_or, Bool.and_eq_true, beq_iff_eq] at hm
          obtain ⟨⟨rfl, rfl⟩, _⟩ := hm
          simp [leftCutG, Tag.tagForm, leftCut, cfgFor, Tag.isLine, Tag.blockish, h1]
    rw [hr, ho, hlc, ih']
    rfl

theorem mapLastText_tagForm (f : List Char → List Char) (tail : List (Tag × List Char)) :
    tailTagForm (mapLastText f tail) = mapLastText f (tailTagForm tail) := by
  induction tail with
  | nil => rfl
  | cons a tail ih =>
    cases tail with
    | nil => rfl
    | cons b tail =>
      simp only [mapLastText, tailTagForm, List.map_cons] at ih ⊢
      rw [ih]

theorem takeWhile_prefix_empty (p : Char → Bool) (s s' z : List Char) (h : s = s' ++ z)
    (he : (s.takeWhile p).isEmpty = true) : (s'.takeWhile p).isEmpty = true := by
  cases s' with
  | nil => rfl
  | cons c r =>
    subst h
    simp only [List.cons_append, List.takeWhile_cons] at he ⊢
    split
    · rename_i hc; simp [hc] at he
    · rfl

theorem noTrail_mapLast (f : List Char → List Char) (hf : ∀ s, ∃ z, s = f s ++ z)
    (tail : List (Tag × List Char)) (h : noTrail tail = true) : noTrail (mapLastText f tail) = true := by
  induction tail with
  | nil => rfl
  | cons a tail ih =>
    obtain ⟨g, t⟩ := a
    cases tail with
    | nil =>
      simp only [noTrail, mapLastText, List.all_cons, List.all_nil, Bool.and_true, Bool.or_eq_true,
        Bool.not_eq_true'] at h ⊢
      rcases h with h | h
      · exact Or.inl h
      · obtain ⟨z, hz⟩ := hf t
        exact Or.inr (takeWhile_prefix_empty isHws t (f t) z hz h)
    | cons b tail =>
      simp only [noTrail, List.all_cons, Bool.and_eq_true] at h
      have := ih (by simp only [noTrail, List.all_cons, Bool.and_eq_true]; exact h.2)
      simp only [mapLastText, noTrail, List.all_cons, Bool.and_eq_true] at this ⊢
      exact ⟨h.1, this⟩

theorem lineMarksNone_mapLast (f : List Char → List Char) (tail : List (Tag × List Char))
    (h : lineMarksNone tail = true) : lineMarksNone (mapLastText f tail) = true := by
  induction tail with
  | nil => rfl
  | cons a tail ih =>
    obtain ⟨g, t⟩ := a
    cases tail with
    | nil => simpa [lineMarksNone, mapLastText] using h
    | cons b tail =>
      simp only [lineMarksNone, List.all_cons, Bool.and_eq_true] at h
      have := ih (by simp only [lineMarksNone, List.all_cons, Bool.and_eq_true]; exact h.2)
      simp only [mapLastText, lineMarksNone, List.all_cons, Bool.and_eq_true] at this ⊢
      exact ⟨h.1, this⟩

/-- with `trim_blocks` and `lstrip_blocks` on, the rules give the same text for the line form and
    for the tag form of a template -/
theorem specRender_tagForm (cfg : Cfg) (vm bm : List Char) (tm : Tmpl) (h1 : cfg.trim = true)
    (h2 : cfg.lstrip = true) (hnt : noTrail tm.tail = true) (hm : lineMarksNone tm.tail = true) :
    specRender cfg vm bm tm = specRender cfg vm bm tm.tagForm := by
  obtain ⟨head, tail⟩ := tm
  unfold specRender
  cases hk : cfg.keep with
  | true => exact specTail_tagForm cfg vm bm h1 h2 tail true 0 head hnt hm
  | false =>
    simp only [Bool.false_eq_true, if_false]
    cases tail with
    | nil => rfl
    | cons a tl =>
      simp only [stripFinal, Tmpl.tagForm, tailTagForm, List.map_cons]
      have := specTail_tagForm cfg vm bm h1 h2 (mapLastText stripTrailingNl (a :: tl)) true 0 head
        (noTrail_mapLast _ stripTrailingNl_prefix _ hnt) (lineMarksNone_mapLast _ _ hm)
      rw [this, mapLastText_tagForm]
      rfl

end MJ.Lexer
