import MJ.Proofs.LexerBasic
/-! The two search kernels of `utils.rs` as the lexer uses them: `memstr` (`findSub`) returns the
least offset at which the needle is a prefix of the rest of the haystack, `memchr` (`findChar`) the
least offset of the byte. -/
namespace MJ.Lexer

/-- `r` is the answer of a leftmost substring search -/
def LeftmostOcc (pat s : List Char) (r : Option Nat) : Prop :=
  match r with
  | none => ∀ j, j ≤ s.length → startsWith pat (s.drop j) = false
  | some i => i ≤ s.length ∧ startsWith pat (s.drop i) = true ∧ ∀ j, j < i → startsWith pat (s.drop j) = false

theorem findSub_leftmost (pat s : List Char) : LeftmostOcc pat s (findSub pat s) := by
  induction s with
  | nil =>
    unfold findSub
    cases hp : pat.isEmpty with
    | true =>
      have : pat = [] := by simpa using hp
      subst this
      simp [LeftmostOcc]
    | false =>
      simp only [Bool.false_eq_true, if_false, LeftmostOcc]
      intro j hj
      have : j = 0 := by simpa using hj
      subst this
      cases pat with
      | nil => simp at hp
      | cons a p => simp [startsWith]
  | cons c cs ih =>
    unfold findSub
    by_cases h : startsWith pat (c :: cs) = true
    · simp only [h, if_true, LeftmostOcc]
      exact ⟨Nat.zero_le _, by simpa using h, fun j hj => absurd hj (Nat.not_lt_zero j)⟩
    · have h' : startsWith pat (c :: cs) = false := by simpa using h
      simp only [h', Bool.false_eq_true, if_false]
      cases hf : findSub pat cs with
      | none =>
        rw [hf] at ih
        simp only [Option.map_none, LeftmostOcc] at ih ⊢
        intro j hj
        cases j with
        | zero => simpa using h'
        | succ j => simpa using ih j (by simpa using hj)
      | some i =>
        rw [hf] at ih
        simp only [Option.map_some, LeftmostOcc] at ih ⊢
        obtain ⟨h1, h2, h3⟩ := ih
        refine ⟨by simpa using h1, by simpa using h2, ?_⟩
        intro j hj
        cases j with
        | zero => simpa using h'
        | succ j => simpa using h3 j (by omega)

/-- a leftmost answer is unique: `findSub` is *the* leftmost search -/
theorem leftmostOcc_unique {pat s : List Char} {r : Option Nat} (h : LeftmostOcc pat s r) :
    r = findSub pat s := by
  have h2 := findSub_leftmost pat s
  cases r with
  | none =>
    cases hf : findSub pat s with
    | none => rfl
    | some i =>
      rw [hf] at h2
      have := h i h2.1
      rw [h2.2.1] at this; cases this
  | some i =>
    cases hf : findSub pat s with
    | none =>
      rw [hf] at h2
      have := h2 i h.1
      rw [h.2.1] at this; cases this
    | some i' =>
      rw [hf] at h2
      rcases Nat.lt_trichotomy i i' with hlt | heq | hgt
      · have := h2.2.2 i hlt; rw [h.2.1] at this; cases this
      · rw [heq]
      · have := h.2.2 i' hgt; rw [h2.2.1] at this; cases this

/-- `r` is the answer of a leftmost byte search -/
def LeftmostChar (c : Char) (s : List Char) (r : Option Nat) : Prop :=
  match r with
  | none => ∀ x ∈ s, x ≠ c
  | some i => s[i]? = some c ∧ ∀ j, j < i → s[j]? ≠ some c

theorem findChar_leftmost (c : Char) (s : List Char) : LeftmostChar c s (findChar c s) := by
  induction s with
  | nil => simp [findChar, LeftmostChar]
  | cons x xs ih =>
    unfold findChar
    by_cases h : x = c
    · simp [h, LeftmostChar]
    · simp only [h, if_false]
      cases hf : findChar c xs with
      | none =>
        rw [hf] at ih
        simp only [Option.map_none, LeftmostChar] at ih ⊢
        intro y hy
        rcases List.mem_cons.1 hy with rfl | hy
        · exact h
        · exact ih y hy
      | some i =>
        rw [hf] at ih
        simp only [Option.map_some, LeftmostChar] at ih ⊢
        refine ⟨by simpa using ih.1, ?_⟩
        intro j hj
        cases j with
        | zero => simpa using h
        | succ j => simpa using ih.2 j (by omega)

end MJ.Lexer
