import MJ.Proofs.Bal
/-!
# The frame rule of the balance machine: a certified stream leaves its caller's stacks alone (C05)
-/
namespace MJ.Bal

/-- a frame of the caller: a `with` frame, or a loop frame whose loop cannot be re-entered from this
stream (its `recurse_jump_target` belongs to other instructions) -/
def Foreign : RFrame → Prop
  | .withF => True
  | .loopF _ r _ => r = none

/-- the machine state with the caller's frames, captures and auto-escape entries underneath -/
def lift (F0 : List RFrame) (c0 e0 : Nat) (s : VmState) : VmState :=
  { pc := s.pc, frames := s.frames ++ F0, caps := s.caps + c0, escs := s.escs + e0 }

def Outcome.lift (F0 : List RFrame) (c0 e0 : Nat) : Outcome → Outcome
  | .stuck => .stuck
  | .exit => .exit
  | .next l => .next (l.map (Bal.lift F0 c0 e0))

theorem liveTargets_foreign {F0 : List RFrame} (hF : ∀ f ∈ F0, Foreign f) : liveTargets F0 = [] := by
  induction F0 with
  | nil => rfl
  | cons f fs ih =>
    have hf := hF f List.mem_cons_self
    have ih' := ih (fun g hg => hF g (List.mem_cons_of_mem _ hg))
    cases f with
    | withF => simpa [liveTargets] using ih'
    | loopF v r ret =>
      simp only [Foreign] at hf
      subst hf
      simpa [liveTargets] using ih'

theorem liveTargets_append {F0 : List RFrame} (hF : ∀ f ∈ F0, Foreign f) (fs : List RFrame) :
    liveTargets (fs ++ F0) = liveTargets fs := by
  induction fs with
  | nil => simpa [liveTargets] using liveTargets_foreign hF
  | cons f fs ih =>
    cases f with
    | withF => simpa [liveTargets] using ih
    | loopF v r ret => cases r <;> simp [liveTargets, ih]

theorem innermost_foreign {F0 : List RFrame} (hF : ∀ f ∈ F0, Foreign f) :
    innermostLoop F0 = none ∨ innermostLoop F0 = some none := by
  induction F0 with
  | nil => exact Or.inl rfl
  | cons f fs ih =>
    have hf := hF f List.mem_cons_self
    cases f with
    | withF => simpa [innermostLoop] using ih (fun g hg => hF g (List.mem_cons_of_mem _ hg))
    | loopF v r ret =>
      simp only [Foreign] at hf
      subst hf
      exact Or.inr rfl

theorem innermost_append (F0 fs : List RFrame) :
    innermostLoop (fs ++ F0) = match innermostLoop fs with
      | some x => some x
      | none => innermostLoop F0 := by
  induction fs with
  | nil => simp [innermostLoop]
  | cons f fs ih =>
    cases f with
    | withF => simpa [innermostLoop] using ih
    | loopF v r ret => simp [innermostLoop]

theorem recurseTo_lift (code : Code) (F0 : List RFrame) (c0 e0 : Nat) (s : VmState) (t : Nat) (cap : Bool) :
    recurseTo code (lift F0 c0 e0 s) t cap = (recurseTo code s t cap).map (lift F0 c0 e0) := by
  unfold recurseTo
  split
  · cases cap <;> simp [lift]; omega
  · rfl

theorem allSome_map_lift (F0 : List RFrame) (c0 e0 : Nat) :
    ∀ (xs : List (Option VmState)),
      allSome (xs.map (Option.map (lift F0 c0 e0))) = (allSome xs).map (List.map (lift F0 c0 e0)) := by
  intro xs
  induction xs with
  | nil => rfl
  | cons x xs ih =>
    cases x with
    | none => rfl
    | some a =>
      simp only [List.map_cons, Option.map_some, allSome, ih]
      cases allSome xs <;> rfl

/-- the frame rule: where the machine relative to the region entry is not stuck, the machine that has
the caller's stacks underneath does exactly the same, and the caller's part is not touched -/
theorem step_lift {code : Code} {F0 : List RFrame} (hF : ∀ f ∈ F0, Foreign f) (c0 e0 : Nat)
    (s : VmState) (hns : step code s ≠ .stuck) :
    step code (lift F0 c0 e0 s) = (step code s).lift F0 c0 e0 := by
  unfold step at hns ⊢
  have hpc : (lift F0 c0 e0 s).pc = s.pc := rfl
  rw [hpc]
  split
  · rfl
  · rename_i i hci
    simp only [hci] at hns
    cases i with
    | other => simp [Outcome.lift, lift, VmState.fall]
    | buildMacro o => simp [Outcome.lift, lift, VmState.fall]
    | pushWith => simp [Outcome.lift, lift, VmState.fall]
    | popFrame =>
      cases hfr : s.frames with
      | nil => simp [hfr] at hns
      | cons f fs =>
        cases f with
        | withF => simp [Outcome.lift, lift, VmState.fall, hfr]
        | loopF v r ret => simp [hfr] at hns
    | pushLoop v r => simp [Outcome.lift, lift, VmState.fall]
    | iterate t =>
      cases hfr : s.frames with
      | nil => simp [hfr] at hns
      | cons f fs =>
        cases f with
        | withF => simp [hfr] at hns
        | loopF v r ret => simp [Outcome.lift, lift, VmState.fall, VmState.goto, hfr]
    | pushDidNotIterate =>
      cases hfr : s.frames with
      | nil => simp [hfr] at hns
      | cons f fs =>
        cases f with
        | withF => simp [hfr] at hns
        | loopF v r ret => simp [Outcome.lift, lift, VmState.fall, hfr]
    | popLoopFrame =>
      cases hfr : s.frames with
      | nil => simp [hfr] at hns
      | cons f fs =>
        cases f with
        | withF => simp [hfr] at hns
        | loopF v r ret =>
          cases ret with
          | none => simp [Outcome.lift, lift, VmState.fall, hfr]
          | some p =>
            obtain ⟨rp, cap⟩ := p
            cases cap with
            | false => simp [Outcome.lift, lift, hfr]
            | true =>
              have hc : s.caps ≠ 0 := by
                intro h0; simp [hfr, h0] at hns
              have : s.caps + c0 ≠ 0 := by omega
              simp [Outcome.lift, lift, hfr, hc]
              omega
    | beginCapture => simp [Outcome.lift, lift, VmState.fall]; omega
    | endCapture =>
      have hc : s.caps ≠ 0 := by
        intro h0; simp [h0] at hns
      have : s.caps + c0 ≠ 0 := by omega
      simp [Outcome.lift, lift, VmState.fall, hc]
      omega
    | pushAutoEscape => simp [Outcome.lift, lift, VmState.fall]; omega
    | popAutoEscape =>
      have hc : s.escs ≠ 0 := by
        intro h0; simp [h0] at hns
      have : s.escs + e0 ≠ 0 := by omega
      simp [Outcome.lift, lift, VmState.fall, hc]
      omega
    | jump t => simp [Outcome.lift, lift, VmState.goto]
    | jumpIfFalse t => simp [Outcome.lift, lift, VmState.fall, VmState.goto]
    | jumpIfFalseOrPop t => simp [Outcome.lift, lift, VmState.fall, VmState.goto]
    | jumpIfTrueOrPop t => simp [Outcome.lift, lift, VmState.fall, VmState.goto]
    | ret => rfl
    | fastRecurse =>
      simp only [lift]
      rw [innermost_append]
      cases hin : innermostLoop s.frames with
      | none =>
        rcases innermost_foreign hF with h | h <;> simp [h, Outcome.lift]
      | some x =>
        cases x with
        | none => simp [Outcome.lift]
        | some t =>
          simp only
          have := recurseTo_lift code F0 c0 e0 s t false
          simp only [lift] at this
          rw [this]
          cases hrt : recurseTo code s t false with
          | none => simp [hin, hrt] at hns
          | some s' => simp [Outcome.lift, lift]
    | callFunction =>
      simp only [lift]
      rw [liveTargets_append hF]
      have hmap : (liveTargets s.frames).map
            (fun t => recurseTo code { pc := s.pc, frames := s.frames ++ F0, caps := s.caps + c0, escs := s.escs + e0 } t true)
          = ((liveTargets s.frames).map (fun t => recurseTo code s t true)).map (Option.map (lift F0 c0 e0)) := by
        simp only [List.map_map]
        apply List.map_congr_left
        intro t _
        have := recurseTo_lift code F0 c0 e0 s t true
        simpa [lift] using this
      rw [hmap, allSome_map_lift]
      cases hall : allSome ((liveTargets s.frames).map (fun t => recurseTo code s t true)) with
      | none => simp [hall] at hns
      | some l => simp [Outcome.lift, lift, VmState.fall]

/-- every run on top of the caller's stacks is the lift of a run of the relative machine -/
theorem reach_lift {code : Code} {cert : Cert} (hc : checkCert code cert = true) {e : Nat}
    (he : e ∈ entries code) {F0 : List RFrame} (hF : ∀ f ∈ F0, Foreign f) (c0 e0 : Nat) {t : VmState}
    (hr : Reach code (lift F0 c0 e0 (initAt e)) t) :
    ∃ rel, Reach code (initAt e) rel ∧ t = lift F0 c0 e0 rel := by
  induction hr with
  | refl => exact ⟨_, .refl _, rfl⟩
  | tail _ hstep hmem ih =>
    obtain ⟨rel, hrel, rfl⟩ := ih
    have hns := (step_sound hc rel (reach_inv hc (init_inv hc he) hrel)).1
    rw [step_lift hF c0 e0 rel hns] at hstep
    cases hs : step code rel with
    | stuck => exact absurd hs hns
    | exit => simp [hs, Outcome.lift] at hstep
    | next l' =>
      simp only [hs, Outcome.lift, Outcome.next.injEq] at hstep
      subst hstep
      obtain ⟨r', hr', rfl⟩ := List.mem_map.mp hmem
      exact ⟨r', .tail hrel hs hr', rfl⟩

end MJ.Bal
