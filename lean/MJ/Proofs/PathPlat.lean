import MJ.Model.PathPlat
import MJ.Proofs.Path
/-! Helper lemmas for the platform-generic part of C17 (`MJ/Props/C17.lean`). -/
namespace MJ.PathPlat
open MJ.Path

/-- separators are neither drive letters nor `:` (true of every platform std supports) -/
def Plat.WF (pl : Plat) : Prop := ∀ c, pl.isSep c = true → isDriveLetter c = false ∧ c ≠ ':'

theorem unix_wf : unix.WF := by
  intro c h
  have : c = '/' := by simpa [Plat.isSep, unix] using h
  subst this; decide

theorem windows_wf : windows.WF := by
  intro c h
  have : c = '\\' ∨ c = '/' := by simpa [Plat.isSep, windows] using h
  rcases this with rfl | rfl <;> decide

/-- no character of `s` is a separator of the platform -/
def NoSep (pl : Plat) (s : Str) : Prop := ∀ c ∈ s, pl.isSep c = false

/-! ### `splitSeps` -/

theorem splitSeps_ne_nil (pl : Plat) (s : Str) : splitSeps pl s ≠ [] := by
  cases s with
  | nil => simp [splitSeps]
  | cons c cs =>
    unfold splitSeps
    split
    · simp
    · exact consHead_ne_nil _ _

theorem splitSeps_append_sep (pl : Plat) (a b : Str) (c : Char) (hc : pl.isSep c = true) :
    splitSeps pl (a ++ c :: b) = splitSeps pl a ++ splitSeps pl b := by
  induction a with
  | nil => simp [splitSeps, hc]
  | cons x xs ih =>
    by_cases hx : pl.isSep x = true
    · simp [splitSeps, hx, ← ih]
    · simp only [List.cons_append, splitSeps, hx, ih]
      exact consHead_append _ _ _ (splitSeps_ne_nil _ _)

theorem splitSeps_noSep (pl : Plat) (s : Str) (h : NoSep pl s) : splitSeps pl s = [s] := by
  induction s with
  | nil => simp [splitSeps]
  | cons c cs ih =>
    have hc : pl.isSep c = false := h c (by simp)
    have hcs : NoSep pl cs := fun d hd => h d (by simp [hd])
    simp [splitSeps, hc, ih hcs, consHead]

/-- the pieces of a string: `filter keepPiece ∘ splitSeps` -/
def pieces (pl : Plat) (s : Str) : List Str := (splitSeps pl s).filter keepPiece

theorem pieces_nil (pl : Plat) : pieces pl [] = [] := by simp [pieces, splitSeps, keepPiece]

theorem pieces_single (pl : Plat) (s : Str) (h : NoSep pl s) (hdot : s ≠ ['.']) :
    pieces pl s = if s = [] then [] else [s] := by
  unfold pieces
  rw [splitSeps_noSep _ _ h]
  by_cases he : s = []
  · simp [he, keepPiece]
  · simp [he, keepPiece, hdot]

theorem pieces_append_sep (pl : Plat) (a b : Str) (c : Char) (hc : pl.isSep c = true) :
    pieces pl (a ++ c :: b) = pieces pl a ++ pieces pl b := by
  simp [pieces, splitSeps_append_sep pl a b c hc]

theorem mainSep_isSep (pl : Plat) : pl.isSep pl.mainSep = true := by simp [Plat.isSep]

/-- appending a separator-free piece to a body, the way `push` does -/
def glue (pl : Plat) (a seg : Str) : Str :=
  if lastNotSep pl a then a ++ pl.mainSep :: seg else a ++ seg

theorem pieces_glue (pl : Plat) (a seg : Str) (h : NoSep pl seg) (hdot : seg ≠ ['.']) :
    pieces pl (glue pl a seg) = pieces pl a ++ (if seg = [] then [] else [seg]) := by
  unfold glue lastNotSep
  cases hl : a.getLast? with
  | none =>
    have : a = [] := by simpa using hl
    subst this
    simp [pieces_nil, pieces_single pl seg h hdot]
  | some c =>
    obtain ⟨q, rfl⟩ := eq_append_of_getLast? hl
    by_cases hc : pl.isSep c = true
    · simp only [hc, Bool.not_true, Bool.false_eq_true, if_false]
      have e1 : q ++ [c] ++ seg = q ++ c :: seg := by simp
      have e2 : q ++ [c] = q ++ c :: [] := rfl
      rw [e1, pieces_append_sep pl q seg c hc, e2, pieces_append_sep pl q [] c hc, pieces_nil,
        pieces_single pl seg h hdot]
      simp
    · have hc' : pl.isSep c = false := by simpa using hc
      simp only [hc', Bool.not_false, if_true]
      rw [pieces_append_sep pl _ seg _ (mainSep_isSep pl), pieces_single pl seg h hdot]

/-! ### drive prefixes -/

theorem driveLen_le (pl : Plat) (p : Str) : driveLen pl p = 0 ∨ driveLen pl p = 2 := by
  unfold driveLen
  split <;> simp

theorem driveLen_nodrives (pl : Plat) (h : pl.drives = false) (p : Str) : driveLen pl p = 0 := by
  simp [driveLen, h]

/-- a path with a drive prefix -/
theorem driveLen_eq_two {pl : Plat} {p : Str} (h : driveLen pl p = 2) :
    pl.drives = true ∧ ∃ c q, p = c :: ':' :: q ∧ isDriveLetter c = true := by
  unfold driveLen at h
  split at h
  · rename_i hd
    simp only [Bool.and_eq_true] at hd
    refine ⟨hd.1, ?_⟩
    match p, hd.2 with
    | c :: d :: q, h2 =>
      simp only [startsWithDrive, Bool.and_eq_true, beq_iff_eq] at h2
      exact ⟨c, q, by rw [h2.1], h2.2⟩
  · simp at h

/-- the drive prefix is decided by the first two characters -/
theorem driveLen_cons_cons (pl : Plat) (c d : Char) (q r : Str) :
    driveLen pl (c :: d :: q) = driveLen pl (c :: d :: r) := by
  simp [driveLen, startsWithDrive]

theorem driveLen_nil (pl : Plat) : driveLen pl [] = 0 := by simp [driveLen, startsWithDrive]

theorem driveLen_single (pl : Plat) (c : Char) : driveLen pl [c] = 0 := by simp [driveLen, startsWithDrive]

/-- what `push` does to a path when the argument neither replaces it nor has a root -/
def pushRel (pl : Plat) (p seg : Str) : Str := if needSep pl p then p ++ pl.mainSep :: seg else p ++ seg

/-- the argument: separator-free and without a drive prefix -/
def PlainArg (pl : Plat) (seg : Str) : Prop := NoSep pl seg ∧ driveLen pl seg = 0

theorem hasRoot_false_of_plain {pl : Plat} {seg : Str} (h : PlainArg pl seg) : hasRoot pl seg = false := by
  unfold hasRoot body
  rw [h.2]
  simp only [List.drop_zero]
  cases seg with
  | nil => simp
  | cons c cs => simpa using h.1 c (by simp)

theorem replaces_false_of_plain {pl : Plat} {seg : Str} (h : PlainArg pl seg) : replaces pl seg = false := by
  unfold replaces
  split
  · simp [h.2]
  · exact hasRoot_false_of_plain h

theorem pushP_of_plain {pl : Plat} {seg : Str} (h : PlainArg pl seg) (p : Str) :
    pushP pl p seg = pushRel pl p seg := by
  unfold pushP pushRel
  simp [replaces_false_of_plain h, hasRoot_false_of_plain h]

/-- the path is literally kept -/
theorem prefix_pushRel (pl : Plat) (p seg : Str) : p <+: pushRel pl p seg := by
  unfold pushRel
  split <;> exact List.prefix_append _ _

theorem needSep_of_nodrive {pl : Plat} {p : Str} (h0 : driveLen pl p = 0) : needSep pl p = lastNotSep pl p := by
  unfold needSep
  rw [h0]
  simp

/-- no drive prefix appears when a plain argument is glued onto a path without one -/
theorem driveLen_glue_zero (pl : Plat) (hwf : pl.WF) (p seg : Str) (h : PlainArg pl seg)
    (h0 : driveLen pl p = 0) : driveLen pl (glue pl p seg) = 0 := by
  unfold glue
  match p, h0 with
  | [], _ => simpa [lastNotSep] using h.2
  | [c], _ =>
    by_cases hc : pl.isSep c = true
    · have hl : isDriveLetter c = false := (hwf c hc).1
      simp only [lastNotSep, List.getLast?_singleton, hc, Bool.not_true, Bool.false_eq_true, if_false]
      cases seg with
      | nil => exact driveLen_single pl c
      | cons d ds => simp [driveLen, startsWithDrive, hl]
    · have hc' : pl.isSep c = false := by simpa using hc
      have hm : pl.mainSep ≠ ':' := (hwf _ (mainSep_isSep pl)).2
      simp [lastNotSep, hc', driveLen, startsWithDrive, hm]
  | c :: d :: q, h0 =>
    split
    · rw [show (c :: d :: q) ++ pl.mainSep :: seg = c :: d :: (q ++ pl.mainSep :: seg) by simp,
        driveLen_cons_cons pl c d _ q]; exact h0
    · rw [show (c :: d :: q) ++ seg = c :: d :: (q ++ seg) by simp,
        driveLen_cons_cons pl c d _ q]; exact h0

/-- pushing a plain argument keeps the drive prefix and glues the argument onto the body -/
theorem pushRel_body (pl : Plat) (hwf : pl.WF) (p seg : Str) (h : PlainArg pl seg) :
    driveLen pl (pushRel pl p seg) = driveLen pl p ∧
    body pl (pushRel pl p seg) = glue pl (body pl p) seg := by
  rcases driveLen_le pl p with h0 | h2
  · -- no drive prefix on `p`
    have hb : body pl p = p := by simp [body, h0]
    have he : pushRel pl p seg = glue pl p seg := by
      unfold pushRel glue
      rw [needSep_of_nodrive h0]
    have key := driveLen_glue_zero pl hwf p seg h h0
    rw [he, hb]
    exact ⟨by rw [key, h0], by simp [body, key]⟩
  · -- `p = X:q`
    obtain ⟨hd, c, q, rfl, hl⟩ := driveLen_eq_two h2
    have hb : body pl (c :: ':' :: q) = q := by simp [body, h2]
    by_cases hq : q = []
    · subst hq
      have hns : needSep pl [c, ':'] = false := by
        unfold needSep
        rw [h2]; simp
      have hr : pushRel pl [c, ':'] seg = c :: ':' :: seg := by simp [pushRel, hns]
      rw [hr]
      have h2' : driveLen pl (c :: ':' :: seg) = 2 := by
        rw [driveLen_cons_cons pl c ':' seg []]; exact h2
      refine ⟨by rw [h2', h2], ?_⟩
      simp [body, h2', h2, glue, lastNotSep]
    · have hlast : (c :: ':' :: q).getLast? = q.getLast? := by
        cases q with
        | nil => exact absurd rfl hq
        | cons x xs => simp [List.getLast?_cons_cons]
      have hns : needSep pl (c :: ':' :: q) = lastNotSep pl q := by
        unfold needSep lastNotSep
        rw [h2, hlast]
        have : ¬ (2 > 0 ∧ 2 = (c :: ':' :: q).length) := by
          intro hh
          have : q.length = 0 := by simpa using hh.2.symm
          exact hq (List.eq_nil_of_length_eq_zero this)
        rw [if_neg this]
      unfold pushRel glue
      rw [hns, hb]
      split
      · have e : (c :: ':' :: q) ++ pl.mainSep :: seg = c :: ':' :: (q ++ pl.mainSep :: seg) := by simp
        have h2' : driveLen pl (c :: ':' :: (q ++ pl.mainSep :: seg)) = 2 := by
          rw [driveLen_cons_cons pl c ':' _ q]; exact h2
        rw [e]
        exact ⟨by rw [h2', h2], by simp [body, h2']⟩
      · have e : (c :: ':' :: q) ++ seg = c :: ':' :: (q ++ seg) := by simp
        have h2' : driveLen pl (c :: ':' :: (q ++ seg)) = 2 := by
          rw [driveLen_cons_cons pl c ':' _ q]; exact h2
        rw [e]
        exact ⟨by rw [h2', h2], by simp [body, h2']⟩

theorem compsP_eq_pieces (pl : Plat) (p : Str) : compsP pl p = pieces pl (body pl p) := rfl

/-- one push of a plain argument: the drive prefix stays, the root flag stays, the path is a
    literal prefix of the result and the components grow by exactly the argument (nothing when it
    is empty) -/
theorem pushP_plain (pl : Plat) (hwf : pl.WF) (p seg : Str) (h : PlainArg pl seg) (hdot : seg ≠ ['.']) :
    driveLen pl (pushP pl p seg) = driveLen pl p ∧
    compsP pl (pushP pl p seg) = compsP pl p ++ (if seg = [] then [] else [seg]) ∧
    p <+: pushP pl p seg := by
  rw [pushP_of_plain h]
  obtain ⟨h1, h2⟩ := pushRel_body pl hwf p seg h
  refine ⟨h1, ?_, prefix_pushRel pl p seg⟩
  rw [compsP_eq_pieces, h2, pieces_glue pl _ seg h.1 hdot, compsP_eq_pieces]

/-- the root flag is kept as well -/
theorem hasRoot_pushP_plain (pl : Plat) (hwf : pl.WF) (p seg : Str) (h : PlainArg pl seg) :
    hasRoot pl (pushP pl p seg) = hasRoot pl p := by
  rw [pushP_of_plain h]
  obtain ⟨_, h2⟩ := pushRel_body pl hwf p seg h
  unfold hasRoot
  rw [h2]
  unfold glue
  cases hb : body pl p with
  | nil =>
    simp only [lastNotSep, List.getLast?_nil, Bool.false_eq_true, if_false, List.nil_append, List.head?_nil]
    cases seg with
    | nil => rfl
    | cons c cs => simpa using h.1 c (by simp)
  | cons x xs => by_cases hl : lastNotSep pl (x :: xs) = true <;> simp [hl]

/-! ### the generic loop -/

theorem joinLoopG_same (pl : Plat) (hwf : pl.WF) (bad : Str → Bool) (rv : Str) (tr : Trace) (segs : List Str)
    (hplain : ∀ s ∈ segs, bad s = false → PlainArg pl s ∧ s ≠ ['.'])
    (p : Str) (tr' : Trace) (h : joinLoopG pl bad useSame rv tr segs = some (p, tr')) :
    (∀ s ∈ segs, bad s = false) ∧
    tr'.checked = tr.checked ++ segs ∧ tr'.pushed = tr.pushed ++ segs ∧
    compsP pl p = compsP pl rv ++ segs.filter (fun s => s != []) ∧
    driveLen pl p = driveLen pl rv ∧ hasRoot pl p = hasRoot pl rv ∧ rv <+: p := by
  induction segs generalizing rv tr with
  | nil =>
    simp only [joinLoopG, Option.some.injEq, Prod.mk.injEq] at h
    obtain ⟨rfl, rfl⟩ := h
    simp
  | cons s rest ih =>
    unfold joinLoopG at h
    by_cases hb : bad s = true
    · simp [hb] at h
    · have hb' : bad s = false := by simpa using hb
      rw [if_neg hb] at h
      obtain ⟨hp, hdot⟩ := hplain s (by simp) hb'
      simp only [useSame, List.foldl_cons, List.foldl_nil] at h
      obtain ⟨i1, i2, i3, i4, i5, i6, i7⟩ := ih (pushP pl rv s) _ (fun t ht => hplain t (by simp [ht])) h
      obtain ⟨g1, g2, g3⟩ := pushP_plain pl hwf rv s hp hdot
      refine ⟨?_, by simpa using i2, by simpa using i3, ?_, by rw [i5, g1], ?_, List.IsPrefix.trans g3 i7⟩
      · intro t ht
        simp only [List.mem_cons] at ht
        rcases ht with rfl | ht
        · exact hb'
        · exact i1 t ht
      · rw [i4, g2]
        by_cases he : s = []
        · simp [he]
        · simp [he]
      · rw [i6, hasRoot_pushP_plain pl hwf rv s hp]

/-! ### the Unix instance is the model that is compared with the real code -/

theorem beq_slash (c : Char) : (c == '/') = decide (c = '/') := by
  by_cases h : c = '/' <;> simp [h]

theorem pushP_unix (p seg : Str) : pushP unix p seg = push p seg := by
  have hd : ∀ q : Str, driveLen unix q = 0 := driveLen_nodrives unix rfl
  have hr : hasRoot unix seg = decide (seg.head? = some '/') := by
    unfold hasRoot body
    rw [hd]
    cases seg with
    | nil => simp
    | cons c cs => simp [Plat.isSep, unix, beq_slash]
  have hn : needSep unix p = decide (p ≠ [] ∧ p.getLast? ≠ some '/') := by
    unfold needSep lastNotSep
    rw [hd]
    cases hl : p.getLast? with
    | none =>
      have : p = [] := by simpa using hl
      simp [this]
    | some c =>
      have : p ≠ [] := by intro e; simp [e] at hl
      simp [this, Plat.isSep, unix, beq_slash]
  unfold pushP push replaces
  simp only [show unix.drives = false from rfl, Bool.false_eq_true, if_false, hr, hn,
    show unix.mainSep = '/' from rfl]
  by_cases h1 : seg.head? = some '/'
  · simp [h1]
  · by_cases h2 : p ≠ [] ∧ p.getLast? ≠ some '/'
    · simp [h1, h2]
    · simp only [h1, h2, decide_false, Bool.false_eq_true, if_false]

theorem isSep_unix (c : Char) : unix.isSep c = decide (c = '/') := by
  simp [Plat.isSep, unix, beq_slash]

theorem splitSeps_unix (s : Str) : splitSeps unix s = splitOn '/' s := by
  induction s with
  | nil => rfl
  | cons c cs ih =>
    by_cases hc : c = '/'
    · simp [splitSeps, splitOn, hc, isSep_unix, ← ih]
    · simp only [splitSeps, splitOn, hc, isSep_unix, decide_false, Bool.false_eq_true, if_false, ih]

theorem compsP_unix (p : Str) : compsP unix p = comps p := by
  simp [compsP, comps, body, driveLen_nodrives unix rfl, splitSeps_unix]

theorem joinLoopG_unix (rv : Str) (tr : Trace) (segs : List Str) :
    (joinLoopG unix badSeg useSame rv tr segs).map (·.1) = safeJoinLoop rv segs := by
  induction segs generalizing rv tr with
  | nil => simp [joinLoopG, safeJoinLoop]
  | cons s rest ih =>
    unfold joinLoopG safeJoinLoop
    by_cases hb : badSeg s = true
    · simp [hb]
    · simp only [hb, useSame, List.foldl_cons, List.foldl_nil, pushP_unix]
      exact ih _ _

/-! ### candidate loaders -/

theorem loadCands_found {base : Str} {fs : Snapshot} {name s : Str} {cands : List (Str → Str)}
    (h : loadCands base fs name cands = .found s) :
    ∃ t ∈ cands, ∃ p, safeJoin base (t name) = some p ∧ fs p = .content s := by
  induction cands with
  | nil => simp [loadCands] at h
  | cons t rest ih =>
    unfold loadCands at h
    cases hj : safeJoin base (t name) with
    | none =>
      simp only [hj] at h
      obtain ⟨u, hu, r⟩ := ih h
      exact ⟨u, by simp [hu], r⟩
    | some p =>
      simp only [hj] at h
      cases hf : fs p with
      | content c =>
        simp only [hf, LoadResult.found.injEq] at h
        subst h
        exact ⟨t, by simp, p, hj, hf⟩
      | notFound =>
        simp only [hf] at h
        obtain ⟨u, hu, r⟩ := ih h
        exact ⟨u, by simp [hu], r⟩
      | failed => simp [hf] at h

end MJ.PathPlat
