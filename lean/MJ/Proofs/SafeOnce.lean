import MJ.Proofs.SafeProg
/-! C02: *escaped once* at the level of programs.  Whatever a capture construct collected under Html is
a `Safe` string holding exactly the collected text, and printing a `Safe` string writes its text
verbatim — wherever, and under whatever mode, it was captured. -/
namespace MJ.Safe

theorem pushM_apply1 (g : Fn) (i : Nat) (st : St) (x v : V) (hx : st.pool[i]? = some x) (hg : g [x] = some v) :
    pushM (.apply g [i]) st = some (st.pool.size, st.push v) := by
  simp [pushM, Step.run, St.args, hx, hg, St.push_eq]

theorem stepM_emit (m : Mode) (i : Nat) (st : St) (v : V) (hx : st.pool[i]? = some v) :
    stepM (.emit m i) st = some ((), st.write (writeEscaped m v)) := by
  simp [stepM, Step.run, hx]

/-- printing a `Safe` string writes its text verbatim (in every mode, whoever captured it and where) -/
theorem print_safe_verbatim (strict : Bool) (env : Env) (r : Nat) (st : St) (s : TStr)
    (hw : env.writable = true) (hf : env.prog.fmt = .default) (hr : st.pool[r]? = some (.str s true)) :
    emitG strict env r st = some ((), st.write s) := by
  unfold emitG
  simp [hw, hf, stepM, Step.run, hr, writeEscaped]

/-- … also through the custom formatter (which leaves strings alone): one more register, same text -/
theorem print_safe_verbatim_fmt (strict : Bool) (env : Env) (r : Nat) (st : St) (s : TStr)
    (hw : env.writable = true) (hf : env.prog.fmt = .noneAsUndef) (hr : st.pool[r]? = some (.str s true)) :
    emitG strict env r st = some ((), (st.push (.str s true)).write s) := by
  unfold emitG
  simp only [hw, hf, Bool.not_true, Bool.and_false, Bool.false_eq_true, if_false]
  simp only [Bind.bind, M.bind, pushM, stepM, Step.run, St.args, List.mapM_cons, List.mapM_nil, hr, fmtPreF]
  simp [St.push_eq, writeEscaped]

/-- the value a capture produces: `BeginCapture; body; EndCapture` (or the tail of `Macro::call`) in a mode
    other than `None` leaves a `Safe` string holding exactly what the body wrote into the capture -/
theorem capture_value {α : Type} (body : M α) (endS : Mode → Step) (hend : endS = .endCapture ∨ endS = .macroReturn)
    (m : Mode) (hm : m ≠ .none) (st st1 : St) (a : α) (buf : TStr) (rest : List TStr)
    (hb : body { st with caps := [] :: st.caps } = some (a, st1)) (hc : st1.caps = buf :: rest) :
    (stepM .beginCapture >>= fun _ => body >>= fun _ => pushM (endS m)) st =
      some (st1.pool.size, { st1 with caps := rest }.push (.str buf.reverse true)) := by
  have e : (m != Mode.none) = true := by cases m <;> simp_all
  rcases hend with rfl | rfl <;>
    simp [Bind.bind, M.bind, stepM, pushM, Step.run, hb, hc, capturedValue, St.push_eq, e]

/-- **escaped once, set-block**: `{% set x %}body{% endset %}{{ x }}` under Html writes into the enclosing
    target exactly the text the body wrote into the capture — whatever the body is (expressions,
    includes of templates with another mode, blocks, macro calls …) -/
theorem escaped_once_set_block (strict : Bool) (n : Nat) (env : Env) (x : String) (body : List Stmt) (st st1 : St)
    (vs : List (String × Nat)) (buf : TStr) (rest : List TStr) (hm : env.mode = .html) (hf : env.prog.fmt = .default)
    (hb : execStmts strict (n + 2) env.inCapture body { st with caps := [] :: st.caps } = some (vs, st1))
    (hc : st1.caps = buf :: rest) :
    execStmts strict (n + 4) env [.setBlock x Option.none body, .emit (.var x)] st =
      some ((x, st1.pool.size) :: env.vars, ({ st1 with caps := rest }.push (.str buf.reverse true)).write buf.reverse) := by
  have hw : ({ env with vars := (x, st1.pool.size) :: env.vars } : Env).writable = true := by simp [Env.writable, hm]
  have hr : ({ st1 with caps := rest }.push (.str buf.reverse true)).pool[st1.pool.size]? = some (.str buf.reverse true) := by
    simp [St.push_eq]
  have hp := print_safe_verbatim strict _ _ _ _ hw hf hr
  simp only [execStmts, execStmt, evalExpr, Bind.bind, M.bind, Pure.pure, M.pure, lookupVar, List.lookup, beq_self_eq_true,
    stepM, pushM, Step.run, Option.map_some, hb, hc, hm, capturedValue]
  have e : (Mode.html != Mode.none) = true := by decide
  have esz : (st1.pool.push (V.str buf.reverse true)).size - 1 = st1.pool.size := by simp
  simp only [St.push_eq, e, esz] at hp ⊢
  simp only [hm] at hp
  rw [hp]

/-- **escaped once, filter block**: `{% filter f %}body{% endfilter %}` under Html hands the filter the
    collected text as a `Safe` string and prints what it returns by its own bit -/
theorem escaped_once_filter_block (strict : Bool) (n : Nat) (env : Env) (name : String) (ps : List Nat) (body : List Stmt)
    (st st1 : St) (vs : List (String × Nat)) (buf : TStr) (rest : List TStr) (g : Fn) (v : V)
    (hm : env.mode = .html) (hf : env.prog.fmt = .default) (hl : lookupF name .html ps = some (g, true))
    (hg : g [.str buf.reverse true] = some v)
    (hb : execStmts strict (n + 2) env.inCapture body { st with caps := [] :: st.caps } = some (vs, st1))
    (hc : st1.caps = buf :: rest) :
    execStmt strict (n + 3) env (.filterBlock name ps body) st =
      some (env.vars, ((({ st1 with caps := rest }.push (.str buf.reverse true)).push v).write (writeEscaped .html v))) := by
  have e : (Mode.html != Mode.none) = true := by decide
  have hw : env.writable = true := by simp [Env.writable, hm]
  have esz : (st1.pool.push (V.str buf.reverse true)).size - 1 = st1.pool.size := by simp
  have hget : (st1.pool.push (V.str buf.reverse true))[st1.pool.size]? = some (V.str buf.reverse true) := by simp
  simp only [execStmt, Bind.bind, M.bind, Pure.pure, M.pure, stepM, pushM, Step.run, Option.map_some, hb, hc, hm,
    capturedValue, applyNamed, hl, applyG, emitG, hw, hf, St.push_eq, e, esz]
  have h1 := pushM_apply1 g st1.pool.size { pool := st1.pool.push (V.str buf.reverse true), caps := rest, outR := st1.outR }
    _ v hget hg
  have ej : (Mode.html == Mode.json) = false := by decide
  simp only [ej, Bool.not_true, Bool.or_false, Bool.and_false, Bool.false_eq_true, if_false]
  rw [h1]
  simp only [St.push_eq]
  have hget2 : ((st1.pool.push (V.str buf.reverse true)).push v)[(st1.pool.push (V.str buf.reverse true)).size]? = some v :=
    Array.getElem?_push_size
  rw [stepM_emit .html _ _ v hget2]

/-- the filters of shape `preserve_safety(g(text))` (upper, lower, capitalize, trim, indent): the block's text,
    mapped by `g`, is written verbatim -/
theorem escaped_once_filter_block_preserve (g : TStr → TStr) (buf : TStr) :
    (preserveF g [.str buf true]).map (writeEscaped .html) = some (g buf) := by
  simp [preserveF, StrIn.ofV, StrIn.preserve, writeEscaped]

/-- **escaped once, macro result**: `{{ m(args) }}` under Html writes exactly the text the macro body wrote
    into its output — also for a macro imported from a template whose name selects another mode (the body
    runs in the mode of the call site) -/
theorem escaped_once_macro_call (strict : Bool) (n : Nat) (env : Env) (m g : String) (args : List Expr) (home : Tmpl) (md : MacroDef)
    (st sta stb st1 : St) (rs : List Nat) (params vs : List (String × Nat)) (buf : TStr) (rest : List TStr)
    (hm : env.mode = .html) (hf : env.prog.fmt = .default) (hvis : env.macros.lookup m = some g)
    (hfm : findMacro env.prog g = some (home, md))
    (hargs : evalArgs strict (n + 2) env args st = some (rs, sta))
    (hparams : bindParams md.params rs sta = some (params, stb))
    (hb : execStmts strict (n + 2) (env.forMacro home params Option.none) md.body { stb with caps := [] :: stb.caps } = some (vs, st1))
    (hc : st1.caps = buf :: rest) :
    execStmt strict (n + 5) env (.emit (.call m args)) st =
      some (env.vars, ({ st1 with caps := rest }.push (.str buf.reverse true)).write buf.reverse) := by
  have e : (Mode.html != Mode.none) = true := by decide
  have hw : env.writable = true := by simp [Env.writable, hm]
  have esz : (st1.pool.push (V.str buf.reverse true)).size - 1 = st1.pool.size := by simp
  have hget : (st1.pool.push (V.str buf.reverse true))[st1.pool.size]? = some (V.str buf.reverse true) := by simp
  simp only [execStmt, evalExpr, callMacro, hvis, hfm, Bind.bind, M.bind, Pure.pure, M.pure, hargs, hparams, stepM, pushM,
    Step.run, Option.map_some, hb, hc, hm, capturedValue, emitG, hw, hf, St.push_eq, e, esz]
  simp only [Bool.not_true, Bool.and_false, Bool.false_eq_true, if_false]
  rw [stepM_emit .html _ _ _ hget]
  simp [writeEscaped]

/-- **escaped once, call block**: `{% call m(args) %}inner{% endcall %}` under Html -/
theorem escaped_once_call_block (strict : Bool) (n : Nat) (env : Env) (m g : String) (args : List Expr) (inner : List Stmt)
    (home : Tmpl) (md : MacroDef) (st sta stb st1 : St) (rs : List Nat) (params vs : List (String × Nat)) (buf : TStr) (rest : List TStr)
    (hm : env.mode = .html) (hf : env.prog.fmt = .default) (hvis : env.macros.lookup m = some g)
    (hfm : findMacro env.prog g = some (home, md))
    (hargs : evalArgs strict (n + 2) env args st = some (rs, sta))
    (hparams : bindParams md.params rs sta = some (params, stb))
    (hb : execStmts strict (n + 2) (env.forMacro home params (some { body := inner, vars := env.vars, macros := env.macros, mods := env.mods }))
            md.body { stb with caps := [] :: stb.caps } = some (vs, st1))
    (hc : st1.caps = buf :: rest) :
    execStmt strict (n + 4) env (.callBlock m args inner) st =
      some (env.vars, ({ st1 with caps := rest }.push (.str buf.reverse true)).write buf.reverse) := by
  have e : (Mode.html != Mode.none) = true := by decide
  have hw : env.writable = true := by simp [Env.writable, hm]
  have esz : (st1.pool.push (V.str buf.reverse true)).size - 1 = st1.pool.size := by simp
  have hget : (st1.pool.push (V.str buf.reverse true))[st1.pool.size]? = some (V.str buf.reverse true) := by simp
  simp only [execStmt, callMacro, hvis, hfm, Bind.bind, M.bind, Pure.pure, M.pure, hargs, hparams, stepM, pushM,
    Step.run, Option.map_some, hb, hc, hm, capturedValue, emitG, hw, hf, St.push_eq, e, esz]
  simp only [Bool.not_true, Bool.and_false, Bool.false_eq_true, if_false]
  rw [stepM_emit .html _ _ _ hget]
  simp [writeEscaped]

/-- **escaped once, `caller()`**: what the body of the call block wrote is printed verbatim by the macro -/
theorem escaped_once_caller (strict : Bool) (n : Nat) (env : Env) (c : CallerCl) (st st1 : St) (vs : List (String × Nat))
    (buf : TStr) (rest : List TStr) (hm : env.mode = .html) (hf : env.prog.fmt = .default) (hcl : env.caller = some c)
    (hb : execStmts strict (n + 2) (env.forCaller c) c.body { st with caps := [] :: st.caps } = some (vs, st1))
    (hc : st1.caps = buf :: rest) :
    execStmt strict (n + 4) env (.emit .caller) st =
      some (env.vars, ({ st1 with caps := rest }.push (.str buf.reverse true)).write buf.reverse) := by
  have e : (Mode.html != Mode.none) = true := by decide
  have hw : env.writable = true := by simp [Env.writable, hm]
  have esz : (st1.pool.push (V.str buf.reverse true)).size - 1 = st1.pool.size := by simp
  have hget : (st1.pool.push (V.str buf.reverse true))[st1.pool.size]? = some (V.str buf.reverse true) := by simp
  simp only [execStmt, evalExpr, hcl, Bind.bind, M.bind, Pure.pure, M.pure, stepM, pushM,
    Step.run, Option.map_some, hb, hc, hm, capturedValue, emitG, hw, hf, St.push_eq, e, esz]
  simp only [Bool.not_true, Bool.and_false, Bool.false_eq_true, if_false]
  rw [stepM_emit .html _ _ _ hget]
  simp [writeEscaped]

/-- **escaped once, `super()`**: the parent block's output is printed verbatim by the overriding block -/
theorem escaped_once_super (strict : Bool) (n : Nat) (env : Env) (b : List Stmt) (more : List (List Stmt)) (st st1 : St)
    (vs : List (String × Nat)) (buf : TStr) (rest : List TStr) (hm : env.mode = .html) (hf : env.prog.fmt = .default)
    (hsup : env.supers = b :: more)
    (hb : execStmts strict (n + 2) (env.forSuper more) b { st with caps := [] :: st.caps } = some (vs, st1))
    (hc : st1.caps = buf :: rest) :
    execStmt strict (n + 4) env (.emit .super) st =
      some (env.vars, ({ st1 with caps := rest }.push (.str buf.reverse true)).write buf.reverse) := by
  have e : (Mode.html != Mode.none) = true := by decide
  have hw : env.writable = true := by simp [Env.writable, hm]
  have esz : (st1.pool.push (V.str buf.reverse true)).size - 1 = st1.pool.size := by simp
  have hget : (st1.pool.push (V.str buf.reverse true))[st1.pool.size]? = some (V.str buf.reverse true) := by simp
  simp only [execStmt, evalExpr, hsup, Bind.bind, M.bind, Pure.pure, M.pure, stepM, pushM,
    Step.run, Option.map_some, hb, hc, hm, capturedValue, emitG, hw, hf, St.push_eq, e, esz]
  simp only [Bool.not_true, Bool.and_false, Bool.false_eq_true, if_false]
  rw [stepM_emit .html _ _ _ hget]
  simp [writeEscaped]

/-- balance: a body run inside a capture leaves that capture's buffer on top (from the invariant: the
    flags list has the length of the capture stack) -/
theorem capture_open {α : Type} {fl : List Bool} {c : Bool} {body : M α} (h : HT (c :: fl) (c :: fl) body) {st st1 : St} {a : α}
    (hs : StInvF fl st) (hb : body { st with caps := [] :: st.caps } = some (a, st1)) :
    ∃ buf rest, st1.caps = buf :: rest := by
  have h0 : StInvF (c :: fl) { st with caps := [] :: st.caps } :=
    ⟨hs.1, by simp only [CapsOk]; exact ⟨fun _ => Clean.nil, hs.2.1⟩, hs.2.2⟩
  have h1 := h.apply h0 hb
  have hc := h1.2.1
  cases hcaps : st1.caps with
  | nil => rw [hcaps] at hc; simp [CapsOk] at hc
  | cons b r => exact ⟨b, r, rfl⟩

end MJ.Safe
