import MJ.Proofs.CmpNum
import MJ.Proofs.CmpEq
/-!
# Numbers: `==` ⇔ `Equal`, `==` ⇒ same hash item (stage 1: the four integer representations)
-/
namespace MJ.CmpNum
open MJ MJ.Val MJ.Cmp MJ.F64 MJ.CmpKey MJ.CmpEq

/-- integer representation within the range of its Rust type -/
def IntWF (n : N) : Prop := n.isFloat = false ∧ n.WF

theorem int_le_i128Max_of_not_u128 (x : N) (hx : IntWF x) (h : ∀ n, x ≠ .u128 n) :
    i128Min ≤ x.int ∧ x.int ≤ i128Max := by
  obtain ⟨hf, hw⟩ := hx
  cases x <;> simp only [N.isFloat, reduceCtorEq] at hf <;>
    simp only [N.WF, N.int, i128Min, i128Max, u64Max, i64Min, i64Max] at * <;> try omega
  exact absurd rfl (h _)

theorem int_ge_i128Min (x : N) (hx : IntWF x) : i128Min ≤ x.int := by
  obtain ⟨hf, hw⟩ := hx
  cases x <;> simp only [N.isFloat, reduceCtorEq] at hf <;>
    simp only [N.WF, N.int, i128Min, i128Max, u64Max, u128Max, i64Min, i64Max] at * <;> omega

/-- the `_ =>` arm of `coerce` inside `==`, for two integers that are not both `u128` -/
theorem coerce_arm_eq (x y : N) (hx : IntWF x) (hy : IntWF y)
    (hnot : (∀ n, x ≠ .u128 n) ∨ (∀ n, y ≠ .u128 n)) :
    (match (match x.toI128, y.toI128 with
            | some a, some b => some (Co.i a b)
            | _, _ => none) with
      | some (.f a b) => feq a b
      | some (.i a b) => a == b
      | none => false) = true ↔ x.int = y.int := by
  rw [toI128_int x hx.1, toI128_int y hy.1]
  have gx := int_ge_i128Min x hx
  have gy := int_ge_i128Min y hy
  by_cases h1 : i128Min ≤ x.int ∧ x.int ≤ i128Max
  · by_cases h2 : i128Min ≤ y.int ∧ y.int ≤ i128Max
    · rw [if_pos h1, if_pos h2]; simp
    · rw [if_pos h1, if_neg h2]
      simp only [Bool.false_eq_true, false_iff]
      intro he; rw [he] at h1; exact h2 h1
  · rw [if_neg h1]
    simp only [Bool.false_eq_true, false_iff]
    intro he
    rcases hnot with hn | hn
    · exact h1 (int_le_i128Max_of_not_u128 x hx hn)
    · have := int_le_i128Max_of_not_u128 y hy hn
      rw [← he] at this; exact h1 this

theorem eqN_int (x y : N) (hx : IntWF x) (hy : IntWF y) : eqN x y = true ↔ x.int = y.int := by
  have hx' := hx; have hy' := hy
  obtain ⟨hfx, _⟩ := hx'
  obtain ⟨hfy, _⟩ := hy'
  cases x <;> simp only [N.isFloat, reduceCtorEq] at hfx <;>
  cases y <;> simp only [N.isFloat, reduceCtorEq] at hfy
  case u64.u64 a b => simp [eqN, coerceN, N.int]
  case i64.i64 a b => simp [eqN, coerceN, N.int]
  case i128.i128 a b => simp [eqN, coerceN, N.int]
  case u128.u128 a b => simp only [eqN, N.int, beq_iff_eq]; constructor <;> intro h <;> omega
  all_goals
    simp only [eqN, coerceN]
    apply coerce_arm_eq _ _ hx hy
    first
      | (left; intro n; exact N.noConfusion)
      | (right; intro n; exact N.noConfusion)

/-- stage 1 -/
theorem eqSpec_int : EqSpec IntWF := by
  intro x y hx hy
  rw [eqN_int x y hx hy, cmpN_int x y hx.1 hy.1, Int.compare_eq_eq]

theorem toI64_int (x : N) (hx : x.isFloat = false) :
    x.toI64 = if i64Min ≤ x.int ∧ x.int ≤ i64Max then some x.int else none := by
  cases x <;> simp only [N.isFloat, reduceCtorEq] at hx <;> rfl

theorem asF64_lossy_int (x : N) (hx : x.isFloat = false) : x.asF64 true = some (ofInt x.int) := by
  cases x <;> simp only [N.isFloat, reduceCtorEq] at hx <;>
    simp only [N.asF64, checkedF64, Bool.true_or, if_true, N.int]

/-- what an integer feeds the hasher depends on its value only -/
theorem hkeyN_int (x : N) (hx : IntWF x) :
    hkeyN x = (if i64Min ≤ x.int ∧ x.int ≤ i64Max then HTok.i64 x.int else HTok.bits (some (ofInt x.int))) := by
  unfold hkeyN
  rw [toI64_int x hx.1, asF64_lossy_int x hx.1]
  by_cases h : i64Min ≤ x.int ∧ x.int ≤ i64Max
  · rw [if_pos h, if_pos h]
  · rw [if_neg h, if_neg h]

theorem hashSpec_int : HashSpec IntWF := by
  intro x y hx hy he
  rw [hkeyN_int x hx, hkeyN_int y hy, (eqN_int x y hx hy).mp he]

end MJ.CmpNum
