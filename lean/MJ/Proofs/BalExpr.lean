import MJ.Model.BalExpr
/-! `gen 0 e` is a `flat` block of the statement model, for every expression tree -/
namespace MJ.BalExpr
open MJ.Bal

mutual
  theorem length_gen : ∀ (e : Expr) (b : Nat), (gen b e).length = size e
    | .leaf n, b => by simp [gen, size]
    | .call, b => by simp [gen, size]
    | .seq x y, b => by simp [gen, size, length_gen x, length_gen y]
    | .scBool a l r, b => by simp [gen, size, length_gen l, length_gen r]; omega
    | .ifExpr c t e, b => by simp [gen, size, length_gen c, length_gen t, length_gen e]; omega
    | .compare f ops, b => by
      simp only [gen, size, List.length_append, length_gen f, length_genOps ops]
      cases isChain ops <;> simp
  theorem length_genOps : ∀ (ops : Ops) (b cl : Nat), (genOps b cl ops).length = sizeOps ops
    | .last e, b, cl => by simp [genOps, sizeOps, length_gen e]
    | .more e rest, b, cl => by simp [genOps, sizeOps, length_gen e, length_genOps rest]; omega
end

mutual
  /-- every jump of the code of `e` placed at `b` stays within the code of `e` (or any range around it) -/
  theorem gen_within : ∀ (e : Expr) (b lo hi : Nat), lo ≤ b → b + size e ≤ hi →
      ∀ i ∈ gen b e, within lo hi i = true
    | .leaf n, b, lo, hi, _, _ => by
      intro i hi'
      simp only [gen, List.mem_replicate] at hi'
      rw [hi'.2]; rfl
    | .call, b, lo, hi, _, _ => by
      intro i hi'
      simp only [gen, List.mem_singleton] at hi'
      rw [hi']; rfl
    | .seq x y, b, lo, hi, h1, h2 => by
      intro i hi'
      simp only [size] at h2
      simp only [gen, List.mem_append] at hi'
      rcases hi' with h | h
      · exact gen_within x b lo hi h1 (by omega) i h
      · exact gen_within y (b + size x) lo hi (by omega) (by omega) i h
    | .scBool a l r, b, lo, hi, h1, h2 => by
      intro i hi'
      simp only [size] at h2
      simp only [gen, List.mem_append, List.mem_singleton] at hi'
      rcases hi' with (h | h) | h
      · exact gen_within l b lo hi h1 (by omega) i h
      · subst h
        cases a <;> simp [within] <;> omega
      · exact gen_within r (b + size l + 1) lo hi (by omega) (by omega) i h
    | .ifExpr c t e, b, lo, hi, h1, h2 => by
      intro i hi'
      simp only [size] at h2
      simp only [gen, List.mem_append, List.mem_singleton] at hi'
      rcases hi' with (((h | h) | h) | h) | h
      · exact gen_within c b lo hi h1 (by omega) i h
      · subst h; simp [within]; omega
      · exact gen_within t (b + size c + 1) lo hi (by omega) (by omega) i h
      · subst h; simp [within]; omega
      · exact gen_within e (b + size c + 1 + size t + 1) lo hi (by omega) (by omega) i h
    | .compare f ops, b, lo, hi, h1, h2 => by
      intro i hi'
      simp only [size] at h2
      simp only [gen, List.mem_append] at hi'
      rcases hi' with (h | h) | h
      · exact gen_within f b lo hi h1 (by omega) i h
      · cases hc : isChain ops with
        | false =>
          cases ops with
          | last e =>
            simp only [genOps, List.mem_append, List.mem_singleton] at h
            simp only [sizeOps, hc] at h2
            rcases h with h | h
            · exact gen_within e (b + size f) lo hi (by omega) (by simp at h2; omega) i h
            · subst h; rfl
          | more e rest => simp [isChain] at hc
        | true =>
          simp only [hc] at h2
          exact genOps_within ops (b + size f) (b + size f + sizeOps ops + 1) lo hi (by omega) (by simp at h2; omega)
            (by omega) (by simp at h2; omega) i h
      · cases hc : isChain ops with
        | false => simp [hc] at h
        | true =>
          simp only [hc, if_true, List.mem_cons, List.mem_nil_iff, or_false] at h
          simp only [hc] at h2
          rcases h with h | h | h
          · subst h; simp [within]; simp at h2; omega
          · subst h; rfl
          · subst h; rfl
  theorem genOps_within : ∀ (ops : Ops) (b cl lo hi : Nat), lo ≤ b → b + sizeOps ops ≤ hi → lo ≤ cl → cl ≤ hi →
      ∀ i ∈ genOps b cl ops, within lo hi i = true
    | .last e, b, cl, lo, hi, h1, h2, _, _ => by
      intro i hi'
      simp only [sizeOps] at h2
      simp only [genOps, List.mem_append, List.mem_singleton] at hi'
      rcases hi' with h | h
      · exact gen_within e b lo hi h1 (by omega) i h
      · subst h; rfl
    | .more e rest, b, cl, lo, hi, h1, h2, h3, h4 => by
      intro i hi'
      simp only [sizeOps] at h2
      simp only [genOps, List.mem_append, List.mem_cons, List.mem_nil_iff, or_false] at hi'
      rcases hi' with (h | h | h) | h
      · exact gen_within e b lo hi h1 (by omega) i h
      · subst h; rfl
      · subst h; simp [within]; omega
      · exact genOps_within rest (b + size e + 2) cl lo hi (by omega) (by omega) h3 h4 i h
end

theorem within_flatInstr {n : Nat} {i : Instr} (h : within 0 n i = true) : MJ.BalGen.flatInstr n i = true := by
  cases i <;> simp_all [within, MJ.BalGen.flatInstr]

/-- the code of every expression tree is a `flat` block: the parser-accepted statement `.flat (gen 0 e)`
is in the fragment `compile_has_cert` covers -/
theorem gen_flat (e : Expr) (inLoop : Bool) : MJ.BalGen.ok inLoop (.flat (gen 0 e)) = true := by
  simp only [MJ.BalGen.ok, List.all_eq_true]
  intro i hi
  apply within_flatInstr
  rw [length_gen]
  exact gen_within e 0 0 (size e) (Nat.le_refl _) (by omega) i hi

end MJ.BalExpr
