import MJ.Proofs.LexerLL
/-! The Aho-Corasick path of `find_start_marker` as `syntax.rs` builds it (validated start
delimiters, pattern → marker mapping, overlapping matches ordered by their end, the
`max_pattern_len` loop) is the leftmost-longest search `findLL`. -/
namespace MJ.Lexer

/-! ### `validated_start_delims` and `pattern_to_marker` -/

theorem validatedGo_spec (items : List (List Char × Bool)) :
    ∀ (acc out : List (List Char)), validatedGo items acc = some out →
      out = acc ++ (items.filter (fun x => !x.1.isEmpty)).map (·.1) ∧
        (∀ x ∈ items, x.2 = true → x.1 ≠ []) ∧ (acc.Nodup → out.Nodup) := by
  induction items with
  | nil => intro acc out h; simp [validatedGo] at h; subst h; simp
  | cons it items ih =>
    obtain ⟨p, req⟩ := it
    intro acc out h
    simp only [validatedGo] at h
    by_cases hp : p.isEmpty = true
    · simp only [hp, if_true] at h
      cases req with
      | true => simp at h
      | false =>
        simp only [Bool.false_eq_true, if_false] at h
        obtain ⟨h1, h2, h3⟩ := ih acc out h
        refine ⟨by simp [List.filter_cons, hp, h1], ?_, h3⟩
        intro x hx hreq
        rcases List.mem_cons.1 hx with rfl | hx
        · cases hreq
        · exact h2 x hx hreq
    · simp only [hp, Bool.false_eq_true, if_false] at h
      by_cases hc : acc.contains p = true
      · exact absurd (List.contains_iff_mem.1 hc) (by simp [hc] at h; exact h.1)
      · simp only [hc, Bool.false_eq_true, if_false] at h
        obtain ⟨h1, h2, h3⟩ := ih (acc ++ [p]) out h
        have hpe : p ≠ [] := by intro h0; subst h0; simp at hp
        refine ⟨by simp [List.filter_cons, hp, h1], ?_, ?_⟩
        · intro x hx hreq
          rcases List.mem_cons.1 hx with rfl | hx
          · exact hpe
          · exact h2 x hx hreq
        · intro hnd
          apply h3
          rw [List.nodup_append]
          refine ⟨hnd, by simp, ?_⟩
          intro a ha b hb
          simp only [List.mem_singleton] at hb
          subst hb
          rintro rfl
          exact hc (List.contains_iff_mem.2 ha)

/-- what the automaton is built from: the spec-side pattern list, index ↦ marker as
    `pattern_to_marker` says, patterns non-empty and pairwise distinct -/
theorem validated_spec {d : Delims} {pats : List (List Char)} (h : validatedStartDelims d = some pats) :
    (pats.zipIdx.map fun pi => (patternToMarker d pi.2, pi.1)) = startPats d ∧ pats.Nodup ∧
      ∀ p ∈ pats, p ≠ [] := by
  obtain ⟨h1, h2, h3⟩ := validatedGo_spec _ [] pats h
  have hv : d.vs ≠ [] := h2 (d.vs, true) (by simp) rfl
  have hb : d.bs ≠ [] := h2 (d.bs, true) (by simp) rfl
  have hc : d.cs ≠ [] := h2 (d.cs, true) (by simp) rfl
  have hv' : d.vs.isEmpty = false := by simpa using hv
  have hb' : d.bs.isEmpty = false := by simpa using hb
  have hc' : d.cs.isEmpty = false := by simpa using hc
  refine ⟨?_, h3 (by simp), ?_⟩
  · rw [h1]
    unfold startPats
    cases hl : d.ls.isEmpty <;> cases hk : d.lc.isEmpty <;>
      simp [List.filter_cons, hv', hb', hc', hl, hk, patternToMarker, List.zipIdx_cons]
  · intro p hp
    rw [h1] at hp
    simp only [List.nil_append, List.mem_map, List.mem_filter] at hp
    obtain ⟨x, ⟨_, hx⟩, rfl⟩ := hp
    intro h0
    simp [h0] at hx

/-! ### the overlapping matches -/

theorem mem_matchesEndingAt {pats : List (List Char)} {rest : List Char} {e : Nat} {m : AcMatch} :
    m ∈ matchesEndingAt pats rest e ↔
      ∃ p, pats[m.idx]? = some p ∧ m.len = p.length ∧ m.start + m.len = e ∧
        startsWith p (rest.drop m.start) = true := by
  unfold matchesEndingAt
  rw [List.mem_filterMap]
  constructor
  · rintro ⟨⟨p, i⟩, hmem, hf⟩
    have hidx := List.mem_zipIdx_iff_getElem?.1 hmem
    simp only [] at hf hidx
    split at hf
    · rename_i hc
      simp only [Bool.and_eq_true, decide_eq_true_eq] at hc
      cases hf
      exact ⟨p, hidx, rfl, by simp only []; omega, hc.2⟩
    · cases hf
  · rintro ⟨p, hidx, hlen, he, hsw⟩
    refine ⟨(p, m.idx), List.mem_zipIdx_iff_getElem?.2 hidx, ?_⟩
    have h1 : p.length ≤ e := by omega
    have h2 : e - p.length = m.start := by omega
    simp only [h1, decide_true, h2, hsw, Bool.and_self, if_true]
    cases m; simp_all

theorem startsWith_length_le {p s : List Char} (h : startsWith p s = true) : p.length ≤ s.length := by
  obtain ⟨r, rfl⟩ := (startsWith_iff p s).1 h
  simp

theorem mem_acMatches {pats : List (List Char)} {rest : List Char} {m : AcMatch} :
    m ∈ acMatches pats rest ↔
      ∃ p, pats[m.idx]? = some p ∧ m.len = p.length ∧ startsWith p (rest.drop m.start) = true ∧
        m.start + m.len ≤ rest.length := by
  unfold acMatches
  rw [List.mem_flatMap]
  constructor
  · rintro ⟨e, he, hm⟩
    obtain ⟨p, h1, h2, h3, h4⟩ := mem_matchesEndingAt.1 hm
    exact ⟨p, h1, h2, h4, by have := List.mem_range.1 he; omega⟩
  · rintro ⟨p, h1, h2, h3, h4⟩
    exact ⟨m.start + m.len, List.mem_range.2 (by omega), mem_matchesEndingAt.2 ⟨p, h1, h2, rfl, h3⟩⟩

/-- matches are reported in the order in which they end -/
theorem acMatches_sorted (pats : List (List Char)) (rest : List Char) :
    (acMatches pats rest).Pairwise (fun a b => a.stop ≤ b.stop) := by
  unfold acMatches
  rw [List.pairwise_flatMap]
  constructor
  · intro e _
    have : ∀ m ∈ matchesEndingAt pats rest e, m.stop = e := by
      intro m hm
      obtain ⟨p, _, _, h3, _⟩ := mem_matchesEndingAt.1 hm
      exact h3
    generalize matchesEndingAt pats rest e = l at this
    induction l with
    | nil => exact List.Pairwise.nil
    | cons a l ih =>
      refine List.Pairwise.cons ?_ (ih (fun m hm => this m (by simp [hm])))
      intro b hb
      rw [this a (by simp), this b (by simp [hb])]
      exact Nat.le_refl _
  · refine List.Pairwise.imp ?_ (List.pairwise_lt_range (n := rest.length + 1))
    intro e1 e2 hlt x hx y hy
    obtain ⟨_, _, _, h3, _⟩ := mem_matchesEndingAt.1 hx
    obtain ⟨_, _, _, h3', _⟩ := mem_matchesEndingAt.1 hy
    unfold AcMatch.stop
    omega

/-! ### the loop -/

/-- the line statement prefix does not count here -/
def acSkip (d : Delims) (pre rest : List Char) (m : AcMatch) : Bool :=
  decide (patternToMarker d m.idx = .lineStmt) && !lineStartP ((rest.take m.start).reverse ++ pre)

def bestOf (d : Delims) (m : AcMatch) : Found := some (m.start, patternToMarker d m.idx, m.len)

theorem acPick_eq (d : Delims) (pre rest : List Char) (best : Found) (m : AcMatch) :
    acPick d pre rest best m = if acSkip d pre rest m then best else bestOf d m := by
  simp only [acPick, acSkip, bestOf]
  rfl

theorem acLoop_cons_none (d : Delims) (maxLen : Nat) (pre rest : List Char) (m : AcMatch) (ms : List AcMatch) :
    acLoop d maxLen pre rest none (m :: ms) =
      if acSkip d pre rest m then acLoop d maxLen pre rest none ms
      else acLoop d maxLen pre rest (bestOf d m) ms := by
  rw [acLoop, acPick_eq]
  cases acSkip d pre rest m <;> simp

theorem acLoop_cons_some (d : Delims) (maxLen : Nat) (pre rest : List Char) (x m : AcMatch) (ms : List AcMatch) :
    acLoop d maxLen pre rest (bestOf d x) (m :: ms) =
      if m.stop > x.start + maxLen then bestOf d x
      else if m.start > x.start then acLoop d maxLen pre rest (bestOf d x) ms
      else if acSkip d pre rest m then acLoop d maxLen pre rest (bestOf d x) ms
      else acLoop d maxLen pre rest (bestOf d m) ms := by
  simp only [bestOf]
  rw [acLoop, acPick_eq]
  simp only [bestOf]
  cases acSkip d pre rest m <;> simp

/-- facts about the target `T` (the leftmost, then longest, match that counts) relative to the
    matches that count (`acSkip = false`) among the occurrences `Occ` -/
structure Target (d : Delims) (maxLen : Nat) (pre rest : List Char) (Occ : AcMatch → Prop) (T : AcMatch) : Prop where
  counts : acSkip d pre rest T = false
  lenT : T.len ≤ maxLen
  leftmost : ∀ m, Occ m → acSkip d pre rest m = false → T.start ≤ m.start
  longest : ∀ m, Occ m → acSkip d pre rest m = false → m.start = T.start → m.len ≤ T.len
  same : ∀ m, Occ m → m.start = T.start → m.len = T.len → m.idx = T.idx

theorem acLoop_after {d : Delims} {maxLen : Nat} {pre rest : List Char} {Occ : AcMatch → Prop} {T : AcMatch}
    (hT : Target d maxLen pre rest Occ T) (ms : List AcMatch)
    (hms : ∀ m ∈ ms, Occ m ∧ T.stop ≤ m.stop) :
    acLoop d maxLen pre rest (bestOf d T) ms = bestOf d T := by
  induction ms with
  | nil => rfl
  | cons m ms ih =>
    have ih' := ih (fun x hx => hms x (by simp [hx]))
    obtain ⟨hocc, hstop⟩ := hms m (by simp)
    rw [acLoop_cons_some]
    split
    · rfl
    · split
      · exact ih'
      · split
        · exact ih'
        · rename_i h1 h2 h3
          have hc : acSkip d pre rest m = false := by simpa using h3
          have hs : m.start = T.start := by
            have := hT.leftmost m hocc hc; omega
          have hl : m.len = T.len := by
            have := hT.longest m hocc hc hs
            unfold AcMatch.stop at hstop; omega
          have hi := hT.same m hocc hs hl
          have : bestOf d m = bestOf d T := by simp [bestOf, hs, hl, hi]
          rw [this]; exact ih'

theorem acLoop_before {d : Delims} {maxLen : Nat} {pre rest : List Char} {Occ : AcMatch → Prop} {T : AcMatch}
    (hT : Target d maxLen pre rest Occ T) (ms2 : List AcMatch) (ms1 : List AcMatch) :
    ∀ (best : Found), (best = none ∨ ∃ x, Occ x ∧ acSkip d pre rest x = false ∧ best = bestOf d x) →
      (∀ m ∈ ms1, Occ m ∧ m.stop ≤ T.stop) →
      acLoop d maxLen pre rest best (ms1 ++ T :: ms2) = acLoop d maxLen pre rest (bestOf d T) ms2 := by
  induction ms1 with
  | nil =>
    intro best hbest _
    simp only [List.nil_append]
    rcases hbest with rfl | ⟨x, hox, hcx, rfl⟩
    · rw [acLoop_cons_none, hT.counts]; rfl
    · rw [acLoop_cons_some]
      have h1 := hT.leftmost x hox hcx
      have h2 := hT.lenT
      rw [if_neg (by unfold AcMatch.stop; omega), if_neg (by omega), hT.counts]; rfl
  | cons m ms1 ih =>
    intro best hbest hms
    obtain ⟨hocc, hstop⟩ := hms m (by simp)
    have hms' : ∀ y ∈ ms1, Occ y ∧ y.stop ≤ T.stop := fun y hy => hms y (by simp [hy])
    simp only [List.cons_append]
    rcases hbest with rfl | ⟨x, hox, hcx, rfl⟩
    · rw [acLoop_cons_none]
      split
      · exact ih none (Or.inl rfl) hms'
      · rename_i h
        exact ih _ (Or.inr ⟨m, hocc, by simpa using h, rfl⟩) hms'
    · rw [acLoop_cons_some]
      have h1 := hT.leftmost x hox hcx
      have h2 := hT.lenT
      rw [if_neg (by unfold AcMatch.stop at *; omega)]
      split
      · exact ih _ (Or.inr ⟨x, hox, hcx, rfl⟩) hms'
      · split
        · exact ih _ (Or.inr ⟨x, hox, hcx, rfl⟩) hms'
        · rename_i h
          exact ih _ (Or.inr ⟨m, hocc, by simpa using h, rfl⟩) hms'

/-- nothing counts: the loop finds nothing -/
theorem acLoop_none {d : Delims} {maxLen : Nat} {pre rest : List Char} (ms : List AcMatch)
    (h : ∀ m ∈ ms, acSkip d pre rest m = true) : acLoop d maxLen pre rest none ms = none := by
  induction ms with
  | nil => rfl
  | cons m ms ih =>
    rw [acLoop_cons_none, h m (by simp), if_pos rfl]
    exact ih (fun x hx => h x (by simp [hx]))

/-! ### the automaton path is the leftmost-longest search -/

theorem le_foldl_max (l : List (List Char)) (a : Nat) :
    a ≤ l.foldl (fun a p => max a p.length) a ∧ ∀ p ∈ l, p.length ≤ l.foldl (fun a p => max a p.length) a := by
  induction l generalizing a with
  | nil => simp
  | cons x l ih =>
    simp only [List.foldl_cons]
    obtain ⟨h1, h2⟩ := ih (max a x.length)
    refine ⟨by omega, ?_⟩
    intro p hp
    rcases List.mem_cons.1 hp with rfl | hp
    · omega
    · exact h2 p hp

theorem length_le_maxPatternLen {pats : List (List Char)} {p : List Char} (h : p ∈ pats) :
    p.length ≤ maxPatternLen pats := (le_foldl_max pats 0).2 p h

/-- index ↦ (marker, pattern) and back -/
theorem startPats_iff {d : Delims} {pats : List (List Char)} (hv : validatedStartDelims d = some pats)
    (mk : Marker) (p : List Char) :
    (mk, p) ∈ startPats d ↔ ∃ i, pats[i]? = some p ∧ patternToMarker d i = mk := by
  rw [← (validated_spec hv).1, List.mem_map]
  constructor
  · rintro ⟨⟨p', i⟩, hmem, heq⟩
    simp only [Prod.mk.injEq] at heq
    obtain ⟨rfl, rfl⟩ := heq
    exact ⟨i, List.mem_zipIdx_iff_getElem?.1 hmem, rfl⟩
  · rintro ⟨i, hi, rfl⟩
    exact ⟨(p, i), List.mem_zipIdx_iff_getElem?.2 hi, rfl⟩

/-- a match that counts is a candidate of the specification at its start offset -/
theorem candidate_of_match {d : Delims} {pats : List (List Char)} (hv : validatedStartDelims d = some pats)
    (pre rest : List Char) (m : AcMatch) (hm : m ∈ acMatches pats rest) (hc : acSkip d pre rest m = false) :
    (patternToMarker d m.idx, m.len) ∈ candidates d (preAt pre rest m.start) (rest.drop m.start) := by
  obtain ⟨p, h1, h2, h3, _⟩ := mem_acMatches.1 hm
  rw [mem_candidates]
  refine ⟨p, (startPats_iff hv _ p).2 ⟨m.idx, h1, rfl⟩, ?_, h2⟩
  simp only [patOk, h3, Bool.true_and, Bool.or_eq_true, bne_iff_ne, ne_eq]
  simp only [acSkip, Bool.and_eq_false_iff, decide_eq_false_iff_not, Bool.not_eq_false'] at hc
  exact hc

/-- What the proof uses about `aho_corasick::find_overlapping` (validated against the real automaton
    by the `kac` stream, hook `start_marker_matches`): the reported matches are exactly the
    occurrences of the patterns in the haystack (as a set: nothing missed, nothing invented; the
    multiplicity and the order among matches that end at the same offset are free) and they come in
    the order of their end offsets. -/
structure AcSpec (pats : List (List Char)) (rest : List Char) (ms : List AcMatch) : Prop where
  complete : ∀ m, m ∈ ms ↔ m ∈ acMatches pats rest
  byEnd : ms.Pairwise (fun a b => a.stop ≤ b.stop)

theorem acSpec_acMatches (pats : List (List Char)) (rest : List Char) : AcSpec pats rest (acMatches pats rest) :=
  ⟨fun _ => Iff.rfl, acMatches_sorted pats rest⟩

theorem byEndB_iff (ms : List AcMatch) : byEndB ms = true ↔ ms.Pairwise (fun a b => a.stop ≤ b.stop) := by
  induction ms with
  | nil => simp [byEndB]
  | cons a r ih => simp [byEndB, List.pairwise_cons, ih, List.all_eq_true]

/-- `acSpecB` decides `AcSpec` -/
theorem acSpecB_iff (pats : List (List Char)) (rest : List Char) (ms : List AcMatch) :
    acSpecB pats rest ms = true ↔ AcSpec pats rest ms := by
  simp only [acSpecB, Bool.and_eq_true, List.all_eq_true, List.contains_iff_mem, byEndB_iff]
  constructor
  · rintro ⟨⟨h1, h2⟩, h3⟩
    exact ⟨fun m => ⟨h1 m, h2 m⟩, h3⟩
  · rintro ⟨h1, h2⟩
    exact ⟨⟨fun m hm => (h1 m).1 hm, fun m hm => (h1 m).2 hm⟩, h2⟩

/-- the loop of `find_start_marker` over ANY match list that meets `AcSpec` is the leftmost-longest
    search -/
theorem acLoop_eq_findLL_of_spec {d : Delims} {pats : List (List Char)} (hv : validatedStartDelims d = some pats)
    (pre rest : List Char) (ms : List AcMatch) (hspec : AcSpec pats rest ms) :
    acLoop d (maxPatternLen pats) pre rest none ms = findLL d pre rest := by
  have hsub : ∀ m, m ∈ ms → m ∈ acMatches pats rest := fun m h => (hspec.complete m).1 h
  have hll := findLL_leftmostLongest d pre rest
  obtain ⟨_, hnd, hne⟩ := validated_spec hv
  cases hf : findLL d pre rest with
  | none =>
    rw [hf] at hll
    apply acLoop_none
    intro m hm'
    have hm := hsub m hm'
    cases hc : acSkip d pre rest m with
    | true => rfl
    | false =>
      have hcand := candidate_of_match hv pre rest m hm hc
      obtain ⟨p, h1, h2, h3, h4⟩ := mem_acMatches.1 hm
      have hp : p ≠ [] := hne p (List.mem_of_getElem? h1)
      have hlt : m.start < rest.length := by
        have : 0 < p.length := List.length_pos_iff.2 hp
        omega
      have := hll m.start hlt
      unfold matchAt at this
      rw [(longest_none_iff _).1 this] at hcand
      cases hcand
  | some x =>
    obtain ⟨s, mk, n⟩ := x
    rw [hf] at hll
    obtain ⟨hs, hmatch, hleft⟩ := hll
    unfold matchAt at hmatch
    obtain ⟨hmem, hmax⟩ := longest_mem hmatch
    obtain ⟨p, hp1, hp2, rfl⟩ := mem_candidates.1 hmem
    obtain ⟨i, hi, hmk⟩ := (startPats_iff hv mk p).1 hp1
    simp only [patOk, Bool.and_eq_true, Bool.or_eq_true, bne_iff_ne, ne_eq] at hp2
    let T : AcMatch := ⟨s, i, p.length⟩
    have hTacc : T ∈ acMatches pats rest := by
      refine mem_acMatches.2 ⟨p, hi, rfl, hp2.1, ?_⟩
      have := startsWith_length_le hp2.1
      simp only [List.length_drop] at this
      show s + p.length ≤ rest.length
      omega
    have hTmem : T ∈ ms := (hspec.complete T).2 hTacc
    have hT : Target d (maxPatternLen pats) pre rest (· ∈ acMatches pats rest) T := by
      refine ⟨?_, length_le_maxPatternLen (List.mem_of_getElem? hi), ?_, ?_, ?_⟩
      · simp only [acSkip, Bool.and_eq_false_iff, decide_eq_false_iff_not, Bool.not_eq_false']
        rw [hmk]; exact hp2.2
      · intro m hm hc
        have hcand := candidate_of_match hv pre rest m hm hc
        rcases Nat.lt_or_ge m.start s with hlt | hge
        · have := hleft m.start hlt
          unfold matchAt at this
          rw [(longest_none_iff _).1 this] at hcand
          cases hcand
        · exact hge
      · intro m hm hc hst
        have hcand := candidate_of_match hv pre rest m hm hc
        rw [hst] at hcand
        exact hmax _ hcand
      · intro m hm hst hlen
        obtain ⟨p', h1, h2, h3, _⟩ := mem_acMatches.1 hm
        have hpp : p' = p := by
          apply startsWith_eq_of_length_eq h3 (by rw [hst]; exact hp2.1)
          rw [← h2, hlen]
        subst hpp
        have hlt : m.idx < pats.length := by
          rcases List.getElem?_eq_some_iff.1 h1 with ⟨h, _⟩; exact h
        exact (List.getElem?_inj hlt hnd).1 (by rw [h1, hi])
    obtain ⟨ms1, ms2, hsplit⟩ := List.append_of_mem hTmem
    have hsorted := hspec.byEnd
    rw [hsplit, List.pairwise_append, List.pairwise_cons] at hsorted
    obtain ⟨_, ⟨hafter, _⟩, hbefore⟩ := hsorted
    have hin1 : ∀ m ∈ ms1, m ∈ acMatches pats rest := fun m hm => hsub m (by rw [hsplit]; simp [hm])
    have hin2 : ∀ m ∈ ms2, m ∈ acMatches pats rest := fun m hm => hsub m (by rw [hsplit]; simp [hm])
    rw [hsplit, acLoop_before hT ms2 ms1 none (Or.inl rfl)
      (fun m hm => ⟨hin1 m hm, hbefore m hm T (by simp)⟩),
      acLoop_after hT ms2 (fun m hm => ⟨hin2 m hm, hafter m hm⟩)]
    simp [bestOf, T, hmk]

theorem acFind_eq_findLL {d : Delims} {pats : List (List Char)} (hv : validatedStartDelims d = some pats) :
    acFind d = findLL d := by
  funext pre rest
  simp only [acFind, hv]
  exact acLoop_eq_findLL_of_spec hv pre rest _ (acSpec_acMatches pats rest)

/-- for every delimiter set that `SyntaxConfigBuilder::build` accepts, the search the tokenizer
    uses is the leftmost-longest search -/
theorem findStart_eq_findLL_of_validated {d : Delims} {pats : List (List Char)}
    (hv : validatedStartDelims d = some pats) : findStart d = findLL d := by
  by_cases h : d = defaultDelims
  · subst h; exact findStart_default
  · simp only [findStart, h, if_false]; exact acFind_eq_findLL hv

theorem validatedGo_some (items : List (List Char × Bool)) :
    ∀ acc, (∀ x ∈ items, x.2 = true → x.1 ≠ []) →
      (acc ++ (items.filter (fun x => !x.1.isEmpty)).map (·.1)).Nodup →
      validatedGo items acc = some (acc ++ (items.filter (fun x => !x.1.isEmpty)).map (·.1)) := by
  induction items with
  | nil => intro acc _ _; simp [validatedGo]
  | cons it items ih =>
    obtain ⟨p, req⟩ := it
    intro acc hreq hnd
    simp only [validatedGo]
    by_cases hp : p.isEmpty = true
    · have hfalse : req = false := by
        cases req with
        | false => rfl
        | true =>
          have := hreq (p, true) (by simp) rfl
          simp only [List.isEmpty_iff] at hp
          exact absurd hp this
      subst hfalse
      simp only [hp, if_true, Bool.false_eq_true, if_false]
      have := ih acc (fun x hx => hreq x (by simp [hx])) (by simpa [List.filter_cons, hp] using hnd)
      simpa [List.filter_cons, hp] using this
    · simp only [hp, Bool.false_eq_true, if_false]
      have hnd' : (acc ++ p :: (items.filter (fun x => !x.1.isEmpty)).map (·.1)).Nodup := by
        simpa [List.filter_cons, hp] using hnd
      have hnc : acc.contains p = false := by
        cases hc : acc.contains p with
        | false => rfl
        | true =>
          have hm := List.contains_iff_mem.1 hc
          rw [List.nodup_append] at hnd'
          exact absurd rfl (hnd'.2.2 p hm p (by simp))
      simp only [hnc, Bool.false_eq_true, if_false]
      have := ih (acc ++ [p]) (fun x hx => hreq x (by simp [hx])) (by simpa [List.append_assoc] using hnd')
      simpa [List.filter_cons, hp, List.append_assoc] using this

/-- `build` accepts every delimiter set that the general theorems cover -/
theorem validated_of_good {d : Delims} (g : Good d) :
    validatedStartDelims d = some ((startPats d).map (·.2)) := by
  obtain ⟨_, _, hv, _⟩ := startOk_cons g.vs
  obtain ⟨_, _, hb, _⟩ := startOk_cons g.bs
  obtain ⟨_, _, hc, _⟩ := startOk_cons g.cs
  have h1 : d.vs.isEmpty = false := by simp [hv]
  have h2 : d.bs.isEmpty = false := by simp [hb]
  have h3 : d.cs.isEmpty = false := by simp [hc]
  have hf : ([(d.vs, true), (d.bs, true), (d.cs, true), (d.ls, false), (d.lc, false)].filter
      (fun x => !x.1.isEmpty)).map (·.1) = (startPats d).map (·.2) := by
    unfold startPats
    cases hl : d.ls.isEmpty <;> cases hk : d.lc.isEmpty <;> simp [List.filter_cons, h1, h2, h3, hl, hk]
  have := validatedGo_some [(d.vs, true), (d.bs, true), (d.cs, true), (d.ls, false), (d.lc, false)] []
    (by
      intro x hx hreq
      simp only [List.mem_cons, List.not_mem_nil, or_false] at hx
      rcases hx with rfl | rfl | rfl | rfl | rfl
      · simp [hv]
      · simp [hb]
      · simp [hc]
      · cases hreq
      · cases hreq)
    (by rw [List.nil_append, hf]; exact g.nodup)
  rw [List.nil_append, hf] at this
  exact this

end MJ.Lexer
