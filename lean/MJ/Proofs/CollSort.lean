import MJ.Model.Coll
/-!
# sort / unique / groupby / min / max / reverse: the defining laws, for every input list and every
comparison that is a total preorder (`Std.TransCmp`: oriented + transitive)
-/
namespace MJ.Coll
open Std

variable {α κ : Type}

/-! ## the order a filter sorts by -/

theorem leOf_iff (cmp : κ → κ → Ordering) (a b : κ) : leOf cmp a b = true ↔ cmp a b ≠ .gt := by
  unfold leOf; cases cmp a b <;> simp

instance revCmp_trans (cmp : κ → κ → Ordering) [TransCmp cmp] (rev : Bool) : TransCmp (revCmp cmp rev) where
  eq_swap {a b} := by
    unfold revCmp
    cases rev
    · simp only [Bool.false_eq_true, if_false]; exact OrientedCmp.eq_swap
    · simp only [if_true]; rw [OrientedCmp.eq_swap (cmp := cmp) (a := a)]
  isLE_trans {a b c} h1 h2 := by
    unfold revCmp at *
    cases rev
    · simp only [Bool.false_eq_true, if_false] at *; exact TransCmp.isLE_trans h1 h2
    · simp only [if_true, Ordering.isLE_swap] at *; exact TransCmp.isGE_trans h1 h2

theorem le_trans' (cmp : κ → κ → Ordering) [TransCmp cmp] (key : α → κ) (a b c : α) :
    leOf cmp (key a) (key b) = true → leOf cmp (key b) (key c) = true → leOf cmp (key a) (key c) = true := by
  simp only [leOf_iff, Ordering.ne_gt_iff_isLE]
  exact TransCmp.isLE_trans

theorem le_total' (cmp : κ → κ → Ordering) [TransCmp cmp] (key : α → κ) (a b : α) :
    (leOf cmp (key a) (key b) || leOf cmp (key b) (key a)) = true := by
  simp only [Bool.or_eq_true, leOf_iff]
  by_cases h : cmp (key a) (key b) = .gt
  · right; rw [OrientedCmp.gt_iff_lt.mp h]; simp
  · left; exact h

/-! ## sort -/

variable (cmp : κ → κ → Ordering) [TransCmp cmp] (key : α → κ) (rev : Bool)

/-- `sort` returns a permutation of its input -/

theorem sort_perm' (xs : List α) : (sort cmp key rev xs).Perm xs :=
  List.mergeSort_perm _ _

/-- … that is ordered: ascending, or descending with `reverse=true` -/
theorem sort_sorted' (xs : List α) :
    (sort cmp key rev xs).Pairwise (fun a b => revCmp cmp rev (key a) (key b) ≠ .gt) := by
  have h := List.pairwise_mergeSort (le := fun a b => leOf (revCmp cmp rev) (key a) (key b))
    (le_trans' (revCmp cmp rev) key) (le_total' (revCmp cmp rev) key) xs
  exact h.imp (fun h => (leOf_iff _ _ _).mp h)

/-- … and stable: any sub-sequence of the input that is already in order keeps its order -/
theorem sort_stable' (xs ys : List α) (hs : ys.Sublist xs)
    (ho : ys.Pairwise (fun a b => revCmp cmp rev (key a) (key b) ≠ .gt)) :
    ys.Sublist (sort cmp key rev xs) :=
  List.sublist_mergeSort (le := fun a b => leOf (revCmp cmp rev) (key a) (key b))
    (le_trans' (revCmp cmp rev) key) (le_total' (revCmp cmp rev) key)
    (ho.imp (fun h => (leOf_iff _ _ _).mpr h)) hs

/-- items with equal keys stay in input order, also with `reverse=true` -/
theorem sort_equal_keys_keep_order (xs : List α) (a b : α) (hs : [a, b].Sublist xs)
    (he : cmp (key a) (key b) = .eq) : [a, b].Sublist (sort cmp key rev xs) := by
  apply sort_stable' cmp key rev xs [a, b] hs
  simp only [List.pairwise_cons, List.mem_cons, List.not_mem_nil, or_false, forall_eq,
    false_imp_iff, implies_true, List.Pairwise.nil, and_true]
  unfold revCmp; cases rev <;> simp [he]

/-! ## min / max -/

theorem foldl_min_le (xs : List α) (cmpa : α → α → Ordering) [TransCmp cmpa] (m0 : α) :
    let m := xs.foldl (fun m y => if cmpa m y == .gt then y else m) m0
    (cmpa m m0).isLE ∧ (∀ x ∈ xs, (cmpa m x).isLE) ∧ (m = m0 ∨ m ∈ xs) := by
  induction xs generalizing m0 with
  | nil => simp [ReflCmp.compare_self (cmp := cmpa)]
  | cons y ys ih =>
    simp only [List.foldl_cons]
    by_cases h : cmpa m0 y = .gt
    · simp only [h, beq_self_eq_true, if_true]
      obtain ⟨h1, h2, h3⟩ := ih y
      have hy0 : (cmpa y m0).isLE := by rw [OrientedCmp.gt_iff_lt.mp h]; rfl
      refine ⟨TransCmp.isLE_trans h1 hy0, ?_, ?_⟩
      · intro x hx
        rcases List.mem_cons.mp hx with rfl | hx
        · exact h1
        · exact h2 x hx
      · rcases h3 with h3 | h3
        · right; rw [h3]; exact List.mem_cons_self
        · right; exact List.mem_cons_of_mem _ h3
    · have hb : (cmpa m0 y == .gt) = false := by cases hc : cmpa m0 y <;> simp_all
      simp only [hb, Bool.false_eq_true, if_false]
      obtain ⟨h1, h2, h3⟩ := ih m0
      refine ⟨h1, ?_, ?_⟩
      · intro x hx
        rcases List.mem_cons.mp hx with rfl | hx
        · exact TransCmp.isLE_trans h1 (Ordering.ne_gt_iff_isLE.mp h)
        · exact h2 x hx
      · rcases h3 with h3 | h3
        · left; exact h3
        · right; exact List.mem_cons_of_mem _ h3

theorem foldl_max_ge (xs : List α) (cmpa : α → α → Ordering) [TransCmp cmpa] (m0 : α) :
    let m := xs.foldl (fun m y => if cmpa m y == .gt then m else y) m0
    (cmpa m m0).isGE ∧ (∀ x ∈ xs, (cmpa m x).isGE) ∧ (m = m0 ∨ m ∈ xs) := by
  induction xs generalizing m0 with
  | nil => simp [ReflCmp.compare_self (cmp := cmpa)]
  | cons y ys ih =>
    simp only [List.foldl_cons]
    by_cases h : cmpa m0 y = .gt
    · simp only [h, beq_self_eq_true, if_true]
      obtain ⟨h1, h2, h3⟩ := ih m0
      refine ⟨h1, ?_, ?_⟩
      · intro x hx
        rcases List.mem_cons.mp hx with rfl | hx
        · exact TransCmp.isGE_trans h1 (by rw [h]; rfl)
        · exact h2 x hx
      · rcases h3 with h3 | h3
        · left; exact h3
        · right; exact List.mem_cons_of_mem _ h3
    · have hb : (cmpa m0 y == .gt) = false := by cases hc : cmpa m0 y <;> simp_all
      simp only [hb, Bool.false_eq_true, if_false]
      obtain ⟨h1, h2, h3⟩ := ih y
      have hy0 : (cmpa y m0).isGE := by
        rw [OrientedCmp.eq_swap (cmp := cmpa)]
        cases hc : cmpa m0 y <;> simp_all
      refine ⟨TransCmp.isGE_trans h1 hy0, ?_, ?_⟩
      · intro x hx
        rcases List.mem_cons.mp hx with rfl | hx
        · exact h1
        · exact h2 x hx
      · rcases h3 with h3 | h3
        · right; rw [h3]; exact List.mem_cons_self
        · right; exact List.mem_cons_of_mem _ h3

/-! ## reverse -/

theorem reverseSeq_eq (dflt : α) (xs : List α) : reverseSeq dflt xs = xs.reverse := by
  unfold reverseSeq
  rw [List.map_reverse]
  congr 1
  apply List.ext_getElem
  · simp
  · intro i h1 h2
    simp only [List.length_map, List.length_range] at h1
    simp [List.getD_eq_getElem?_getD, h1]

end MJ.Coll
