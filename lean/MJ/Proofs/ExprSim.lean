import MJ.Proofs.VmSim
/-!
# Expressions compile correctly (C03 stage 3)

By induction on the fuel of the reference evaluation: the model VM, running the code that the model
code generator emits for a `simpleExpr`, pushes the value the reference semantics assigns to it —
including constant folding, short-circuit `and` / `or`, conditional expressions, filters, tests,
attribute / item access, list and map literals.
-/
namespace MJ.Vm
open MJ.Eval MJ.Compile

theorem At.cast {C b b' L} (h : At C b L) (hb : b = b') : At C b' L := by subst hb; exact h

theorem evalExpr_succ_of_ok {n ctx heap stack e v} (h : evalExpr n ctx heap stack e = .ok v) : ∃ m, n = m + 1 := by
  cases n with
  | zero => simp [evalExpr] at h
  | succ m => exact ⟨m, rfl⟩

/-- unary instruction after the code of a sub-expression -/
theorem sim_unary {n : Nat} (ih : SimExpr n) {x ctx heap stack w} (hx : evalExpr n ctx heap stack x = .ok w)
    (hsx : simpleExpr x = true) {C base a s} {i : Instr} {v : Val}
    (hAt : At C base ((relExpr x base a).1 ++ [i])) (hoof : (relExpr x base a).2.oof = false)
    (hpc : s.pc = base) (henv : EnvRel ctx heap stack s.frames)
    (hstep : ∀ s1 : VmState, s1.stack = w :: s.stack →
      MJ.Vm.step ctx i s1 = .ok { s1 with pc := s1.pc + 1, stack := v :: s.stack }) :
    Reach ctx C s { s with pc := base + ((relExpr x base a).1 ++ [i]).length, stack := v :: s.stack } := by
  have r1 := ih x ctx heap stack w hx hsx C base a s hAt.left hoof hpc henv
  refine r1.trans (Reach.one (i := i) ?_ ?_)
  · simpa using hAt.right.head
  · rw [hstep _ rfl]; simp [Nat.add_assoc]


/-- the value of a strict binary operator -/
def binVal (op : BinOp) (a b : Val) : Res Val :=
  match op with
  | .concat => .ok (.str (render a ++ render b))
  | .eq => (compareOp .eq a b).map .bool
  | .ne => (compareOp .ne a b).map .bool
  | .lt => (compareOp .lt a b).map .bool
  | .le => (compareOp .le a b).map .bool
  | .gt => (compareOp .gt a b).map .bool
  | .ge => (compareOp .ge a b).map .bool
  | .isin => (compareOp .isin a b).map .bool
  | op => arith op a b

theorem evalExpr_binop {m ctx heap stack op l r} (h1 : op ≠ .and) (h2 : op ≠ .or) :
    evalExpr (m + 1) ctx heap stack (.binop op l r) =
      (evalExpr m ctx heap stack l).bind fun a => (evalExpr m ctx heap stack r).bind fun b => binVal op a b := by
  cases op <;> simp [evalExpr, bind, Except.bind, binVal] at h1 h2 ⊢ <;> rfl

theorem step_binInstr {ctx op a b rest v} {s : VmState} (h1 : op ≠ .and) (h2 : op ≠ .or)
    (hs : s.stack = b :: a :: rest) (hv : binVal op a b = .ok v) :
    MJ.Vm.step ctx (binInstr op) s = .ok { s with pc := s.pc + 1, stack := v :: rest } := by
  cases op <;> simp [binInstr, MJ.Vm.step, binArith, binCmp, hs, binVal, compareOp] at h1 h2 hv ⊢ <;>
    first
    | (simp [hv, Except.map]; done)
    | (simp [Except.map] at hv; exact hv)
    | (cases hc : contains b a <;> simp [hc, Except.map] at hv ⊢ <;> simp [hv]; done)
    | (subst hv; rfl)


def SimList (n : Nat) : Prop :=
  ∀ es ctx heap stack vs, evalList n ctx heap stack es = .ok vs → simpleList es = true →
    ∀ C base a s, At C base (relList es base a).1 → (relList es base a).2.oof = false → s.pc = base →
      EnvRel ctx heap stack s.frames →
      Reach ctx C s { s with pc := base + (relList es base a).1.length, stack := vs.reverse ++ s.stack }

def SimArgs (n : Nat) : Prop :=
  ∀ args ctx heap stack as, evalArgs n ctx heap stack args = .ok as → simpleArgs args = true →
    ∀ C base a s, At C base (relArgs args base a).1 → (relArgs args base a).2.oof = false → s.pc = base →
      EnvRel ctx heap stack s.frames →
      Reach ctx C s { s with pc := base + (relArgs args base a).1.length,
                             stack := (as.map (·.2)).reverse ++ s.stack }

def flat : List (Val × Val) → List Val
  | [] => []
  | (k, v) :: rest => k :: v :: flat rest

def SimPairs (n : Nat) : Prop :=
  ∀ kvs ctx heap stack ps, evalPairs n ctx heap stack kvs = .ok ps → simplePairs kvs = true →
    ∀ C base a s, At C base (relPairs kvs base a).1 → (relPairs kvs base a).2.oof = false → s.pc = base →
      EnvRel ctx heap stack s.frames →
      Reach ctx C s { s with pc := base + (relPairs kvs base a).1.length, stack := (flat ps).reverse ++ s.stack }

theorem sim_list_step {n} (ihE : SimExpr n) (ihL : SimList n) : SimList (n + 1) := by
  intro es ctx heap stack vs hev hs C base a s hAt hoof hpc henv
  cases es with
  | nil =>
    simp [evalList] at hev; subst hev
    simp [relList]; rw [← hpc]; exact Reach.refl _
  | cons e rest =>
    simp only [evalList, bind, Except.bind] at hev
    split at hev
    · simp at hev
    · rename_i v hv
      split at hev
      · simp at hev
      · rename_i ws hws
        simp at hev; subst hev
        have hs' : simpleExpr e = true ∧ simpleList rest = true := by simpa [simpleList] using hs
        simp only [relList] at hAt hoof ⊢
        have ho1 : (relExpr e base a).2.oof = false := by
          cases h : (relExpr e base a).2.oof with
          | false => rfl
          | true => rw [relList_oof_mono rest _ _ h] at hoof; cases hoof
        have r1 := ihE e ctx heap stack v hv hs'.1 C base a s hAt.left ho1 hpc henv
        have r2 := ihL rest ctx heap stack ws hws hs'.2 C (base + (relExpr e base a).1.length) (relExpr e base a).2
          { s with pc := base + (relExpr e base a).1.length, stack := v :: s.stack } hAt.right hoof rfl henv
        refine r1.trans ?_
        simpa [Nat.add_assoc] using r2


theorem oof_false_of_relArgs {args b a} (h : (relArgs args b a).2.oof = false) : a.oof = false := by
  cases ha : a.oof with
  | false => rfl
  | true => rw [relArgs_oof_mono args b a ha] at h; cases h

theorem oof_false_of_relPairs {kvs b a} (h : (relPairs kvs b a).2.oof = false) : a.oof = false := by
  cases ha : a.oof with
  | false => rfl
  | true => rw [relPairs_oof_mono kvs b a ha] at h; cases h

theorem oof_false_of_relList {es b a} (h : (relList es b a).2.oof = false) : a.oof = false := by
  cases ha : a.oof with
  | false => rfl
  | true => rw [relList_oof_mono es b a ha] at h; cases h

theorem sim_args_step {n} (ihE : SimExpr n) (ihA : SimArgs n) : SimArgs (n + 1) := by
  intro args ctx heap stack as hev hs C base a s hAt hoof hpc henv
  cases args with
  | nil =>
    simp [evalArgs] at hev; subst hev
    simp [relArgs]; rw [← hpc]; exact Reach.refl _
  | cons arg rest =>
    obtain ⟨k, e⟩ := arg
    cases k with
    | some k => simp [simpleArgs] at hs
    | none =>
      simp only [evalArgs, bind, Except.bind] at hev
      split at hev
      · simp at hev
      · rename_i v hv
        split at hev
        · simp at hev
        · rename_i ws hws
          simp at hev; subst hev
          have hs' : simpleExpr e = true ∧ simpleArgs rest = true := by simpa [simpleArgs] using hs
          simp only [relArgs] at hAt hoof ⊢
          have ho1 := oof_false_of_relArgs hoof
          have r1 := ihE e ctx heap stack v hv hs'.1 C base a s hAt.left ho1 hpc henv
          have r2 := ihA rest ctx heap stack ws hws hs'.2 C (base + (relExpr e base a).1.length) (relExpr e base a).2
            { s with pc := base + (relExpr e base a).1.length, stack := v :: s.stack } hAt.right hoof rfl henv
          refine r1.trans ?_
          simpa [Nat.add_assoc] using r2

theorem sim_pairs_step {n} (ihE : SimExpr n) (ihP : SimPairs n) : SimPairs (n + 1) := by
  intro kvs ctx heap stack ps hev hs C base a s hAt hoof hpc henv
  cases kvs with
  | nil =>
    simp [evalPairs] at hev; subst hev
    simp [relPairs, flat]; rw [← hpc]; exact Reach.refl _
  | cons kv rest =>
    obtain ⟨k, e⟩ := kv
    simp only [evalPairs, bind, Except.bind] at hev
    split at hev
    · simp at hev
    · rename_i kv hkv
      split at hev
      · simp at hev
      · rename_i v hv
        split at hev
        · simp at hev
        · rename_i ws hws
          simp at hev; subst hev
          have hs' : (simpleExpr k = true ∧ simpleExpr e = true) ∧ simplePairs rest = true := by
            simpa [simplePairs] using hs
          simp only [relPairs] at hAt hoof ⊢
          have ho2 := oof_false_of_relPairs hoof
          have ho1 := oof_false_of_relExpr ho2
          have r1 := ihE k ctx heap stack kv hkv hs'.1.1 C base a s hAt.left.left ho1 hpc henv
          have r2 := ihE e ctx heap stack v hv hs'.1.2 C (base + (relExpr k base a).1.length) (relExpr k base a).2
            { s with pc := base + (relExpr k base a).1.length, stack := kv :: s.stack } hAt.left.right ho2 rfl henv
          have r3 := ihP rest ctx heap stack ws hws hs'.2 C
            (base + (relExpr k base a).1.length + (relExpr e (base + (relExpr k base a).1.length) (relExpr k base a).2).1.length)
            (relExpr e (base + (relExpr k base a).1.length) (relExpr k base a).2).2
            { s with pc := base + (relExpr k base a).1.length + (relExpr e (base + (relExpr k base a).1.length) (relExpr k base a).2).1.length,
                     stack := v :: kv :: s.stack }
            (At.cast hAt.right (by simp [Nat.add_assoc]; try omega)) hoof rfl henv
          refine r1.trans (r2.trans ?_)
          simpa [Nat.add_assoc, flat] using r3


theorem splitArgs_none (as : List (Option String × Val)) (h : ∀ p ∈ as, p.1 = none) :
    (splitArgs as).1 = as.map (·.2) ∧ (splitArgs as).2 = [] := by
  induction as with
  | nil => simp [splitArgs]
  | cons p rest ih =>
    obtain ⟨k, v⟩ := p
    have hk : k = none := h (k, v) (by simp)
    subst hk
    have := ih (fun p hp => h p (by simp [hp]))
    simp [splitArgs] at this ⊢
    exact this

theorem evalArgs_keys {n ctx heap stack} : ∀ (args : List (Option String × Expr)) (as),
    evalArgs n ctx heap stack args = .ok as → simpleArgs args = true → ∀ p ∈ as, p.1 = none := by
  induction n with
  | zero => intro args as h; simp [evalArgs] at h
  | succ m ih =>
    intro args as h hs
    cases args with
    | nil => simp [evalArgs] at h; subst h; simp
    | cons arg rest =>
      obtain ⟨k, e⟩ := arg
      cases k with
      | some k => simp [simpleArgs] at hs
      | none =>
        simp only [evalArgs, bind, Except.bind] at h
        split at h
        · simp at h
        · split at h
          · simp at h
          · rename_i ws hws
            simp at h; subst h
            have hs' : simpleExpr e = true ∧ simpleArgs rest = true := by simpa [simpleArgs] using hs
            intro p hp
            simp at hp
            rcases hp with rfl | hp
            · rfl
            · exact ih rest ws hws hs'.2 p hp

theorem evalArgs_length {n ctx heap stack} : ∀ (args : List (Option String × Expr)) (as),
    evalArgs n ctx heap stack args = .ok as → as.length = args.length := by
  induction n with
  | zero => intro args as h; simp [evalArgs] at h
  | succ m ih =>
    intro args as h
    cases args with
    | nil => simp [evalArgs] at h; subst h; rfl
    | cons arg rest =>
      obtain ⟨k, e⟩ := arg
      simp only [evalArgs, bind, Except.bind] at h
      split at h
      · simp at h
      · split at h
        · simp at h
        · rename_i ws hws
          simp at h; subst h; simp [ih rest ws hws]

theorem popN_append (xs rest : List Val) : popN xs.length (xs.reverse ++ rest) = some (xs, rest) := by
  simp [popN]


theorem Reach.cast {ctx C s s' t t'} (h : Reach ctx C s t) (hs : s = s') (ht : t = t') : Reach ctx C s' t' := by
  subst hs; subst ht; exact h

theorem Reach.one' {ctx C s s' i} (k : Nat) (hk : C[k]? = some i) (hpc : s.pc = k)
    (hs : MJ.Vm.step ctx i s = .ok s') : Reach ctx C s s' := by
  subst hpc; exact Reach.one hk hs

/-- close equalities between VM states / list lengths that differ only by arithmetic normal form -/
macro "vmeq" : tactic =>
  `(tactic| first
    | rfl
    | (simp [Nat.add_assoc, flat]; done)
    | (simp [Nat.add_assoc, flat]; omega)
    | omega)

theorem evalList_length {n ctx heap stack} : ∀ (es : List Expr) (vs), evalList n ctx heap stack es = .ok vs →
    vs.length = es.length := by
  induction n with
  | zero => intro es vs h; simp [evalList] at h
  | succ m ih =>
    intro es vs h
    cases es with
    | nil => simp [evalList] at h; subst h; rfl
    | cons e rest =>
      simp only [evalList, bind, Except.bind] at h
      split at h
      · simp at h
      · split at h
        · simp at h
        · rename_i ws hws
          simp at h; subst h; simp [ih rest ws hws]

theorem evalPairs_length {n ctx heap stack} : ∀ (kvs : List (Expr × Expr)) (ps), evalPairs n ctx heap stack kvs = .ok ps →
    ps.length = kvs.length := by
  induction n with
  | zero => intro kvs ps h; simp [evalPairs] at h
  | succ m ih =>
    intro kvs ps h
    cases kvs with
    | nil => simp [evalPairs] at h; subst h; rfl
    | cons kv rest =>
      obtain ⟨k, e⟩ := kv
      simp only [evalPairs, bind, Except.bind] at h
      split at h
      · simp at h
      · split at h
        · simp at h
        · split at h
          · simp at h
          · rename_i ws hws
            simp at h; subst h; simp [ih rest ws hws]

theorem flat_length (ps : List (Val × Val)) : (flat ps).length = 2 * ps.length := by
  induction ps with
  | nil => rfl
  | cons p rest ih => obtain ⟨k, v⟩ := p; simp [flat, ih]; omega

theorem pairUp_flat (ps : List (Val × Val)) : pairUp (flat ps) = some ps := by
  induction ps with
  | nil => rfl
  | cons p rest ih => obtain ⟨k, v⟩ := p; simp [flat, pairUp, ih]

/-- the final comparison of a chain (and any single comparison operator) -/
theorem step_cmpInstrs {ctx C op a b r} {s : VmState} {st : List Val} {base : Nat}
    (hAt : At C base (cmpInstrs op)) (hpc : s.pc = base) (hs : s.stack = b :: a :: st)
    (hr : compareOp op a b = .ok r) :
    Reach ctx C s { s with pc := base + (cmpInstrs op).length, stack := .bool r :: st } := by
  cases op
  case notin =>
    simp only [cmpInstrs] at hAt ⊢
    simp only [compareOp] at hr
    cases hc : contains b a with
    | error e => simp [hc, Except.map] at hr
    | ok c =>
      have hrc : r = !c := by
        rw [hc] at hr; simp only [Except.map, Except.ok.injEq] at hr; rw [← hr]
      subst hrc
      refine Reach.cons (i := .isIn) (by rw [hpc]; exact hAt.head)
        (s' := { s with pc := base + 1, stack := .bool c :: st }) (by simp [MJ.Vm.step, hs, hc, Except.map, hpc]) ?_
      exact Reach.one' (i := .not) _ hAt.tail.head rfl (by simp [MJ.Vm.step, truthy])
  all_goals
    simp only [cmpInstrs] at hAt ⊢
    refine Reach.one (by rw [hpc]; exact hAt.head) ?_
    first
    | (simp [MJ.Vm.step, binCmp, hs, hr, Except.map, hpc]; done)
    | (simp only [compareOp] at hr; simp [MJ.Vm.step, hs, hr, Except.map, hpc])

def SimChain (n : Nat) : Prop :=
  ∀ ops ctx heap stack a v, evalChain n ctx heap stack a ops = .ok v → simpleChain ops = true → ops ≠ [] →
    ∀ C base aux cs (s : VmState) (st : List Val), At C base (relChain ops base aux cs).1 →
      (relChain ops base aux cs).2.oof = false →
      C[base + (relChain ops base aux cs).1.length]? = some (.jump (cs + 2)) →
      At C cs [Instr.swap, Instr.discardTop] → s.pc = base → s.stack = a :: st →
      EnvRel ctx heap stack s.frames →
      Reach ctx C s { s with pc := cs + 2, stack := v :: st }

theorem oof_false_of_relChain {ops b a cs} (h : (relChain ops b a cs).2.oof = false) : a.oof = false := by
  cases ha : a.oof with
  | false => rfl
  | true => rw [relChain_oof_mono ops b a cs ha] at h; cases h

theorem sim_chain_step {n} (ihE : SimExpr n) (ihC : SimChain n) : SimChain (n + 1) := by
  intro ops ctx heap stack a v hev hs hne C base aux cs s st hAt hoof hJ hCl hpc hst henv
  match ops, hne with
  | [(op, e)], _ =>
    have hse : simpleExpr e = true := by simpa [simpleChain] using hs
    simp only [evalChain, bind, Except.bind] at hev
    split at hev
    · simp at hev
    · rename_i b hb
      split at hev
      · simp at hev
      · rename_i r hr
        simp only [relChain] at hAt hoof hJ
        have hv : v = .bool r := by
          cases r with
          | false => simp at hev; exact hev.symm
          | true =>
            simp at hev
            cases n with
            | zero => simp [evalChain] at hev
            | succ m => simp [evalChain] at hev; exact hev.symm
        subst hv
        have r1 := ihE e ctx heap stack b hb hse C base aux s hAt.left hoof hpc henv
        have r2 := step_cmpInstrs (ctx := ctx) (s := { s with pc := base + (relExpr e base aux).1.length, stack := b :: s.stack })
          (st := st) hAt.right rfl (by simp [hst]) hr
        refine r1.trans (r2.trans (Reach.one' (i := .jump (cs + 2)) _ hJ (by simp [Nat.add_assoc]) (by simp [MJ.Vm.step])))
  | (op, e) :: o2 :: rest, _ =>
    have hs' : simpleExpr e = true ∧ simpleChain (o2 :: rest) = true := by simpa [simpleChain] using hs
    simp only [evalChain, bind, Except.bind] at hev
    split at hev
    · simp at hev
    · rename_i b hb
      split at hev
      · simp at hev
      · rename_i r hr
        simp only [relChain] at hAt hoof hJ
        have ho1 := oof_false_of_relChain hoof
        have r1 := ihE e ctx heap stack b hb hs'.1 C base aux s hAt.left.left ho1 hpc henv
        have hcap := hAt.left.right.head
        have hjf := hAt.left.right.tail.head
        -- CompareAndPreserve
        have r2 : Reach ctx C { s with pc := base + (relExpr e base aux).1.length, stack := b :: s.stack }
            { s with pc := base + (relExpr e base aux).1.length + 1, stack := .bool r :: b :: st } :=
          Reach.one' (i := .compareAndPreserve op) _ hcap rfl (by simp [MJ.Vm.step, hst, hr, Except.map])
        cases r with
        | true =>
          simp at hev
          have r3 : Reach ctx C { s with pc := base + (relExpr e base aux).1.length + 1, stack := .bool true :: b :: st }
              { s with pc := base + (relExpr e base aux).1.length + 2, stack := b :: st } :=
            Reach.one' (i := .jumpIfFalseOrPop cs) _ hjf rfl (by simp [MJ.Vm.step, truthy])
          have r4 := ihC (o2 :: rest) ctx heap stack b v hev hs'.2 (by simp) C (base + (relExpr e base aux).1.length + 2)
            (relExpr e base aux).2 cs { s with pc := base + (relExpr e base aux).1.length + 2, stack := b :: st } st
            (At.cast hAt.right (by simp [Nat.add_assoc])) hoof
            (by rw [← hJ]; congr 1; simp only [List.length_append, List.length_cons, List.length_nil]; omega)
            hCl rfl rfl henv
          exact r1.trans (r2.trans (r3.trans r4))
        | false =>
          simp at hev; subst hev
          have r3 : Reach ctx C { s with pc := base + (relExpr e base aux).1.length + 1, stack := .bool false :: b :: st }
              { s with pc := cs, stack := .bool false :: b :: st } :=
            Reach.one' (i := .jumpIfFalseOrPop cs) _ hjf rfl (by simp [MJ.Vm.step, truthy])
          have r4 : Reach ctx C { s with pc := cs, stack := .bool false :: b :: st }
              { s with pc := cs + 1, stack := b :: .bool false :: st } :=
            Reach.one' (i := .swap) _ hCl.head rfl (by simp [MJ.Vm.step])
          have r5 : Reach ctx C { s with pc := cs + 1, stack := b :: .bool false :: st }
              { s with pc := cs + 2, stack := .bool false :: st } :=
            Reach.one' (i := .discardTop) _ hCl.tail.head rfl (by simp [MJ.Vm.step])
          exact r1.trans (r2.trans (r3.trans (r4.trans r5)))

theorem sim_expr_step {n} (ihE : SimExpr n) (ihL : SimList n) (ihA : SimArgs n) (ihP : SimPairs n)
    (ihC : SimChain n) :
    SimExpr (n + 1) := by
  intro e ctx heap stack v hev hs C base a s hAt hoof hpc henv
  cases hc : asConst e with
  | val w => exact sim_folded hc hev hAt hpc
  | oof => rw [relExpr_oof hc] at hoof; simp at hoof
  | no =>
    cases e with
    | const l => simp [asConst] at hc
    | var x =>
      rw [rel_var] at hAt ⊢
      simp [evalExpr] at hev; subst hev
      refine Reach.one (i := .lookup x) (by rw [hpc]; exact hAt.head) ?_
      simp [MJ.Vm.step, hpc, henv x]
    | unop op x =>
      have hsx : simpleExpr x = true := by simpa [simpleExpr] using hs
      cases op with
      | not =>
        rw [rel_not hc] at hAt hoof ⊢
        simp only [evalExpr, bind, Except.bind] at hev
        split at hev
        · simp at hev
        · rename_i w hw
          simp at hev; subst hev
          exact sim_unary ihE hw hsx hAt hoof hpc henv (fun s1 h1 => by simp [MJ.Vm.step, h1])
      | neg =>
        rw [rel_neg hc] at hAt hoof ⊢
        simp only [evalExpr, bind, Except.bind] at hev
        split at hev
        · simp at hev
        · rename_i w hw
          exact sim_unary ihE hw hsx hAt hoof hpc henv (fun s1 h1 => by simp [MJ.Vm.step, h1, hev, Except.map])
    | binop op l r =>
      have hs' : simpleExpr l = true ∧ simpleExpr r = true := by simpa [simpleExpr] using hs
      by_cases hand : op = .and
      · subst hand
        rw [rel_and hc] at hAt hoof ⊢
        simp only [evalExpr, bind, Except.bind] at hev
        split at hev
        · simp at hev
        · rename_i x hx
          have ho1 := oof_false_of_relExpr hoof
          have r1 := ihE l ctx heap stack x hx hs'.1 C base a s hAt.left.left ho1 hpc henv
          have hj := hAt.left.right.head
          by_cases ht : truthy x = true
          · simp [ht] at hev
            have r2 := ihE r ctx heap stack v hev hs'.2 C (base + (relExpr l base a).1.length + 1) (relExpr l base a).2
              { s with pc := base + (relExpr l base a).1.length + 1, stack := s.stack }
              (At.cast hAt.right (by simp [Nat.add_assoc]; try omega)) hoof rfl henv
            refine r1.trans (Reach.cons (i := .jumpIfFalseOrPop _) hj (by simp [MJ.Vm.step, ht]; rfl) ?_)
            exact r2.cast (by vmeq) (by vmeq)
          · simp [ht] at hev; subst hev
            refine r1.trans (Reach.one (i := .jumpIfFalseOrPop _) hj ?_)
            simp [MJ.Vm.step, ht]; vmeq
      · by_cases hor : op = .or
        · subst hor
          rw [rel_or hc] at hAt hoof ⊢
          simp only [evalExpr, bind, Except.bind] at hev
          split at hev
          · simp at hev
          · rename_i x hx
            have ho1 := oof_false_of_relExpr hoof
            have r1 := ihE l ctx heap stack x hx hs'.1 C base a s hAt.left.left ho1 hpc henv
            have hj := hAt.left.right.head
            by_cases ht : truthy x = true
            · simp [ht] at hev; subst hev
              refine r1.trans (Reach.one (i := .jumpIfTrueOrPop _) hj ?_)
              simp [MJ.Vm.step, ht]; vmeq
            · simp [ht] at hev
              have r2 := ihE r ctx heap stack v hev hs'.2 C (base + (relExpr l base a).1.length + 1) (relExpr l base a).2
                { s with pc := base + (relExpr l base a).1.length + 1, stack := s.stack }
                (At.cast hAt.right (by simp [Nat.add_assoc]; try omega)) hoof rfl henv
              refine r1.trans (Reach.cons (i := .jumpIfTrueOrPop _) hj (by simp [MJ.Vm.step, ht]; rfl) ?_)
              exact r2.cast (by vmeq) (by vmeq)
        · rw [rel_binop hc hand hor] at hAt hoof ⊢
          rw [evalExpr_binop hand hor] at hev
          simp only [Except.bind] at hev
          split at hev
          · simp at hev
          · rename_i x hx
            split at hev
            · simp at hev
            · rename_i y hy
              have ho1 := oof_false_of_relExpr hoof
              have r1 := ihE l ctx heap stack x hx hs'.1 C base a s hAt.left.left ho1 hpc henv
              have r2 := ihE r ctx heap stack y hy hs'.2 C (base + (relExpr l base a).1.length) (relExpr l base a).2
                { s with pc := base + (relExpr l base a).1.length, stack := x :: s.stack } hAt.left.right hoof rfl henv
              refine r1.trans (r2.trans (Reach.one (i := binInstr op) ?_ ?_))
              · have := hAt.right.head; simpa [Nat.add_assoc] using this
              · rw [step_binInstr hand hor rfl hev]; vmeq
    | cmp x ops =>
      have hs' : (2 ≤ ops.length ∧ simpleExpr x = true) ∧ simpleChain ops = true := by simpa [simpleExpr] using hs
      have hrel : relExpr (.cmp x ops) base a =
          ((relExpr x base a).1 ++
            (relChain ops (base + (relExpr x base a).1.length) (relExpr x base a).2
              (base + (relExpr x base a).1.length +
                (relChain ops (base + (relExpr x base a).1.length) (relExpr x base a).2 0).1.length + 1)).1 ++
            [.jump (base + (relExpr x base a).1.length +
                (relChain ops (base + (relExpr x base a).1.length) (relExpr x base a).2 0).1.length + 1 + 2), .swap, .discardTop],
           (relChain ops (base + (relExpr x base a).1.length) (relExpr x base a).2
              (base + (relExpr x base a).1.length +
                (relChain ops (base + (relExpr x base a).1.length) (relExpr x base a).2 0).1.length + 1)).2) := by
        conv => lhs; unfold relExpr
        simp [hc]
      rw [hrel] at hAt hoof ⊢
      simp only [evalExpr, bind, Except.bind] at hev
      split at hev
      · simp at hev
      · rename_i xv hx
        have hlen := (relChain_cs ops (base + (relExpr x base a).1.length) (relExpr x base a).2
          (base + (relExpr x base a).1.length +
            (relChain ops (base + (relExpr x base a).1.length) (relExpr x base a).2 0).1.length + 1) 0).1
        have ho1 := oof_false_of_relChain hoof
        have r1 := ihE x ctx heap stack xv hx hs'.1.2 C base a s hAt.left.left ho1 hpc henv
        have hne : ops ≠ [] := by intro h0; rw [h0] at hs'; simp at hs'
        have r2 := ihC ops ctx heap stack xv v hev hs'.2 hne C (base + (relExpr x base a).1.length) (relExpr x base a).2
          (base + (relExpr x base a).1.length +
            (relChain ops (base + (relExpr x base a).1.length) (relExpr x base a).2 0).1.length + 1)
          { s with pc := base + (relExpr x base a).1.length, stack := xv :: s.stack } s.stack
          hAt.left.right hoof
          (by have := hAt.right.head
              refine Eq.trans (congrArg (fun k => C[k]?) ?_) this
              simp only [List.length_append]; omega)
          (At.cast hAt.right.tail (by simp only [List.length_append]; omega))
          rfl rfl henv
        refine (r1.trans r2).cast rfl ?_
        simp only [List.length_append, List.length_cons, List.length_nil]
        congr 1; omega
    | ife c t f =>
      simp only [evalExpr, bind, Except.bind] at hev
      split at hev
      · simp at hev
      · rename_i cv hcv
        cases f with
        | none =>
          have hs' : simpleExpr c = true ∧ simpleExpr t = true := by simpa [simpleExpr] using hs
          rw [rel_ife_none] at hAt hoof ⊢
          have ho1 := oof_false_of_relExpr hoof
          have r1 := ihE c ctx heap stack cv hcv hs'.1 C base a s hAt.left.left.left.left ho1 hpc henv
          have hj := hAt.left.left.left.right.head
          by_cases ht : truthy cv = true
          · simp [ht] at hev
            have r2 := ihE t ctx heap stack v hev hs'.2 C (base + (relExpr c base a).1.length + 1) (relExpr c base a).2
              { s with pc := base + (relExpr c base a).1.length + 1, stack := s.stack }
              (At.cast hAt.left.left.right (by simp [Nat.add_assoc]; try omega)) hoof rfl henv
            have hj2 := hAt.left.right.head
            refine r1.trans (Reach.cons (i := .jumpIfFalse _) hj (by simp [MJ.Vm.step, ht]; rfl) ?_)
            refine (r2.cast (by vmeq) rfl).trans (Reach.one' (i := .jump _) _ hj2 (by vmeq) ?_)
            simp [MJ.Vm.step]; vmeq
          · simp [ht] at hev; subst hev
            have hl := hAt.right.head
            refine r1.trans (Reach.cons (i := .jumpIfFalse _) hj (by simp [MJ.Vm.step, ht]; rfl) ?_)
            refine Reach.one' (i := .loadConst .undef) _ hl (by vmeq) ?_
            simp [MJ.Vm.step]; vmeq
        | some f =>
          have hs' : (simpleExpr c = true ∧ simpleExpr t = true) ∧ simpleExpr f = true := by simpa [simpleExpr] using hs
          rw [rel_ife_some] at hAt hoof ⊢
          simp only at hAt hoof ⊢
          have ho2 := oof_false_of_relExpr hoof
          have ho1 := oof_false_of_relExpr ho2
          have r1 := ihE c ctx heap stack cv hcv hs'.1.1 C base a s hAt.left.left.left.left ho1 hpc henv
          have hj := hAt.left.left.left.right.head
          by_cases ht : truthy cv = true
          · simp [ht] at hev
            have r2 := ihE t ctx heap stack v hev hs'.1.2 C (base + (relExpr c base a).1.length + 1) (relExpr c base a).2
              { s with pc := base + (relExpr c base a).1.length + 1, stack := s.stack }
              (At.cast hAt.left.left.right (by simp [Nat.add_assoc]; try omega)) ho2 rfl henv
            have hj2 := hAt.left.right.head
            refine r1.trans (Reach.cons (i := .jumpIfFalse _) hj (by simp [MJ.Vm.step, ht]; rfl) ?_)
            refine (r2.cast (by vmeq) rfl).trans (Reach.one' (i := .jump _) _ hj2 (by vmeq) ?_)
            simp [MJ.Vm.step]; vmeq
          · simp [ht] at hev
            have r3 := ihE f ctx heap stack v hev hs'.2 C
              (base + (relExpr c base a).1.length + 1 + (relExpr t (base + (relExpr c base a).1.length + 1) (relExpr c base a).2).1.length + 1)
              (relExpr t (base + (relExpr c base a).1.length + 1) (relExpr c base a).2).2
              { s with pc := base + (relExpr c base a).1.length + 1 + (relExpr t (base + (relExpr c base a).1.length + 1) (relExpr c base a).2).1.length + 1, stack := s.stack }
              (At.cast hAt.right (by simp [Nat.add_assoc]; try omega)) hoof rfl henv
            refine r1.trans (Reach.cons (i := .jumpIfFalse _) hj (by simp [MJ.Vm.step, ht]; rfl) ?_)
            exact r3.cast (by vmeq) (by vmeq)
    | filter name x args =>
      have hs' : simpleExpr x = true ∧ simpleArgs args = true := by simpa [simpleExpr] using hs
      have hrel : relExpr (.filter name x args) base a =
          ((relExpr x base a).1 ++ (relArgs args (base + (relExpr x base a).1.length) (relExpr x base a).2).1 ++
            [.applyFilter name (1 + args.length)
              ((relArgs args (base + (relExpr x base a).1.length) (relExpr x base a).2).2.filterId name).1],
           ((relArgs args (base + (relExpr x base a).1.length) (relExpr x base a).2).2.filterId name).2) := by
        conv => lhs; unfold relExpr
        simp [asConst]
      rw [hrel] at hAt hoof ⊢
      simp only [evalExpr, bind, Except.bind] at hev
      split at hev
      · simp at hev
      · rename_i xv hx
        split at hev
        · simp at hev
        · rename_i as has
          have hkeys := evalArgs_keys args as has hs'.2
          have hsplit := splitArgs_none as hkeys
          rw [hsplit.2, hsplit.1] at hev
          simp only at hev
          have hoA : (relArgs args (base + (relExpr x base a).1.length) (relExpr x base a).2).2.oof = false := by
            simpa using hoof
          have ho1 := oof_false_of_relArgs hoA
          have r1 := ihE x ctx heap stack xv hx hs'.1 C base a s hAt.left.left ho1 hpc henv
          have r2 := ihA args ctx heap stack as has hs'.2 C (base + (relExpr x base a).1.length) (relExpr x base a).2
            { s with pc := base + (relExpr x base a).1.length, stack := xv :: s.stack } hAt.left.right hoA rfl henv
          refine r1.trans (r2.trans (Reach.one' (i := .applyFilter _ _ _) _ hAt.right.head (by vmeq) ?_))
          have hlen : 1 + args.length = (xv :: as.map (·.2)).length := by
            simp [evalArgs_length args as has]; omega
          have hpop : popN (1 + args.length) ((as.map (·.2)).reverse ++ xv :: s.stack) = some (xv :: as.map (·.2), s.stack) := by
            rw [hlen]
            have := popN_append (xv :: as.map (·.2)) s.stack
            simpa using this
          simp [MJ.Vm.step, hpop, hev, Except.map]; vmeq
    | test name x args =>
      have hs' : simpleExpr x = true ∧ simpleArgs args = true := by simpa [simpleExpr] using hs
      have hrel : relExpr (.test name x args) base a =
          ((relExpr x base a).1 ++ (relArgs args (base + (relExpr x base a).1.length) (relExpr x base a).2).1 ++
            [.performTest name (1 + args.length)
              ((relArgs args (base + (relExpr x base a).1.length) (relExpr x base a).2).2.testId name).1],
           ((relArgs args (base + (relExpr x base a).1.length) (relExpr x base a).2).2.testId name).2) := by
        conv => lhs; unfold relExpr
        simp [asConst]
      rw [hrel] at hAt hoof ⊢
      simp only [evalExpr, bind, Except.bind] at hev
      split at hev
      · simp at hev
      · rename_i xv hx
        split at hev
        · simp at hev
        · rename_i as has
          have hkeys := evalArgs_keys args as has hs'.2
          have hsplit := splitArgs_none as hkeys
          rw [hsplit.2, hsplit.1] at hev
          simp only at hev
          have hoA : (relArgs args (base + (relExpr x base a).1.length) (relExpr x base a).2).2.oof = false := by
            simpa using hoof
          have ho1 := oof_false_of_relArgs hoA
          have r1 := ihE x ctx heap stack xv hx hs'.1 C base a s hAt.left.left ho1 hpc henv
          have r2 := ihA args ctx heap stack as has hs'.2 C (base + (relExpr x base a).1.length) (relExpr x base a).2
            { s with pc := base + (relExpr x base a).1.length, stack := xv :: s.stack } hAt.left.right hoA rfl henv
          refine r1.trans (r2.trans (Reach.one' (i := .performTest _ _ _) _ hAt.right.head (by vmeq) ?_))
          have hlen : 1 + args.length = (xv :: as.map (·.2)).length := by
            simp [evalArgs_length args as has]; omega
          have hpop : popN (1 + args.length) ((as.map (·.2)).reverse ++ xv :: s.stack) = some (xv :: as.map (·.2), s.stack) := by
            rw [hlen]
            have := popN_append (xv :: as.map (·.2)) s.stack
            simpa using this
          cases ht : applyTest name xv (as.map (·.2)) with
          | error e => simp [ht, Except.map] at hev
          | ok b =>
            simp [ht, Except.map] at hev; subst hev
            simp [MJ.Vm.step, hpop, ht, Except.map]; vmeq
    | getattr x name =>
      have hsx : simpleExpr x = true := by simpa [simpleExpr] using hs
      rw [rel_getattr] at hAt hoof ⊢
      simp only [evalExpr, bind, Except.bind] at hev
      split at hev
      · simp at hev
      · rename_i w hw
        exact sim_unary ihE hw hsx hAt hoof hpc henv (fun s1 h1 => by simp [MJ.Vm.step, h1, hev, Except.map])
    | getitem x i =>
      have hs' : simpleExpr x = true ∧ simpleExpr i = true := by simpa [simpleExpr] using hs
      rw [rel_getitem] at hAt hoof ⊢
      simp only [evalExpr, bind, Except.bind] at hev
      split at hev
      · simp at hev
      · rename_i xv hx
        split at hev
        · simp at hev
        · rename_i iv hi
          have ho1 := oof_false_of_relExpr hoof
          have r1 := ihE x ctx heap stack xv hx hs'.1 C base a s hAt.left.left ho1 hpc henv
          have r2 := ihE i ctx heap stack iv hi hs'.2 C (base + (relExpr x base a).1.length) (relExpr x base a).2
            { s with pc := base + (relExpr x base a).1.length, stack := xv :: s.stack } hAt.left.right hoof rfl henv
          refine r1.trans (r2.trans (Reach.one (i := .getItem) ?_ ?_))
          · have := hAt.right.head; simpa [Nat.add_assoc] using this
          · simp [MJ.Vm.step, hev, Except.map]; vmeq
    | call f args => simp [simpleExpr] at hs
    | list items =>
      have hsl : simpleList items = true := by simpa [simpleExpr] using hs
      have hrel : relExpr (.list items) base a =
          ((relList items base a).1 ++ [.buildList (some items.length)], (relList items base a).2) := by
        conv => lhs; unfold relExpr
        simp [hc]
      rw [hrel] at hAt hoof ⊢
      simp only [evalExpr, bind, Except.bind] at hev
      split at hev
      · simp at hev
      · rename_i vs hvs
        simp at hev; subst hev
        have r1 := ihL items ctx heap stack vs hvs hsl C base a s hAt.left hoof hpc henv
        refine r1.trans (Reach.one' (i := .buildList _) _ hAt.right.head (by vmeq) ?_)
        have hpop : popN items.length (vs.reverse ++ s.stack) = some (vs, s.stack) := by
          rw [← evalList_length items vs hvs]; exact popN_append vs s.stack
        simp [MJ.Vm.step, hpop]; vmeq
    | map kvs =>
      have hsp : simplePairs kvs = true := by simpa [simpleExpr] using hs
      have hrel : relExpr (.map kvs) base a =
          ((relPairs kvs base a).1 ++ [.buildMap kvs.length], (relPairs kvs base a).2) := by
        conv => lhs; unfold relExpr
        simp [hc]
      rw [hrel] at hAt hoof ⊢
      simp only [evalExpr, bind, Except.bind] at hev
      split at hev
      · simp at hev
      · rename_i ps hps
        split at hev
        · simp at hev
        · rename_i m hm
          simp at hev; subst hev
          have r1 := ihP kvs ctx heap stack ps hps hsp C base a s hAt.left hoof hpc henv
          refine r1.trans (Reach.one' (i := .buildMap _) _ hAt.right.head (by vmeq) ?_)
          have hpop : popN (2 * kvs.length) ((flat ps).reverse ++ s.stack) = some (flat ps, s.stack) := by
            rw [← evalPairs_length kvs ps hps, ← flat_length]; exact popN_append _ _
          simp [MJ.Vm.step, hpop, buildMap, pairUp_flat, hm, Except.map]; vmeq


theorem sim_all : ∀ n, SimExpr n ∧ SimList n ∧ SimArgs n ∧ SimPairs n ∧ SimChain n := by
  intro n
  induction n with
  | zero =>
    refine ⟨?_, ?_, ?_, ?_, ?_⟩
    · intro e ctx heap stack v h; simp [evalExpr] at h
    · intro es ctx heap stack vs h; simp [evalList] at h
    · intro args ctx heap stack as h; simp [evalArgs] at h
    · intro kvs ctx heap stack ps h; simp [evalPairs] at h
    · intro ops ctx heap stack a v h; simp [evalChain] at h
  | succ n ih =>
    obtain ⟨hE, hL, hA, hP, hC⟩ := ih
    exact ⟨sim_expr_step hE hL hA hP hC, sim_list_step hE hL, sim_args_step hE hA, sim_pairs_step hE hP,
      sim_chain_step hE hC⟩

/-- **Expressions compile correctly** (relative code): if the reference semantics evaluates `e` to
`v`, the VM executing the code of `e` (placed anywhere in a larger code `C`) pushes `v` and
continues behind that code; frames and output are untouched. -/
theorem relExpr_correct {n e ctx heap stack v} (hev : evalExpr n ctx heap stack e = .ok v)
    (hs : simpleExpr e = true) {C base a s} (hAt : At C base (relExpr e base a).1)
    (hoof : (relExpr e base a).2.oof = false) (hpc : s.pc = base) (henv : EnvRel ctx heap stack s.frames) :
    Reach ctx C s { s with pc := base + (relExpr e base a).1.length, stack := v :: s.stack } :=
  (sim_all n).1 e ctx heap stack v hev hs C base a s hAt hoof hpc henv

/-- the same for the back-patching generator `cExpr` of `MJ.Compile` -/
theorem compileExpr_correct {n e ctx heap stack v} (hev : evalExpr n ctx heap stack e = .ok v)
    (hs : simpleExpr e = true) (g : CG) (post : List Instr) (hoof : (cExpr e g).oof = false)
    {s : VmState} (hpc : s.pc = g.next) (henv : EnvRel ctx heap stack s.frames) :
    Reach ctx ((cExpr e g).code ++ post) s { s with pc := (cExpr e g).next, stack := v :: s.stack } := by
  rw [cExpr_eq_rel e g hs] at hoof ⊢
  have hAt : At (g.code ++ (relExpr e g.next g.aux).1 ++ post) g.next (relExpr e g.next g.aux).1 :=
    At.of_append g.code _ post
  have := relExpr_correct hev hs hAt (by simpa [CG.oof, CG.extend] using hoof) hpc henv
  simpa [CG.extend, CG.next] using this

end MJ.Vm
