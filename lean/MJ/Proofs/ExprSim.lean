import MJ.Proofs.SimRel
import MJ.Proofs.ArgBind
/-!
# Expressions compile correctly (C03)

By induction on the fuel of the reference evaluation: the model VM, running the code that the model
code generator emits for an expression of the fragment (`wfExpr`), pushes the value the reference
semantics assigns to it — including constant folding, short-circuit `and` / `or`, conditional
expressions, filters, tests, attribute / item access, list and map literals, chained comparisons and
**macro calls** with positional and keyword arguments (the call itself is `SimCall`, proved together
with the statements in `MJ/Proofs/StmtSim.lean`).  Calls may append closures to the state (the
macros declared while the callee ran): the result state is described up to such an extension.
-/
namespace MJ.Vm
open MJ.Eval MJ.Compile

theorem At.cast {C b b' L} (h : At C b L) (hb : b = b') : At C b' L := by subst hb; exact h

theorem evalExpr_succ_of_ok {n ctx heap stack e v} (h : evalExpr n ctx heap stack e = .ok v) : ∃ m, n = m + 1 := by
  cases n with
  | zero => simp [evalExpr] at h
  | succ m => exact ⟨m, rfl⟩

/-- closures only grow by appending -/
def Ext (cls cls' : List Scope) : Prop := ∃ extra, cls' = cls ++ extra

theorem Ext.refl (cls : List Scope) : Ext cls cls := ⟨[], by simp⟩
theorem Ext.trans {a b c : List Scope} (h1 : Ext a b) (h2 : Ext b c) : Ext a c := by
  obtain ⟨e1, rfl⟩ := h1; obtain ⟨e2, rfl⟩ := h2; exact ⟨e1 ++ e2, by simp⟩

/-- the names of `A` are bound in the cells of the current context -/
def ABound (heap : Heap) (loc : List Nat) (A : List String) : Prop := ∀ x ∈ A, BoundIn heap loc x

/-- what an expression is evaluated under: configuration, ghost map, what may be read, the cells -/
structure ECtx where
  K : Cfg
  G : Ghost
  P : Option (List String)
  clo : Option Nat
  heap : Heap
  loc : List Nat
  env : List Nat
  A : List String

def ECtx.ok (E : ECtx) (s : VmState) : Prop :=
  HRel E.K E.G E.P E.clo E.heap E.loc E.env s ∧ ABound E.heap E.loc E.A ∧ E.loc ≠ []

theorem ECtx.ok.next {E : ECtx} {s : VmState} (h : E.ok s) {cls' : List Scope} (hx : Ext s.closures cls') (pc : Nat)
    (st : List Val) : E.ok { s with pc := pc, stack := st, closures := cls' } := by
  obtain ⟨extra, rfl⟩ := hx
  exact ⟨h.1.ext _ rfl extra rfl, h.2.1, h.2.2⟩

/-- the VM gets from `s` to program counter `pc'` with operand stack `st'`; the closures may have
been extended by the macro calls on the way -/
def Pushed (E : ECtx) (s : VmState) (pc' : Nat) (st' : List Val) : Prop :=
  ∃ cls', Ext s.closures cls' ∧ Reach E.K.ctx E.K.C s { s with pc := pc', stack := st', closures := cls' }

theorem Pushed.refl (E : ECtx) (s : VmState) : Pushed E s s.pc s.stack := ⟨s.closures, Ext.refl _, Reach.refl s⟩

theorem Pushed.cast {E s p st p' st'} (h : Pushed E s p st) (hp : p = p') (hs : st = st') : Pushed E s p' st' := by
  subst hp; subst hs; exact h

theorem Pushed.trans {E : ECtx} {s : VmState} {p1 p2 : Nat} {st1 st2 : List Val} (h1 : Pushed E s p1 st1)
    (h2 : ∀ cls1, Ext s.closures cls1 → Pushed E { s with pc := p1, stack := st1, closures := cls1 } p2 st2) :
    Pushed E s p2 st2 := by
  obtain ⟨c1, x1, r1⟩ := h1
  obtain ⟨c2, x2, r2⟩ := h2 c1 x1
  exact ⟨c2, x1.trans x2, r1.trans r2⟩

/-- one more instruction that does not touch frames or closures -/
theorem Pushed.step {E : ECtx} {s : VmState} {p1 p2 : Nat} {st1 st2 : List Val} {i : Instr} (h1 : Pushed E s p1 st1)
    (hi : E.K.C[p1]? = some i)
    (hs : ∀ cls1, MJ.Vm.step E.K.ctx i { s with pc := p1, stack := st1, closures := cls1 } =
      .ok { s with pc := p2, stack := st2, closures := cls1 }) : Pushed E s p2 st2 := by
  obtain ⟨c1, x1, r1⟩ := h1
  exact ⟨c1, x1, r1.trans (Reach.one (i := i) hi (hs c1))⟩

/-- a first instruction that does not touch frames or closures -/
theorem Pushed.first {E : ECtx} {s : VmState} {p2 : Nat} {st2 : List Val} {i : Instr}
    (hi : E.K.C[s.pc]? = some i)
    (hs : MJ.Vm.step E.K.ctx i s = .ok { s with pc := p2, stack := st2 }) : Pushed E s p2 st2 :=
  ⟨s.closures, Ext.refl _, Reach.one (i := i) hi hs⟩

theorem popN_append (xs rest : List Val) : popN xs.length (xs.reverse ++ rest) = some (xs, rest) := by
  simp [popN]

theorem Reach.cast {ctx C s s' t t'} (h : Reach ctx C s t) (hs : s = s') (ht : t = t') : Reach ctx C s' t' := by
  subst hs; subst ht; exact h

theorem Reach.one' {ctx C s s' i} (k : Nat) (hk : C[k]? = some i) (hpc : s.pc = k)
    (hs : MJ.Vm.step ctx i s = .ok s') : Reach ctx C s s' := by
  subst hpc; exact Reach.one hk hs

def flat : List (Val × Val) → List Val
  | [] => []
  | (k, v) :: rest => k :: v :: flat rest

/-- close equalities between VM states / list lengths that differ only by arithmetic normal form -/
macro "vmeq" : tactic =>
  `(tactic| first
    | rfl
    | (simp [Nat.add_assoc, flat]; done)
    | (simp [Nat.add_assoc, flat]; omega)
    | omega)


/-- what the render context and the cells must satisfy for macro calls: the closure invariant of `HRel` -/
def GInv (K : Cfg) (G : Ghost) (heap : Heap) (cls : List Scope) : Prop :=
  (∀ c env', G c = some env' → ∃ m, cls[c]? = some m ∧
    ∀ x u, assocGet x m = some u → ValAgree K G cls heap.length x ((MJ.Eval.lookup K.ctx heap env' x).getD .undef) u) ∧
  (∀ c env', G c = some env' → ∀ id ∈ env', id < heap.length)

theorem HRel.ginv {K G P clo heap loc env s} (h : HRel K G P clo heap loc env s) : GInv K G heap s.closures :=
  ⟨h.closOK, h.genv⟩

/-- executing the code of `e` from `s` pushes the value of `e` -/
def SimExpr (n : Nat) : Prop :=
  ∀ (E : ECtx) e v, evalExpr n E.K.ctx E.heap (E.loc ++ E.env) e = .ok v → wfExpr E.K.M E.P E.A e = true →
    ∀ base a s, At E.K.C base (relExpr e base a).1 → (relExpr e base a).2.oof = false → s.pc = base → E.ok s →
      Pushed E s (base + (relExpr e base a).1.length) (v :: s.stack)

/-- the keyword arguments `kw` of the reference semantics as the VM passes them: one value `m` -/
def KwBundle (kw m : List (String × Val)) : Prop := ∀ k, assocGet k m = assocGet k kw

/-- the values a `CallFunction` pops, for the evaluated arguments `as` -/
def ArgsOf (as : List (Option String × Val)) (args : List Val) : Prop :=
  ((splitArgs as).2 = [] ∧ args = (splitArgs as).1) ∨
  ((splitArgs as).2 ≠ [] ∧ ∃ m, KwBundle (splitArgs as).2 m ∧ args = (splitArgs as).1 ++ [.kwargs m])

/-- keyword arguments in general: data is equal on both sides and plain; the hidden `caller` of a call
block is a macro on both sides -/
def KwRel (K : Cfg) (G : Ghost) (cls : List Scope) (hl : Nat) (kw m : List (String × Val)) : Prop :=
  (∀ k, k ≠ "caller" → assocGet k m = assocGet k kw ∧ ∀ v, assocGet k kw = some v → MJ.Eval.plain v = true) ∧
  ((assocGet "caller" kw = none ∧ assocGet "caller" m = none) ∨
   (∃ w u, assocGet "caller" kw = some w ∧ assocGet "caller" m = some u ∧ MacroRel K G cls hl u w))

/-- the values a `CallFunction` pops, for the evaluated arguments `as` (positional values are plain data) -/
def ArgsRel (K : Cfg) (G : Ghost) (cls : List Scope) (hl : Nat) (as : List (Option String × Val)) (args : List Val) : Prop :=
  (∀ v, v ∈ (splitArgs as).1 → MJ.Eval.plain v = true) ∧
  (((splitArgs as).2 = [] ∧ args = (splitArgs as).1) ∨
   ((splitArgs as).2 ≠ [] ∧ ∃ m, KwRel K G cls hl (splitArgs as).2 m ∧ args = (splitArgs as).1 ++ [.kwargs m]))

theorem mem_splitArgs_kw {as : List (Option String × Val)} {k : String} {v : Val} (h : (k, v) ∈ (splitArgs as).2) :
    v ∈ as.map (·.2) := by
  simp only [splitArgs, List.mem_filterMap] at h
  obtain ⟨a, ha, hm⟩ := h
  obtain ⟨k', v'⟩ := a
  cases k' with
  | none => simp at hm
  | some k'' => simp at hm; obtain ⟨_, rfl⟩ := hm; exact List.mem_map.2 ⟨_, ha, rfl⟩

theorem assocGet_none_of_not_mem {α : Type} {k : String} : ∀ {l : List (String × α)}, k ∉ l.map (·.1) → assocGet k l = none
  | [], _ => rfl
  | (k', v) :: rest, h => by
    simp only [List.map_cons, List.mem_cons, not_or] at h
    simp only [assocGet]
    rw [if_neg (fun e => h.1 e.symm)]
    exact assocGet_none_of_not_mem h.2

/-- ordinary calls: all arguments are data, there is no `caller` keyword -/
theorem ArgsRel.of_data {K : Cfg} {G : Ghost} {cls : List Scope} {hl : Nat} {as : List (Option String × Val)} {args : List Val}
    (hpl : ∀ v, v ∈ as.map (·.2) → MJ.Eval.plain v = true) (hnc : "caller" ∉ (splitArgs as).2.map (·.1))
    (h : ArgsOf as args) : ArgsRel K G cls hl as args := by
  refine ⟨fun v hv => hpl v (mem_splitArgs_pos hv), ?_⟩
  rcases h with h | ⟨hne, m, hb, hargs⟩
  · exact Or.inl h
  · refine Or.inr ⟨hne, m, ⟨fun k _ => ⟨hb k, fun v hv => hpl v (mem_splitArgs_kw (assocGet_mem' hv))⟩, Or.inl ?_⟩, hargs⟩
    have := assocGet_none_of_not_mem hnc
    exact ⟨this, by rw [hb "caller"]; exact this⟩

/-- a macro call: the VM binds the arguments like the reference semantics, runs the macro's code in
a fresh context up to its `Return`, and the captured output is the value of the call -/
def SimCall (n : Nat) : Prop :=
  ∀ (K : Cfg) (G : Ghost) (heap : Heap) (cls : List Scope) (w u : Val) (as : List (Option String × Val))
    (args : List Val) (v : Val),
    callValue n K.ctx heap w as = .ok v → MacroRel K G cls heap.length u w → ArgsRel K G cls heap.length as args →
    GInv K G heap cls → PlainSt K.M K.ctx heap →
    ∃ nm spec off clo cref vals caller s1, u = .vmMacro nm spec off clo cref ∧
      prepareArgs spec cref args = .ok (vals, caller) ∧
      Reach K.ctx K.C (calleeState off clo caller vals cls) s1 ∧ K.C[s1.pc]? = some .return_ ∧
      v = .str (s1.outs.getLast?.getD "") ∧ Ext cls s1.closures

theorem sim_folded {n e v w} {E : ECtx} (hc : asConst e = .val w)
    (hev : evalExpr n E.K.ctx E.heap (E.loc ++ E.env) e = .ok v) {base a s}
    (hAt : At E.K.C base (relExpr e base a).1) (hpc : s.pc = base) :
    Pushed E s (base + (relExpr e base a).1.length) (v :: s.stack) := by
  rw [relExpr_val hc] at hAt ⊢
  have hv : v = w := by
    rcases asConst_sound hc n E.K.ctx E.heap (E.loc ++ E.env) with h | h <;> rw [h] at hev <;> simp at hev
    exact hev.symm
  subst hv
  refine Pushed.first (i := .loadConst v) (by rw [hpc]; exact hAt.head) ?_
  simp [MJ.Vm.step, hpc]

/-- unary instruction after the code of a sub-expression -/
theorem sim_unary {n : Nat} (ih : SimExpr n) {E : ECtx} {x w} (hx : evalExpr n E.K.ctx E.heap (E.loc ++ E.env) x = .ok w)
    (hsx : wfExpr E.K.M E.P E.A x = true) {base a s} {i : Instr} {v : Val}
    (hAt : At E.K.C base ((relExpr x base a).1 ++ [i])) (hoof : (relExpr x base a).2.oof = false)
    (hpc : s.pc = base) (hok : E.ok s)
    (hstep : ∀ s1 : VmState, s1.stack = w :: s.stack →
      MJ.Vm.step E.K.ctx i s1 = .ok { s1 with pc := s1.pc + 1, stack := v :: s.stack }) :
    Pushed E s (base + ((relExpr x base a).1 ++ [i]).length) (v :: s.stack) := by
  have r1 := ih E x w hx hsx base a s hAt.left hoof hpc hok
  refine r1.step (i := i) (by simpa using hAt.right.head) (fun cls1 => ?_)
  rw [hstep _ rfl]; simp [Nat.add_assoc]

/-- the value of a strict binary operator -/
def binVal (op : BinOp) (a b : Val) : Res Val :=
  match op with
  | .concat => .ok (.str (render a ++ render b))
  | .eq => (compareOp .eq a b).map .bool
  | .ne => (compareOp .ne a b).map .bool
  | .lt => (compareOp .lt a b).map .bool
  | .le => (compareOp .le a b).map .bool
  | .gt => (compareOp .gt a b).map .bool
  | .ge => (compareOp .ge a b).map .bool
  | .isin => (compareOp .isin a b).map .bool
  | op => arith op a b

theorem evalExpr_binop {m ctx heap stack op l r} (h1 : op ≠ .and) (h2 : op ≠ .or) :
    evalExpr (m + 1) ctx heap stack (.binop op l r) =
      (evalExpr m ctx heap stack l).bind fun a => (evalExpr m ctx heap stack r).bind fun b => binVal op a b := by
  cases op <;> simp [evalExpr, bind, Except.bind, binVal] at h1 h2 ⊢ <;> rfl

theorem step_binInstr {ctx op a b rest v} {s : VmState} (h1 : op ≠ .and) (h2 : op ≠ .or)
    (hs : s.stack = b :: a :: rest) (hv : binVal op a b = .ok v) :
    MJ.Vm.step ctx (binInstr op) s = .ok { s with pc := s.pc + 1, stack := v :: rest } := by
  cases op <;> simp [binInstr, MJ.Vm.step, binArith, binCmp, hs, binVal, compareOp] at h1 h2 hv ⊢ <;>
    first
    | (simp [hv, Except.map]; done)
    | (simp [Except.map] at hv; exact hv)
    | (cases hc : contains b a <;> simp [hc, Except.map] at hv ⊢ <;> simp [hv]; done)
    | (subst hv; rfl)

def SimList (n : Nat) : Prop :=
  ∀ (E : ECtx) es vs, evalList n E.K.ctx E.heap (E.loc ++ E.env) es = .ok vs → wfList E.K.M E.P E.A es = true →
    ∀ base a s, At E.K.C base (relList es base a).1 → (relList es base a).2.oof = false → s.pc = base → E.ok s →
      Pushed E s (base + (relList es base a).1.length) (vs.reverse ++ s.stack)

def SimArgs (n : Nat) : Prop :=
  ∀ (E : ECtx) args as, evalArgs n E.K.ctx E.heap (E.loc ++ E.env) args = .ok as → wfArgs E.K.M E.P E.A args = true →
    ∀ base a s, At E.K.C base (relArgs args base a).1 → (relArgs args base a).2.oof = false → s.pc = base → E.ok s →
      Pushed E s (base + (relArgs args base a).1.length) ((as.map (·.2)).reverse ++ s.stack)

def SimPairs (n : Nat) : Prop :=
  ∀ (E : ECtx) kvs ps, evalPairs n E.K.ctx E.heap (E.loc ++ E.env) kvs = .ok ps → wfPairs E.K.M E.P E.A kvs = true →
    ∀ base a s, At E.K.C base (relPairs kvs base a).1 → (relPairs kvs base a).2.oof = false → s.pc = base → E.ok s →
      Pushed E s (base + (relPairs kvs base a).1.length) ((flat ps).reverse ++ s.stack)

theorem sim_list_step {n} (ihE : SimExpr n) (ihL : SimList n) : SimList (n + 1) := by
  intro E es vs hev hs base a s hAt hoof hpc hok
  cases es with
  | nil =>
    simp [evalList] at hev; subst hev
    simp [relList]; rw [← hpc]; exact Pushed.refl E s
  | cons e rest =>
    simp only [evalList, bind, Except.bind] at hev
    split at hev
    · simp at hev
    · rename_i v hv
      split at hev
      · simp at hev
      · rename_i ws hws
        simp at hev; subst hev
        have hs' : wfExpr E.K.M E.P E.A e = true ∧ wfList E.K.M E.P E.A rest = true := by simpa [wfList] using hs
        simp only [relList] at hAt hoof ⊢
        have ho1 : (relExpr e base a).2.oof = false := by
          cases h : (relExpr e base a).2.oof with
          | false => rfl
          | true => rw [relList_oof_mono rest _ _ h] at hoof; cases hoof
        have r1 := ihE E e v hv hs'.1 base a s hAt.left ho1 hpc hok
        refine r1.trans (fun c1 x1 => ?_)
        have r2 := ihL E rest ws hws hs'.2 (base + (relExpr e base a).1.length) (relExpr e base a).2
          { s with pc := base + (relExpr e base a).1.length, stack := v :: s.stack, closures := c1 } hAt.right hoof rfl
          (hok.next x1 _ _)
        exact r2.cast (by vmeq) (by vmeq)

theorem oof_false_of_relArgs {args b a} (h : (relArgs args b a).2.oof = false) : a.oof = false := by
  cases ha : a.oof with
  | false => rfl
  | true => rw [relArgs_oof_mono args b a ha] at h; cases h

theorem oof_false_of_relPairs {kvs b a} (h : (relPairs kvs b a).2.oof = false) : a.oof = false := by
  cases ha : a.oof with
  | false => rfl
  | true => rw [relPairs_oof_mono kvs b a ha] at h; cases h

theorem oof_false_of_relList {es b a} (h : (relList es b a).2.oof = false) : a.oof = false := by
  cases ha : a.oof with
  | false => rfl
  | true => rw [relList_oof_mono es b a ha] at h; cases h

theorem sim_args_step {n} (ihE : SimExpr n) (ihA : SimArgs n) : SimArgs (n + 1) := by
  intro E args as hev hs base a s hAt hoof hpc hok
  cases args with
  | nil =>
    simp [evalArgs] at hev; subst hev
    simp [relArgs]; rw [← hpc]; exact Pushed.refl E s
  | cons arg rest =>
    obtain ⟨k, e⟩ := arg
    cases k with
    | some k => simp [wfArgs] at hs
    | none =>
      simp only [evalArgs, bind, Except.bind] at hev
      split at hev
      · simp at hev
      · rename_i v hv
        split at hev
        · simp at hev
        · rename_i ws hws
          simp at hev; subst hev
          have hs' : wfExpr E.K.M E.P E.A e = true ∧ wfArgs E.K.M E.P E.A rest = true := by simpa [wfArgs] using hs
          simp only [relArgs] at hAt hoof ⊢
          have ho1 := oof_false_of_relArgs hoof
          have r1 := ihE E e v hv hs'.1 base a s hAt.left ho1 hpc hok
          refine r1.trans (fun c1 x1 => ?_)
          have r2 := ihA E rest ws hws hs'.2 (base + (relExpr e base a).1.length) (relExpr e base a).2
            { s with pc := base + (relExpr e base a).1.length, stack := v :: s.stack, closures := c1 } hAt.right hoof rfl
            (hok.next x1 _ _)
          exact r2.cast (by vmeq) (by vmeq)

theorem sim_pairs_step {n} (ihE : SimExpr n) (ihP : SimPairs n) : SimPairs (n + 1) := by
  intro E kvs ps hev hs base a s hAt hoof hpc hok
  cases kvs with
  | nil =>
    simp [evalPairs] at hev; subst hev
    simp [relPairs, flat]; rw [← hpc]; exact Pushed.refl E s
  | cons kv rest =>
    obtain ⟨k, e⟩ := kv
    simp only [evalPairs, bind, Except.bind] at hev
    split at hev
    · simp at hev
    · rename_i kv hkv
      split at hev
      · simp at hev
      · rename_i v hv
        split at hev
        · simp at hev
        · rename_i ws hws
          simp at hev; subst hev
          have hs' : (wfExpr E.K.M E.P E.A k = true ∧ wfExpr E.K.M E.P E.A e = true) ∧ wfPairs E.K.M E.P E.A rest = true := by
            simpa [wfPairs] using hs
          simp only [relPairs] at hAt hoof ⊢
          have ho2 := oof_false_of_relPairs hoof
          have ho1 := oof_false_of_relExpr ho2
          have r1 := ihE E k kv hkv hs'.1.1 base a s hAt.left.left ho1 hpc hok
          refine r1.trans (fun c1 x1 => ?_)
          have r2 := ihE E e v hv hs'.1.2 (base + (relExpr k base a).1.length) (relExpr k base a).2
            { s with pc := base + (relExpr k base a).1.length, stack := kv :: s.stack, closures := c1 } hAt.left.right ho2 rfl
            (hok.next x1 _ _)
          refine r2.trans (fun c2 x2 => ?_)
          have r3 := ihP E rest ws hws hs'.2
            (base + (relExpr k base a).1.length + (relExpr e (base + (relExpr k base a).1.length) (relExpr k base a).2).1.length)
            (relExpr e (base + (relExpr k base a).1.length) (relExpr k base a).2).2
            { s with pc := base + (relExpr k base a).1.length + (relExpr e (base + (relExpr k base a).1.length) (relExpr k base a).2).1.length,
                     stack := v :: kv :: s.stack, closures := c2 }
            (At.cast hAt.right (by simp [Nat.add_assoc]; try omega)) hoof rfl
            ((hok.next x1 (base + (relExpr k base a).1.length) (kv :: s.stack)).next x2 _ _)
          exact r3.cast (by vmeq) (by vmeq)

theorem splitArgs_none (as : List (Option String × Val)) (h : ∀ p ∈ as, p.1 = none) :
    (splitArgs as).1 = as.map (·.2) ∧ (splitArgs as).2 = [] := by
  induction as with
  | nil => simp [splitArgs]
  | cons p rest ih =>
    obtain ⟨k, v⟩ := p
    have hk : k = none := h (k, v) (by simp)
    subst hk
    have := ih (fun p hp => h p (by simp [hp]))
    simp [splitArgs] at this ⊢
    exact this

theorem evalArgs_keys {n ctx heap stack} {M P A} : ∀ (args : List (Option String × Expr)) (as),
    evalArgs n ctx heap stack args = .ok as → wfArgs M P A args = true → ∀ p ∈ as, p.1 = none := by
  induction n with
  | zero => intro args as h; simp [evalArgs] at h
  | succ m ih =>
    intro args as h hs
    cases args with
    | nil => simp [evalArgs] at h; subst h; simp
    | cons arg rest =>
      obtain ⟨k, e⟩ := arg
      cases k with
      | some k => simp [wfArgs] at hs
      | none =>
        simp only [evalArgs, bind, Except.bind] at h
        split at h
        · simp at h
        · split at h
          · simp at h
          · rename_i ws hws
            simp at h; subst h
            have hs' : wfExpr M P A e = true ∧ wfArgs M P A rest = true := by simpa [wfArgs] using hs
            intro p hp
            simp at hp
            rcases hp with rfl | hp
            · rfl
            · exact ih rest ws hws hs'.2 p hp

theorem evalArgs_length {n ctx heap stack} : ∀ (args : List (Option String × Expr)) (as),
    evalArgs n ctx heap stack args = .ok as → as.length = args.length := by
  induction n with
  | zero => intro args as h; simp [evalArgs] at h
  | succ m ih =>
    intro args as h
    cases args with
    | nil => simp [evalArgs] at h; subst h; rfl
    | cons arg rest =>
      obtain ⟨k, e⟩ := arg
      simp only [evalArgs, bind, Except.bind] at h
      split at h
      · simp at h
      · split at h
        · simp at h
        · rename_i ws hws
          simp at h; subst h; simp [ih rest ws hws]

theorem evalList_length {n ctx heap stack} : ∀ (es : List Expr) (vs), evalList n ctx heap stack es = .ok vs →
    vs.length = es.length := by
  induction n with
  | zero => intro es vs h; simp [evalList] at h
  | succ m ih =>
    intro es vs h
    cases es with
    | nil => simp [evalList] at h; subst h; rfl
    | cons e rest =>
      simp only [evalList, bind, Except.bind] at h
      split at h
      · simp at h
      · split at h
        · simp at h
        · rename_i ws hws
          simp at h; subst h; simp [ih rest ws hws]

theorem evalPairs_length {n ctx heap stack} : ∀ (kvs : List (Expr × Expr)) (ps), evalPairs n ctx heap stack kvs = .ok ps →
    ps.length = kvs.length := by
  induction n with
  | zero => intro kvs ps h; simp [evalPairs] at h
  | succ m ih =>
    intro kvs ps h
    cases kvs with
    | nil => simp [evalPairs] at h; subst h; rfl
    | cons kv rest =>
      obtain ⟨k, e⟩ := kv
      simp only [evalPairs, bind, Except.bind] at h
      split at h
      · simp at h
      · split at h
        · simp at h
        · split at h
          · simp at h
          · rename_i ws hws
            simp at h; subst h; simp [ih rest ws hws]

theorem flat_length (ps : List (Val × Val)) : (flat ps).length = 2 * ps.length := by
  induction ps with
  | nil => rfl
  | cons p rest ih => obtain ⟨k, v⟩ := p; simp [flat, ih]; omega

theorem pairUp_flat (ps : List (Val × Val)) : pairUp (flat ps) = some ps := by
  induction ps with
  | nil => rfl
  | cons p rest ih => obtain ⟨k, v⟩ := p; simp [flat, pairUp, ih]


/-- the final comparison of a chain (and any single comparison operator) -/
theorem step_cmpInstrs {E : ECtx} {op a b r} {s : VmState} {st : List Val} {base : Nat}
    (hAt : At E.K.C base (cmpInstrs op)) (hpc : s.pc = base) (hs : s.stack = b :: a :: st)
    (hr : compareOp op a b = .ok r) :
    Pushed E s (base + (cmpInstrs op).length) (.bool r :: st) := by
  cases op
  case notin =>
    simp only [cmpInstrs] at hAt ⊢
    simp only [compareOp] at hr
    cases hc : contains b a with
    | error e => simp [hc, Except.map] at hr
    | ok c =>
      have hrc : r = !c := by
        rw [hc] at hr; simp only [Except.map, Except.ok.injEq] at hr; rw [← hr]
      subst hrc
      have p1 : Pushed E s (base + 1) (.bool c :: st) :=
        Pushed.first (i := .isIn) (by rw [hpc]; exact hAt.head) (by simp [MJ.Vm.step, hs, hc, Except.map, hpc])
      exact p1.step (i := .not) hAt.tail.head (fun cls1 => by simp [MJ.Vm.step, truthy])
  all_goals
    simp only [cmpInstrs] at hAt ⊢
    refine Pushed.first (by rw [hpc]; exact hAt.head) ?_
    first
    | (simp [MJ.Vm.step, binCmp, hs, hr, Except.map, hpc]; done)
    | (simp only [compareOp] at hr; simp [MJ.Vm.step, hs, hr, Except.map, hpc])

def SimChain (n : Nat) : Prop :=
  ∀ (E : ECtx) ops a v, evalChain n E.K.ctx E.heap (E.loc ++ E.env) a ops = .ok v → wfChain E.K.M E.P E.A ops = true → ops ≠ [] →
    ∀ base aux cs (s : VmState) (st : List Val), At E.K.C base (relChain ops base aux cs).1 →
      (relChain ops base aux cs).2.oof = false →
      E.K.C[base + (relChain ops base aux cs).1.length]? = some (.jump (cs + 2)) →
      At E.K.C cs [Instr.swap, Instr.discardTop] → s.pc = base → s.stack = a :: st → E.ok s →
      Pushed E s (cs + 2) (v :: st)

theorem oof_false_of_relChain {ops b a cs} (h : (relChain ops b a cs).2.oof = false) : a.oof = false := by
  cases ha : a.oof with
  | false => rfl
  | true => rw [relChain_oof_mono ops b a cs ha] at h; cases h

theorem sim_chain_step {n} (ihE : SimExpr n) (ihC : SimChain n) : SimChain (n + 1) := by
  intro E ops a v hev hs hne base aux cs s st hAt hoof hJ hCl hpc hst hok
  match ops, hne with
  | [(op, e)], _ =>
    have hse : wfExpr E.K.M E.P E.A e = true := by simpa [wfChain] using hs
    simp only [evalChain, bind, Except.bind] at hev
    split at hev
    · simp at hev
    · rename_i b hb
      split at hev
      · simp at hev
      · rename_i r hr
        simp only [relChain] at hAt hoof hJ
        have hv : v = .bool r := by
          cases r with
          | false => simp at hev; exact hev.symm
          | true =>
            simp at hev
            cases n with
            | zero => simp [evalChain] at hev
            | succ m => simp [evalChain] at hev; exact hev.symm
        subst hv
        have r1 := ihE E e b hb hse base aux s hAt.left hoof hpc hok
        refine r1.trans (fun c1 x1 => ?_)
        have r2 := step_cmpInstrs (E := E)
          (s := { s with pc := base + (relExpr e base aux).1.length, stack := b :: s.stack, closures := c1 })
          (st := st) hAt.right rfl (by simp [hst]) hr
        refine (r2.step (i := .jump (cs + 2)) (by rw [← hJ]; congr 1; simp [Nat.add_assoc]) (fun cls1 => by simp [MJ.Vm.step])).cast rfl rfl
  | (op, e) :: o2 :: rest, _ =>
    have hs' : wfExpr E.K.M E.P E.A e = true ∧ wfChain E.K.M E.P E.A (o2 :: rest) = true := by simpa [wfChain] using hs
    simp only [evalChain, bind, Except.bind] at hev
    split at hev
    · simp at hev
    · rename_i b hb
      split at hev
      · simp at hev
      · rename_i r hr
        simp only [relChain] at hAt hoof hJ
        have ho1 := oof_false_of_relChain hoof
        have r1 := ihE E e b hb hs'.1 base aux s hAt.left.left ho1 hpc hok
        have hcap := hAt.left.right.head
        have hjf := hAt.left.right.tail.head
        refine r1.trans (fun c1 x1 => ?_)
        -- CompareAndPreserve
        have r2 : Pushed E { s with pc := base + (relExpr e base aux).1.length, stack := b :: s.stack, closures := c1 }
            (base + (relExpr e base aux).1.length + 1) (.bool r :: b :: st) :=
          Pushed.first (i := .compareAndPreserve op) hcap (by simp [MJ.Vm.step, hst, hr, Except.map])
        cases r with
        | true =>
          simp at hev
          have r3 := r2.step (i := .jumpIfFalseOrPop cs) (p2 := base + (relExpr e base aux).1.length + 2) (st2 := b :: st)
            hjf (fun cls1 => by simp [MJ.Vm.step, truthy])
          refine r3.trans (fun c2 x2 => ?_)
          have r4 := ihC E (o2 :: rest) b v hev hs'.2 (by simp) (base + (relExpr e base aux).1.length + 2)
            (relExpr e base aux).2 cs
            { s with pc := base + (relExpr e base aux).1.length + 2, stack := b :: st, closures := c2 } st
            (At.cast hAt.right (by simp [Nat.add_assoc])) hoof
            (by rw [← hJ]; congr 1; simp only [List.length_append, List.length_cons, List.length_nil]; omega)
            hCl rfl rfl ((hok.next x1 _ _).next x2 _ _)
          exact r4.cast rfl rfl
        | false =>
          simp at hev; subst hev
          have r3 := r2.step (i := .jumpIfFalseOrPop cs) (p2 := cs) (st2 := .bool false :: b :: st)
            hjf (fun cls1 => by simp [MJ.Vm.step, truthy])
          have r4 := r3.step (i := .swap) (p2 := cs + 1) (st2 := b :: .bool false :: st) hCl.head
            (fun cls1 => by simp [MJ.Vm.step])
          exact r4.step (i := .discardTop) (p2 := cs + 2) (st2 := .bool false :: st) hCl.tail.head
            (fun cls1 => by simp [MJ.Vm.step])


/-! ## The arguments of a call -/

def flatKw (kw : List (String × Val)) : List Val := flat (kw.map fun p => (Val.str p.1, p.2))

def SimPosArgs (n : Nat) : Prop :=
  ∀ (E : ECtx) args as, evalArgs n E.K.ctx E.heap (E.loc ++ E.env) args = .ok as → wfCallArgs E.K.M E.P E.A args = true →
    ∀ base a s, At E.K.C base (relPosArgs args base a).1 → (relPosArgs args base a).2.oof = false → s.pc = base → E.ok s →
      Pushed E s (base + (relPosArgs args base a).1.length) ((splitArgs as).1.reverse ++ s.stack)

def SimKwArgs (n : Nat) : Prop :=
  ∀ (E : ECtx) args as, evalArgs n E.K.ctx E.heap (E.loc ++ E.env) args = .ok as → wfCallArgs E.K.M E.P E.A args = true →
    ∀ base a s, At E.K.C base (relKwArgs args base a).1 → (relKwArgs args base a).2.oof = false → s.pc = base → E.ok s →
      Pushed E s (base + (relKwArgs args base a).1.length) ((flatKw (splitArgs as).2).reverse ++ s.stack)

theorem oof_false_of_relPosArgs {args b a} (h : (relPosArgs args b a).2.oof = false) : a.oof = false := by
  cases ha : a.oof with
  | false => rfl
  | true => rw [relPosArgs_oof_mono args b a ha] at h; cases h

theorem oof_false_of_relKwArgs {args b a} (h : (relKwArgs args b a).2.oof = false) : a.oof = false := by
  cases ha : a.oof with
  | false => rfl
  | true => rw [relKwArgs_oof_mono args b a ha] at h; cases h

theorem splitArgs_cons_none (v : Val) (vs : List (Option String × Val)) :
    splitArgs ((none, v) :: vs) = (v :: (splitArgs vs).1, (splitArgs vs).2) := by simp [splitArgs]

theorem splitArgs_cons_some (k : String) (v : Val) (vs : List (Option String × Val)) :
    splitArgs ((some k, v) :: vs) = ((splitArgs vs).1, (k, v) :: (splitArgs vs).2) := by simp [splitArgs]

theorem sim_posArgs_step {n} (ihE : SimExpr n) (ihA : SimPosArgs n) : SimPosArgs (n + 1) := by
  intro E args as hev hs base a s hAt hoof hpc hok
  cases args with
  | nil =>
    simp [evalArgs] at hev; subst hev
    simp [relPosArgs, splitArgs]; rw [← hpc]; exact Pushed.refl E s
  | cons arg rest =>
    obtain ⟨k, e⟩ := arg
    simp only [evalArgs, bind, Except.bind] at hev
    split at hev
    · simp at hev
    · rename_i v hv
      split at hev
      · simp at hev
      · rename_i ws hws
        simp at hev; subst hev
        have hs' : wfExpr E.K.M E.P E.A e = true ∧ wfCallArgs E.K.M E.P E.A rest = true := by simpa [wfCallArgs] using hs
        cases k with
        | some k =>
          simp only [relPosArgs, splitArgs_cons_some] at hAt hoof ⊢
          exact ihA E rest ws hws hs'.2 base a s hAt hoof hpc hok
        | none =>
          simp only [relPosArgs, splitArgs_cons_none] at hAt hoof ⊢
          have ho1 := oof_false_of_relPosArgs hoof
          have r1 := ihE E e v hv hs'.1 base a s hAt.left ho1 hpc hok
          refine r1.trans (fun c1 x1 => ?_)
          have r2 := ihA E rest ws hws hs'.2 (base + (relExpr e base a).1.length) (relExpr e base a).2
            { s with pc := base + (relExpr e base a).1.length, stack := v :: s.stack, closures := c1 } hAt.right hoof rfl
            (hok.next x1 _ _)
          exact r2.cast (by vmeq) (by vmeq)

theorem sim_kwArgs_step {n} (ihE : SimExpr n) (ihA : SimKwArgs n) : SimKwArgs (n + 1) := by
  intro E args as hev hs base a s hAt hoof hpc hok
  cases args with
  | nil =>
    simp [evalArgs] at hev; subst hev
    simp [relKwArgs, splitArgs, flatKw, flat]; rw [← hpc]; exact Pushed.refl E s
  | cons arg rest =>
    obtain ⟨k, e⟩ := arg
    simp only [evalArgs, bind, Except.bind] at hev
    split at hev
    · simp at hev
    · rename_i v hv
      split at hev
      · simp at hev
      · rename_i ws hws
        simp at hev; subst hev
        have hs' : wfExpr E.K.M E.P E.A e = true ∧ wfCallArgs E.K.M E.P E.A rest = true := by simpa [wfCallArgs] using hs
        cases k with
        | none =>
          simp only [relKwArgs, splitArgs_cons_none] at hAt hoof ⊢
          exact ihA E rest ws hws hs'.2 base a s hAt hoof hpc hok
        | some k =>
          simp only [relKwArgs, splitArgs_cons_some] at hAt hoof ⊢
          have ho1 := oof_false_of_relKwArgs hoof
          have p0 : Pushed E s (base + 1) (.str k :: s.stack) :=
            Pushed.first (i := .loadConst (.str k)) (by rw [hpc]; exact hAt.left.left.head) (by simp [MJ.Vm.step, hpc])
          refine p0.trans (fun c0 x0 => ?_)
          have r1 := ihE E e v hv hs'.1 (base + 1) a
            { s with pc := base + 1, stack := .str k :: s.stack, closures := c0 }
            (At.cast hAt.left.right (by simp)) ho1 rfl (hok.next x0 _ _)
          refine r1.trans (fun c1 x1 => ?_)
          have r2 := ihA E rest ws hws hs'.2 (base + 1 + (relExpr e (base + 1) a).1.length) (relExpr e (base + 1) a).2
            { s with pc := base + 1 + (relExpr e (base + 1) a).1.length, stack := v :: .str k :: s.stack, closures := c1 }
            (At.cast hAt.right (by simp [Nat.add_assoc]; omega)) hoof rfl ((hok.next x0 (base + 1) (.str k :: s.stack)).next x1 _ _)
          exact r2.cast (by simp [Nat.add_assoc]; omega) (by simp [flatKw, flat])

/-! keyword bundles -/

theorem assocGet_mapInsert (k k' : String) (v : Val) : ∀ (acc : List (String × Val)),
    assocGet k' (mapInsert k v acc) = if k' = k then some v else assocGet k' acc
  | [] => by
    by_cases h : k' = k
    · subst h; simp [mapInsert, assocGet]
    · have : ¬ k = k' := fun e => h e.symm
      simp [mapInsert, assocGet, h, this]
  | (k1, v1) :: rest => by
    simp only [mapInsert]
    by_cases h1 : k = k1
    · subst h1
      by_cases h : k' = k
      · subst h; simp [assocGet]
      · have : ¬ k = k' := fun e => h e.symm
        simp [assocGet, h, this]
    · simp only [h1, if_false]
      by_cases h2 : k < k1
      · simp only [h2, if_true]
        by_cases h : k' = k
        · subst h; simp [assocGet]
        · have : ¬ k = k' := fun e => h e.symm
          simp [assocGet, h, this]
      · simp only [h2, if_false]
        have ih := assocGet_mapInsert k k' v rest
        by_cases h : k1 = k'
        · subst h
          have : ¬ k1 = k := fun e => h1 e.symm
          simp [assocGet, this]
        · simp [assocGet, h, ih]

theorem insertPairs_kw : ∀ (kw : List (String × Val)) (acc : List (String × Val)),
    (kw.map (·.1)).Nodup → (∀ k ∈ kw.map (·.1), assocGet k acc = none) →
    ∃ m, insertPairs (kw.map fun p => (Val.str p.1, p.2)) acc = .ok m ∧
      ∀ k', assocGet k' m = match assocGet k' kw with
        | some v => some v
        | none => assocGet k' acc
  | [], acc, _, _ => ⟨acc, by simp [insertPairs], fun k' => by simp [assocGet]⟩
  | (k, v) :: rest, acc, hnd, hacc => by
    have hk : assocGet k acc = none := hacc k (by simp)
    have hnd' : (rest.map (·.1)).Nodup := (List.nodup_cons.1 (by simpa using hnd)).2
    have hknot : k ∉ rest.map (·.1) := (List.nodup_cons.1 (by simpa using hnd)).1
    have hacc' : ∀ k2 ∈ rest.map (·.1), assocGet k2 (mapInsert k v acc) = none := by
      intro k2 hk2
      rw [assocGet_mapInsert]
      have : ¬ k2 = k := fun e => hknot (e ▸ hk2)
      simp [this, hacc k2 (by simp [hk2])]
    obtain ⟨m, hm, hget⟩ := insertPairs_kw rest (mapInsert k v acc) hnd' hacc'
    refine ⟨m, by simp [insertPairs, hk, hm], fun k' => ?_⟩
    rw [hget k', assocGet_mapInsert]
    by_cases h : k = k'
    · subst h
      have : assocGet k rest = none := by
        cases hg : assocGet k rest with
        | none => rfl
        | some w =>
          have := MJ.ArgBind.assocGet_mem hg
          exact absurd (List.mem_map.2 ⟨(k, w), this, rfl⟩) hknot
      simp [assocGet, this]
    · have : ¬ k' = k := fun e => h e.symm
      simp [assocGet, h, this]

theorem pairUp_flatKw (kw : List (String × Val)) : pairUp (flatKw kw) = some (kw.map fun p => (Val.str p.1, p.2)) := by
  unfold flatKw; exact pairUp_flat _

theorem flatKw_length (kw : List (String × Val)) : (flatKw kw).length = 2 * kw.length := by
  unfold flatKw; rw [flat_length]; simp

/-- the keys of the evaluated arguments are the keys of the argument expressions -/
theorem evalArgs_keysOf {n ctx heap stack} : ∀ (args : List (Option String × Expr)) (as),
    evalArgs n ctx heap stack args = .ok as → (splitArgs as).2.map (·.1) = keysOf args ∧
      (splitArgs as).1.length = (posArgs args).length ∧ (splitArgs as).2.length = (kwArgs args).length := by
  induction n with
  | zero => intro args as h; simp [evalArgs] at h
  | succ m ih =>
    intro args as h
    cases args with
    | nil => simp [evalArgs] at h; subst h; simp [splitArgs, keysOf, posArgs, kwArgs]
    | cons arg rest =>
      obtain ⟨k, e⟩ := arg
      simp only [evalArgs, bind, Except.bind] at h
      split at h
      · simp at h
      · split at h
        · simp at h
        · rename_i v _ ws hws
          simp at h; subst h
          have := ih rest ws hws
          cases k with
          | none => simpa [splitArgs_cons_none, keysOf, posArgs, kwArgs] using this
          | some k => simpa [splitArgs_cons_some, keysOf, posArgs, kwArgs] using this

/-- literal keyword arguments: the constant bundle the code generator builds is the bundle of the
evaluated arguments -/
theorem staticKwargs_bundle {n ctx heap stack} : ∀ (args : List (Option String × Expr)) (as) (m),
    evalArgs n ctx heap stack args = .ok as → staticKwargs (kwArgs args) = some m → (keysOf args).Nodup →
    ∀ k, assocGet k m = assocGet k (splitArgs as).2 := by
  induction n with
  | zero => intro args as m h; simp [evalArgs] at h
  | succ j ih =>
    intro args as m h hst hnd
    cases args with
    | nil =>
      simp [evalArgs] at h; subst h
      simp [kwArgs, staticKwargs] at hst; subst hst
      intro k; simp [splitArgs, assocGet]
    | cons arg rest =>
      obtain ⟨k0, e⟩ := arg
      simp only [evalArgs, bind, Except.bind] at h
      split at h
      · simp at h
      · rename_i v hv
        split at h
        · simp at h
        · rename_i ws hws
          simp at h; subst h
          cases k0 with
          | none =>
            have : kwArgs ((none, e) :: rest) = kwArgs rest := by simp [kwArgs]
            rw [this] at hst
            have hnd' : (keysOf rest).Nodup := by simpa [keysOf] using hnd
            simpa [splitArgs_cons_none] using ih rest ws m hws hst hnd'
          | some k0 =>
            have hkw : kwArgs ((some k0, e) :: rest) = (k0, e) :: kwArgs rest := by simp [kwArgs]
            rw [hkw] at hst
            have hnd' : k0 ∉ keysOf rest ∧ (keysOf rest).Nodup := by simpa [keysOf] using hnd
            cases e with
            | const l =>
              simp only [staticKwargs] at hst
              cases hr : staticKwargs (kwArgs rest) with
              | none => rw [hr] at hst; simp at hst
              | some m' =>
                rw [hr] at hst
                simp only [Option.map_some, Option.some.injEq] at hst
                have ihr := ih rest ws m' hws hr hnd'.2
                have hk0 : assocGet k0 m' = none := by
                  rw [ihr k0]
                  cases hg : assocGet k0 (splitArgs ws).2 with
                  | none => rfl
                  | some w =>
                    have hmem := MJ.ArgBind.assocGet_mem hg
                    have : k0 ∈ (splitArgs ws).2.map (·.1) := List.mem_map.2 ⟨(k0, w), hmem, rfl⟩
                    rw [(evalArgs_keysOf rest ws hws).1] at this
                    exact absurd this hnd'.1
                rw [hk0] at hst
                subst hst
                have hvl : v = litVal l := by
                  cases j with
                  | zero => simp [evalExpr] at hv
                  | succ j' => simp [evalExpr] at hv; exact hv.symm
                intro k
                rw [assocGet_mapInsert, splitArgs_cons_some]
                by_cases hk : k = k0
                · subst hk; simp [assocGet, hvl]
                · have : ¬ k0 = k := fun e => hk e.symm
                  simp [assocGet, hk, this, ihr k]
            | _ => simp [staticKwargs] at hst

theorem allowed_safe {P : Option (List String)} {A : List String} {x : String} {heap : Heap} {loc : List Nat}
    (h : allowed P A x = true) (hA : ABound heap loc A) : BoundIn heap loc x ∨ tailOk P x := by
  cases P with
  | none => exact Or.inr trivial
  | some fv =>
    simp only [allowed, Bool.or_eq_true, List.contains_iff_mem] at h
    rcases h with h | h
    · exact Or.inr h
    · exact Or.inl (hA x h)

/-- what the VM finds for a readable variable, against the reference semantics -/
theorem ECtx.ok.lookup {E : ECtx} {s : VmState} (h : E.ok s) {x : String} (hx : allowed E.P E.A x = true) :
    ValAgree E.K E.G s.closures E.heap.length x ((MJ.Eval.lookup E.K.ctx E.heap (E.loc ++ E.env) x).getD .undef)
      (lookupFrames E.K.ctx s.closures x s.frames) :=
  h.1.lookupAgree h.2.2 x (allowed_safe hx h.2.1)

theorem rel_call {x args} (base a) :
    relExpr (.call (.var x) args) base a =
      match kwArgs args with
      | [] => ((relPosArgs args base a).1 ++ [.callFunction x (posArgs args).length], (relPosArgs args base a).2)
      | k0 :: ks =>
        match staticKwargs (k0 :: ks) with
        | some m => ((relPosArgs args base a).1 ++ [.loadConst (.kwargs m), .callFunction x ((posArgs args).length + 1)],
            (relPosArgs args base a).2)
        | none =>
          ((relPosArgs args base a).1 ++ (relKwArgs args (base + (relPosArgs args base a).1.length) (relPosArgs args base a).2).1 ++
            [.buildKwargs (k0 :: ks).length, .callFunction x ((posArgs args).length + 1)],
           (relKwArgs args (base + (relPosArgs args base a).1.length) (relPosArgs args base a).2).2) := by
  conv => lhs; unfold relExpr
  simp only [asConst]
  cases kwArgs args with
  | nil => rfl
  | cons k0 ks => simp only; cases staticKwargs (k0 :: ks) <;> rfl

/-- the `CallFunction` at the end of the code of a call: the argument values are on the operand stack -/
theorem sim_call_instr {n} (ihCall : SimCall n) {E : ECtx} {s : VmState} {x : String} {w v : Val}
    {as : List (Option String × Val)} {args : List Val} {pcC : Nat} (hok : E.ok s)
    (hxM : x ∈ E.K.M) (hxa : allowed E.P E.A x = true)
    (hw : MJ.Eval.lookup E.K.ctx E.heap (E.loc ++ E.env) x = some w)
    (hcall : callValue n E.K.ctx E.heap w as = .ok v)
    (hargs : ∀ cls, Ext s.closures cls → ArgsRel E.K E.G cls E.heap.length as args)
    (hi : E.K.C[pcC]? = some (.callFunction x args.length))
    (hp : Pushed E s pcC (args.reverse ++ s.stack)) : Pushed E s (pcC + 1) (v :: s.stack) := by
  obtain ⟨c1, x1, r1⟩ := hp
  have hok1 := hok.next x1 pcC (args.reverse ++ s.stack)
  have hag := hok1.lookup hxa
  rw [hw] at hag
  simp only [Option.getD_some, ValAgree, if_pos hxM] at hag
  obtain ⟨nm, spec, off, clo, cref, vals, caller, s1, hu, hprep, hreach, hret, hv, hext⟩ :=
    ihCall E.K E.G E.heap c1 w _ as args v hcall hag (hargs c1 x1) hok1.1.ginv hok1.1.plain
  refine ⟨s1.closures, x1.trans hext, r1.trans ?_⟩
  refine Reach.call (name := x) (argc := args.length) (args := args) (rest := s.stack) hi
    (by simpa using popN_append args s.stack) hu hprep hreach hret ?_
  subst hv
  exact Reach.refl _


theorem sim_expr_step {n} (ihE : SimExpr n) (ihL : SimList n) (ihA : SimArgs n) (ihP : SimPairs n)
    (ihC : SimChain n) (ihPA : SimPosArgs n) (ihKA : SimKwArgs n) (ihCall : SimCall n) :
    SimExpr (n + 1) := by
  intro E e v hev hs base a s hAt hoof hpc hok
  cases hc : asConst e with
  | val w => exact sim_folded hc hev hAt hpc
  | oof => rw [relExpr_oof hc] at hoof; simp at hoof
  | no =>
    cases e with
    | const l => simp [asConst] at hc
    | var x =>
      rw [rel_var] at hAt ⊢
      simp [evalExpr] at hev; subst hev
      have hx : ¬ x ∈ E.K.M ∧ allowed E.P E.A x = true := by simpa [wfExpr] using hs
      have hag := hok.lookup hx.2
      simp only [ValAgree, if_neg hx.1] at hag
      refine Pushed.first (i := .lookup x) (by rw [hpc]; exact hAt.head) ?_
      simp [MJ.Vm.step, hpc, hag]
    | unop op x =>
      have hsx : wfExpr E.K.M E.P E.A x = true := by simpa [wfExpr] using hs
      cases op with
      | not =>
        rw [rel_not hc] at hAt hoof ⊢
        simp only [evalExpr, bind, Except.bind] at hev
        split at hev
        · simp at hev
        · rename_i w hw
          simp at hev; subst hev
          exact sim_unary ihE hw hsx hAt hoof hpc hok (fun s1 h1 => by simp [MJ.Vm.step, h1])
      | neg =>
        rw [rel_neg hc] at hAt hoof ⊢
        simp only [evalExpr, bind, Except.bind] at hev
        split at hev
        · simp at hev
        · rename_i w hw
          exact sim_unary ihE hw hsx hAt hoof hpc hok (fun s1 h1 => by simp [MJ.Vm.step, h1, hev, Except.map])
    | binop op l r =>
      have hs' : wfExpr E.K.M E.P E.A l = true ∧ wfExpr E.K.M E.P E.A r = true := by simpa [wfExpr] using hs
      by_cases hand : op = .and
      · subst hand
        rw [rel_and hc] at hAt hoof ⊢
        simp only [evalExpr, bind, Except.bind] at hev
        split at hev
        · simp at hev
        · rename_i x hx
          have ho1 := oof_false_of_relExpr hoof
          have r1 := ihE E l x hx hs'.1 base a s hAt.left.left ho1 hpc hok
          have hj := hAt.left.right.head
          by_cases ht : truthy x = true
          · simp [ht] at hev
            have r1' := r1.step (i := .jumpIfFalseOrPop _) (p2 := base + (relExpr l base a).1.length + 1) (st2 := s.stack)
              hj (fun cls1 => by simp [MJ.Vm.step, ht])
            refine r1'.trans (fun c1 x1 => ?_)
            have r2 := ihE E r v hev hs'.2 (base + (relExpr l base a).1.length + 1) (relExpr l base a).2
              { s with pc := base + (relExpr l base a).1.length + 1, stack := s.stack, closures := c1 }
              (At.cast hAt.right (by simp [Nat.add_assoc]; try omega)) hoof rfl (hok.next x1 _ _)
            exact r2.cast (by vmeq) (by vmeq)
          · simp [ht] at hev; subst hev
            refine (r1.step (i := .jumpIfFalseOrPop _) hj (fun cls1 => ?_)).cast rfl rfl
            simp [MJ.Vm.step, ht]; vmeq
      · by_cases hor : op = .or
        · subst hor
          rw [rel_or hc] at hAt hoof ⊢
          simp only [evalExpr, bind, Except.bind] at hev
          split at hev
          · simp at hev
          · rename_i x hx
            have ho1 := oof_false_of_relExpr hoof
            have r1 := ihE E l x hx hs'.1 base a s hAt.left.left ho1 hpc hok
            have hj := hAt.left.right.head
            by_cases ht : truthy x = true
            · simp [ht] at hev; subst hev
              refine (r1.step (i := .jumpIfTrueOrPop _) hj (fun cls1 => ?_)).cast rfl rfl
              simp [MJ.Vm.step, ht]; vmeq
            · simp [ht] at hev
              have r1' := r1.step (i := .jumpIfTrueOrPop _) (p2 := base + (relExpr l base a).1.length + 1) (st2 := s.stack)
                hj (fun cls1 => by simp [MJ.Vm.step, ht])
              refine r1'.trans (fun c1 x1 => ?_)
              have r2 := ihE E r v hev hs'.2 (base + (relExpr l base a).1.length + 1) (relExpr l base a).2
                { s with pc := base + (relExpr l base a).1.length + 1, stack := s.stack, closures := c1 }
                (At.cast hAt.right (by simp [Nat.add_assoc]; try omega)) hoof rfl (hok.next x1 _ _)
              exact r2.cast (by vmeq) (by vmeq)
        · rw [rel_binop hc hand hor] at hAt hoof ⊢
          rw [evalExpr_binop hand hor] at hev
          simp only [Except.bind] at hev
          split at hev
          · simp at hev
          · rename_i x hx
            split at hev
            · simp at hev
            · rename_i y hy
              have ho1 := oof_false_of_relExpr hoof
              have r1 := ihE E l x hx hs'.1 base a s hAt.left.left ho1 hpc hok
              refine r1.trans (fun c1 x1 => ?_)
              have r2 := ihE E r y hy hs'.2 (base + (relExpr l base a).1.length) (relExpr l base a).2
                { s with pc := base + (relExpr l base a).1.length, stack := x :: s.stack, closures := c1 } hAt.left.right hoof rfl
                (hok.next x1 _ _)
              refine (r2.step (i := binInstr op) ?_ (fun cls1 => ?_)).cast rfl rfl
              · have := hAt.right.head; simpa [Nat.add_assoc] using this
              · rw [step_binInstr hand hor rfl hev]; vmeq
    | cmp x ops =>
      have hs' : (2 ≤ ops.length ∧ wfExpr E.K.M E.P E.A x = true) ∧ wfChain E.K.M E.P E.A ops = true := by
        simpa [wfExpr] using hs
      have hrel : relExpr (.cmp x ops) base a =
          ((relExpr x base a).1 ++
            (relChain ops (base + (relExpr x base a).1.length) (relExpr x base a).2
              (base + (relExpr x base a).1.length +
                (relChain ops (base + (relExpr x base a).1.length) (relExpr x base a).2 0).1.length + 1)).1 ++
            [.jump (base + (relExpr x base a).1.length +
                (relChain ops (base + (relExpr x base a).1.length) (relExpr x base a).2 0).1.length + 1 + 2), .swap, .discardTop],
           (relChain ops (base + (relExpr x base a).1.length) (relExpr x base a).2
              (base + (relExpr x base a).1.length +
                (relChain ops (base + (relExpr x base a).1.length) (relExpr x base a).2 0).1.length + 1)).2) := by
        conv => lhs; unfold relExpr
        simp [hc]
      rw [hrel] at hAt hoof ⊢
      simp only [evalExpr, bind, Except.bind] at hev
      split at hev
      · simp at hev
      · rename_i xv hx
        have hlen := (relChain_cs ops (base + (relExpr x base a).1.length) (relExpr x base a).2
          (base + (relExpr x base a).1.length +
            (relChain ops (base + (relExpr x base a).1.length) (relExpr x base a).2 0).1.length + 1) 0).1
        have ho1 := oof_false_of_relChain hoof
        have r1 := ihE E x xv hx hs'.1.2 base a s hAt.left.left ho1 hpc hok
        have hne : ops ≠ [] := by intro h0; rw [h0] at hs'; simp at hs'
        refine r1.trans (fun c1 x1 => ?_)
        have r2 := ihC E ops xv v hev hs'.2 hne (base + (relExpr x base a).1.length) (relExpr x base a).2
          (base + (relExpr x base a).1.length +
            (relChain ops (base + (relExpr x base a).1.length) (relExpr x base a).2 0).1.length + 1)
          { s with pc := base + (relExpr x base a).1.length, stack := xv :: s.stack, closures := c1 } s.stack
          hAt.left.right hoof
          (by have := hAt.right.head
              refine Eq.trans (congrArg (fun k => E.K.C[k]?) ?_) this
              simp only [List.length_append]; omega)
          (At.cast hAt.right.tail (by simp only [List.length_append]; omega))
          rfl rfl (hok.next x1 _ _)
        refine r2.cast ?_ rfl
        simp only [List.length_append, List.length_cons, List.length_nil]
        omega
    | ife c t f =>
      simp only [evalExpr, bind, Except.bind] at hev
      split at hev
      · simp at hev
      · rename_i cv hcv
        cases f with
        | none =>
          have hs' : wfExpr E.K.M E.P E.A c = true ∧ wfExpr E.K.M E.P E.A t = true := by simpa [wfExpr] using hs
          rw [rel_ife_none] at hAt hoof ⊢
          have ho1 := oof_false_of_relExpr hoof
          have r1 := ihE E c cv hcv hs'.1 base a s hAt.left.left.left.left ho1 hpc hok
          have hj := hAt.left.left.left.right.head
          by_cases ht : truthy cv = true
          · simp [ht] at hev
            have r1' := r1.step (i := .jumpIfFalse _) (p2 := base + (relExpr c base a).1.length + 1) (st2 := s.stack)
              hj (fun cls1 => by simp [MJ.Vm.step, ht])
            refine r1'.trans (fun c1 x1 => ?_)
            have r2 := ihE E t v hev hs'.2 (base + (relExpr c base a).1.length + 1) (relExpr c base a).2
              { s with pc := base + (relExpr c base a).1.length + 1, stack := s.stack, closures := c1 }
              (At.cast hAt.left.left.right (by simp [Nat.add_assoc]; try omega)) hoof rfl (hok.next x1 _ _)
            have hj2 := hAt.left.right.head
            refine (r2.step (i := .jump _) (by rw [← hj2]; congr 1; vmeq) (fun cls1 => ?_)).cast rfl rfl
            simp [MJ.Vm.step]; vmeq
          · simp [ht] at hev; subst hev
            have hl := hAt.right.head
            have r1' := r1.step (i := .jumpIfFalse _)
              (p2 := base + (relExpr c base a).1.length + 1 + (relExpr t (base + (relExpr c base a).1.length + 1) (relExpr c base a).2).1.length + 1)
              (st2 := s.stack) hj (fun cls1 => by simp [MJ.Vm.step, ht])
            refine (r1'.step (i := .loadConst .undef) (by rw [← hl]; congr 1; vmeq) (fun cls1 => ?_)).cast rfl rfl
            simp [MJ.Vm.step]; vmeq
        | some f =>
          have hs' : (wfExpr E.K.M E.P E.A c = true ∧ wfExpr E.K.M E.P E.A t = true) ∧ wfExpr E.K.M E.P E.A f = true := by
            simpa [wfExpr] using hs
          rw [rel_ife_some] at hAt hoof ⊢
          simp only at hAt hoof ⊢
          have ho2 := oof_false_of_relExpr hoof
          have ho1 := oof_false_of_relExpr ho2
          have r1 := ihE E c cv hcv hs'.1.1 base a s hAt.left.left.left.left ho1 hpc hok
          have hj := hAt.left.left.left.right.head
          by_cases ht : truthy cv = true
          · simp [ht] at hev
            have r1' := r1.step (i := .jumpIfFalse _) (p2 := base + (relExpr c base a).1.length + 1) (st2 := s.stack)
              hj (fun cls1 => by simp [MJ.Vm.step, ht])
            refine r1'.trans (fun c1 x1 => ?_)
            have r2 := ihE E t v hev hs'.1.2 (base + (relExpr c base a).1.length + 1) (relExpr c base a).2
              { s with pc := base + (relExpr c base a).1.length + 1, stack := s.stack, closures := c1 }
              (At.cast hAt.left.left.right (by simp [Nat.add_assoc]; try omega)) ho2 rfl (hok.next x1 _ _)
            have hj2 := hAt.left.right.head
            refine (r2.step (i := .jump _) (by rw [← hj2]; congr 1; vmeq) (fun cls1 => ?_)).cast rfl rfl
            simp [MJ.Vm.step]; vmeq
          · simp [ht] at hev
            have r1' := r1.step (i := .jumpIfFalse _)
              (p2 := base + (relExpr c base a).1.length + 1 + (relExpr t (base + (relExpr c base a).1.length + 1) (relExpr c base a).2).1.length + 1)
              (st2 := s.stack) hj (fun cls1 => by simp [MJ.Vm.step, ht])
            refine r1'.trans (fun c1 x1 => ?_)
            have r3 := ihE E f v hev hs'.2
              (base + (relExpr c base a).1.length + 1 + (relExpr t (base + (relExpr c base a).1.length + 1) (relExpr c base a).2).1.length + 1)
              (relExpr t (base + (relExpr c base a).1.length + 1) (relExpr c base a).2).2
              { s with pc := base + (relExpr c base a).1.length + 1 + (relExpr t (base + (relExpr c base a).1.length + 1) (relExpr c base a).2).1.length + 1, stack := s.stack, closures := c1 }
              (At.cast hAt.right (by simp [Nat.add_assoc]; try omega)) hoof rfl (hok.next x1 _ _)
            exact r3.cast (by vmeq) (by vmeq)
    | filter name x args =>
      have hs' : wfExpr E.K.M E.P E.A x = true ∧ wfArgs E.K.M E.P E.A args = true := by simpa [wfExpr] using hs
      have hrel : relExpr (.filter name x args) base a =
          ((relExpr x base a).1 ++ (relArgs args (base + (relExpr x base a).1.length) (relExpr x base a).2).1 ++
            [.applyFilter name (1 + args.length)
              ((relArgs args (base + (relExpr x base a).1.length) (relExpr x base a).2).2.filterId name).1],
           ((relArgs args (base + (relExpr x base a).1.length) (relExpr x base a).2).2.filterId name).2) := by
        conv => lhs; unfold relExpr
        simp [asConst]
      rw [hrel] at hAt hoof ⊢
      simp only [evalExpr, bind, Except.bind] at hev
      split at hev
      · simp at hev
      · rename_i xv hx
        split at hev
        · simp at hev
        · rename_i as has
          have hkeys := evalArgs_keys args as has hs'.2
          have hsplit := splitArgs_none as hkeys
          rw [hsplit.2, hsplit.1] at hev
          simp only at hev
          have hoA : (relArgs args (base + (relExpr x base a).1.length) (relExpr x base a).2).2.oof = false := by
            simpa using hoof
          have ho1 := oof_false_of_relArgs hoA
          have r1 := ihE E x xv hx hs'.1 base a s hAt.left.left ho1 hpc hok
          refine r1.trans (fun c1 x1 => ?_)
          have r2 := ihA E args as has hs'.2 (base + (relExpr x base a).1.length) (relExpr x base a).2
            { s with pc := base + (relExpr x base a).1.length, stack := xv :: s.stack, closures := c1 } hAt.left.right hoA rfl
            (hok.next x1 _ _)
          refine (r2.step (i := .applyFilter _ _ _) (by rw [← hAt.right.head]; congr 1; vmeq) (fun cls1 => ?_)).cast rfl rfl
          have hlen : 1 + args.length = (xv :: as.map (·.2)).length := by
            simp [evalArgs_length args as has]; omega
          have hpop : popN (1 + args.length) ((as.map (·.2)).reverse ++ xv :: s.stack) = some (xv :: as.map (·.2), s.stack) := by
            rw [hlen]
            have := popN_append (xv :: as.map (·.2)) s.stack
            simpa using this
          simp [MJ.Vm.step, hpop, hev, Except.map]; vmeq
    | test name x args =>
      by_cases hMx : ∃ y, x = .var y ∧ y ∈ E.K.M
      · -- `m is defined` for a macro name `m`: the macro object of the VM is defined like the macro value
        obtain ⟨y, rfl, hyM⟩ := hMx
        have hs' : (name = "defined" ∨ name = "undefined") ∧ allowed E.P E.A y = true ∧ args = [] := by
          have := hs
          simp only [wfExpr, Bool.or_eq_true, Bool.and_eq_true] at this
          rcases this with h | h
          · exact ⟨by simpa using h.1.1.2, h.1.2, by simpa using h.2⟩
          · have : ¬ y ∈ E.K.M := by simpa using h.1.1
            exact absurd hyM this
        obtain ⟨hname, hya, rfl⟩ := hs'
        have hrel : relExpr (.test name (.var y) []) base a =
            ([.lookup y, .performTest name 1 (a.testId name).1], (a.testId name).2) := by
          conv => lhs; unfold relExpr
          simp [asConst, relArgs, relExpr]
        rw [hrel] at hAt ⊢
        simp only [evalExpr, evalArgs, bind, Except.bind] at hev
        cases n with
        | zero => simp [evalExpr] at hev
        | succ n' =>
          simp only [evalExpr, evalArgs, splitArgs, List.filterMap_nil] at hev
          have hag := hok.lookup hya
          simp only [ValAgree, if_pos hyM] at hag
          have hkey : applyTest name (lookupFrames E.K.ctx s.closures y s.frames) [] =
              applyTest name ((MJ.Eval.lookup E.K.ctx E.heap (E.loc ++ E.env) y).getD .undef) [] := by
            generalize (MJ.Eval.lookup E.K.ctx E.heap (E.loc ++ E.env) y).getD .undef = w at hag
            generalize lookupFrames E.K.ctx s.closures y s.frames = u at hag
            cases w <;> first
              | (have : u = _ := hag; subst this; rfl)
              | (obtain ⟨off, clo, hu, _⟩ := hag; subst hu
                 rcases hname with rfl | rfl <;> simp [applyTest])
          cases ht : applyTest name ((MJ.Eval.lookup E.K.ctx E.heap (E.loc ++ E.env) y).getD .undef) [] with
          | error e => simp [ht, Except.map] at hev
          | ok b =>
            simp [ht, Except.map] at hev; subst hev
            have p1 : Pushed E s (base + 1) (lookupFrames E.K.ctx s.closures y s.frames :: s.stack) :=
              Pushed.first (i := .lookup y) (by rw [hpc]; exact hAt.head) (by simp [MJ.Vm.step, hpc])
            refine (p1.step (i := .performTest name 1 (a.testId name).1) (p2 := base + 2) (st2 := .bool b :: s.stack)
              hAt.tail.head (fun cls1 => ?_)).cast (by simp) rfl
            simp [MJ.Vm.step, popN, hkey, ht, Except.map]
      have hs' : wfExpr E.K.M E.P E.A x = true ∧ wfArgs E.K.M E.P E.A args = true := by
        have := hs
        simp only [wfExpr, Bool.or_eq_true, Bool.and_eq_true] at this
        rcases this with h | h
        · cases x <;> try (simp at h; done)
          rename_i y
          simp only [Bool.and_eq_true] at h
          exact absurd ⟨y, rfl, by simpa using h.1.1.1⟩ hMx
        · exact h
      have hrel : relExpr (.test name x args) base a =
          ((relExpr x base a).1 ++ (relArgs args (base + (relExpr x base a).1.length) (relExpr x base a).2).1 ++
            [.performTest name (1 + args.length)
              ((relArgs args (base + (relExpr x base a).1.length) (relExpr x base a).2).2.testId name).1],
           ((relArgs args (base + (relExpr x base a).1.length) (relExpr x base a).2).2.testId name).2) := by
        conv => lhs; unfold relExpr
        simp [asConst]
      rw [hrel] at hAt hoof ⊢
      simp only [evalExpr, bind, Except.bind] at hev
      split at hev
      · simp at hev
      · rename_i xv hx
        split at hev
        · simp at hev
        · rename_i as has
          have hkeys := evalArgs_keys args as has hs'.2
          have hsplit := splitArgs_none as hkeys
          rw [hsplit.2, hsplit.1] at hev
          simp only at hev
          have hoA : (relArgs args (base + (relExpr x base a).1.length) (relExpr x base a).2).2.oof = false := by
            simpa using hoof
          have ho1 := oof_false_of_relArgs hoA
          have r1 := ihE E x xv hx hs'.1 base a s hAt.left.left ho1 hpc hok
          refine r1.trans (fun c1 x1 => ?_)
          have r2 := ihA E args as has hs'.2 (base + (relExpr x base a).1.length) (relExpr x base a).2
            { s with pc := base + (relExpr x base a).1.length, stack := xv :: s.stack, closures := c1 } hAt.left.right hoA rfl
            (hok.next x1 _ _)
          have hlen : 1 + args.length = (xv :: as.map (·.2)).length := by
            simp [evalArgs_length args as has]; omega
          have hpop : popN (1 + args.length) ((as.map (·.2)).reverse ++ xv :: s.stack) = some (xv :: as.map (·.2), s.stack) := by
            rw [hlen]
            have := popN_append (xv :: as.map (·.2)) s.stack
            simpa using this
          cases ht : applyTest name xv (as.map (·.2)) with
          | error e => simp [ht, Except.map] at hev
          | ok b =>
            simp [ht, Except.map] at hev; subst hev
            refine (r2.step (i := .performTest _ _ _) (by rw [← hAt.right.head]; congr 1; vmeq) (fun cls1 => ?_)).cast rfl rfl
            simp [MJ.Vm.step, hpop, ht, Except.map]; vmeq
    | getattr x name =>
      have hsx : wfExpr E.K.M E.P E.A x = true := by simpa [wfExpr] using hs
      rw [rel_getattr] at hAt hoof ⊢
      simp only [evalExpr, bind, Except.bind] at hev
      split at hev
      · simp at hev
      · rename_i w hw
        exact sim_unary ihE hw hsx hAt hoof hpc hok (fun s1 h1 => by simp [MJ.Vm.step, h1, hev, Except.map])
    | getitem x i =>
      have hs' : wfExpr E.K.M E.P E.A x = true ∧ wfExpr E.K.M E.P E.A i = true := by simpa [wfExpr] using hs
      rw [rel_getitem] at hAt hoof ⊢
      simp only [evalExpr, bind, Except.bind] at hev
      split at hev
      · simp at hev
      · rename_i xv hx
        split at hev
        · simp at hev
        · rename_i iv hi
          have ho1 := oof_false_of_relExpr hoof
          have r1 := ihE E x xv hx hs'.1 base a s hAt.left.left ho1 hpc hok
          refine r1.trans (fun c1 x1 => ?_)
          have r2 := ihE E i iv hi hs'.2 (base + (relExpr x base a).1.length) (relExpr x base a).2
            { s with pc := base + (relExpr x base a).1.length, stack := xv :: s.stack, closures := c1 } hAt.left.right hoof rfl
            (hok.next x1 _ _)
          refine (r2.step (i := .getItem) ?_ (fun cls1 => ?_)).cast rfl rfl
          · have := hAt.right.head; simpa [Nat.add_assoc] using this
          · simp [MJ.Vm.step, hev, Except.map]; vmeq
    | call f args =>
      cases f with
      | var x =>
        have hs' : ((x ∈ E.K.M ∧ allowed E.P E.A x = true) ∧ (keysOf args).Nodup ∧ ¬ "caller" ∈ keysOf args) ∧ wfCallArgs E.K.M E.P E.A args = true := by
          simpa [wfExpr] using hs
        simp only [evalExpr, bind, Except.bind] at hev
        cases hw' : MJ.Eval.lookup E.K.ctx E.heap (E.loc ++ E.env) x with
        | none => rw [hw'] at hev; simp at hev
        | some w =>
          rw [hw'] at hev
          simp only at hev
          split at hev
          · simp at hev
          · rename_i as has
            obtain ⟨hkeys, hplen, hklen⟩ := evalArgs_keysOf args as has
            have hplA : ∀ v, v ∈ as.map (·.2) → MJ.Eval.plain v = true := evalArgs_plain hok.1.plain n args as hs'.2 has
            have hncA : "caller" ∉ (splitArgs as).2.map (·.1) := by rw [hkeys]; exact hs'.1.2.2
            rw [rel_call] at hAt hoof ⊢
            cases hk : kwArgs args with
            | nil =>
              simp only [hk] at hAt hoof ⊢
              have hkw : (splitArgs as).2 = [] := by
                have := hklen; rw [hk] at this; simpa using this
              have p1 := ihPA E args as has hs'.2 base a s hAt.left hoof hpc hok
              have := sim_call_instr ihCall (args := (splitArgs as).1) hok hs'.1.1.1 hs'.1.1.2 hw' hev
                (fun _ _ => ArgsRel.of_data hplA hncA (Or.inl ⟨hkw, rfl⟩)) (by rw [hplen]; simpa using hAt.right.head) p1
              exact this.cast (by simp; omega) rfl
            | cons k0 ks =>
              simp only [hk] at hAt hoof ⊢
              have hkwne : (splitArgs as).2 ≠ [] := by
                intro h0; have := hklen; rw [hk, h0] at this; simp at this
              cases hst : staticKwargs (k0 :: ks) with
              | some m =>
                simp only [hst] at hAt hoof ⊢
                have hbundle : KwBundle (splitArgs as).2 m := by
                  have := staticKwargs_bundle args as m has (by rw [hk]; exact hst) hs'.1.2.1
                  exact this
                have p1 := ihPA E args as has hs'.2 base a s hAt.left hoof hpc hok
                have p2 := p1.step (i := .loadConst (.kwargs m)) (p2 := base + (relPosArgs args base a).1.length + 1)
                  (st2 := .kwargs m :: ((splitArgs as).1.reverse ++ s.stack)) hAt.right.head
                  (fun cls1 => by simp [MJ.Vm.step])
                have := sim_call_instr ihCall (args := (splitArgs as).1 ++ [.kwargs m]) hok hs'.1.1.1 hs'.1.1.2 hw' hev
                  (fun _ _ => ArgsRel.of_data hplA hncA (Or.inr ⟨hkwne, m, hbundle, rfl⟩))
                  (by have := hAt.right.tail.head; simpa [hplen, Nat.add_assoc] using this)
                  (p2.cast rfl (by simp))
                exact this.cast (by simp [Nat.add_assoc]; try omega) rfl
              | none =>
                simp only [hst] at hAt hoof ⊢
                have ho1 := oof_false_of_relKwArgs hoof
                have p1 := ihPA E args as has hs'.2 base a s hAt.left.left ho1 hpc hok
                have p2 : Pushed E s (base + (relPosArgs args base a).1.length +
                    (relKwArgs args (base + (relPosArgs args base a).1.length) (relPosArgs args base a).2).1.length)
                    ((flatKw (splitArgs as).2).reverse ++ ((splitArgs as).1.reverse ++ s.stack)) := by
                  refine p1.trans (fun c1 x1 => ?_)
                  exact ihKA E args as has hs'.2 (base + (relPosArgs args base a).1.length) (relPosArgs args base a).2
                    { s with pc := base + (relPosArgs args base a).1.length, stack := (splitArgs as).1.reverse ++ s.stack, closures := c1 }
                    hAt.left.right hoof rfl (hok.next x1 _ _)
                -- BuildKwargs
                have hnd : ((splitArgs as).2.map (·.1)).Nodup := by rw [hkeys]; exact hs'.1.2.1
                obtain ⟨m, hm, hget⟩ := insertPairs_kw (splitArgs as).2 [] hnd (fun k _ => by simp [assocGet])
                have hbundle : KwBundle (splitArgs as).2 m := by
                  intro k; rw [hget k]; cases assocGet k (splitArgs as).2 <;> simp [assocGet]
                have hlen2 : (k0 :: ks).length = (splitArgs as).2.length := by rw [hklen, hk]
                have p3 := p2.step (i := .buildKwargs (k0 :: ks).length)
                  (p2 := base + (relPosArgs args base a).1.length +
                    (relKwArgs args (base + (relPosArgs args base a).1.length) (relPosArgs args base a).2).1.length + 1)
                  (st2 := .kwargs m :: ((splitArgs as).1.reverse ++ s.stack))
                  (by have := hAt.right.head; simpa [Nat.add_assoc] using this)
                  (fun cls1 => by
                    have hpop : popN (2 * (k0 :: ks).length) ((flatKw (splitArgs as).2).reverse ++ ((splitArgs as).1.reverse ++ s.stack)) =
                        some (flatKw (splitArgs as).2, (splitArgs as).1.reverse ++ s.stack) := by
                      rw [hlen2, ← flatKw_length]; exact popN_append _ _
                    simp only [MJ.Vm.step, hpop, pairUp_flatKw, hm, Except.map])
                have := sim_call_instr ihCall (args := (splitArgs as).1 ++ [.kwargs m]) hok hs'.1.1.1 hs'.1.1.2 hw' hev
                  (fun _ _ => ArgsRel.of_data hplA hncA (Or.inr ⟨hkwne, m, hbundle, rfl⟩))
                  (by have := hAt.right.tail.head; simpa [hplen, Nat.add_assoc] using this)
                  (p3.cast rfl (by simp))
                exact this.cast (by simp [Nat.add_assoc]; try omega) rfl
      | _ => simp [wfExpr] at hs
    | list items =>
      have hsl : wfList E.K.M E.P E.A items = true := by simpa [wfExpr] using hs
      have hrel : relExpr (.list items) base a =
          ((relList items base a).1 ++ [.buildList (some items.length)], (relList items base a).2) := by
        conv => lhs; unfold relExpr
        simp [hc]
      rw [hrel] at hAt hoof ⊢
      simp only [evalExpr, bind, Except.bind] at hev
      split at hev
      · simp at hev
      · rename_i vs hvs
        simp at hev; subst hev
        have r1 := ihL E items vs hvs hsl base a s hAt.left hoof hpc hok
        refine (r1.step (i := .buildList _) hAt.right.head (fun cls1 => ?_)).cast (by vmeq) rfl
        have hpop : popN items.length (vs.reverse ++ s.stack) = some (vs, s.stack) := by
          rw [← evalList_length items vs hvs]; exact popN_append vs s.stack
        simp [MJ.Vm.step, hpop]; omega
    | map kvs =>
      have hsp : wfPairs E.K.M E.P E.A kvs = true := by simpa [wfExpr] using hs
      have hrel : relExpr (.map kvs) base a =
          ((relPairs kvs base a).1 ++ [.buildMap kvs.length], (relPairs kvs base a).2) := by
        conv => lhs; unfold relExpr
        simp [hc]
      rw [hrel] at hAt hoof ⊢
      simp only [evalExpr, bind, Except.bind] at hev
      split at hev
      · simp at hev
      · rename_i ps hps
        split at hev
        · simp at hev
        · rename_i m hm
          simp at hev; subst hev
          have r1 := ihP E kvs ps hps hsp base a s hAt.left hoof hpc hok
          refine (r1.step (i := .buildMap _) hAt.right.head (fun cls1 => ?_)).cast (by vmeq) rfl
          have hpop : popN (2 * kvs.length) ((flat ps).reverse ++ s.stack) = some (flat ps, s.stack) := by
            rw [← evalPairs_length kvs ps hps, ← flat_length]; exact popN_append _ _
          simp [MJ.Vm.step, hpop, buildMap, pairUp_flat, hm, Except.map]; omega

/-- all expression-level simulations at level `n`, given the macro calls of the levels below -/
def SimExprs (n : Nat) : Prop :=
  SimExpr n ∧ SimList n ∧ SimArgs n ∧ SimPairs n ∧ SimChain n ∧ SimPosArgs n ∧ SimKwArgs n

theorem sim_exprs_zero : SimExprs 0 := by
  refine ⟨?_, ?_, ?_, ?_, ?_, ?_, ?_⟩
  · intro E e v h; simp [evalExpr] at h
  · intro E es vs h; simp [evalList] at h
  · intro E args as h; simp [evalArgs] at h
  · intro E kvs ps h; simp [evalPairs] at h
  · intro E ops a v h; simp [evalChain] at h
  · intro E args as h; simp [evalArgs] at h
  · intro E args as h; simp [evalArgs] at h

theorem sim_exprs_step {n} (ih : SimExprs n) (ihCall : SimCall n) : SimExprs (n + 1) := by
  obtain ⟨hE, hL, hA, hP, hC, hPA, hKA⟩ := ih
  exact ⟨sim_expr_step hE hL hA hP hC hPA hKA ihCall, sim_list_step hE hL, sim_args_step hE hA, sim_pairs_step hE hP,
    sim_chain_step hE hC, sim_posArgs_step hE hPA, sim_kwArgs_step hE hKA⟩

end MJ.Vm
