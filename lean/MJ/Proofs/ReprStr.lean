import MJ.Model.ReprStr
namespace MJ.ReprStr
open MJ Chk

theorem utf8Size_pos (c : Char) : 0 < c.utf8Size := Char.utf8Size_pos c

theorem isBoundary_zero (s : List Char) : isBoundary s 0 = true := by
  cases s <;> simp [isBoundary]

/-- the end of a prefix is a boundary of the whole string -/
theorem isBoundary_prefix (pre rest : List Char) : isBoundary (pre ++ rest) (byteLen pre) = true := by
  induction pre with
  | nil => simp [byteLen, isBoundary_zero]
  | cons c cs ih =>
    simp only [List.cons_append, byteLen, isBoundary]
    simp [ih]

theorem byteLen_append (a b : List Char) : byteLen (a ++ b) = byteLen a + byteLen b := by
  induction a with
  | nil => simp [byteLen]
  | cons c cs ih => simp [byteLen, ih]; omega

/-- invariant of the loop: `last` is a boundary not behind `idx`, `idx` is the end of the consumed prefix -/
theorem loop_ok (s : List Char) (esc : Char → Bool) (pre rest : List Char) (last : Nat)
    (hs : s = pre ++ rest) (hb : isBoundary s last = true) (hl : last ≤ byteLen pre) :
    ∃ last', loop s esc (fun c => c.utf8Size) rest (byteLen pre) last = .ok last' ∧
      isBoundary s last' = true ∧ last' ≤ byteLen s := by
  induction rest generalizing pre last with
  | nil =>
    refine ⟨last, by simp [loop], hb, ?_⟩
    subst hs; simp [byteLen_append, byteLen]; omega
  | cons c rest ih =>
    have hs' : s = (pre ++ [c]) ++ rest := by simp [hs]
    have hlen : byteLen (pre ++ [c]) = byteLen pre + c.utf8Size := by simp [byteLen_append, byteLen]
    simp only [loop]
    split
    · -- escaped: the flush `&s[last..idx]` is fine, continue behind the character
      have hidx : isBoundary s (byteLen pre) = true := by rw [hs]; exact isBoundary_prefix pre (c :: rest)
      have hsl : slice s last (byteLen pre) = .ok () := by simp [slice, hl, hb, hidx]
      rw [hsl]
      simp only
      have hb' : isBoundary s (byteLen pre + c.utf8Size) = true := by
        rw [← hlen, hs']; exact isBoundary_prefix (pre ++ [c]) rest
      have := ih (pre ++ [c]) (byteLen pre + c.utf8Size) hs' hb' (by omega)
      rw [hlen] at this
      exact this
    · have := ih (pre ++ [c]) last hs' hb (by omega)
      rw [hlen] at this
      exact this

theorem reprK_no_panic (esc : Char → Bool) (s : List Char) : reprK esc s ≠ .panic := by
  unfold reprK reprWith
  obtain ⟨last', h, hb, hle⟩ := loop_ok s esc [] s 0 rfl (isBoundary_zero s) (by simp [byteLen])
  simp only [byteLen] at h
  rw [h]
  have hend : isBoundary s (byteLen s) = true := by
    have := isBoundary_prefix s []
    simpa using this
  simp [slice, hb, hle, hend]

end MJ.ReprStr
