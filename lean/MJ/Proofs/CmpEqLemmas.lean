import MJ.Proofs.CmpKey
/-!
# Generic lemmas for the `==` / `Ord` / `Hash` consistency proofs
-/
namespace MJ.CmpEq
open MJ MJ.Val MJ.Cmp MJ.CmpKey Std

/-- pointwise relation between two lists of the same length -/
inductive All2 {α β : Type} (R : α → β → Prop) : List α → List β → Prop where
  | nil : All2 R [] []
  | cons {x y xs ys} : R x y → All2 R xs ys → All2 R (x :: xs) (y :: ys)

theorem All2.length {α β : Type} {R : α → β → Prop} {xs : List α} {ys : List β} (h : All2 R xs ys) :
    xs.length = ys.length := by
  induction h with
  | nil => rfl
  | cons _ _ ih => simp [ih]

theorem All2.imp_mem {α β : Type} {R S : α → β → Prop} {xs : List α} {ys : List β} (h : All2 R xs ys)
    (f : ∀ x ∈ xs, ∀ y ∈ ys, R x y → S x y) : All2 S xs ys := by
  induction h with
  | nil => exact .nil
  | cons hr _ ih =>
    refine .cons (f _ List.mem_cons_self _ List.mem_cons_self hr) (ih ?_)
    intro x hx y hy
    exact f x (List.mem_cons_of_mem _ hx) y (List.mem_cons_of_mem _ hy)

theorem All2.flip {α β : Type} {R : α → β → Prop} {xs : List α} {ys : List β} (h : All2 R xs ys) :
    All2 (fun y x => R x y) ys xs := by
  induction h with
  | nil => exact .nil
  | cons hr _ ih => exact .cons hr ih

theorem All2.map_left {α β γ : Type} {R : γ → β → Prop} (f : α → γ) {xs : List α} {ys : List β}
    (h : All2 (fun x y => R (f x) y) xs ys) : All2 R (xs.map f) ys := by
  induction h with
  | nil => exact .nil
  | cons hr _ ih => exact .cons hr ih

theorem All2.of_map {α β γ δ : Type} {R : γ → δ → Prop} (f : α → γ) (g : β → δ) :
    ∀ {xs : List α} {ys : List β}, All2 R (xs.map f) (ys.map g) → All2 (fun x y => R (f x) (g y)) xs ys
  | [], [], _ => .nil
  | [], _ :: _, h => by cases h
  | _ :: _, [], h => by cases h
  | _ :: _, _ :: _, h => by
    cases h with
    | cons hr ht => exact .cons hr (All2.of_map f g ht)

/-! ## lists of values -/

theorem eqL_iff (m : Mode) : ∀ (xs ys : List V), eqL m xs ys = true ↔ All2 (fun x y => eqV m x y = true) xs ys
  | [], [] => by simp [eqL]; exact .nil
  | [], _ :: _ => by simp [eqL]; intro h; cases h
  | _ :: _, [] => by simp [eqL]; intro h; cases h
  | x :: xs, y :: ys => by
    rw [eqL]; simp only [Bool.and_eq_true]
    constructor
    · intro ⟨h1, h2⟩; exact .cons h1 ((eqL_iff m xs ys).mp h2)
    · intro h; cases h with
      | cons h1 h2 => exact ⟨h1, (eqL_iff m xs ys).mpr h2⟩

theorem then_eq_eq {o p : Ordering} : o.then p = .eq ↔ o = .eq ∧ p = .eq := by
  cases o <;> cases p <;> simp [Ordering.then]

theorem cmpL_eq_iff : ∀ (xs ys : List V), cmpL xs ys = .eq ↔ All2 (fun x y => cmpV x y = .eq) xs ys
  | [], [] => by simp [cmpL]; exact .nil
  | [], _ :: _ => by simp [cmpL]; intro h; cases h
  | _ :: _, [] => by simp [cmpL]; intro h; cases h
  | x :: xs, y :: ys => by
    rw [cmpL, then_eq_eq]
    constructor
    · intro ⟨h1, h2⟩; exact .cons h1 ((cmpL_eq_iff xs ys).mp h2)
    · intro h; cases h with
      | cons h1 h2 => exact ⟨h1, (cmpL_eq_iff xs ys).mpr h2⟩

theorem cmpPL_eq_iff : ∀ (ps qs : List (V × V)), cmpPL ps qs = .eq ↔
    All2 (fun p q => cmpV p.1 q.1 = .eq ∧ cmpV p.2 q.2 = .eq) ps qs
  | [], [] => by simp [cmpPL]; exact .nil
  | [], _ :: _ => by simp [cmpPL]; intro h; cases h
  | _ :: _, [] => by simp [cmpPL]; intro h; cases h
  | (k, v) :: ps, (k', v') :: qs => by
    rw [cmpPL, then_eq_eq, then_eq_eq]
    constructor
    · intro ⟨h1, h2⟩; exact .cons h1 ((cmpPL_eq_iff ps qs).mp h2)
    · intro h; cases h with
      | cons h1 h2 => exact ⟨h1, (cmpPL_eq_iff ps qs).mpr h2⟩

theorem hkeyL_congr : ∀ (i : Nat) (xs ys : List V), All2 (fun x y => hkey x = hkey y) xs ys →
    hkeyL i xs = hkeyL i ys
  | _, _, _, .nil => rfl
  | i, _ :: xs, _ :: ys, .cons h t => by
    rw [hkeyL, hkeyL, h, hkeyL_congr (i + 1) xs ys t]

theorem hkeyPL_congr : ∀ (ps qs : List (V × V)),
    All2 (fun p q => hkey p.1 = hkey q.1 ∧ hkey p.2 = hkey q.2) ps qs → hkeyPL ps = hkeyPL qs
  | _, _, .nil => rfl
  | (k, v) :: ps, (k', v') :: qs, .cons h t => by
    rw [hkeyPL, hkeyPL, h.1, h.2, hkeyPL_congr ps qs t]

/-! ## map lookups -/

theorem findB_true_iff (m : Mode) (k v1 : V) : ∀ (qs : List (V × V)), findB m k v1 qs = true ↔
    ∃ pre q post, qs = pre ++ q :: post ∧ (∀ p ∈ pre, cmpV k p.1 ≠ .eq) ∧ cmpV k q.1 = .eq ∧
      eqV m q.2 v1 = true
  | [] => by simp [findB]
  | (k', v') :: qs => by
    rw [findB]
    by_cases h : cmpV k k' = .eq
    · rw [if_pos h]
      constructor
      · intro he; exact ⟨[], (k', v'), qs, rfl, by simp, h, he⟩
      · intro ⟨pre, q, post, hq, hpre, hk, he⟩
        cases pre with
        | nil => simp at hq; obtain ⟨h1, _⟩ := hq; subst h1; exact he
        | cons p pre =>
          simp at hq; obtain ⟨h1, _⟩ := hq; subst h1
          exact absurd h (hpre _ List.mem_cons_self)
    · rw [if_neg h, findB_true_iff m k v1 qs]
      constructor
      · intro ⟨pre, q, post, hq, hpre, hk, he⟩
        refine ⟨(k', v') :: pre, q, post, by simp [hq], ?_, hk, he⟩
        intro p hp
        rcases List.mem_cons.mp hp with rfl | hp
        · exact h
        · exact hpre p hp
      · intro ⟨pre, q, post, hq, hpre, hk, he⟩
        cases pre with
        | nil => simp at hq; obtain ⟨h1, _⟩ := hq; subst h1; exact absurd hk h
        | cons p pre =>
          simp at hq; obtain ⟨h1, h2⟩ := hq; subst h1
          exact ⟨pre, q, post, h2, fun p hp => hpre p (List.mem_cons_of_mem _ hp), hk, he⟩

theorem eqAll_btree_iff : ∀ (ps qs : List (V × V)), eqAll .btree ps qs = true ↔
    ∀ p ∈ ps, findB .btree p.1 p.2 qs = true
  | [], qs => by simp [eqAll]
  | (k, v) :: ps, qs => by
    rw [eqAll]; simp only [Bool.and_eq_true, List.mem_cons, forall_eq_or_imp]
    rw [eqAll_btree_iff ps qs]

/-! ## matching two strictly increasing lists -/

section
variable {β : Type} (cmp : β → β → Ordering) [TransCmp cmp]

theorem sorted_match : ∀ (ls ks : List β),
    ks.Pairwise (fun a b => cmp a b = .lt) → ls.Pairwise (fun a b => cmp a b = .lt) →
    (∀ k ∈ ks, ∃ l ∈ ls, cmp k l = .eq) →
    ks.length ≤ ls.length ∧ (ks.length = ls.length → All2 (fun k l => cmp k l = .eq) ks ls)
  | [], ks, _, _, hall => by
    cases ks with
    | nil => exact ⟨Nat.le_refl _, fun _ => .nil⟩
    | cons k ks => obtain ⟨l, hl, _⟩ := hall k List.mem_cons_self; simp at hl
  | l :: ls, [], _, _, _ => ⟨by simp, by simp⟩
  | l :: ls, k :: ks, hk, hl, hall => by
    rw [List.pairwise_cons] at hk hl
    by_cases hkl : cmp k l = .eq
    · have hrest : ∀ k2 ∈ ks, ∃ l2 ∈ ls, cmp k2 l2 = .eq := by
        intro k2 hk2
        obtain ⟨l2, hl2, he⟩ := hall k2 (List.mem_cons_of_mem _ hk2)
        rcases List.mem_cons.mp hl2 with rfl | hl2
        · -- k2 ≈ l ≈ k contradicts k < k2
          have : cmp k k2 = .eq := TransCmp.eq_trans hkl (OrientedCmp.eq_symm he)
          rw [hk.1 k2 hk2] at this; cases this
        · exact ⟨l2, hl2, he⟩
      obtain ⟨h1, h2⟩ := sorted_match ls ks hk.2 hl.2 hrest
      refine ⟨by simp; omega, ?_⟩
      intro hlen
      exact .cons hkl (h2 (by simpa using hlen))
    · have hlk : cmp l k = .lt := by
        obtain ⟨l2, hl2, he⟩ := hall k List.mem_cons_self
        rcases List.mem_cons.mp hl2 with rfl | hl2
        · exact absurd he hkl
        · -- l < l2 ≈ k
          have h1 := hl.1 l2 hl2
          exact TransCmp.lt_of_lt_of_isLE h1 (by rw [OrientedCmp.eq_symm he]; rfl)
      have hall' : ∀ k2 ∈ k :: ks, ∃ l2 ∈ ls, cmp k2 l2 = .eq := by
        intro k2 hk2
        have hlk2 : cmp l k2 = .lt := by
          rcases List.mem_cons.mp hk2 with rfl | hk2
          · exact hlk
          · exact TransCmp.lt_trans hlk (hk.1 k2 hk2)
        obtain ⟨l2, hl2, he⟩ := hall k2 hk2
        rcases List.mem_cons.mp hl2 with rfl | hl2
        · have := OrientedCmp.eq_symm he
          rw [hlk2] at this; cases this
        · exact ⟨l2, hl2, he⟩
      obtain ⟨h1, _⟩ := sorted_match ls (k :: ks) (List.pairwise_cons.mpr hk) hl.2 hall'
      refine ⟨by simp at h1 ⊢; omega, ?_⟩
      intro hlen; simp at h1 hlen; omega

/-- in a strictly increasing list two members with `Equal` keys are the same member -/
theorem sorted_unique (ls : List β) (hl : ls.Pairwise (fun a b => cmp a b = .lt))
    (a b : β) (ha : a ∈ ls) (hb : b ∈ ls) (he : cmp a b = .eq) : a = b := by
  induction ls with
  | nil => simp at ha
  | cons l ls ih =>
    rw [List.pairwise_cons] at hl
    rcases List.mem_cons.mp ha with ha' | ha' <;> rcases List.mem_cons.mp hb with hb' | hb'
    · rw [ha', hb']
    · subst ha'; have := hl.1 b hb'; rw [he] at this; cases this
    · subst hb'; have := hl.1 a ha'; rw [OrientedCmp.eq_symm he] at this; cases this
    · exact ih hl.2 ha' hb'

end

end MJ.CmpEq
