import MJ.Proofs.LocAdvance
/-!
Helper lemmas for C14, part 2: the tokenizer state along any script, the spans it can create, and
the effect of a prefix of whole lines.
-/
namespace MJ.Loc
open MJ

/-- the tokenizer has consumed exactly the first `k` characters of `src` -/
structure At (src : List Char) (t : Tok) (k : Nat) : Prop where
  le : k ≤ src.length
  rest : t.rest = src.drop k
  pos : (t.line, t.col) = posOf (src.take k)
  off : t.offset = utf8Len (src.take k)

theorem At.new (src : List Char) : At src (Tok.new src) 0 :=
  ⟨Nat.zero_le _, by simp [Tok.new], by simp [Tok.new, posOf], by simp [Tok.new, utf8Len]⟩

theorem usize_ok (x : Nat) (h : x < 18446744073709551616) : usize x = .ok x := by
  unfold usize; rw [if_pos h]

theorem usize_inv (x y : Nat) (h : usize x = .ok y) : y = x := by
  unfold usize at h
  split at h
  · injection h with h; exact h.symm
  · cases h

theorem advance_inv (t t' : Tok) (n : Nat) (ha : t.advance n = .ok t') :
    advanceGo t.rest n (t.line, t.col) = some (t'.rest, (t'.line, t'.col)) ∧ t'.offset = t.offset + n := by
  unfold Tok.advance at ha
  cases hgo : advanceGo t.rest n (t.line, t.col) with
  | none => rw [hgo] at ha; cases ha
  | some r =>
    obtain ⟨rest, lc⟩ := r
    rw [hgo] at ha
    cases hu : usize (t.offset + n) with
    | panic => simp only [hu] at ha; cases ha
    | ok off =>
      simp only [hu] at ha
      have ho := usize_inv _ _ hu
      injection ha with ha
      subst ha
      exact ⟨rfl, ho⟩

/-- a successful `advance` consumed a whole number of further characters -/
theorem advance_at (src : List Char) (t t' : Tok) (k n : Nat) (h : At src t k)
    (ha : t.advance n = .ok t') :
    ∃ k', k ≤ k' ∧ At src t' k' ∧ utf8Len (src.take k') = utf8Len (src.take k) + n := by
  obtain ⟨hgo, hoff⟩ := advance_inv t t' n ha
  obtain ⟨p, hp, hl, hlc⟩ := advanceGo_spec _ _ _ _ _ hgo
  rw [h.rest] at hp
  have hsrc : src = src.take k ++ p ++ t'.rest := by
    rw [List.append_assoc, ← hp, List.take_append_drop]
  have hlen : k + p.length ≤ src.length := by
    have := congrArg List.length hsrc
    simp [List.length_take, Nat.min_eq_left h.le] at this; omega
  have h1 : (src.take k ++ p).length = k + p.length := by
    simp [List.length_take, Nat.min_eq_left h.le]
  have htake : src.take (k + p.length) = src.take k ++ p := by
    conv => lhs; rw [hsrc]
    rw [← h1, List.take_left']
    rfl
  have hdrop : src.drop (k + p.length) = t'.rest := by
    conv => lhs; rw [hsrc]
    rw [← h1, List.drop_left']
    rfl
  refine ⟨k + p.length, by omega, ⟨hlen, hdrop.symm, ?_, ?_⟩, ?_⟩
  · rw [htake, posOf_append, ← h.pos, hlc]
  · rw [htake, utf8Len_append, hl, ← h.off, hoff]
  · rw [htake, utf8Len_append, hl]

/-- `advance` succeeds exactly when it is asked to stop on a character boundary inside the source -/
theorem advance_ok_of_boundary (src : List Char) (t : Tok) (k k' : Nat) (h : At src t k) (hk : k ≤ k')
    (hk' : k' ≤ src.length) (hsz : utf8Len src < 18446744073709551616) :
    ∃ t', t.advance (utf8Len (src.take k') - utf8Len (src.take k)) = .ok t' ∧ At src t' k' := by
  let p := (src.drop k).take (k' - k)
  have hp : src.take k' = src.take k ++ p := by
    have : k' = k + (k' - k) := by omega
    conv => lhs; rw [this]
    rw [List.take_add]
  have hrest : t.rest = p ++ src.drop k' := by
    rw [h.rest]
    have : src.drop k' = (src.drop k).drop (k' - k) := by rw [List.drop_drop]; congr 1; omega
    rw [this, List.take_append_drop]
  have hn : utf8Len (src.take k') - utf8Len (src.take k) = utf8Len p := by
    rw [hp, utf8Len_append]; omega
  have hgo := advanceGo_prefix p (src.drop k') (t.line, t.col)
  have hoff : t.offset + utf8Len p = utf8Len (src.take k') := by rw [h.off, hp, utf8Len_append]
  have hbound := utf8Len_take_le src k'
  refine ⟨⟨src.drop k', (p.foldl stepChar (t.line, t.col)).1, (p.foldl stepChar (t.line, t.col)).2,
      utf8Len (src.take k')⟩, ?_, ⟨hk', rfl, ?_, rfl⟩⟩
  · unfold Tok.advance
    rw [hn, hrest, hgo]
    simp only [hoff]
    rw [usize_ok _ (by omega)]
  · simp only [hp, posOf_append, ← h.pos]

/-! ### the spans a script can create -/

/-- `loc()` when `k` characters are consumed -/
def locAt (src : List Char) (k : Nat) : Loc :=
  ⟨(posOf (src.take k)).1, (posOf (src.take k)).2, utf8Len (src.take k)⟩

/-- the span of a token that covers characters `a .. b` -/
def spanAt (src : List Char) (a b : Nat) : Span :=
  ⟨(locAt src a).line, (locAt src a).col, (locAt src a).offset,
   (locAt src b).line, (locAt src b).col, (locAt src b).offset⟩

/-- the span of a syntax error raised when `a` characters are consumed: the next character (if
    any), one column wide -/
def errSpanAt (src : List Char) (a : Nat) : Span :=
  ⟨(locAt src a).line, (locAt src a).col, (locAt src a).offset,
   (locAt src a).line, satInc (locAt src a).col, (locAt src (min (a + 1) src.length)).offset⟩

inductive GoodSpan (src : List Char) (s : Span) : Prop where
  | token (a b : Nat) (hab : a ≤ b) (hb : b ≤ src.length) (h : s = spanAt src a b)
  | error (a : Nat) (ha : a ≤ src.length) (h : s = errSpanAt src a)

theorem asU32_of_lt (x : Nat) (h : x < 4294967296) : asU32 x = x := Nat.mod_eq_of_lt h

theorem At.loc_eq {src : List Char} {t : Tok} {k : Nat} (h : At src t k) (hsz : utf8Len src < 4294967296) :
    t.loc = locAt src k := by
  have := utf8Len_take_le src k
  have h1 := congrArg Prod.fst h.pos
  have h2 := congrArg Prod.snd h.pos
  simp at h1 h2
  simp [Tok.loc, locAt, h1, h2, h.off, asU32_of_lt _ (by omega : utf8Len (src.take k) < 4294967296)]

theorem utf8Len_take_succ (src : List Char) (k : Nat) :
    utf8Len (src.take (min (k + 1) src.length)) = utf8Len (src.take k) + nextCharLen (src.drop k) := by
  induction src generalizing k with
  | nil => simp [utf8Len, nextCharLen]
  | cons c cs ih =>
    cases k with
    | zero => simp [utf8Len, nextCharLen]
    | succ k =>
      have := ih k
      simp only [List.length_cons, List.take_succ_cons, utf8Len, List.drop_succ_cons] at this ⊢
      have hmin : min (k + 1 + 1) (cs.length + 1) = (min (k + 1) cs.length) + 1 := by omega
      rw [hmin, List.take_succ_cons, utf8Len, this]; omega

theorem nextCharLen_le (cs : List Char) : nextCharLen cs ≤ 4 ∧ nextCharLen cs ≤ utf8Len cs := by
  cases cs with
  | nil => simp [nextCharLen]
  | cons c cs => simp [nextCharLen, utf8Len]; exact utf8Size_le4 c

theorem At.syntaxError_eq {src : List Char} {t : Tok} {k : Nat} (h : At src t k)
    (hsz : utf8Len src < 4294967296) : t.syntaxError = .ok (errSpanAt src k) := by
  have hloc := h.loc_eq hsz
  have hb := utf8Len_take_le src (min (k + 1) src.length)
  have hs := utf8Len_take_succ src k
  have hn := nextCharLen_le (src.drop k)
  have hk := utf8Len_take_le src k
  have h1 := congrArg Prod.fst h.pos
  have h2 := congrArg Prod.snd h.pos
  simp at h1 h2
  unfold Tok.syntaxError
  simp only [Tok.span, Tok.loc, if_true]
  simp only [h.rest, h.off, asU32_of_lt _ (by omega : nextCharLen (src.drop k) < 4294967296),
    asU32_of_lt _ (by omega : utf8Len (src.take k) < 4294967296)]
  unfold u32
  rw [if_pos (by omega)]
  simp [errSpanAt, locAt, hs, h1, h2]

theorem At.span_eq {src : List Char} {t : Tok} {k km : Nat} (h : At src t k)
    (hsz : utf8Len src < 4294967296) : t.span (locAt src km) = spanAt src km k := by
  have := h.loc_eq hsz
  simp only [Tok.loc, locAt] at this
  injection this with a b c
  simp [Tok.span, spanAt, locAt, a, b, c]

/-- every span produced by any script is the span of a token `a .. b` or of a syntax error at `a` -/
theorem run_good (src : List Char) (hsz : utf8Len src < 4294967296) (ops : List Op) :
    ∀ (t : Tok) (k km : Nat) (spans : List Span), At src t k → km ≤ k →
      run t (locAt src km) ops = .ok spans → ∀ s ∈ spans, GoodSpan src s := by
  induction ops with
  | nil => intro t k km spans _ _ h; simp [run] at h; subst h; simp
  | cons op ops ih =>
    intro t k km spans hat hkm h
    cases op with
    | adv n =>
      simp only [run] at h
      split at h
      · cases h
      · rename_i t' ha
        obtain ⟨k', hk', hat', _⟩ := advance_at src t t' k n hat ha
        exact ih t' k' km spans hat' (by omega) h
    | mark =>
      simp only [run] at h
      rw [hat.loc_eq hsz] at h
      exact ih t k k spans hat (Nat.le_refl _) h
    | emit =>
      simp only [run] at h
      split at h
      · cases h
      · rename_i ss hss
        injection h with h
        subst h
        intro s hs
        rcases List.mem_cons.mp hs with rfl | hs
        · exact .token km k hkm hat.le (hat.span_eq hsz)
        · exact ih t k km ss hat hkm hss s hs
    | err =>
      simp only [run] at h
      rw [hat.syntaxError_eq hsz] at h
      injection h with h
      subst h
      intro s hs
      simp at hs
      exact .error k hat.le hs

/-! ### shifting by a prefix of whole lines -/

def shiftLoc (N B : Nat) (m : Loc) : Loc := ⟨m.line + N, m.col, m.offset + B⟩

def shiftSpan (N B : Nat) (s : Span) : Span :=
  ⟨s.startLine + N, s.startCol, s.startOffset + B, s.endLine + N, s.endCol, s.endOffset + B⟩

def mapChk {α β : Type} (f : α → β) : Chk α → Chk β
  | .panic => .panic
  | .ok a => .ok (f a)

theorem advanceGo_shift (cs : List Char) (n l c N : Nat) (h : l + N + cs.count '\n' ≤ 65535) :
    advanceGo cs n (l + N, c) =
      (advanceGo cs n (l, c)).map (fun r => (r.1, (r.2.1 + N, r.2.2))) := by
  induction cs generalizing n l c with
  | nil => cases n <;> simp [advanceGo]
  | cons ch cs ih =>
    cases n with
    | zero => simp [advanceGo]
    | succ n =>
      simp only [advanceGo]
      split
      · by_cases hch : ch = '\n'
        · subst hch
          simp only [List.count_cons_self] at h
          have h1 : stepChar (l + N, c) '\n' = (satInc l + N, 0) := by
            simp [stepChar, satInc]; split <;> split <;> omega
          have h2 : stepChar (l, c) '\n' = (satInc l, 0) := by simp [stepChar]
          rw [h1, h2]
          exact ih _ _ _ (by have := satInc_le l; omega)
        · have h1 : stepChar (l + N, c) ch = (l + N, satInc c) := by simp [stepChar, hch]
          have h2 : stepChar (l, c) ch = (l, satInc c) := by simp [stepChar, hch]
          rw [h1, h2]
          rw [List.count_cons_of_ne hch] at h
          exact ih _ _ _ h
      · simp

/-- the two tokenizers (on `src` and on `P ++ src` after the prefix) move in lock step -/
structure Sim (N B : Nat) (t t' : Tok) : Prop where
  rest : t'.rest = t.rest
  line : t'.line = t.line + N
  col : t'.col = t.col
  off : t'.offset = t.offset + B
  lines : t.line + N + t.rest.count '\n' ≤ 65535
  bytes : t.offset + B + utf8Len t.rest < 4294967296

theorem advance_sim (N B : Nat) (t t' : Tok) (n : Nat) (h : Sim N B t t') :
    (t.advance n = .panic ∧ t'.advance n = .panic) ∨
    (∃ u u', t.advance n = .ok u ∧ t'.advance n = .ok u' ∧ Sim N B u u') := by
  unfold Tok.advance
  rw [h.rest, h.line, h.col, advanceGo_shift _ _ _ _ _ h.lines]
  cases hgo : advanceGo t.rest n (t.line, t.col) with
  | none => left; simp
  | some r =>
    obtain ⟨rest, lc⟩ := r
    obtain ⟨p, hp, hl, hlc⟩ := advanceGo_spec _ _ _ _ _ hgo
    have hb := h.bytes
    rw [hp, utf8Len_append, hl] at hb
    have hc := h.lines
    rw [hp, List.count_append] at hc
    have hle := foldl_stepChar_line_le p t.line t.col
    rw [← hlc] at hle
    right
    simp only [Option.map_some, h.off]
    rw [usize_ok _ (by omega), usize_ok _ (by omega)]
    refine ⟨_, _, rfl, rfl, ⟨rfl, rfl, rfl, by simp; omega, by simp; omega, by simp; omega⟩⟩

theorem Sim.loc {N B : Nat} {t t' : Tok} (h : Sim N B t t') : t'.loc = shiftLoc N B t.loc := by
  have hb := h.bytes
  simp [Tok.loc, shiftLoc, h.line, h.col, h.off, asU32_of_lt _ (by omega : t.offset + B < 4294967296),
    asU32_of_lt _ (by omega : t.offset < 4294967296)]

theorem Sim.span {N B : Nat} {t t' : Tok} (h : Sim N B t t') (m : Loc) :
    t'.span (shiftLoc N B m) = shiftSpan N B (t.span m) := by
  have := h.loc
  simp only [Tok.loc, shiftLoc] at this
  injection this with a b c
  simp [Tok.span, shiftSpan, shiftLoc, a, b, c]

theorem Sim.syntaxError {N B : Nat} {t t' : Tok} (h : Sim N B t t') :
    t'.syntaxError = mapChk (shiftSpan N B) t.syntaxError := by
  have hb := h.bytes
  have hn := nextCharLen_le t.rest
  unfold Tok.syntaxError
  have hsp : t'.span t'.loc = shiftSpan N B (t.span t.loc) := by rw [h.loc]; exact h.span t.loc
  rw [hsp]
  simp only [Tok.span, Tok.loc, shiftSpan, if_true]
  simp only [h.rest, asU32_of_lt _ (by omega : t.offset < 4294967296),
    asU32_of_lt _ (by omega : nextCharLen t.rest < 4294967296)]
  unfold u32
  rw [if_pos (by omega), if_pos (by omega)]
  simp only [mapChk, shiftSpan]
  congr 2
  omega

theorem run_sim (N B : Nat) (ops : List Op) :
    ∀ (t t' : Tok) (m : Loc), Sim N B t t' →
      run t' (shiftLoc N B m) ops = mapChk (List.map (shiftSpan N B)) (run t m ops) := by
  induction ops with
  | nil => intro t t' m _; simp [run, mapChk]
  | cons op ops ih =>
    intro t t' m h
    cases op with
    | adv n =>
      simp only [run]
      rcases advance_sim N B t t' n h with ⟨h1, h2⟩ | ⟨u, u', h1, h2, hs⟩
      · rw [h1, h2]; rfl
      · rw [h1, h2]; exact ih u u' m hs
    | mark =>
      simp only [run]
      rw [h.loc]; exact ih t t' t.loc h
    | emit =>
      simp only [run]
      rw [ih t t' m h, h.span m]
      cases run t m ops <;> simp [mapChk]
    | err =>
      simp only [run]
      rw [h.syntaxError]
      cases t.syntaxError <;> simp [mapChk]

end MJ.Loc
