import MJ.Model.Depth
/-!
# Invariant of the depth accounting (helper lemmas for C11)

`chainOK bound cur acts`: the current context `cur` and the contexts saved by the activations
`acts` are related exactly as the bookkeeping of `vm/mod.rs` leaves them.  The constants
`macroRecursionCost` and `includeRecursionCost` stay symbolic here.
-/
namespace MJ.Depth
open MJ.Gen

def kindOK (k : Kind) (cur old : Ctx) (base : Nat) : Prop :=
  match k with
  | .macroCall | .callerCall => cur.outer = old.depth + macroRecursionCost ∧ base = 2
  | .includeTpl => cur.outer = old.outer + includeRecursionCost ∧ base = old.frames
  | .blockCall | .superCall => cur.outer = old.outer ∧ base = old.frames + 1

def chainOK (bound : Nat) : Ctx → List Act → Prop
  | cur, [] => cur.outer = 0 ∧ 1 ≤ cur.frames
  | cur, a :: rest =>
    chainOK bound a.old rest ∧ a.old.depth ≤ bound ∧ a.base ≤ cur.frames ∧
      kindOK a.kind cur a.old a.base

/-- the invariant of every reachable state -/
def Inv (s : St) : Prop :=
  chainOK (max s.limit 1) s.cur s.acts ∧ s.cur.depth ≤ max s.limit 1

theorem inv_init (L : Nat) : Inv (init L) := by
  refine ⟨⟨rfl, Nat.le_refl 1⟩, ?_⟩
  show (0 + 1 : Nat) ≤ max L 1
  omega

/-- only the frame count of the current context may change inside an activation -/
theorem chainOK_frames {b : Nat} {cur : Ctx} {acts : List Act} {f : Nat}
    (h : chainOK b cur acts)
    (hf : baseOf acts ≤ f) :
    chainOK b { cur with frames := f } acts := by
  cases acts with
  | nil => exact ⟨h.1, hf⟩
  | cons a rest =>
    obtain ⟨h1, h2, _, h4⟩ := h
    refine ⟨h1, h2, hf, ?_⟩
    unfold kindOK at h4 ⊢
    cases hk : a.kind <;> simp only [hk] at h4 ⊢ <;> exact h4

theorem base_le_frames {b : Nat} {cur : Ctx} {acts : List Act} (h : chainOK b cur acts) :
    baseOf acts ≤ cur.frames := by
  cases acts with
  | nil => exact h.2
  | cons a rest => exact h.2.2.1

theorem pushFrame_some {L : Nat} {c c' : Ctx} (h : c.pushFrame L = some c') :
    c' = { c with frames := c.frames + 1 } ∧ c'.depth ≤ L := by
  unfold Ctx.pushFrame at h
  simp only at h
  by_cases hc : Ctx.exceeds L { c with frames := c.frames + 1 }
  · rw [if_pos hc] at h; cases h
  · rw [if_neg hc] at h
    injection h with h
    subst h
    exact ⟨rfl, by simp only [Ctx.exceeds] at hc; omega⟩

theorem pushFrame_none {L : Nat} {c : Ctx} (h : c.pushFrame L = none) : L < c.depth + 1 := by
  unfold Ctx.pushFrame at h
  simp only at h
  by_cases hc : Ctx.exceeds L { c with frames := c.frames + 1 }
  · simp only [Ctx.exceeds, Ctx.depth] at hc ⊢; omega
  · rw [if_neg hc] at h; cases h

theorem incrDepth_some {L d : Nat} {c c' : Ctx} (h : c.incrDepth L d = some c') :
    c' = { c with outer := c.outer + d } ∧ c'.depth ≤ L := by
  unfold Ctx.incrDepth at h
  simp only at h
  by_cases hc : Ctx.exceeds L { c with outer := c.outer + d }
  · rw [if_pos hc] at h; cases h
  · rw [if_neg hc] at h
    injection h with h
    subst h
    exact ⟨rfl, by simp only [Ctx.exceeds] at hc; omega⟩

theorem incrDepth_none {L d : Nat} {c : Ctx} (h : c.incrDepth L d = none) : L < c.depth + d := by
  unfold Ctx.incrDepth at h
  simp only at h
  by_cases hc : Ctx.exceeds L { c with outer := c.outer + d }
  · simp only [Ctx.exceeds, Ctx.depth] at hc ⊢; omega
  · rw [if_neg hc] at h; cases h

theorem pushFrame_isSome_iff (L : Nat) (c : Ctx) : (c.pushFrame L).isSome ↔ c.depth + 1 ≤ L := by
  cases h : c.pushFrame L with
  | none => have := pushFrame_none h; simp; omega
  | some c' =>
    obtain ⟨rfl, h2⟩ := pushFrame_some h
    simp only [Ctx.depth] at h2 ⊢
    simp; omega

theorem incrDepth_isSome_iff (L d : Nat) (c : Ctx) :
    (c.incrDepth L d).isSome ↔ c.depth + d ≤ L := by
  cases h : c.incrDepth L d with
  | none => have := incrDepth_none h; simp; omega
  | some c' =>
    obtain ⟨rfl, h2⟩ := incrDepth_some h
    simp only [Ctx.depth] at h2 ⊢
    simp; omega

/-- what a successful `enter` does -/
theorem enter_ok {s s' : St} {k : Kind} (h : enter s k = .ok s') :
    s'.limit = s.limit ∧ s'.cur.depth = s.cur.depth + cost k ∧ s'.cur.depth ≤ s.limit ∧
    ∃ b, s'.acts = ⟨k, s.cur, b⟩ :: s.acts ∧ b ≤ s'.cur.frames ∧ kindOK k s'.cur s.cur b := by
  have hm : ∀ k', (k' = .macroCall ∨ k' = .callerCall) → enterMacro s k' = .ok s' →
      s'.limit = s.limit ∧ s'.cur.depth = s.cur.depth + cost k' ∧ s'.cur.depth ≤ s.limit ∧
      ∃ b, s'.acts = ⟨k', s.cur, b⟩ :: s.acts ∧ b ≤ s'.cur.frames ∧ kindOK k' s'.cur s.cur b := by
    intro k' hk' h
    unfold enterMacro at h
    simp only at h
    split at h
    · cases h
    · rename_i c1 h1
      split at h
      · cases h
      · rename_i c2 h2
        injection h with h
        subst h
        obtain ⟨rfl, _⟩ := pushFrame_some h1
        obtain ⟨rfl, hle⟩ := incrDepth_some h2
        have hc : cost k' = macroRecursionCost + 2 := by
          rcases hk' with rfl | rfl <;> rfl
        simp only [Ctx.depth] at hle ⊢
        refine ⟨trivial, by omega, hle, 2, rfl, by simp, ?_⟩
        rcases hk' with rfl | rfl <;> simp [kindOK, Ctx.depth]
  cases k with
  | macroCall => exact hm _ (Or.inl rfl) h
  | callerCall => exact hm _ (Or.inr rfl) h
  | includeTpl =>
    simp only [enter] at h
    split at h
    · cases h
    · rename_i c hc
      injection h with h
      subst h
      obtain ⟨rfl, hle⟩ := incrDepth_some hc
      simp only [Ctx.depth] at hle ⊢
      exact ⟨trivial, by simp [cost]; omega, hle, _, rfl, Nat.le_refl _, by simp [kindOK]⟩
  | blockCall =>
    simp only [enter] at h
    split at h
    · cases h
    · rename_i c hc
      injection h with h
      subst h
      obtain ⟨rfl, hle⟩ := pushFrame_some hc
      simp only [Ctx.depth] at hle ⊢
      exact ⟨trivial, by simp [cost]; omega, hle, _, rfl, Nat.le_refl _, by simp [kindOK]⟩
  | superCall =>
    simp only [enter] at h
    split at h
    · cases h
    · rename_i c hc
      injection h with h
      subst h
      obtain ⟨rfl, hle⟩ := pushFrame_some hc
      simp only [Ctx.depth] at hle ⊢
      exact ⟨trivial, by simp [cost]; omega, hle, _, rfl, Nat.le_refl _, by simp [kindOK]⟩

/-- `enter` never panics and is never disabled: it succeeds or reports the recursion error -/
theorem enter_ok_or_error (s : St) (k : Kind) :
    (∃ s', enter s k = .ok s') ∨ enter s k = .recursionError := by
  cases k <;> simp only [enter, enterMacro] <;> (repeat' split) <;> simp

/-- `enter` fails exactly when the edge's cost does not fit under the limit -/
theorem enter_error_iff (s : St) (k : Kind) (hd : 1 ≤ s.cur.depth) :
    enter s k = .recursionError ↔ s.limit < s.cur.depth + cost k := by
  have hm : ∀ k', enterMacro s k' = .recursionError ↔
      s.limit < s.cur.depth + (macroRecursionCost + 2) := by
    intro k'
    unfold enterMacro
    simp only
    cases h1 : Ctx.pushFrame s.limit ⟨0, 1⟩ with
    | none =>
      have := pushFrame_none h1
      simp only [Ctx.depth] at this
      simp; omega
    | some c1 =>
      obtain ⟨rfl, _⟩ := pushFrame_some h1
      simp only
      cases h2 : Ctx.incrDepth s.limit _ (s.cur.depth + macroRecursionCost) with
      | none =>
        have := incrDepth_none h2
        simp only [Ctx.depth] at this ⊢
        simp; omega
      | some c2 =>
        obtain ⟨rfl, hle⟩ := incrDepth_some h2
        simp only [Ctx.depth] at hle ⊢
        simp; omega
  cases k with
  | macroCall => exact hm _
  | callerCall => exact hm _
  | includeTpl =>
    simp only [enter, cost]
    cases h : s.cur.incrDepth s.limit includeRecursionCost with
    | none => have := incrDepth_none h; simp; omega
    | some c => obtain ⟨rfl, hle⟩ := incrDepth_some h; simp only [Ctx.depth] at hle ⊢; simp; omega
  | blockCall =>
    simp only [enter, cost]
    cases h : s.cur.pushFrame s.limit with
    | none => have := pushFrame_none h; simp; omega
    | some c => obtain ⟨rfl, hle⟩ := pushFrame_some h; simp only [Ctx.depth] at hle ⊢; simp; omega
  | superCall =>
    simp only [enter, cost]
    cases h : s.cur.pushFrame s.limit with
    | none => have := pushFrame_none h; simp; omega
    | some c => obtain ⟨rfl, hle⟩ := pushFrame_some h; simp only [Ctx.depth] at hle ⊢; simp; omega

/-- leaving an activation never panics and restores exactly the context at entry -/
theorem leave_restores {s : St} {a : Act} {rest : List Act} (hi : Inv s)
    (ha : s.acts = a :: rest) : leave s = .ok { s with cur := a.old, acts := rest } := by
  obtain ⟨hc, _⟩ := hi
  rw [ha] at hc
  obtain ⟨_, _, hb, hk⟩ := hc
  unfold leave
  rw [ha]
  simp only
  obtain ⟨kind, old, base⟩ := a
  obtain ⟨limit, cur, acts⟩ := s
  obtain ⟨co, cf⟩ := cur
  obtain ⟨oo, ofr⟩ := old
  simp only at hb hk ha ⊢
  cases kind <;> simp only [kindOK, Ctx.depth] at hk <;> obtain ⟨h1, h2⟩ := hk <;> subst h1 h2
  · rfl
  · rfl
  · have h3 : ¬ cf < base := by omega
    simp [restoreStackDepth, h3]
  · have h3 : ¬ cf < ofr := by omega
    simp [restoreStackDepth, h3]
  · have h3 : ¬ cf < ofr + 1 := by omega
    simp [restoreStackDepth, h3]

/-- the invariant is preserved by every accepted event -/
theorem inv_step {s s' : St} {e : Ev} (hi : Inv s) (h : step s e = .ok s') :
    Inv s' ∧ s'.limit = s.limit := by
  obtain ⟨hc, hd⟩ := hi
  cases e with
  | enter k =>
    simp only [step] at h
    obtain ⟨hl, _, hle, b, hacts, hb, hk⟩ := enter_ok h
    refine ⟨⟨?_, ?_⟩, hl⟩
    · rw [hacts, hl]
      exact ⟨hc, hd, hb, hk⟩
    · rw [hl]; omega
  | leave =>
    simp only [step] at h
    cases hacts : s.acts with
    | nil => simp [leave, hacts] at h
    | cons a rest =>
      rw [leave_restores ⟨hc, hd⟩ hacts] at h
      injection h with h
      subst h
      rw [hacts] at hc
      exact ⟨⟨hc.1, hc.2.1⟩, rfl⟩
  | push =>
    simp only [step] at h
    split at h
    · cases h
    · rename_i c hp
      injection h with h
      subst h
      obtain ⟨rfl, hle⟩ := pushFrame_some hp
      refine ⟨⟨?_, ?_⟩, rfl⟩
      · exact chainOK_frames hc (by have := base_le_frames hc; simp only; omega)
      · simp only; omega
  | pop =>
    simp only [step] at h
    split at h
    · rename_i hb
      injection h with h
      subst h
      refine ⟨⟨?_, ?_⟩, rfl⟩
      · apply chainOK_frames hc
        unfold base at hb
        omega
      · simp only [Ctx.depth] at hd ⊢; omega
    · cases h
  | missingInclude =>
    simp only [step] at h
    injection h with h
    subst h
    exact ⟨⟨hc, hd⟩, rfl⟩

/-- the sum of the edge costs on the native stack is accounted for in `Context::depth()` -/
theorem wsum_lt_depth {b : Nat} : ∀ {acts : List Act} {cur : Ctx},
    chainOK b cur acts → wsum acts + 1 ≤ cur.depth := by
  intro acts
  induction acts with
  | nil =>
    intro cur h
    simp only [wsum, Ctx.depth]
    have := h.2
    omega
  | cons a rest ih =>
    intro cur h
    obtain ⟨h1, _, hb, hk⟩ := h
    have := ih h1
    simp only [wsum, Ctx.depth] at this ⊢
    cases hkind : a.kind <;> simp only [kindOK, hkind, Ctx.depth] at hk <;> simp only [cost] <;> omega

theorem depth_pos_of_chain {b : Nat} {cur : Ctx} {acts : List Act} (h : chainOK b cur acts) :
    1 ≤ cur.depth := by
  have := wsum_lt_depth h
  omega

/-- a step that is not a `leave` cannot panic; a `leave` cannot panic under the invariant -/
theorem step_ne_panic {s : St} (hi : Inv s) (e : Ev) : step s e ≠ .panic := by
  cases e with
  | enter k =>
    simp only [step]
    rcases enter_ok_or_error s k with ⟨s', h⟩ | h <;> rw [h] <;> simp
  | leave =>
    simp only [step]
    cases hacts : s.acts with
    | nil => simp [leave, hacts]
    | cons a rest => rw [leave_restores hi hacts]; simp
  | push => simp only [step]; split <;> simp
  | pop => simp only [step]; split <;> simp
  | missingInclude => simp [step]

/-- number of activations after a successful step -/
theorem step_acts_length {s s' : St} {e : Ev} (hi : Inv s) (h : step s e = .ok s') :
    s'.acts.length = pending [e] s.acts.length := by
  cases e with
  | enter k =>
    simp only [step] at h
    obtain ⟨_, _, _, b, hacts, _, _⟩ := enter_ok h
    simp [pending, hacts]
  | leave =>
    simp only [step] at h
    cases hacts : s.acts with
    | nil => simp [leave, hacts] at h
    | cons a rest =>
      rw [leave_restores hi hacts] at h
      injection h with h
      subst h
      simp [pending]
  | push =>
    simp only [step] at h
    split at h
    · cases h
    · injection h with h; subst h; simp [pending]
  | pop =>
    simp only [step] at h
    split at h
    · injection h with h; subst h; simp [pending]
    · cases h
  | missingInclude =>
    simp only [step] at h
    injection h with h
    subst h
    simp [pending]

theorem pending_cons (e : Ev) (es : List Ev) (n : Nat) :
    pending (e :: es) n = pending es (pending [e] n) := by
  cases e <;> simp [pending]

/-- unwinding: leaving the `pre.length + 1` innermost activations (the way an error propagates
    out of nested constructs, or the way they return) restores the context that was current when
    the outermost of them was entered, and never panics -/
theorem unwind_restores : ∀ (pre : List Act) {s : St} {a : Act} {rest : List Act},
    Inv s → s.acts = pre ++ a :: rest →
    run s (List.replicate (pre.length + 1) .leave) = .ok { s with cur := a.old, acts := rest } := by
  intro pre
  induction pre with
  | nil =>
    intro s a rest hi ha
    simp only [List.nil_append] at ha
    simp only [List.length_nil, List.replicate, run, step, leave_restores hi ha]
  | cons p ps ih =>
    intro s a rest hi ha
    simp only [List.cons_append] at ha
    have hl := leave_restores hi ha
    have hs : step s .leave = .ok { s with cur := p.old, acts := ps ++ a :: rest } := hl
    have hi' := (inv_step hi hs).1
    have := ih (s := { s with cur := p.old, acts := ps ++ a :: rest }) hi' rfl
    have e1 : List.replicate ((p :: ps).length + 1) Ev.leave =
        Ev.leave :: List.replicate (ps.length + 1) Ev.leave := rfl
    rw [e1]
    simp only [run, hs]
    exact this

end MJ.Depth
