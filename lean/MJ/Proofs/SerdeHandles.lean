import MJ.Model.Serde
/-! The value-handle side channel: an embedded value always comes back as itself (C16). -/
namespace MJ.Serde

def ovLookup : List (Nat × V) → Nat → Option V
  | [], _ => none
  | (h', v') :: rest, h => if h' = h then some v' else ovLookup rest h

/-- what `remove` would find for a handle (specification only) -/
def Registry.lookup (r : Registry) (h : Nat) : Option V :=
  match r.single with
  | some (h0, v0) => if h0 = h then some v0 else ovLookup r.overflow h
  | none => ovLookup r.overflow h

theorem ovRemove_ovInsert (ov : List (Nat × V)) (h : Nat) (v : V) : (ovRemove (ovInsert ov h v) h).1 = some v := by
  induction ov with
  | nil => simp [ovInsert, ovRemove]
  | cons p ps ih =>
    obtain ⟨h', v'⟩ := p
    by_cases hh : h' = h
    · simp [ovInsert, ovRemove, hh]
    · simp [ovInsert, ovRemove, hh, ih]

theorem ovLookup_ovInsert_ne (ov : List (Nat × V)) (h h' : Nat) (v : V) (hne : h' ≠ h) :
    ovLookup (ovInsert ov h v) h' = ovLookup ov h' := by
  induction ov with
  | nil => simp [ovInsert, ovLookup, Ne.symm hne]
  | cons p ps ih =>
    obtain ⟨k, w⟩ := p
    by_cases hk : k = h
    · subst hk
      simp [ovInsert, ovLookup, Ne.symm hne]
    · by_cases hk' : k = h'
      · subst hk'
        simp [ovInsert, ovLookup, hne]
      · simp [ovInsert, ovLookup, hk, hk', ih]

theorem ovLookup_ovInsert_eq (ov : List (Nat × V)) (h : Nat) (v : V) : ovLookup (ovInsert ov h v) h = some v := by
  induction ov with
  | nil => simp [ovInsert, ovLookup]
  | cons p ps ih =>
    obtain ⟨k, w⟩ := p
    by_cases hk : k = h
    · simp [ovInsert, ovLookup, hk]
    · simp [ovInsert, ovLookup, hk, ih]

theorem ovLookup_ovRemove_ne (ov : List (Nat × V)) (h h' : Nat) (hne : h' ≠ h) :
    ovLookup (ovRemove ov h).2 h' = ovLookup ov h' := by
  induction ov with
  | nil => simp [ovRemove, ovLookup]
  | cons p ps ih =>
    obtain ⟨k, w⟩ := p
    by_cases hk : k = h
    · subst hk
      simp [ovRemove, ovLookup, Ne.symm hne]
    · by_cases hk' : k = h'
      · subst hk'
        simp [ovRemove, ovLookup, hne]
      · simp [ovRemove, ovLookup, hk, hk', ih]

/-- `insert` case by case.  This is where the fast-path condition regenerated from the source
(`MJ.Gen.registryInsertFastPath`) is used: the inline slot is taken only when it is free *and* nothing
has spilled yet. -/
theorem Registry.insert_cases (r : Registry) (h : Nat) (v : V) :
    r.insert h v =
      match r.single, r.overflow with
      | none, [] => { single := some (h, v), overflow := [] }
      | none, ov => { single := none, overflow := ovInsert ov h v }
      | some (h0, v0), ov => { single := none, overflow := ovInsert (ovInsert ov h0 v0) h v } := by
  obtain ⟨single, ov⟩ := r
  cases single with
  | none =>
    cases ov with
    | nil => simp [Registry.insert, MJ.Gen.registryInsertFastPath]
    | cons p ps => simp [Registry.insert, MJ.Gen.registryInsertFastPath]
  | some hv =>
    obtain ⟨h0, v0⟩ := hv
    cases ov <;> simp [Registry.insert, MJ.Gen.registryInsertFastPath]

/-- `remove` right after `insert` returns the inserted value, whatever the registry held -/
theorem remove_insert (r : Registry) (h : Nat) (v : V) : ((r.insert h v).remove h).1 = some v := by
  obtain ⟨single, ov⟩ := r
  cases single with
  | none =>
    cases ov with
    | nil => simp [Registry.insert_cases, Registry.remove]
    | cons p ps => simp [Registry.insert_cases, Registry.remove, ovRemove_ovInsert]
  | some hv =>
    obtain ⟨h0, v0⟩ := hv
    simp [Registry.insert_cases, Registry.remove, ovRemove_ovInsert]

/-- … and every other handle still resolves to what it resolved to before -/
theorem remove_insert_frame (r : Registry) (h h' : Nat) (v : V) (hne : h' ≠ h) :
    ((r.insert h v).remove h).2.lookup h' = r.lookup h' := by
  obtain ⟨single, ov⟩ := r
  cases single with
  | none =>
    cases ov with
    | nil => simp [Registry.insert_cases, Registry.remove, Registry.lookup, ovLookup]
    | cons p ps =>
      simp [Registry.insert_cases, Registry.remove, Registry.lookup, ovLookup_ovRemove_ne _ _ _ hne,
        ovLookup_ovInsert_ne _ _ _ _ hne]
  | some hv =>
    obtain ⟨h0, v0⟩ := hv
    simp only [Registry.insert_cases, Registry.remove, Registry.lookup]
    rw [ovLookup_ovRemove_ne _ _ _ hne, ovLookup_ovInsert_ne _ _ _ _ hne]
    by_cases h0h' : h0 = h'
    · subst h0h'
      simp [ovLookup_ovInsert_eq]
    · simp [h0h', ovLookup_ovInsert_ne _ _ _ _ (Ne.symm h0h')]

/-- the handle is gone afterwards -/
theorem remove_insert_gone (r : Registry) (h : Nat) (v : V) (hfresh : r.lookup h = none) :
    ((r.insert h v).remove h).2.lookup h = none := by
  obtain ⟨single, ov⟩ := r
  have key : ∀ (l : List (Nat × V)), ovLookup l h = none → ovLookup (ovRemove (ovInsert l h v) h).2 h = none := by
    intro l
    induction l with
    | nil => simp [ovInsert, ovRemove, ovLookup]
    | cons p ps ih =>
      obtain ⟨k, w⟩ := p
      by_cases hk : k = h
      · simp [ovLookup, hk]
      · intro hl
        simp only [ovLookup, hk, if_false] at hl
        simp [ovInsert, ovRemove, ovLookup, hk, ih hl]
  cases single with
  | none =>
    cases ov with
    | nil => simp [Registry.insert_cases, Registry.remove, Registry.lookup, ovLookup]
    | cons p ps =>
      simp only [Registry.lookup] at hfresh
      simp only [Registry.insert_cases, Registry.remove, Registry.lookup]
      exact key _ hfresh
  | some hv =>
    obtain ⟨h0, v0⟩ := hv
    simp only [Registry.lookup] at hfresh
    by_cases h0h : h0 = h
    · simp [h0h] at hfresh
    · simp only [h0h, if_false] at hfresh
      simp only [Registry.insert_cases, Registry.remove, Registry.lookup]
      apply key
      rw [ovLookup_ovInsert_ne _ _ _ _ (Ne.symm h0h)]
      exact hfresh

/-! ### the two-tier store refines a finite map -/

/-- no handle twice in the overflow map (a `BTreeMap`) -/
def ovNodup : List (Nat × V) → Prop
  | [] => True
  | (h, _) :: rest => ovLookup rest h = none ∧ ovNodup rest

/-- registries reachable through `insert` / `remove`: the inline slot is only used while nothing has
spilled, and the map has no duplicate keys -/
def Registry.Inv (r : Registry) : Prop :=
  (∀ p, r.single = some p → r.overflow = []) ∧ ovNodup r.overflow

theorem ovNodup_ovInsert (l : List (Nat × V)) (h : Nat) (v : V) (hl : ovNodup l) : ovNodup (ovInsert l h v) := by
  induction l with
  | nil => simp [ovInsert, ovNodup, ovLookup]
  | cons p ps ih =>
    obtain ⟨k, w⟩ := p
    simp only [ovNodup] at hl
    by_cases hk : k = h
    · subst hk
      simp only [ovInsert, if_true, ovNodup]
      exact hl
    · simp only [ovInsert, hk, if_false, ovNodup]
      exact ⟨by rw [ovLookup_ovInsert_ne _ _ _ _ hk]; exact hl.1, ih hl.2⟩

theorem ovNodup_ovRemove (l : List (Nat × V)) (h : Nat) (hl : ovNodup l) : ovNodup (ovRemove l h).2 := by
  induction l with
  | nil => simp [ovRemove, ovNodup]
  | cons p ps ih =>
    obtain ⟨k, w⟩ := p
    simp only [ovNodup] at hl
    by_cases hk : k = h
    · simp only [ovRemove, hk, if_true]
      exact hl.2
    · simp only [ovRemove, hk, if_false, ovNodup]
      exact ⟨by rw [ovLookup_ovRemove_ne _ _ _ hk]; exact hl.1, ih hl.2⟩

theorem ovLookup_ovRemove_self (l : List (Nat × V)) (h : Nat) (hl : ovNodup l) : ovLookup (ovRemove l h).2 h = none := by
  induction l with
  | nil => simp [ovRemove, ovLookup]
  | cons p ps ih =>
    obtain ⟨k, w⟩ := p
    simp only [ovNodup] at hl
    by_cases hk : k = h
    · subst hk
      simp only [ovRemove, if_true]
      exact hl.1
    · simp only [ovRemove, hk, if_false, ovLookup]
      exact ih hl.2

theorem ovRemove_fst (l : List (Nat × V)) (h : Nat) : (ovRemove l h).1 = ovLookup l h := by
  induction l with
  | nil => simp [ovRemove, ovLookup]
  | cons p ps ih =>
    obtain ⟨k, w⟩ := p
    by_cases hk : k = h
    · simp [ovRemove, ovLookup, hk]
    · simp [ovRemove, ovLookup, hk, ih]

/-- `insert` is the map update -/
theorem lookup_insert (r : Registry) (h h' : Nat) (v : V) :
    (r.insert h v).lookup h' = if h' = h then some v else r.lookup h' := by
  obtain ⟨single, ov⟩ := r
  rw [Registry.insert_cases]
  by_cases hh : h' = h
  · subst hh
    cases single with
    | none =>
      cases ov with
      | nil => simp [Registry.lookup]
      | cons p ps => simp [Registry.lookup, ovLookup_ovInsert_eq]
    | some hv => obtain ⟨h0, v0⟩ := hv; simp [Registry.lookup, ovLookup_ovInsert_eq]
  · simp only [hh, if_false]
    cases single with
    | none =>
      cases ov with
      | nil => simp [Registry.lookup, ovLookup, Ne.symm hh]
      | cons p ps => simp [Registry.lookup, ovLookup_ovInsert_ne _ _ _ _ hh]
    | some hv =>
      obtain ⟨h0, v0⟩ := hv
      simp only [Registry.lookup]
      rw [ovLookup_ovInsert_ne _ _ _ _ hh]
      by_cases h0h' : h0 = h'
      · subst h0h'; simp [ovLookup_ovInsert_eq]
      · simp [h0h', ovLookup_ovInsert_ne _ _ _ _ (Ne.symm h0h')]

/-- `remove` returns what the map holds … -/
theorem remove_fst (r : Registry) (h : Nat) : (r.remove h).1 = r.lookup h := by
  obtain ⟨single, ov⟩ := r
  cases single with
  | none => simp [Registry.remove, Registry.lookup, ovRemove_fst]
  | some hv =>
    obtain ⟨h0, v0⟩ := hv
    by_cases hh : h0 = h
    · simp [Registry.remove, Registry.lookup, hh]
    · simp [Registry.remove, Registry.lookup, hh, ovRemove_fst]

/-- … and is the map deletion -/
theorem lookup_remove (r : Registry) (h h' : Nat) (hinv : r.Inv) :
    (r.remove h).2.lookup h' = if h' = h then none else r.lookup h' := by
  obtain ⟨single, ov⟩ := r
  obtain ⟨hs, hn⟩ := hinv
  by_cases hh : h' = h
  · subst hh
    simp only [if_true]
    cases single with
    | none => simp [Registry.remove, Registry.lookup, ovLookup_ovRemove_self _ _ hn]
    | some hv =>
      obtain ⟨h0, v0⟩ := hv
      have hov : ov = [] := hs (h0, v0) rfl
      subst hov
      by_cases h0h : h0 = h'
      · simp [Registry.remove, Registry.lookup, h0h, ovLookup]
      · simp [Registry.remove, Registry.lookup, h0h, ovLookup, ovRemove]
  · simp only [hh, if_false]
    cases single with
    | none => simp [Registry.remove, Registry.lookup, ovLookup_ovRemove_ne _ _ _ hh]
    | some hv =>
      obtain ⟨h0, v0⟩ := hv
      by_cases h0h : h0 = h
      · subst h0h
        have hov : ov = [] := hs (h0, v0) rfl
        subst hov
        simp [Registry.remove, Registry.lookup, ovLookup, Ne.symm hh]
      · simp [Registry.remove, Registry.lookup, h0h, ovLookup_ovRemove_ne _ _ _ hh]

theorem inv_insert (r : Registry) (h : Nat) (v : V) (hinv : r.Inv) : (r.insert h v).Inv := by
  obtain ⟨single, ov⟩ := r
  obtain ⟨hs, hn⟩ := hinv
  rw [Registry.insert_cases]
  cases single with
  | none =>
    cases ov with
    | nil => exact ⟨fun _ _ => rfl, by simp [ovNodup]⟩
    | cons p ps => exact ⟨by intro p hp; simp at hp, ovNodup_ovInsert _ _ _ hn⟩
  | some hv =>
    obtain ⟨h0, v0⟩ := hv
    exact ⟨by intro p hp; simp at hp, ovNodup_ovInsert _ _ _ (ovNodup_ovInsert _ _ _ hn)⟩

theorem inv_remove (r : Registry) (h : Nat) (hinv : r.Inv) : (r.remove h).2.Inv := by
  obtain ⟨single, ov⟩ := r
  obtain ⟨hs, hn⟩ := hinv
  cases single with
  | none => exact ⟨by intro p hp; simp [Registry.remove] at hp, by simpa [Registry.remove] using ovNodup_ovRemove _ _ hn⟩
  | some hv =>
    obtain ⟨h0, v0⟩ := hv
    have hov : ov = [] := hs (h0, v0) rfl
    subst hov
    by_cases hh : h0 = h
    · simp [Registry.remove, hh, Registry.Inv, ovNodup]
    · simp [Registry.remove, hh, Registry.Inv, ovNodup, ovRemove]

/-- the specification: a finite map from handles to values -/
def runMap : List RegOp → (Nat → Option V) → (Nat → Option V) × List (Option V)
  | [], m => (m, [])
  | .ins h v :: ops, m => runMap ops (fun k => if k = h then some v else m k)
  | .rem h :: ops, m =>
    let rest := runMap ops (fun k => if k = h then none else m k)
    (rest.1, m h :: rest.2)

/-- for every sequence of inserts and removes the two-tier store answers like the finite map -/
theorem registry_refines_map (ops : List RegOp) (r : Registry) (m : Nat → Option V) (hinv : r.Inv)
    (hm : ∀ k, r.lookup k = m k) :
    (runReg ops r).2 = (runMap ops m).2 ∧ (∀ k, (runReg ops r).1.lookup k = (runMap ops m).1 k) ∧ (runReg ops r).1.Inv := by
  induction ops generalizing r m with
  | nil => exact ⟨rfl, hm, hinv⟩
  | cons op ops ih =>
    cases op with
    | ins h v =>
      simp only [runReg, runMap]
      exact ih (r.insert h v) _ (inv_insert r h v hinv) (fun k => by rw [lookup_insert, hm])
    | rem h =>
      simp only [runReg, runMap]
      obtain ⟨h1, h2, h3⟩ := ih (r.remove h).2 (fun k => if k = h then none else m k) (inv_remove r h hinv)
        (fun k => by rw [lookup_remove r h k hinv, hm])
      exact ⟨by rw [remove_fst, hm, h1], h2, h3⟩

theorem registry_refines_map_from_empty (ops : List RegOp) :
    (runReg ops Registry.empty).2 = (runMap ops (fun _ => none)).2 :=
  (registry_refines_map ops Registry.empty (fun _ => none)
    ⟨by intro p hp; simp [Registry.empty] at hp, by simp [Registry.empty, ovNodup]⟩
    (fun k => by simp [Registry.empty, Registry.lookup, ovLookup])).1

theorem serValueM_fst (v : V) (st : HState) : (serValueM v st).1 = v := by
  unfold serValueM
  have hmod : (st.last + 1) % 4294967296 % 4294967296 = (st.last + 1) % 4294967296 := Nat.mod_mod _ _
  simp only [hmod]
  have := remove_insert st.reg ((st.last + 1) % 4294967296) v
  split
  · rename_i v' hv'
    rw [this] at hv'
    simp at hv'
    exact hv'.symm
  · rename_i hn
    rw [this] at hn
    simp at hn

theorem seqM_fst (f : D → HState → V × HState) (g : D → V) (ds : List D)
    (h : ∀ d ∈ ds, ∀ st, (f d st).1 = g d) (st : HState) : (seqM f ds st).1 = ds.map g := by
  induction ds generalizing st with
  | nil => rfl
  | cons d ds ih =>
    simp only [seqM, List.map_cons]
    rw [h d (by simp), ih (fun x hx => h x (by simp [hx]))]

theorem pairsM_fst (f g : D → HState → V × HState) (f' g' : D → V) (ps : List (D × D))
    (hf : ∀ p ∈ ps, ∀ st, (f p.1 st).1 = f' p.1) (hg : ∀ p ∈ ps, ∀ st, (g p.2 st).1 = g' p.2) (st : HState) :
    (pairsM f g ps st).1 = ps.map fun p => (f' p.1, g' p.2) := by
  induction ps generalizing st with
  | nil => rfl
  | cons p ps ih =>
    simp only [pairsM, List.map_cons]
    rw [hf p (by simp), hg p (by simp),
      ih (fun x hx => hf x (by simp [hx])) (fun x hx => hg x (by simp [hx]))]

mutual
theorem serM_fst : ∀ (s : Shape) (d : D) (st : HState), (serM s d st).1 = ser s d
  | .opt s, d, st => by
    cases d <;> simp [serM, ser]
    exact serM_fst s _ st
  | .seq s, d, st => by
    cases d <;> simp [serM, ser]
    exact seqM_fst _ _ _ (fun x _ st' => serM_fst s x st') st
  | .map k w, d, st => by
    cases d <;> simp [serM, ser]
    rw [pairsM_fst (serM k) (serM w) (ser k) (ser w) _ (fun p _ st' => serM_fst k p.1 st')
      (fun p _ st' => serM_fst w p.2 st') st]
  | .tup ss, d, st => by
    cases d <;> simp [serM, ser]
    exact serListM_fst ss _ st
  | .nstruct s, d, st => by
    simp only [serM, ser]
    exact serM_fst s d st
  | .tstruct ss, d, st => by
    cases d <;> simp [serM, ser]
    exact serListM_fst ss _ st
  | .struct names ss, d, st => by
    cases d <;> simp [serM, ser]
    rw [serListM_fst ss _ st]
  | .enum names vs, d, st => by
    cases d <;> simp [serM, ser]
    exact serVariantM_fst vs names _ _ st
  | .value, d, st => by
    cases d <;> simp [serM, ser]
    exact serValueM_fst _ st
  | .bool, d, st => by simp [serM]
  | .int _ _ _, d, st => by simp [serM]
  | .f32, d, st => by simp [serM]
  | .f64, d, st => by simp [serM]
  | .char, d, st => by simp [serM]
  | .str, d, st => by simp [serM]
  | .bytes, d, st => by simp [serM]
  | .unit, d, st => by simp [serM]
  | .ustruct, d, st => by simp [serM]
theorem serListM_fst : ∀ (ss : List Shape) (ds : List D) (st : HState), (serListM ss ds st).1 = serList ss ds
  | [], ds, st => by simp [serListM, serList]
  | s :: ss, [], st => by simp [serListM, serList]
  | s :: ss, d :: ds, st => by
    simp only [serListM, serList]
    rw [serM_fst s d st, serListM_fst ss ds _]
theorem serVariantM_fst : ∀ (vs : List VShape) (names : List Str) (i : Nat) (p : D) (st : HState),
    (serVariantM names vs i p st).1 = serVariant names vs i p
  | [], names, i, p, st => by cases names <;> simp [serVariantM, serVariant]
  | v :: vs, [], i, p, st => by simp [serVariantM, serVariant]
  | v :: vs, n :: ns, 0, p, st => by
    simp only [serVariantM, serVariant]
    exact serVM_fst v n p st
  | v :: vs, n :: ns, i+1, p, st => by
    simp only [serVariantM, serVariant]
    exact serVariantM_fst vs ns i p st
theorem serVM_fst : ∀ (v : VShape) (n : Str) (p : D) (st : HState), (serVM n v p st).1 = serV n v p
  | .unit, n, p, st => by simp [serVM]
  | .newtype s, n, p, st => by
    simp only [serVM, serV]
    rw [serM_fst s p st]
  | .tuple ss, n, p, st => by
    cases p <;> simp [serVM, serV]
    rw [serListM_fst ss _ st]
  | .struct names ss, n, p, st => by
    cases p <;> simp [serVM, serV]
    rw [serListM_fst ss _ st]
end

end MJ.Serde
