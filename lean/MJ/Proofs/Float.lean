import MJ.Model.Serde
/-! `f32 → f64 → f32` on bit patterns is the identity (except for signalling NaNs). -/
namespace MJ.Serde

/-- `narrow` on a pattern given by its fields -/
theorem narrow_fields (s e M : Nat) (hs : s < 2) (he : e < 2048) (hM : M < 4503599627370496) :
    narrow (s * 9223372036854775808 + e * 4503599627370496 + M) =
      if e = 2047 then
        s * 2147483648 + 2139095040 + (if M = 0 then 0 else M / 536870912 % 4194304 + 4194304)
      else if 897 ≤ e then
        s * 2147483648 + Nat.min ((e - 897) * 8388608 + rne (4503599627370496 + M) 29) 2139095040
      else if 873 ≤ e then
        s * 2147483648 + rne (4503599627370496 + M) (29 + (897 - e))
      else s * 2147483648 := by
  have h1 : (s * 9223372036854775808 + e * 4503599627370496 + M) / 9223372036854775808 % 2 = s := by omega
  have h2 : (s * 9223372036854775808 + e * 4503599627370496 + M) / 4503599627370496 % 2048 = e := by omega
  have h3 : (s * 9223372036854775808 + e * 4503599627370496 + M) % 4503599627370496 = M := by omega
  simp only [narrow, h1, h2, h3]

theorem rne_exact (q sh : Nat) : rne (q * 2 ^ sh) sh = q := by
  unfold rne
  by_cases h0 : sh = 0
  · simp [h0]
  · have hpos : 0 < 2 ^ sh := Nat.pow_pos (by decide)
    have hq : q * 2 ^ sh / 2 ^ sh = q := Nat.mul_div_cancel q hpos
    have hr : q * 2 ^ sh % 2 ^ sh = 0 := Nat.mul_mod_left q (2 ^ sh)
    have hhalf : 0 < 2 ^ sh / 2 := by
      have : 2 ≤ 2 ^ sh := by
        calc 2 = 2 ^ 1 := rfl
          _ ≤ 2 ^ sh := Nat.pow_le_pow_right (by decide) (by omega)
      omega
    simp only [h0, if_false, hq, hr]
    have : ¬ (2 ^ sh / 2 < 0 ∨ (0 = 2 ^ sh / 2 ∧ q % 2 = 1)) := by omega
    rw [if_neg this]

theorem narrow_widen (b : Nat) (hb : b < 4294967296) (hs : isSNaN32 b = false) : narrow (widen b) = b := by
  have hs' : ¬ (b / 8388608 % 256 = 255 ∧ b % 8388608 ≠ 0 ∧ b % 8388608 < 4194304) := by
    intro h
    simp [isSNaN32, h.1, h.2.1, h.2.2] at hs
  generalize hsg : b / 2147483648 % 2 = s
  generalize heg : b / 8388608 % 256 = e at hs'
  generalize hmg : b % 8388608 = m at hs'
  have hb' : b = s * 2147483648 + e * 8388608 + m := by omega
  have hs2 : s < 2 := by omega
  have he2 : e < 256 := by omega
  have hm2 : m < 8388608 := by omega
  unfold widen
  simp only [hsg, heg, hmg]
  by_cases he255 : e = 255
  · -- infinities and quiet NaNs
    simp only [he255, if_true]
    by_cases hm0 : m = 0
    · rw [if_pos hm0]
      have key : s * 9223372036854775808 + 9218868437227405312 + 0
          = s * 9223372036854775808 + 2047 * 4503599627370496 + 0 := by omega
      rw [key, narrow_fields s 2047 0 hs2 (by omega) (by omega), if_pos rfl, if_pos rfl]
      clear key
      omega
    · have hq : 4194304 ≤ m := by
        apply Nat.le_of_not_lt
        intro hlt
        exact hs' ⟨he255, hm0, hlt⟩
      rw [if_neg hm0, if_pos hq]
      have key : s * 9223372036854775808 + 9218868437227405312 + (m * 536870912 + 0)
          = s * 9223372036854775808 + 2047 * 4503599627370496 + m * 536870912 := by omega
      have hne : m * 536870912 ≠ 0 := by omega
      rw [key, narrow_fields s 2047 (m * 536870912) hs2 (by omega) (by omega), if_pos rfl, if_neg hne]
      clear key
      omega
  · simp only [he255, if_false]
    by_cases he0 : e = 0
    · simp only [he0, if_true]
      by_cases hm0 : m = 0
      · rw [if_pos hm0]
        have key : s * 9223372036854775808 = s * 9223372036854775808 + 0 * 4503599627370496 + 0 := by omega
        rw [key, narrow_fields s 0 0 hs2 (by omega) (by omega), if_neg (by decide), if_neg (by decide),
          if_neg (by decide)]
        clear key
        omega
      · -- subnormals: normalised in f64
        simp only [hm0, if_false]
        have hk1 : 2 ^ m.log2 ≤ m := Nat.log2_self_le hm0
        have hk2 : m < 2 ^ (m.log2 + 1) := Nat.lt_log2_self
        generalize hkg : m.log2 = k at hk1 hk2
        have hk : k < 23 := by
          have : 2 ^ k < 2 ^ 23 := Nat.lt_of_le_of_lt hk1 (by simpa using hm2)
          exact (Nat.pow_lt_pow_iff_right (by decide)).mp this
        have hsplit : 2 ^ k * 2 ^ (52 - k) = 4503599627370496 := by
          rw [← Nat.pow_add]
          have : k + (52 - k) = 52 := by omega
          rw [this]
        have hlo : 4503599627370496 ≤ m * 2 ^ (52 - k) := by
          rw [← hsplit]
          exact Nat.mul_le_mul_right _ hk1
        have hhi : m * 2 ^ (52 - k) < 9007199254740992 := by
          have h2 : 2 ^ (k + 1) * 2 ^ (52 - k) = 9007199254740992 := by
            rw [Nat.pow_succ, Nat.mul_right_comm, hsplit]
          rw [← h2]
          exact Nat.mul_lt_mul_of_pos_right hk2 (Nat.pow_pos (by decide))
        have := narrow_fields s (874 + k) (m * 2 ^ (52 - k) - 4503599627370496) hs2 (by omega) (by omega)
        rw [this]
        have c1 : ¬ (874 + k = 2047) := by omega
        have c2 : ¬ (897 ≤ 874 + k) := by omega
        have c3 : 873 ≤ 874 + k := by omega
        simp only [c1, c2, c3, if_false, if_true]
        have hM : 4503599627370496 + (m * 2 ^ (52 - k) - 4503599627370496) = m * 2 ^ (52 - k) := by omega
        have hsh : 29 + (897 - (874 + k)) = 52 - k := by omega
        rw [hM, hsh, rne_exact]
        omega
    · -- normal numbers
      simp only [he0, if_false]
      have := narrow_fields s (e + 896) (m * 536870912) hs2 (by omega) (by omega)
      rw [this]
      have c1 : ¬ (e + 896 = 2047) := by omega
      have c2 : 897 ≤ e + 896 := by omega
      simp only [c1, c2, if_false, if_true]
      have hx : 4503599627370496 + m * 536870912 = (8388608 + m) * 2 ^ 29 := by
        have : (2 : Nat) ^ 29 = 536870912 := by decide
        rw [this]
        omega
      rw [hx, rne_exact]
      have hmin : Nat.min ((e + 896 - 897) * 8388608 + (8388608 + m)) 2139095040
          = (e + 896 - 897) * 8388608 + (8388608 + m) := by
        apply Nat.min_eq_left
        omega
      rw [hmin]
      omega

end MJ.Serde
