import MJ.Proofs.Store
/-! C15: what `templates()` lists, and `Environment::empty()` as a stripped `Environment::new()`. -/
namespace MJ.Store

/-! ### `templates()` lists exactly the stored templates -/

theorem find_some_of_mem {β : Type} (l : List (Name × β)) (h : (keys l).Nodup) (n : Name) (v : β)
    (hm : (n, v) ∈ l) : find l n = some v := by
  induction l with
  | nil => simp at hm
  | cons p t ih =>
    obtain ⟨k, w⟩ := p
    simp only [keys, List.map_cons, List.nodup_cons] at h
    simp only [List.mem_cons, Prod.mk.injEq] at hm
    unfold find
    rcases hm with ⟨e1, e2⟩ | hm
    · simp [e1, e2]
    · have hk : k ≠ n := by
        intro e
        apply h.1
        rw [e]
        exact List.mem_map.mpr ⟨(n, v), hm, rfl⟩
      simp only [hk, if_false]
      exact ih h.2 hm

theorem mem_of_find_some {β : Type} (l : List (Name × β)) (n : Name) (v : β)
    (hf : find l n = some v) : (n, v) ∈ l := by
  induction l with
  | nil => simp [find] at hf
  | cons p t ih =>
    obtain ⟨k, w⟩ := p
    unfold find at hf
    by_cases hk : k = n
    · simp only [hk, if_true, Option.some.injEq] at hf
      simp [hk, hf]
    · simp only [hk, if_false] at hf
      exact List.mem_cons_of_mem _ (ih hf)

theorem find_none_of_not_mem_keys {β : Type} (l : List (Name × β)) (n : Name) (h : n ∉ keys l) :
    find l n = none := by
  cases hf : find l n with
  | none => rfl
  | some v =>
    exfalso
    apply h
    exact List.mem_map.mpr ⟨(n, v), mem_of_find_some l n v hf, rfl⟩

theorem flat_contents_store (s : Store) (n : Name) :
    s.flat.contents n =
      match find s.borrowed n with
      | some t => some t
      | none => (find s.owned n).map (·.1) := by
  unfold Store.flat
  rw [flat_contents, abs_explicit, abs_cached]
  cases find s.borrowed n with
  | some t => rfl
  | none =>
    cases find s.owned n with
    | none => rfl
    | some p =>
      obtain ⟨t, o⟩ := p
      cases o <;> rfl

/-- `LoaderStore::iter` yields `(n, t)` exactly when a lookup of `n` is answered with `t` from the
    store itself (no loader involved) -/
theorem Store.mem_iter_iff (s : Store) (h : s.Inv) (n : Name) (t : Tmpl) :
    (n, t) ∈ s.iter ↔ s.flat.contents n = some t := by
  obtain ⟨h1, h2, h3⟩ := h
  rw [flat_contents_store]
  unfold Store.iter
  rw [List.mem_append]
  constructor
  · rintro (hb | ho)
    · rw [find_some_of_mem _ h1 n t hb]
    · obtain ⟨p, hp, e⟩ := List.mem_map.mp ho
      obtain ⟨k, t', o⟩ := p
      simp only [Prod.mk.injEq] at e
      obtain ⟨e1, e2⟩ := e
      subst e1; subst e2
      have hk : k ∈ keys s.owned := List.mem_map.mpr ⟨_, hp, rfl⟩
      have hb : find s.borrowed k = none := by
        apply find_none_of_not_mem_keys
        intro hkb
        exact h3 k hkb hk
      rw [hb, find_some_of_mem _ h2 k (t', o) hp]
      rfl
  · intro hc
    cases hb : find s.borrowed n with
    | some t' =>
      rw [hb] at hc
      simp only [Option.some.injEq] at hc
      subst hc
      exact Or.inl (mem_of_find_some _ _ _ hb)
    | none =>
      rw [hb] at hc
      cases ho : find s.owned n with
      | none => rw [ho] at hc; simp at hc
      | some p =>
        rw [ho] at hc
        simp only [Option.map_some, Option.some.injEq] at hc
        refine Or.inr (List.mem_map.mpr ⟨(n, p), mem_of_find_some _ _ _ ho, ?_⟩)
        simp [hc]

/-! ### `Environment::empty()` = `Environment::new()` with everything taken out again -/

def removeAll (fn : Name → Option Nat) : List Name → Name → Option Nat
  | [] => fn
  | n :: ns => removeAll (upd fn n none) ns

theorem removeAll_apply (names : List Name) (fn : Name → Option Nat) (m : Name) :
    removeAll fn names m = if m ∈ names then none else fn m := by
  induction names generalizing fn with
  | nil => simp [removeAll]
  | cons n ns ih =>
    simp only [removeAll, ih, List.mem_cons]
    by_cases h1 : m ∈ ns
    · simp [h1]
    · by_cases h2 : m = n
      · simp [h2, upd]
      · simp [h1, h2, upd]

theorem removeAll_keys (r : Registry) (m : Name) : removeAll (find r) (keys r) m = none := by
  rw [removeAll_apply]
  by_cases h : m ∈ keys r
  · simp [h]
  · simp [h, find_none_of_not_mem_keys r m h]

theorem EnvSpec.run_append (c : LtCfg → Source → Bool) (a b : List EOp) (v : EnvSpec) :
    v.run c (a ++ b) = (v.run c a).run c b := by
  induction a generalizing v with
  | nil => rfl
  | cons op ops ih => simp only [List.cons_append, EnvSpec.run]; exact ih _

theorem EnvSpec.run_remove_filters (c : LtCfg → Source → Bool) (r : List (Name × Nat)) (v : EnvSpec) :
    v.run c (r.map (fun p => EOp.regRemove .filter p.1)) = { v with filters := removeAll v.filters (keys r) } := by
  induction r generalizing v with
  | nil => rfl
  | cons p t ih =>
    simp only [List.map_cons, EnvSpec.run, EnvSpec.step, EnvSpec.modReg]
    rw [ih]
    rfl

theorem EnvSpec.run_remove_tests (c : LtCfg → Source → Bool) (r : List (Name × Nat)) (v : EnvSpec) :
    v.run c (r.map (fun p => EOp.regRemove .test p.1)) = { v with tests := removeAll v.tests (keys r) } := by
  induction r generalizing v with
  | nil => rfl
  | cons p t ih =>
    simp only [List.map_cons, EnvSpec.run, EnvSpec.step, EnvSpec.modReg]
    rw [ih]
    rfl

theorem EnvSpec.run_remove_globals (c : LtCfg → Source → Bool) (r : List (Name × Nat)) (v : EnvSpec) :
    v.run c (r.map (fun p => EOp.regRemove .global p.1)) = { v with globals := removeAll v.globals (keys r) } := by
  induction r generalizing v with
  | nil => rfl
  | cons p t ih =>
    simp only [List.map_cons, EnvSpec.run, EnvSpec.step, EnvSpec.modReg]
    rw [ih]
    rfl

theorem World.init_WF (f t g : Registry) : (World.init f t g).WF := by
  refine ⟨?_, ?_, ?_, rfl, rfl, rfl, rfl⟩ <;> (intro a ha; simp [World.init] at ha; subst ha; simp [World.init])

theorem regView_single (r : Registry) : regView ⟨[r], [0]⟩ 0 = find r := by
  simp [regView, Cow.view]

/-- the value of `Environment::new()` after `stripOps` is the value of `Environment::empty()` -/
theorem World.stripped_new_value (c : LtCfg → Source → Bool) (f t g : Registry) :
    ((World.init f t g).runAt c 0 (stripOps f t g)).flatView 0 = World.initEmpty.flatView 0 := by
  have h0 : 0 < (World.init f t g).stores.length := by simp [World.init]
  obtain ⟨a1, _⟩ := World.run_local c (stripOps f t g) (World.init f t g) (World.init_WF f t g) 0 h0 _
    (World.flatView_some _ 0 h0)
  rw [a1, World.flatView_some World.initEmpty 0 (by simp [World.initEmpty])]
  congr 1
  unfold stripOps
  rw [EnvSpec.run_append, EnvSpec.run_append, EnvSpec.run_append, EnvSpec.run_remove_filters,
    EnvSpec.run_remove_tests, EnvSpec.run_remove_globals]
  simp only [EnvSpec.run, EnvSpec.step, World.init, World.initEmpty, regView_single, List.getElem_cons_zero]
  have e1 : removeAll (find f) (keys f) = find ([] : Registry) := funext (fun m => by rw [removeAll_keys]; rfl)
  have e2 : removeAll (find t) (keys t) = find ([] : Registry) := funext (fun m => by rw [removeAll_keys]; rfl)
  have e3 : removeAll (find g) (keys g) = find ([] : Registry) := funext (fun m => by rw [removeAll_keys]; rfl)
  rw [e1, e2, e3]
  rfl

end MJ.Store
