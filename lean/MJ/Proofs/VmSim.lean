import MJ.Proofs.FoldSound
import MJ.Model.Vm
/-!
# Simulation infrastructure: the model VM on the code of `relExpr` (C03 stage 3)
-/
namespace MJ.Vm
open MJ.Eval MJ.Compile

/-- `C` contains the instruction list `L` at offset `base` -/
def At (C : List Instr) (base : Nat) (L : List Instr) : Prop :=
  ∀ k, k < L.length → C[base + k]? = L[k]?

theorem At.left {C base L1 L2} (h : At C base (L1 ++ L2)) : At C base L1 := by
  intro k hk
  rw [h k (by simp; omega), List.getElem?_append_left hk]

theorem At.right {C base L1 L2} (h : At C base (L1 ++ L2)) : At C (base + L1.length) L2 := by
  intro k hk
  have := h (L1.length + k) (by simp; omega)
  rw [Nat.add_assoc, this, List.getElem?_append_right (by omega)]
  simp

theorem At.head {C base i L} (h : At C base (i :: L)) : C[base]? = some i := by
  simpa using h 0 (by simp)

theorem At.tail {C base i L} (h : At C base (i :: L)) : At C (base + 1) L := by
  have := At.right (L1 := [i]) (L2 := L) (by simpa using h)
  simpa using this

theorem At.of_append (pre L post : List Instr) : At (pre ++ L ++ post) pre.length L := by
  intro k hk
  rw [List.append_assoc, List.getElem?_append_right (by omega)]
  simp [List.getElem?_append_left hk]

/-- the VM gets from `s` to `s'` by executing instructions of `C` -/
inductive Reach (ctx : Scope) (C : List Instr) : VmState → VmState → Prop where
  | refl (s : VmState) : Reach ctx C s s
  | cons {s s' s'' : VmState} {i : Instr} : C[s.pc]? = some i → MJ.Vm.step ctx i s = .ok s' →
      Reach ctx C s' s'' → Reach ctx C s s''

theorem Reach.trans {ctx C s1 s2 s3} (h1 : Reach ctx C s1 s2) (h2 : Reach ctx C s2 s3) : Reach ctx C s1 s3 := by
  induction h1 with
  | refl => exact h2
  | cons hi hs _ ih => exact Reach.cons hi hs (ih h2)

theorem Reach.one {ctx C s s' i} (hi : C[s.pc]? = some i) (hs : MJ.Vm.step ctx i s = .ok s') : Reach ctx C s s' :=
  Reach.cons hi hs (Reach.refl _)

/-- reaching a state whose pc is outside the code means `run` returns it (with enough fuel) -/
theorem Reach.toRun {ctx C s s'} (h : Reach ctx C s s') (hend : C[s'.pc]? = none) :
    ∃ fuel, ∀ k, MJ.Vm.run ctx C (fuel + k) s = .ok s' := by
  induction h with
  | refl s => exact ⟨1, fun k => by rw [Nat.add_comm]; simp [MJ.Vm.run, hend]⟩
  | cons hi hs _ ih =>
    obtain ⟨f, hf⟩ := ih hend
    refine ⟨f + 1, fun k => ?_⟩
    have : f + 1 + k = (f + k) + 1 := by omega
    rw [this]; simp [MJ.Vm.run, hi, hs, hf]

/-- the frames of the VM and the scope cells of the reference semantics agree on every variable -/
def EnvRel (ctx : Scope) (heap : Heap) (stack : List Nat) (frames : List Frame) : Prop :=
  ∀ x, lookupFrames ctx x frames = (lookup ctx heap stack x).getD .undef


@[simp] theorem oof_filterId (a : Aux) (n : String) : (a.filterId n).2.oof = a.oof := rfl
@[simp] theorem oof_testId (a : Aux) (n : String) : (a.testId n).2.oof = a.oof := rfl
@[simp] theorem oof_markOof (a : Aux) : a.markOof.oof = true := rfl

mutual
theorem relExpr_oof_mono : ∀ (e : Expr) (b : Nat) (a : Aux), a.oof = true → (relExpr e b a).2.oof = true
  | .const l, b, a, h => by unfold relExpr; simp [asConst, h]
  | .var x, b, a, h => by unfold relExpr; simp [asConst, h]
  | .unop .not x, b, a, h => by
    unfold relExpr; cases asConst (.unop .not x) <;> simp [h, relExpr_oof_mono x b a h]
  | .unop .neg x, b, a, h => by
    unfold relExpr; cases asConst (.unop .neg x) <;> simp [h, relExpr_oof_mono x b a h]
  | .binop op l r, b, a, h => by
    unfold relExpr
    cases asConst (.binop op l r) with
    | val v => simp [h]
    | oof => simp
    | no =>
      have hl := relExpr_oof_mono l b a h
      cases op <;> simp only <;> exact relExpr_oof_mono r _ _ hl
  | .cmp x ops, b, a, h => by
    unfold relExpr
    cases asConst (.cmp x ops) with
    | val v => simp [h]
    | oof => simp
    | no => simp only; exact relChain_oof_mono ops _ _ _ (relExpr_oof_mono x b a h)
  | .ife c t none, b, a, h => by
    unfold relExpr
    cases asConst (.ife c t none) with
    | val v => simp [h]
    | oof => simp
    | no => simp only; exact relExpr_oof_mono t _ _ (relExpr_oof_mono c b a h)
  | .ife c t (some f), b, a, h => by
    unfold relExpr
    cases asConst (.ife c t (some f)) with
    | val v => simp [h]
    | oof => simp
    | no => simp only; exact relExpr_oof_mono f _ _ (relExpr_oof_mono t _ _ (relExpr_oof_mono c b a h))
  | .filter name x args, b, a, h => by
    unfold relExpr
    cases asConst (.filter name x args) with
    | val v => simp [h]
    | oof => simp
    | no => simp only [oof_filterId]; exact relArgs_oof_mono args _ _ (relExpr_oof_mono x b a h)
  | .test name x args, b, a, h => by
    unfold relExpr
    cases asConst (.test name x args) with
    | val v => simp [h]
    | oof => simp
    | no => simp only [oof_testId]; exact relArgs_oof_mono args _ _ (relExpr_oof_mono x b a h)
  | .getattr x name, b, a, h => by
    unfold relExpr; cases asConst (.getattr x name) <;> simp [h, relExpr_oof_mono x b a h]
  | .getitem x i, b, a, h => by
    unfold relExpr
    cases asConst (.getitem x i) with
    | val v => simp [h]
    | oof => simp
    | no => simp only; exact relExpr_oof_mono i _ _ (relExpr_oof_mono x b a h)
  | .call _ _, b, a, h => by unfold relExpr; cases asConst (.call _ _) <;> simp [h]
  | .list items, b, a, h => by
    unfold relExpr; cases asConst (.list items) <;> simp [h, relList_oof_mono items b a h]
  | .map kvs, b, a, h => by
    unfold relExpr; cases asConst (.map kvs) <;> simp [h, relPairs_oof_mono kvs b a h]
theorem relChain_oof_mono : ∀ (ops : List (CmpOp × Expr)) (b : Nat) (a : Aux) (cs : Nat), a.oof = true →
    (relChain ops b a cs).2.oof = true
  | [], b, a, cs, h => by simp [relChain, h]
  | [(op, e)], b, a, cs, h => by simp [relChain, relExpr_oof_mono e b a h]
  | (op, e) :: o2 :: rest, b, a, cs, h => by
    simp only [relChain]; exact relChain_oof_mono (o2 :: rest) _ _ _ (relExpr_oof_mono e b a h)
theorem relArgs_oof_mono : ∀ (args : List (Option String × Expr)) (b : Nat) (a : Aux), a.oof = true →
    (relArgs args b a).2.oof = true
  | [], b, a, h => by simp [relArgs, h]
  | (none, e) :: rest, b, a, h => by
    simp only [relArgs]; exact relArgs_oof_mono rest _ _ (relExpr_oof_mono e b a h)
  | (some _, _) :: _, b, a, h => by simp [relArgs]
theorem relList_oof_mono : ∀ (es : List Expr) (b : Nat) (a : Aux), a.oof = true →
    (relList es b a).2.oof = true
  | [], b, a, h => by simp [relList, h]
  | e :: rest, b, a, h => by
    simp only [relList]; exact relList_oof_mono rest _ _ (relExpr_oof_mono e b a h)
theorem relPairs_oof_mono : ∀ (kvs : List (Expr × Expr)) (b : Nat) (a : Aux), a.oof = true →
    (relPairs kvs b a).2.oof = true
  | [], b, a, h => by simp [relPairs, h]
  | (k, v) :: rest, b, a, h => by
    simp only [relPairs]
    exact relPairs_oof_mono rest _ _ (relExpr_oof_mono v _ _ (relExpr_oof_mono k b a h))
end

/-- contrapositive: if the result is inside the fragment, so was the start -/
theorem oof_false_of_relExpr {e b a} (h : (relExpr e b a).2.oof = false) : a.oof = false := by
  cases ha : a.oof with
  | false => rfl
  | true => rw [relExpr_oof_mono e b a ha] at h; cases h


/-- executing the code of `e` from `s` pushes the value of `e` -/
def SimExpr (n : Nat) : Prop :=
  ∀ e ctx heap stack v, evalExpr n ctx heap stack e = .ok v → simpleExpr e = true →
    ∀ C base a s, At C base (relExpr e base a).1 → (relExpr e base a).2.oof = false → s.pc = base →
      EnvRel ctx heap stack s.frames →
      Reach ctx C s { s with pc := base + (relExpr e base a).1.length, stack := v :: s.stack }

theorem relExpr_val {e w} (hc : asConst e = .val w) (base a) : relExpr e base a = ([.loadConst w], a) := by
  unfold relExpr; simp [hc]

theorem relExpr_oof {e} (hc : asConst e = .oof) (base a) : relExpr e base a = ([], a.markOof) := by
  unfold relExpr; simp [hc]

theorem sim_folded {n e ctx heap stack v w} (hc : asConst e = .val w)
    (hev : evalExpr n ctx heap stack e = .ok v) {C base a s}
    (hAt : At C base (relExpr e base a).1) (hpc : s.pc = base) :
    Reach ctx C s { s with pc := base + (relExpr e base a).1.length, stack := v :: s.stack } := by
  rw [relExpr_val hc] at hAt ⊢
  have hv : v = w := by
    rcases asConst_sound hc n ctx heap stack with h | h <;> rw [h] at hev <;> simp at hev
    exact hev.symm
  subst hv
  refine Reach.one (i := .loadConst v) (by rw [hpc]; exact hAt.head) ?_
  simp [MJ.Vm.step, hpc]


theorem rel_var {x} (base a) : relExpr (.var x) base a = ([.lookup x], a) := by
  conv => lhs; unfold relExpr
  simp [asConst]
theorem rel_not {x} (hc : asConst (.unop .not x) = .no) (base a) :
    relExpr (.unop .not x) base a = ((relExpr x base a).1 ++ [.not], (relExpr x base a).2) := by
  conv => lhs; unfold relExpr
  simp [hc]
theorem rel_neg {x} (hc : asConst (.unop .neg x) = .no) (base a) :
    relExpr (.unop .neg x) base a = ((relExpr x base a).1 ++ [.neg], (relExpr x base a).2) := by
  conv => lhs; unfold relExpr
  simp [hc]
theorem rel_and {l r} (hc : asConst (.binop .and l r) = .no) (base a) :
    relExpr (.binop .and l r) base a =
      ((relExpr l base a).1 ++ [.jumpIfFalseOrPop (base + (relExpr l base a).1.length + 1 +
          (relExpr r (base + (relExpr l base a).1.length + 1) (relExpr l base a).2).1.length)] ++
        (relExpr r (base + (relExpr l base a).1.length + 1) (relExpr l base a).2).1,
       (relExpr r (base + (relExpr l base a).1.length + 1) (relExpr l base a).2).2) := by
  conv => lhs; unfold relExpr
  simp [hc]
theorem rel_or {l r} (hc : asConst (.binop .or l r) = .no) (base a) :
    relExpr (.binop .or l r) base a =
      ((relExpr l base a).1 ++ [.jumpIfTrueOrPop (base + (relExpr l base a).1.length + 1 +
          (relExpr r (base + (relExpr l base a).1.length + 1) (relExpr l base a).2).1.length)] ++
        (relExpr r (base + (relExpr l base a).1.length + 1) (relExpr l base a).2).1,
       (relExpr r (base + (relExpr l base a).1.length + 1) (relExpr l base a).2).2) := by
  conv => lhs; unfold relExpr
  simp [hc]
theorem rel_binop {op l r} (hc : asConst (.binop op l r) = .no) (h1 : op ≠ .and) (h2 : op ≠ .or) (base a) :
    relExpr (.binop op l r) base a =
      ((relExpr l base a).1 ++ (relExpr r (base + (relExpr l base a).1.length) (relExpr l base a).2).1 ++ [binInstr op],
       (relExpr r (base + (relExpr l base a).1.length) (relExpr l base a).2).2) := by
  conv => lhs; unfold relExpr
  cases op <;> simp [hc] at h1 h2 ⊢
theorem rel_getattr {x name} (base a) :
    relExpr (.getattr x name) base a = ((relExpr x base a).1 ++ [.getAttr name], (relExpr x base a).2) := by
  conv => lhs; unfold relExpr
  simp [asConst]
theorem rel_getitem {x i} (base a) :
    relExpr (.getitem x i) base a =
      ((relExpr x base a).1 ++ (relExpr i (base + (relExpr x base a).1.length) (relExpr x base a).2).1 ++ [.getItem],
       (relExpr i (base + (relExpr x base a).1.length) (relExpr x base a).2).2) := by
  conv => lhs; unfold relExpr
  simp [asConst]
theorem rel_ife_none {c t} (base a) :
    relExpr (.ife c t none) base a =
      ((relExpr c base a).1 ++ [.jumpIfFalse (base + (relExpr c base a).1.length + 1 +
            (relExpr t (base + (relExpr c base a).1.length + 1) (relExpr c base a).2).1.length + 1)] ++
          (relExpr t (base + (relExpr c base a).1.length + 1) (relExpr c base a).2).1 ++
          [.jump (base + (relExpr c base a).1.length + 1 +
            (relExpr t (base + (relExpr c base a).1.length + 1) (relExpr c base a).2).1.length + 1 + 1)] ++
          [.loadConst .undef],
       (relExpr t (base + (relExpr c base a).1.length + 1) (relExpr c base a).2).2) := by
  conv => lhs; unfold relExpr
  simp [asConst]
theorem rel_ife_some {c t f} (base a) :
    relExpr (.ife c t (some f)) base a =
      (let rc := relExpr c base a
       let rt := relExpr t (base + rc.1.length + 1) rc.2
       let fb := base + rc.1.length + 1 + rt.1.length + 1
       let rf := relExpr f fb rt.2
       (rc.1 ++ [.jumpIfFalse fb] ++ rt.1 ++ [.jump (fb + rf.1.length)] ++ rf.1, rf.2)) := by
  conv => lhs; unfold relExpr
  simp [asConst]

end MJ.Vm
