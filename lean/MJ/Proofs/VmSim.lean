import MJ.Proofs.FoldSound
import MJ.Model.Vm
/-!
# Simulation infrastructure: the model VM on the code of `relExpr` (C03 stage 3)
-/
namespace MJ.Vm
open MJ.Eval MJ.Compile

/-- `C` contains the instruction list `L` at offset `base` -/
def At (C : List Instr) (base : Nat) (L : List Instr) : Prop :=
  ∀ k, k < L.length → C[base + k]? = L[k]?

theorem At.left {C base L1 L2} (h : At C base (L1 ++ L2)) : At C base L1 := by
  intro k hk
  rw [h k (by simp; omega), List.getElem?_append_left hk]

theorem At.right {C base L1 L2} (h : At C base (L1 ++ L2)) : At C (base + L1.length) L2 := by
  intro k hk
  have := h (L1.length + k) (by simp; omega)
  rw [Nat.add_assoc, this, List.getElem?_append_right (by omega)]
  simp

theorem At.head {C base i L} (h : At C base (i :: L)) : C[base]? = some i := by
  simpa using h 0 (by simp)

theorem At.tail {C base i L} (h : At C base (i :: L)) : At C (base + 1) L := by
  have := At.right (L1 := [i]) (L2 := L) (by simpa using h)
  simpa using this

theorem At.of_append (pre L post : List Instr) : At (pre ++ L ++ post) pre.length L := by
  intro k hk
  rw [List.append_assoc, List.getElem?_append_right (by omega)]
  simp [List.getElem?_append_left hk]

/-- the VM gets from `s` to `s'` by executing instructions of `C`; a `CallFunction` is one step whose
premise is the run of the macro's code (in a fresh context, up to its `Return`) -/
inductive Reach (ctx : Scope) (C : List Instr) : VmState → VmState → Prop where
  | refl (s : VmState) : Reach ctx C s s
  | cons {s s' s'' : VmState} {i : Instr} : C[s.pc]? = some i → MJ.Vm.step ctx i s = .ok s' →
      Reach ctx C s' s'' → Reach ctx C s s''
  | call {s s1 s'' : VmState} {name : String} {argc : Nat} {args rest : List Val} {nm : String} {spec : List String}
      {off : Nat} {clo : Option Nat} {cref : Bool} {vals : List Val} {caller : Option Val} :
      C[s.pc]? = some (.callFunction name argc) → popN argc s.stack = some (args, rest) →
      lookupFrames ctx s.closures name s.frames = .vmMacro nm spec off clo cref →
      prepareArgs spec cref args = .ok (vals, caller) →
      Reach ctx C (calleeState off clo caller vals s.closures) s1 → C[s1.pc]? = some .return_ →
      Reach ctx C { s with pc := s.pc + 1, stack := .str (s1.outs.getLast?.getD "") :: rest, closures := s1.closures } s'' →
      Reach ctx C s s''

theorem Reach.trans {ctx C s1 s2 s3} (h1 : Reach ctx C s1 s2) (h2 : Reach ctx C s2 s3) : Reach ctx C s1 s3 := by
  induction h1 with
  | refl => exact h2
  | cons hi hs _ ih => exact Reach.cons hi hs (ih h2)
  | call hi hp hl ha hb hr _ _ ih2 => exact Reach.call hi hp hl ha hb hr (ih2 h2)

theorem Reach.one {ctx C s s' i} (hi : C[s.pc]? = some i) (hs : MJ.Vm.step ctx i s = .ok s') : Reach ctx C s s' :=
  Reach.cons hi hs (Reach.refl _)

/-- the run stops: the program counter is outside the code, or at a `Return` -/
def Halted (C : List Instr) (s : VmState) : Prop := C[s.pc]? = none ∨ C[s.pc]? = some .return_

theorem run_halted {ctx C s} (h : Halted C s) (k : Nat) : MJ.Vm.run ctx C (k + 1) s = .ok s := by
  rcases h with h | h <;> simp [MJ.Vm.run, h]

theorem step_not_return {ctx i s s'} (h : MJ.Vm.step ctx i s = .ok s') : i ≠ .return_ := by
  intro e; subst e; simp [MJ.Vm.step] at h

theorem stepF_of_step {ctx C i s s'} (h : MJ.Vm.step ctx i s = .ok s') (k : Nat) :
    MJ.Vm.stepF ctx C (k + 1) i s = .ok s' := by
  cases i <;> first | (simp [MJ.Vm.step] at h; done) | (simpa [MJ.Vm.stepF] using h)

/-- reaching a halted state means `run` returns it (with enough fuel) -/
theorem Reach.toRun {ctx C s s'} (h : Reach ctx C s s') (hend : Halted C s') :
    ∃ fuel, ∀ k, MJ.Vm.run ctx C (fuel + k) s = .ok s' := by
  induction h with
  | refl s => exact ⟨1, fun k => by rw [Nat.add_comm]; exact run_halted hend k⟩
  | @cons s s1 s2 i hi hs _ ih =>
    obtain ⟨f, hf⟩ := ih hend
    refine ⟨f + 2, fun k => ?_⟩
    have e : f + 2 + k = (f + k + 1) + 1 := by omega
    rw [e]
    have hne := step_not_return hs
    have : MJ.Vm.run ctx C (f + k + 1 + 1) s = MJ.Vm.run ctx C (f + k + 1) s1 := by
      rw [MJ.Vm.run, hi]
      cases i <;> first | exact absurd rfl hne | simp [stepF_of_step hs]
    rw [this]
    have e2 : f + k + 1 = f + (k + 1) := by omega
    rw [e2]; exact hf _
  | @call s s1 s2 name argc args rest nm spec off clo cref vals caller hi hp hl ha _ hr _ ih1 ih2 =>
    obtain ⟨f1, hf1⟩ := ih1 (Or.inr hr)
    obtain ⟨f2, hf2⟩ := ih2 hend
    refine ⟨f1 + f2 + 3, fun k => ?_⟩
    have e : f1 + f2 + 3 + k = (f1 + f2 + k + 2) + 1 := by omega
    rw [e, MJ.Vm.run, hi]
    have e1 : f1 + f2 + k + 2 = (f1 + f2 + k + 1) + 1 := by omega
    simp only
    rw [e1, MJ.Vm.stepF, hp]
    simp only
    have e3 : f1 + f2 + k + 1 = (f1 + f2 + k) + 1 := by omega
    rw [hl, e3, MJ.Vm.callF, ha]
    simp only
    have e4 : f1 + f2 + k = f1 + (f2 + k) := by omega
    rw [e4, hf1]
    simp only
    have e5 : f1 + (f2 + k) + 1 + 1 = f2 + (f1 + k + 2) := by omega
    rw [e5]; exact hf2 _

@[simp] theorem oof_filterId (a : Aux) (n : String) : (a.filterId n).2.oof = a.oof := rfl
@[simp] theorem oof_testId (a : Aux) (n : String) : (a.testId n).2.oof = a.oof := rfl
@[simp] theorem oof_markOof (a : Aux) : a.markOof.oof = true := rfl

mutual
theorem relExpr_oof_mono : ∀ (e : Expr) (b : Nat) (a : Aux), a.oof = true → (relExpr e b a).2.oof = true
  | .const l, b, a, h => by unfold relExpr; simp [asConst, h]
  | .var x, b, a, h => by unfold relExpr; simp [asConst, h]
  | .unop .not x, b, a, h => by
    unfold relExpr; cases asConst (.unop .not x) <;> simp [h, relExpr_oof_mono x b a h]
  | .unop .neg x, b, a, h => by
    unfold relExpr; cases asConst (.unop .neg x) <;> simp [h, relExpr_oof_mono x b a h]
  | .binop op l r, b, a, h => by
    unfold relExpr
    cases asConst (.binop op l r) with
    | val v => simp [h]
    | oof => simp
    | no =>
      have hl := relExpr_oof_mono l b a h
      cases op <;> simp only <;> exact relExpr_oof_mono r _ _ hl
  | .cmp x ops, b, a, h => by
    unfold relExpr
    cases asConst (.cmp x ops) with
    | val v => simp [h]
    | oof => simp
    | no => simp only; exact relChain_oof_mono ops _ _ _ (relExpr_oof_mono x b a h)
  | .ife c t none, b, a, h => by
    unfold relExpr
    cases asConst (.ife c t none) with
    | val v => simp [h]
    | oof => simp
    | no => simp only; exact relExpr_oof_mono t _ _ (relExpr_oof_mono c b a h)
  | .ife c t (some f), b, a, h => by
    unfold relExpr
    cases asConst (.ife c t (some f)) with
    | val v => simp [h]
    | oof => simp
    | no => simp only; exact relExpr_oof_mono f _ _ (relExpr_oof_mono t _ _ (relExpr_oof_mono c b a h))
  | .filter name x args, b, a, h => by
    unfold relExpr
    cases asConst (.filter name x args) with
    | val v => simp [h]
    | oof => simp
    | no => simp only [oof_filterId]; exact relArgs_oof_mono args _ _ (relExpr_oof_mono x b a h)
  | .test name x args, b, a, h => by
    unfold relExpr
    cases asConst (.test name x args) with
    | val v => simp [h]
    | oof => simp
    | no => simp only [oof_testId]; exact relArgs_oof_mono args _ _ (relExpr_oof_mono x b a h)
  | .getattr x name, b, a, h => by
    unfold relExpr; cases asConst (.getattr x name) <;> simp [h, relExpr_oof_mono x b a h]
  | .getitem x i, b, a, h => by
    unfold relExpr
    cases asConst (.getitem x i) with
    | val v => simp [h]
    | oof => simp
    | no => simp only; exact relExpr_oof_mono i _ _ (relExpr_oof_mono x b a h)
  | .call f args, b, a, h => by
    cases f with
    | var x =>
      unfold relExpr
      simp only [asConst]
      have hp := relPosArgs_oof_mono args b a h
      cases kwArgs args with
      | nil => simpa using hp
      | cons k0 ks =>
        simp only
        cases staticKwargs (k0 :: ks) with
        | some m => simpa using hp
        | none => simp only; exact relKwArgs_oof_mono args _ _ hp
    | _ => unfold relExpr; simp [asConst]
  | .list items, b, a, h => by
    unfold relExpr; cases asConst (.list items) <;> simp [h, relList_oof_mono items b a h]
  | .map kvs, b, a, h => by
    unfold relExpr; cases asConst (.map kvs) <;> simp [h, relPairs_oof_mono kvs b a h]
theorem relChain_oof_mono : ∀ (ops : List (CmpOp × Expr)) (b : Nat) (a : Aux) (cs : Nat), a.oof = true →
    (relChain ops b a cs).2.oof = true
  | [], b, a, cs, h => by simp [relChain, h]
  | [(op, e)], b, a, cs, h => by simp [relChain, relExpr_oof_mono e b a h]
  | (op, e) :: o2 :: rest, b, a, cs, h => by
    simp only [relChain]; exact relChain_oof_mono (o2 :: rest) _ _ _ (relExpr_oof_mono e b a h)
theorem relArgs_oof_mono : ∀ (args : List (Option String × Expr)) (b : Nat) (a : Aux), a.oof = true →
    (relArgs args b a).2.oof = true
  | [], b, a, h => by simp [relArgs, h]
  | (none, e) :: rest, b, a, h => by
    simp only [relArgs]; exact relArgs_oof_mono rest _ _ (relExpr_oof_mono e b a h)
  | (some _, _) :: _, b, a, h => by simp [relArgs]
theorem relPosArgs_oof_mono : ∀ (args : List (Option String × Expr)) (b : Nat) (a : Aux), a.oof = true →
    (relPosArgs args b a).2.oof = true
  | [], b, a, h => by simp [relPosArgs, h]
  | (none, e) :: rest, b, a, h => by
    simp only [relPosArgs]; exact relPosArgs_oof_mono rest _ _ (relExpr_oof_mono e b a h)
  | (some _, _) :: rest, b, a, h => by simp only [relPosArgs]; exact relPosArgs_oof_mono rest b a h
theorem relKwArgs_oof_mono : ∀ (args : List (Option String × Expr)) (b : Nat) (a : Aux), a.oof = true →
    (relKwArgs args b a).2.oof = true
  | [], b, a, h => by simp [relKwArgs, h]
  | (none, _) :: rest, b, a, h => by simp only [relKwArgs]; exact relKwArgs_oof_mono rest b a h
  | (some _, e) :: rest, b, a, h => by
    simp only [relKwArgs]; exact relKwArgs_oof_mono rest _ _ (relExpr_oof_mono e _ a h)
theorem relList_oof_mono : ∀ (es : List Expr) (b : Nat) (a : Aux), a.oof = true →
    (relList es b a).2.oof = true
  | [], b, a, h => by simp [relList, h]
  | e :: rest, b, a, h => by
    simp only [relList]; exact relList_oof_mono rest _ _ (relExpr_oof_mono e b a h)
theorem relPairs_oof_mono : ∀ (kvs : List (Expr × Expr)) (b : Nat) (a : Aux), a.oof = true →
    (relPairs kvs b a).2.oof = true
  | [], b, a, h => by simp [relPairs, h]
  | (k, v) :: rest, b, a, h => by
    simp only [relPairs]
    exact relPairs_oof_mono rest _ _ (relExpr_oof_mono v _ _ (relExpr_oof_mono k b a h))
end

/-- contrapositive: if the result is inside the fragment, so was the start -/
theorem oof_false_of_relExpr {e b a} (h : (relExpr e b a).2.oof = false) : a.oof = false := by
  cases ha : a.oof with
  | false => rfl
  | true => rw [relExpr_oof_mono e b a ha] at h; cases h


theorem relExpr_val {e w} (hc : asConst e = .val w) (base a) : relExpr e base a = ([.loadConst w], a) := by
  unfold relExpr; simp [hc]

theorem relExpr_oof {e} (hc : asConst e = .oof) (base a) : relExpr e base a = ([], a.markOof) := by
  unfold relExpr; simp [hc]

theorem rel_var {x} (base a) : relExpr (.var x) base a = ([.lookup x], a) := by
  conv => lhs; unfold relExpr
  simp [asConst]
theorem rel_not {x} (hc : asConst (.unop .not x) = .no) (base a) :
    relExpr (.unop .not x) base a = ((relExpr x base a).1 ++ [.not], (relExpr x base a).2) := by
  conv => lhs; unfold relExpr
  simp [hc]
theorem rel_neg {x} (hc : asConst (.unop .neg x) = .no) (base a) :
    relExpr (.unop .neg x) base a = ((relExpr x base a).1 ++ [.neg], (relExpr x base a).2) := by
  conv => lhs; unfold relExpr
  simp [hc]
theorem rel_and {l r} (hc : asConst (.binop .and l r) = .no) (base a) :
    relExpr (.binop .and l r) base a =
      ((relExpr l base a).1 ++ [.jumpIfFalseOrPop (base + (relExpr l base a).1.length + 1 +
          (relExpr r (base + (relExpr l base a).1.length + 1) (relExpr l base a).2).1.length)] ++
        (relExpr r (base + (relExpr l base a).1.length + 1) (relExpr l base a).2).1,
       (relExpr r (base + (relExpr l base a).1.length + 1) (relExpr l base a).2).2) := by
  conv => lhs; unfold relExpr
  simp [hc]
theorem rel_or {l r} (hc : asConst (.binop .or l r) = .no) (base a) :
    relExpr (.binop .or l r) base a =
      ((relExpr l base a).1 ++ [.jumpIfTrueOrPop (base + (relExpr l base a).1.length + 1 +
          (relExpr r (base + (relExpr l base a).1.length + 1) (relExpr l base a).2).1.length)] ++
        (relExpr r (base + (relExpr l base a).1.length + 1) (relExpr l base a).2).1,
       (relExpr r (base + (relExpr l base a).1.length + 1) (relExpr l base a).2).2) := by
  conv => lhs; unfold relExpr
  simp [hc]
theorem rel_binop {op l r} (hc : asConst (.binop op l r) = .no) (h1 : op ≠ .and) (h2 : op ≠ .or) (base a) :
    relExpr (.binop op l r) base a =
      ((relExpr l base a).1 ++ (relExpr r (base + (relExpr l base a).1.length) (relExpr l base a).2).1 ++ [binInstr op],
       (relExpr r (base + (relExpr l base a).1.length) (relExpr l base a).2).2) := by
  conv => lhs; unfold relExpr
  cases op <;> simp [hc] at h1 h2 ⊢
theorem rel_getattr {x name} (base a) :
    relExpr (.getattr x name) base a = ((relExpr x base a).1 ++ [.getAttr name], (relExpr x base a).2) := by
  conv => lhs; unfold relExpr
  simp [asConst]
theorem rel_getitem {x i} (base a) :
    relExpr (.getitem x i) base a =
      ((relExpr x base a).1 ++ (relExpr i (base + (relExpr x base a).1.length) (relExpr x base a).2).1 ++ [.getItem],
       (relExpr i (base + (relExpr x base a).1.length) (relExpr x base a).2).2) := by
  conv => lhs; unfold relExpr
  simp [asConst]
theorem rel_ife_none {c t} (base a) :
    relExpr (.ife c t none) base a =
      ((relExpr c base a).1 ++ [.jumpIfFalse (base + (relExpr c base a).1.length + 1 +
            (relExpr t (base + (relExpr c base a).1.length + 1) (relExpr c base a).2).1.length + 1)] ++
          (relExpr t (base + (relExpr c base a).1.length + 1) (relExpr c base a).2).1 ++
          [.jump (base + (relExpr c base a).1.length + 1 +
            (relExpr t (base + (relExpr c base a).1.length + 1) (relExpr c base a).2).1.length + 1 + 1)] ++
          [.loadConst .undef],
       (relExpr t (base + (relExpr c base a).1.length + 1) (relExpr c base a).2).2) := by
  conv => lhs; unfold relExpr
  simp [asConst]
theorem rel_ife_some {c t f} (base a) :
    relExpr (.ife c t (some f)) base a =
      (let rc := relExpr c base a
       let rt := relExpr t (base + rc.1.length + 1) rc.2
       let fb := base + rc.1.length + 1 + rt.1.length + 1
       let rf := relExpr f fb rt.2
       (rc.1 ++ [.jumpIfFalse fb] ++ rt.1 ++ [.jump (fb + rf.1.length)] ++ rf.1, rf.2)) := by
  conv => lhs; unfold relExpr
  simp [asConst]

end MJ.Vm
