import MJ.Proofs.SliceLemmas
/-! Backward slicing: `range_step_backwards` computes exactly Python's index list and never panics. -/
namespace MJ.Slice
open MJ Chk

theorem asI64_of_lt (n : Nat) (h : n < 9223372036854775808) : asI64 n = (n : Int) := by
  unfold asI64
  have : ((n : Int) % 18446744073709551616) = n := Int.emod_eq_of_lt (by omega) (by omega)
  simp only [this]
  split <;> omega

theorem asUsize_of_nonneg (x : Int) (h0 : 0 ≤ x) (h1 : x < 18446744073709551616) : asUsize x = x.toNat := by
  unfold asUsize
  rw [Int.emod_eq_of_lt h0 h1]

theorem i64_ok (x : Int) (h0 : -(9223372036854775808 : Int) ≤ x) (h1 : x < 9223372036854775808) : i64 x = .ok x := by
  unfold i64; rw [if_pos ⟨h0, h1⟩]

theorem usize_ok (x : Int) (h0 : 0 ≤ x) (h1 : x < 18446744073709551616) : usize x = .ok x.toNat := by
  unfold usize; rw [if_pos ⟨h0, h1⟩]

abbrev pyClampNeg := PySlice.clampNeg

theorem clampBack_ok (L : Int) (b : Option Int) (d : Int) (hb : OptInI64 b) (hL0 : 0 ≤ L) (hL : L < 9223372036854775808) :
    clampBack L (L - 1) b d = .ok (pyClampNeg L b d) := by
  unfold clampBack pyClampNeg PySlice.clampNeg
  cases b with
  | none => rfl
  | some s =>
    simp only [OptInI64, InI64] at hb
    by_cases h : s < 0
    · simp only [h, if_true]
      rw [i64_ok (L + s) (by omega) (by omega)]
      simp only [ok_bind, pure_eq, Int.add_comm]
    · simp only [h, if_false, pure_eq]

theorem pyClampNeg_bounds (L : Int) (b : Option Int) (d : Int) (hd : -1 ≤ d ∧ d ≤ L - 1) (hL0 : 0 ≤ L) :
    -1 ≤ pyClampNeg L b d ∧ pyClampNeg L b d ≤ L - 1 := by
  unfold pyClampNeg PySlice.clampNeg
  cases b with
  | none => exact hd
  | some s => simp only; split <;> omega

theorem div_int_nat (m k : Nat) : ((m : Int) / (k : Int)) = ((m / k : Nat) : Int) := by
  exact (Int.natCast_ediv m k).symm

theorem backLen_ok (st sp : Int) (k : Nat) (hk : 0 < k) (h1 : -1 ≤ sp) (h2 : st < 9223372036854775808 - 1) :
    backLen st sp k = .ok (if sp < st then ((st - sp - 1) / (k : Int) + 1).toNat else 0) := by
  unfold backLen
  by_cases h : st > sp
  · have h' : sp < st := h
    simp only [h, if_true]
    rw [i64_ok (st - sp) (by omega) (by omega)]
    simp only [ok_bind]
    rw [i64_ok (st - sp - 1) (by omega) (by omega)]
    simp only [ok_bind]
    obtain ⟨m, hm⟩ : ∃ m : Nat, st - sp - 1 = (m : Int) := ⟨(st - sp - 1).toNat, by omega⟩
    rw [hm, asUsize_of_nonneg _ (by omega) (by omega)]
    unfold udiv
    rw [if_neg (by omega)]
    rw [ok_bind]
    simp only [Int.toNat_natCast]
    have hq : m / k ≤ m := Nat.div_le_self _ _
    rw [div_int_nat]
    generalize m / k = q at hq ⊢
    rw [usize_ok _ (by omega) (by omega)]
  · have h' : ¬ sp < st := h
    simp only [h, if_false]; rfl

end MJ.Slice

namespace MJ.Slice
open MJ Chk

theorem adjust_neg (len : Nat) (start stop : Option Int) (k : Nat) (hk : 0 < k) :
    PySlice.adjust len start stop (-(k : Int)) =
      (pyClampNeg len start ((len : Int) - 1),
        if pyClampNeg len stop (-1) < pyClampNeg len start ((len : Int) - 1) then
          ((pyClampNeg len start ((len : Int) - 1) - pyClampNeg len stop (-1) - 1) / (k : Int) + 1).toNat
        else 0) := by
  unfold PySlice.adjust
  have : ¬ (-(k : Int) > 0) := by omega
  simp only [this, if_false, Int.neg_neg]

theorem lt_div_succ_iff (j m k : Nat) (hk : 0 < k) : j < m / k + 1 ↔ j * k ≤ m := by
  rw [Nat.lt_succ_iff, Nat.le_div_iff_mul_le hk]

theorem rangeStepBackwards_eq (start stop : Option Int) (k len : Nat)
    (hs : OptInI64 start) (he : OptInI64 stop) (hk : 0 < k) (hl : len < 9223372036854775808) :
    rangeStepBackwards start stop k len = .ok (PySlice.indices len start stop (-(k : Int))) ∧
    ∀ i ∈ PySlice.indices len start stop (-(k : Int)), i < len := by
  have hL0 : (0 : Int) ≤ (len : Int) := Int.natCast_nonneg _
  have hL : (len : Int) < 9223372036854775808 := by omega
  obtain ⟨hst1, hst2⟩ := pyClampNeg_bounds len start ((len : Int) - 1) (by omega) hL0
  obtain ⟨hsp1, hsp2⟩ := pyClampNeg_bounds len stop (-1) (by omega) hL0
  unfold PySlice.indices
  rw [adjust_neg len start stop k hk]
  generalize hst : pyClampNeg len start ((len : Int) - 1) = st at *
  generalize hsp : pyClampNeg len stop (-1) = sp at *
  -- facts about the selected positions
  have key : ∀ j : Nat, j < (if sp < st then ((st - sp - 1) / (k : Int) + 1).toNat else 0) →
      sp < st ∧ (j : Int) * k ≤ st - sp - 1 := by
    intro j hj
    by_cases h : sp < st
    · refine ⟨h, ?_⟩
      rw [if_pos h] at hj
      obtain ⟨m, hm⟩ : ∃ m : Nat, st - sp - 1 = (m : Int) := ⟨(st - sp - 1).toNat, by omega⟩
      rw [hm, div_int_nat] at hj
      have : j < m / k + 1 := by omega
      rw [lt_div_succ_iff j m k hk] at this
      rw [hm]; exact_mod_cast this
    · rw [if_neg h] at hj; omega
  constructor
  · unfold rangeStepBackwards
    rw [asI64_of_lt len hl]
    simp only []
    rw [i64_ok ((len : Int) - 1) (by omega) (by omega), ok_bind,
      clampBack_ok len start _ hs hL0 hL, ok_bind, clampBack_ok len stop _ he hL0 hL, ok_bind,
      hst, hsp, backLen_ok st sp k hk hsp1 (by omega), ok_bind]
    apply mapM_ok
    intro j hj
    rw [List.mem_range] at hj
    obtain ⟨h1, h2⟩ := key j hj
    have hp : (j : Int) * (k : Int) = ((j * k : Nat) : Int) := (Int.natCast_mul j k).symm
    rw [hp] at h2
    rw [Int.mul_neg, hp]
    generalize j * k = p at h2 ⊢
    rw [usize_ok _ (by omega) (by omega), ok_bind, asUsize_of_nonneg st (by omega) (by omega)]
    rw [usize_ok _ (by omega) (by omega)]
    congr 1
    omega
  · intro i hi
    rw [List.mem_map] at hi
    obtain ⟨j, hj, rfl⟩ := hi
    rw [List.mem_range] at hj
    obtain ⟨h1, h2⟩ := key j hj
    have hp : (j : Int) * (k : Int) = ((j * k : Nat) : Int) := (Int.natCast_mul j k).symm
    rw [hp] at h2
    rw [Int.mul_neg, hp]
    generalize j * k = p at h2 ⊢
    omega

end MJ.Slice
