import MJ.Model.Hidden
/-! Lemmas about the small models of `MJ/Model/Hidden.lean` (C15): once-cells, buffer pools, the
value-handle registry. -/
namespace MJ.Hidden

/-! ## once-cells -/

theorem Once.reads_eq_init {α : Type} (init : Unit → α) (n : Nat) (o : Once α)
    (h : o.cell = none ∨ o.cell = some (init ())) : ∀ v ∈ o.reads init n, v = init () := by
  induction n generalizing o with
  | zero => intro v hv; simp [Once.reads] at hv
  | succ n ih =>
    intro v hv
    simp only [Once.reads, List.mem_cons] at hv
    rcases h with h | h
    · have e1 : (o.getOrInit init).2 = init () := by simp [Once.getOrInit, h]
      have e2 : (o.getOrInit init).1.cell = some (init ()) := by simp [Once.getOrInit, h]
      rcases hv with hv | hv
      · rw [hv, e1]
      · exact ih _ (Or.inr e2) v hv
    · have e1 : (o.getOrInit init).2 = init () := by simp [Once.getOrInit, h]
      have e2 : (o.getOrInit init).1.cell = some (init ()) := by simp [Once.getOrInit, h]
      rcases hv with hv | hv
      · rw [hv, e1]
      · exact ih _ (Or.inr e2) v hv

/-! ## pools -/

def Pool.Clean {α : Type} (rc : Bool) (p : Pool α) : Prop :=
  (rc = true → ∀ b ∈ p.free, b = []) ∧ ∀ b ∈ p.handedOut, b = []

theorem Pool.step_clean {α : Type} (tc rc : Bool) (h : (tc || rc) = true) (p : Pool α) (e : PoolEv α)
    (hp : p.Clean rc) : (p.step tc rc e).Clean rc := by
  obtain ⟨hf, ho⟩ := hp
  cases e with
  | take =>
    refine ⟨fun hr b hb => hf hr b (List.mem_of_mem_drop hb), ?_⟩
    intro b hb
    simp only [Pool.step, List.mem_cons] at hb
    rcases hb with hb | hb
    · subst hb
      cases tc with
      | true => rfl
      | false =>
        have hr : rc = true := by simpa using h
        simp only [Bool.false_eq_true, if_false]
        cases hfree : p.free with
        | nil => rfl
        | cons x xs => exact hf hr x (by rw [hfree]; simp)
    · exact ho b hb
  | push i x => exact ⟨hf, ho⟩
  | pop i => exact ⟨hf, ho⟩
  | recycle i =>
    simp only [Pool.step]
    cases hl : p.live[i]? with
    | none => exact ⟨hf, ho⟩
    | some b =>
      refine ⟨fun hr c hc => ?_, ho⟩
      simp only [List.mem_cons] at hc
      rcases hc with hc | hc
      · rw [hc]; simp [hr]
      · exact hf hr c hc
  | recycleFull i => exact ⟨hf, ho⟩
  | drop i => exact ⟨hf, ho⟩

theorem Pool.run_clean {α : Type} (tc rc : Bool) (h : (tc || rc) = true) (evs : List (PoolEv α))
    (p : Pool α) (hp : p.Clean rc) : (p.run tc rc evs).Clean rc := by
  induction evs generalizing p with
  | nil => exact hp
  | cons e es ih => exact ih _ (Pool.step_clean tc rc h p e hp)

theorem Pool.empty_clean {α : Type} (rc : Bool) : (Pool.empty : Pool α).Clean rc :=
  ⟨fun _ b hb => by simp [Pool.empty] at hb, fun b hb => by simp [Pool.empty] at hb⟩

/-! ## the value-handle registry -/

theorem ofind_odel_self (l : List (Nat × Nat)) (h : Nat) : ofind (odel l h) h = none := by
  induction l with
  | nil => rfl
  | cons p t ih =>
    by_cases e : p.1 = h
    · simp [odel, List.filter, e] at *; exact ih
    · simp only [odel, List.filter]
      have : (p.1 != h) = true := by simp [e]
      rw [this]
      simp only [ofind]
      rw [if_neg e]
      exact ih

theorem ofind_odel_other (l : List (Nat × Nat)) (h k : Nat) (hk : k ≠ h) :
    ofind (odel l h) k = ofind l k := by
  induction l with
  | nil => rfl
  | cons p t ih =>
    by_cases e : p.1 = h
    · have : (p.1 != h) = false := by simp [e]
      simp only [odel, List.filter, this]
      have pk : p.1 ≠ k := by rw [e]; exact fun x => hk x.symm
      rw [show ofind (p :: t) k = ofind t k by cases p; simp only [ofind]; rw [if_neg pk]]
      exact ih
    · have : (p.1 != h) = true := by simp [e]
      simp only [odel, List.filter, this]
      cases p with
      | mk a b =>
        simp only [ofind]
        by_cases ak : a = k
        · simp [ak]
        · simp [ak]; exact ih

theorem ofind_oins (l : List (Nat × Nat)) (h v k : Nat) :
    ofind (oins l h v) k = if k = h then some v else ofind l k := by
  by_cases e : k = h
  · subst e; simp [oins, ofind]
  · simp only [oins, ofind]
    rw [if_neg (fun x => e x.symm), if_neg e]
    exact ofind_odel_other l h k e

theorem HandleReg.lookup_insert (r : HandleReg) (h v k : Nat) :
    (r.insert h v).lookup k = if k = h then some v else r.lookup k := by
  unfold HandleReg.insert
  by_cases c : (r.single.isNone && r.overflow.isEmpty) = true
  · rw [if_pos c]
    simp only [Bool.and_eq_true, Option.isNone_iff_eq_none, List.isEmpty_iff] at c
    obtain ⟨c1, c2⟩ := c
    simp only [HandleReg.lookup, c1, c2, ofind]
    by_cases e : k = h
    · simp [e]
    · have e' : ¬ h = k := fun x => e x.symm
      simp [e, e']
  · rw [if_neg c]
    cases hs : r.single with
    | none =>
      simp only [HandleReg.lookup, hs]
      exact ofind_oins _ _ _ _
    | some p =>
      cases p with
      | mk oh ov =>
        simp only [HandleReg.lookup, hs]
        rw [ofind_oins, ofind_oins]
        by_cases e : k = h
        · simp [e]
        · simp only [if_neg e]
          by_cases e2 : k = oh
          · simp [e2]
          · have e2' : ¬ oh = k := fun x => e2 x.symm
            simp [e2, e2']

theorem HandleReg.insert_inv (r : HandleReg) (h v : Nat) (_hr : r.Inv) : (r.insert h v).Inv := by
  unfold HandleReg.insert
  by_cases c : (r.single.isNone && r.overflow.isEmpty) = true
  · rw [if_pos c]
    simp only [Bool.and_eq_true, List.isEmpty_iff] at c
    intro _
    exact c.2
  · rw [if_neg c]
    cases hs : r.single with
    | none => intro hh; simp at hh
    | some p => cases p; intro hh; simp at hh

theorem HandleReg.remove_result (r : HandleReg) (h : Nat) (_hr : r.Inv) :
    (r.remove true h).2 = r.lookup h := by
  unfold HandleReg.remove HandleReg.lookup
  cases hs : r.single with
  | none => rfl
  | some p =>
    cases p with
    | mk sh sv =>
      by_cases e : sh = h
      · simp [e]
      · simp [e]

theorem HandleReg.remove_lookup (r : HandleReg) (h k : Nat) (hr : r.Inv) :
    (r.remove true h).1.lookup k = if k = h then none else r.lookup k := by
  unfold HandleReg.remove
  cases hs : r.single with
  | none =>
    simp only [HandleReg.lookup, hs]
    by_cases e : k = h
    · subst e; simp [ofind_odel_self]
    · simp [e, ofind_odel_other _ _ _ e]
  | some p =>
    cases p with
    | mk sh sv =>
      have ho : r.overflow = [] := hr (by simp [hs])
      by_cases e : sh = h
      · simp only [e, Bool.not_true, Bool.false_or, decide_true, if_true, HandleReg.lookup, ho, ofind, hs]
        by_cases e2 : k = h
        · simp [e2]
        · have e2' : ¬ h = k := fun x => e2 x.symm
          simp [e2, e2']
      · simp only [Bool.not_true, Bool.false_or, e, decide_false, Bool.false_eq_true, if_false,
          HandleReg.lookup, hs, ho, odel, List.filter, ofind]
        by_cases e2 : k = h
        · subst e2; simp [e]
        · simp [e2]

theorem HandleReg.remove_inv (r : HandleReg) (h : Nat) (hr : r.Inv) : (r.remove true h).1.Inv := by
  unfold HandleReg.remove
  cases hs : r.single with
  | none => intro hh; simp at hh
  | some p =>
    cases p with
    | mk sh sv =>
      have ho : r.overflow = [] := hr (by simp [hs])
      by_cases e : sh = h
      · simp only [e, Bool.not_true, Bool.false_or, decide_true, if_true]
        intro hh; simp at hh
      · simp only [Bool.not_true, Bool.false_or, e, decide_false, Bool.false_eq_true, if_false]
        intro _
        simp [ho, odel]

/-- under the invariant the single slot holds the ONLY entry: taking it whenever it is occupied is
    the same as comparing its handle, provided the requested handle is in the registry at all -/
theorem HandleReg.lifo_agrees_when_present (r : HandleReg) (h : Nat) (hr : r.Inv)
    (hp : r.lookup h ≠ none) : r.remove false h = r.remove true h := by
  unfold HandleReg.remove
  cases hs : r.single with
  | none => rfl
  | some p =>
    cases p with
    | mk sh sv =>
      have ho : r.overflow = [] := hr (by simp [hs])
      by_cases e : sh = h
      · simp [e]
      · exfalso
        apply hp
        simp [HandleReg.lookup, hs, e, ho, ofind]

end MJ.Hidden
