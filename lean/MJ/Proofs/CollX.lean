import MJ.Model.CollX
import MJ.Proofs.CollV
import MJ.Proofs.Num
/-!
# Lemmas for the builtins of `MJ.CollX`
-/
namespace MJ.CollX
open MJ MJ.Val MJ.Cmp MJ.Coll MJ.CollV MJ.CmpKey MJ.CmpNum MJ.CmpEq Std

/-! ## paths -/

/-- a path of one name is the single-attribute lookup the older theorems speak about -/
theorem pathOr_single_name (m : Mode) (s : List Nat) (d x : V) :
    pathOr m [.name s] d x = attrOr m s d x := by
  cases x <;> simp [pathOr, getPath, getAttr, attrOr]
  case map ps =>
    cases h : getByStr m ps s with
    | none => simp
    | some v => cases v <;> simp

theorem cmpV_seq_cons (x y : V) (xs ys : List V) :
    cmpV (.seq (x :: xs)) (.seq (y :: ys)) = (cmpV x y).then (cmpV (.seq xs) (.seq ys)) := by
  have r : ∀ zs ws : List V, cmpV (.seq zs) (.seq ws) = cmpL zs ws := by
    intro zs ws
    have hr : ¬ ((V.seq zs).rank ≠ (V.seq ws).rank) := fun h => h rfl
    rw [cmpV, if_neg hr]
  rw [r, r, cmpL]

theorem cmpV_seq_nil : cmpV (.seq []) (.seq []) = .eq := by
  have hr : ¬ ((V.seq []).rank ≠ (V.seq []).rank) := fun h => h rfl
  rw [cmpV, if_neg hr, cmpL]

/-- `cmp_helper` never folds case inside a composite key -/
theorem cmpCore_seq (cs : Bool) (xs ys : List V) : cmpCore cs (.seq xs) (.seq ys) = cmpV (.seq xs) (.seq ys) := by
  cases cs <;> simp [cmpCore]

/-! ## unique / groupby for an arbitrary key function -/

theorem inRange_memoKey (lower : List Nat → List Nat) (cs : Bool) (kf : V → V) {x : V}
    (h : CollV.InRange (kf x)) : CollV.InRange (memoKey lower cs kf x) := by
  unfold memoKey
  cases hk : kf x <;> rw [hk] at h <;> simp only <;> try exact h
  split <;> simp [AllNum]

theorem uniqueKV_spec (lower : List Nat → List Nat) (cs : Bool) (kf : V → V) (xs : List V)
    (h : ∀ x ∈ xs, CollV.InRange (kf x)) :
    (uniqueLoop cmpV (memoKey lower cs kf) xs []).Sublist xs ∧
    (uniqueLoop cmpV (memoKey lower cs kf) xs []).Pairwise
      (fun a b => cmpV (memoKey lower cs kf a) (memoKey lower cs kf b) ≠ .eq) ∧
    (∀ x ∈ xs, ∃ y ∈ uniqueLoop cmpV (memoKey lower cs kf) xs [],
      cmpV (memoKey lower cs kf y) (memoKey lower cs kf x) = .eq) ∧
    (∀ pre x post, xs = pre ++ x :: post →
      (∀ p ∈ pre, cmpV (memoKey lower cs kf p) (memoKey lower cs kf x) ≠ .eq) →
      x ∈ uniqueLoop cmpV (memoKey lower cs kf) xs []) := by
  refine ⟨uniqueLoop_sublist _ _ xs [], (uniqueLoop_nodup _ _ xs []).2, ?_, ?_⟩
  · intro x hx
    have hrefl : ∀ x ∈ xs, cmpV (memoKey lower cs kf x) (memoKey lower cs kf x) = .eq := by
      intro x hx
      have := inRange_memoKey lower cs kf (h x hx)
      rw [cmpV_eq_cmpK numSpec_wf _ _ this this]; exact ReflCmp.compare_self
    rcases uniqueLoop_covers' cmpV _ xs [] hrefl x hx with ⟨s, hs, _⟩ | hh
    · simp at hs
    · exact hh
  · intro pre x post hxs hpre
    subst hxs
    exact uniqueLoop_keeps_first _ _ pre post x [] (by simp) hpre

theorem groupbyKV_spec (cs : Bool) (kf : V → V) (xs : List V) (h : ∀ x ∈ xs, CollV.InRange (kf x)) :
    let S := xs.mergeSort (fun a b => cmpHelper cs false (kf a) (kf b) != .gt)
    let G := groupLoop (cmpHelper cs false) kf S Option.none []
    G.flatMap (·.2) = S ∧ S.Perm xs ∧
    (∀ p ∈ G, p.2 ≠ [] ∧ ∀ y ∈ p.2, cmpHelper cs false p.1 (kf y) = .eq) ∧
    G.Pairwise (fun p q => cmpHelper cs false p.1 q.1 = .lt) := by
  intro S G
  have hSperm : S.Perm xs := List.mergeSort_perm _ _
  have hS : ∀ y ∈ S, CollV.InRange (kf y) := fun y hy => h y (hSperm.subset hy)
  have hSeq : S = Coll.sort cmpK (fun x => kk cs (kf x)) false xs := by
    show xs.mergeSort _ = _
    unfold Coll.sort
    apply mergeSort_congr
    intro a ha b hb
    rw [cmpHelper_eq_cmpK cs false (h a ha) (h b hb)]; rfl
  have hmap := groupLoop_map (cmpHelper cs false) cmpK (kk cs) kf (fun v => CollV.InRange v)
    (fun a b ha hb => by rw [cmpHelper_eq_cmpK cs false ha hb]; rfl) S Option.none [] hS (by simp)
  simp only [Option.map_none] at hmap
  have hG : G = groupLoop (cmpHelper cs false) kf S Option.none [] := rfl
  have hflat : G.flatMap (·.2) = S := by
    rw [hG]; simpa using groupLoop_flatten (cmpHelper cs false) kf S Option.none [] (by simp)
  have hgm : ∀ p ∈ G, ∃ y ∈ p.2, p.1 = kf y := by
    rw [hG]; exact groupLoop_grouper_mem _ _ S Option.none [] (by simp)
  have hmemS : ∀ p ∈ G, ∀ y ∈ p.2, y ∈ S := by
    intro p hp y hy
    rw [← hflat]; exact List.mem_flatMap.mpr ⟨p, hp, hy⟩
  have hgr : ∀ p ∈ G, CollV.InRange p.1 := by
    intro p hp
    obtain ⟨y, hy, e⟩ := hgm p hp
    rw [e]; exact hS y (hmemS p hp y hy)
  have hsorted : S.Pairwise (fun a b => cmpK (kk cs (kf a)) (kk cs (kf b)) ≠ .gt) := by
    rw [hSeq]
    have := sort_sorted' cmpK (fun x => kk cs (kf x)) false xs
    simpa [revCmp] using this
  refine ⟨hflat, hSperm, ?_, ?_⟩
  · intro p hp
    have hp' : (kk cs p.1, p.2) ∈ groupLoop cmpK (fun y => kk cs (kf y)) S Option.none [] := by
      rw [← hmap, ← hG]; exact List.mem_map.mpr ⟨p, hp, rfl⟩
    obtain ⟨h1, h2⟩ := groupLoop_members cmpK (fun y => kk cs (kf y)) S Option.none [] ⟨by simp, by simp⟩ _ hp'
    refine ⟨h1, ?_⟩
    intro y hy
    rw [cmpHelper_eq_cmpK cs false (hgr p hp) (hS y (hmemS p hp y hy))]
    exact h2 y hy
  · have hinc := (groupLoop_keys_increasing cmpK (fun y => kk cs (kf y)) S Option.none [] hsorted (by simp)).2
    rw [← hmap, ← hG, List.pairwise_map] at hinc
    rw [List.pairwise_iff_forall_sublist] at hinc ⊢
    intro p q hpq
    have hp : p ∈ G := hpq.subset (by simp)
    have hq : q ∈ G := hpq.subset (by simp)
    rw [cmpHelper_eq_cmpK cs false (hgr p hp) (hgr q hq)]
    exact hinc hpq

/-! ## sum -/

/-- on undefined items and integers `sum` is C08's integer fold over the integers -/
theorem sumFrom_eq (acc : MJ.Num.NumRepr) : ∀ xs : List V, SumOK xs →
    sumFrom acc xs = some (match MJ.Num.sumFrom acc (intItems xs) with
      | .ok r => .ok r
      | .err => .error)
  | [], _ => by simp [sumFrom, intItems, MJ.Num.sumFrom]
  | x :: xs, h => by
    cases x with
    | undef => simpa [sumFrom, intItems, SumOK] using sumFrom_eq acc xs (by simpa [SumOK] using h)
    | num n =>
      simp only [SumOK] at h
      obtain ⟨hn, hrest⟩ := h
      cases hr : toRepr n with
      | none => rw [hr] at hn; cases hn
      | some r =>
        simp only [sumFrom, intItems, hr, List.singleton_append, MJ.Num.sumFrom]
        cases MJ.Num.add acc r with
        | ok a => simpa using sumFrom_eq a xs hrest
        | err => rfl
    | none => simp [SumOK] at h
    | bool _ => simp [SumOK] at h
    | str _ => simp [SumOK] at h
    | bytes _ => simp [SumOK] at h
    | seq _ => simp [SumOK] at h
    | tuple _ => simp [SumOK] at h
    | iter _ => simp [SumOK] at h
    | map _ => simp [SumOK] at h
    | plain _ => simp [SumOK] at h

/-! ## zip -/

theorem zipRounds_le (xss : List (List V)) : ∀ xs ∈ xss, zipRounds xss ≤ xs.length := by
  cases xss with
  | nil => simp
  | cons ys rest =>
    have key : ∀ (rest : List (List V)) (n : Nat),
        rest.foldl (fun n zs => min n zs.length) n ≤ n ∧
        ∀ zs ∈ rest, rest.foldl (fun n zs => min n zs.length) n ≤ zs.length := by
      intro rest
      induction rest with
      | nil => intro n; simp
      | cons z zs ih =>
        intro n
        simp only [List.foldl_cons, List.mem_cons, forall_eq_or_imp]
        obtain ⟨h1, h2⟩ := ih (min n z.length)
        refine ⟨Nat.le_trans h1 (Nat.min_le_left _ _), Nat.le_trans h1 (Nat.min_le_right _ _), h2⟩
    intro xs hx
    simp only [zipRounds]
    rcases List.mem_cons.mp hx with rfl | hx
    · exact (key rest _).1
    · exact (key rest _).2 xs hx

theorem zipRounds_two (xs ys : List V) : zipRounds [xs, ys] = min xs.length ys.length := by
  simp [zipRounds]

theorem zipV_length (xss : List (List V)) : (zipV xss).length = zipRounds xss := by
  simp [zipV]

theorem zipV_getElem (xss : List (List V)) (i : Nat) (h : i < (zipV xss).length) :
    (zipV xss)[i] = xss.map (fun xs => xs.getD i .undef) := by
  simp [zipV]

/-! ## chain -/

theorem chainIdx_eq : ∀ (xss : List (List V)) (i : Nat), chainIdx xss i = (chainSeq xss)[i]?
  | [], i => by simp [chainIdx, chainSeq]
  | xs :: rest, i => by
    simp only [chainIdx, chainSeq, List.flatten_cons]
    split
    · rename_i h
      rw [List.getElem?_append_left h]
    · rename_i h
      rw [List.getElem?_append_right (Nat.le_of_not_lt h)]
      exact chainIdx_eq rest (i - xs.length)

theorem chainLen_known (xss : List (List V)) :
    chainLen (xss.map (fun xs => some xs.length)) = some (chainSeq xss).length := by
  have key : ∀ (xss : List (List V)) (n : Nat),
      (xss.map (fun xs => some xs.length)).foldl addLen (some n) = some (n + xss.flatten.length) := by
    intro xss
    induction xss with
    | nil => intro n; simp
    | cons x xs ih =>
      intro n
      simp only [List.map_cons, List.foldl_cons, List.flatten_cons, List.length_append, addLen]
      rw [ih]; congr 1; omega
  have := key xss 0
  simpa [chainLen, chainSeq] using this

/-! ## items / list -/

theorem pairsOf_itemsV : ∀ ps : List (V × V), pairsOf (itemsV ps) = ps
  | [] => rfl
  | (k, v) :: ps => by simp [itemsV, pairsOf] ; exact pairsOf_itemsV ps

/-- inserting a key that is greater than every key present appends the entry -/
theorem insertB_append_last (k v : V) (hk : CollV.InRange k) : ∀ acc : List (V × V),
    (∀ p ∈ acc, CollV.InRange p.1) → (∀ p ∈ acc, cmpV p.1 k = .lt) → insertB k v acc = acc ++ [(k, v)]
  | [], _, _ => rfl
  | (k', v') :: acc, hr, hl => by
    have hk' : CollV.InRange k' := hr (k', v') List.mem_cons_self
    have hlt : cmpV k' k = .lt := hl (k', v') List.mem_cons_self
    have hgt : cmpV k k' = .gt := by
      rw [cmpV_eq_cmpK numSpec_wf _ _ hk hk']
      rw [cmpV_eq_cmpK numSpec_wf _ _ hk' hk] at hlt
      exact OrientedCmp.gt_of_lt hlt
    have ih := insertB_append_last k v hk acc (fun p hp => hr p (List.mem_cons_of_mem _ hp))
      (fun p hp => hl p (List.mem_cons_of_mem _ hp))
    simp only [insertB, hgt, ih, List.cons_append]

theorem foldl_insertB_of_sorted : ∀ (ps acc : List (V × V)),
    (∀ p ∈ acc ++ ps, CollV.InRange p.1) → KeysSorted (acc ++ ps) →
    ps.foldl (fun acc p => insertB p.1 p.2 acc) acc = acc ++ ps
  | [], acc, _, _ => by simp
  | p :: ps, acc, hr, hs => by
    simp only [List.foldl_cons]
    have hlt : ∀ q ∈ acc, cmpV q.1 p.1 = .lt := by
      intro q hq
      unfold KeysSorted at hs
      rw [List.map_append, List.pairwise_append] at hs
      exact hs.2.2 q.1 (List.mem_map.mpr ⟨q, hq, rfl⟩) p.1 (by simp)
    rw [insertB_append_last p.1 p.2 (hr p (by simp)) acc (fun q hq => hr q (by simp [hq])) hlt]
    have e : acc ++ [(p.1, p.2)] ++ ps = acc ++ p :: ps := by simp
    have := foldl_insertB_of_sorted ps (acc ++ [(p.1, p.2)]) (by rw [e]; exact hr) (by rw [e]; exact hs)
    rw [this, e]

/-- building a `BTreeMap` from pairs that are already in strictly increasing key order gives those pairs -/
theorem mkMap_btree_of_sorted (ps : List (V × V)) (h : ∀ p ∈ ps, CollV.InRange p.1) (hs : KeysSorted ps) :
    mkMap .btree ps = .map ps := by
  have := foldl_insertB_of_sorted ps [] (by simpa using h) (by simpa using hs)
  simp only [mkMap, this, List.nil_append]

/-! ## invalid values -/

theorem cmpOptBytes_eq_iff (x y : Option (List Nat)) : cmpOptBytes x y = .eq ↔ x = y := by
  cases x <;> cases y <;> simp [cmpOptBytes, cmpBytes_eq_iff]

/-- an order-embedding of invalid values into byte strings -/
def keyInv (a : Inv) : List Nat :=
  a.kind :: (match a.detail with
    | Option.none => [0]
    | some s => 1 :: s)

theorem cmpInv_eq_key (a b : Inv) : cmpInv a b = compare (keyInv a) (keyInv b) := by
  obtain ⟨ka, da⟩ := a
  obtain ⟨kb, db⟩ := b
  rw [compare_list_nat]
  simp only [cmpInv, keyInv, cmpBytes, List.compareLex_cons_cons]
  cases h : compare ka kb <;> simp only [Ordering.then]
  cases da <;> cases db <;> simp [cmpOptBytes, cmpBytes, List.compareLex_cons_cons]
  all_goals first | rfl | decide

theorem inv_order (a b c : Inv) :
    cmpInv a a = .eq ∧ cmpInv b a = (cmpInv a b).swap ∧
    (cmpInv a b ≠ .gt → cmpInv b c ≠ .gt → cmpInv a c ≠ .gt) ∧
    (eqInv a b = true ↔ cmpInv a b = .eq) ∧ (eqInv a b = true → hkeyInv a = hkeyInv b) := by
  refine ⟨?_, ?_, ?_, ?_, ?_⟩
  · rw [cmpInv_eq_key]; exact ReflCmp.compare_self
  · rw [cmpInv_eq_key, cmpInv_eq_key]; exact OrientedCmp.eq_swap
  · intro h1 h2
    rw [cmpInv_eq_key] at h1 h2 ⊢
    exact Ordering.ne_gt_iff_isLE.mpr
      (TransCmp.isLE_trans (Ordering.ne_gt_iff_isLE.mp h1) (Ordering.ne_gt_iff_isLE.mp h2))
  · simp only [eqInv, cmpInv, Bool.and_eq_true, beq_iff_eq, Ordering.then_eq_eq, Nat.compare_eq_eq, cmpOptBytes_eq_iff]
  · intro h
    simp only [eqInv, Bool.and_eq_true, beq_iff_eq] at h
    simp [hkeyInv, h.1, h.2]

/-! ## plain objects with identity and `custom_cmp` -/

/-- the ids identify the objects of the list: two entries with the same id are the same object -/
def IdsCoherent (l : List PObj) : Prop := ∀ x ∈ l, ∀ y ∈ l, x.id = y.id → x = y

theorem pobj_spec (a b c : PObj) (hid : IdsCoherent [a, b, c]) :
    (eqPObj a b = true ↔ cmpPObj a b = .eq) ∧
    (a.ty = b.ty → b.ty = c.ty → a.ckey.isSome → b.ckey.isSome → c.ckey.isSome →
      cmpPObj a a = .eq ∧ cmpPObj b a = (cmpPObj a b).swap ∧
      (cmpPObj a b ≠ .gt → cmpPObj b c ≠ .gt → cmpPObj a c ≠ .gt)) := by
  refine ⟨?_, ?_⟩
  · unfold eqPObj cmpPObj
    by_cases h1 : a.id = b.id
    · simp [h1]
    · simp only [h1, if_false]
      by_cases h2 : a.ty = b.ty
      · simp only [h2, if_true]
        cases customCmp a b with
        | none => simp [cmpBytes_eq_iff]
        | some o => simp
      · simp [h2, cmpBytes_eq_iff]
  · intro hab hbc ha hb hc
    -- among objects of one type with keys, `cmp` is `compare` on the keys (same id → same object → same key)
    have key : ∀ x ∈ [a, b, c], ∀ y ∈ [a, b, c], x.ty = y.ty → ∀ kx ky, x.ckey = some kx → y.ckey = some ky →
        cmpPObj x y = compare kx ky := by
      intro x hxm y hym hty kx ky hx hy
      unfold cmpPObj
      by_cases h1 : x.id = y.id
      · have := hid x hxm y hym h1
        subst this
        rw [hx] at hy
        simp only [Option.some.injEq] at hy
        subst hy
        simp
      · simp [h1, hty, customCmp, hx, hy]
    obtain ⟨ka, hka⟩ := Option.isSome_iff_exists.mp ha
    obtain ⟨kb, hkb⟩ := Option.isSome_iff_exists.mp hb
    obtain ⟨kc, hkc⟩ := Option.isSome_iff_exists.mp hc
    rw [key a (by simp) a (by simp) rfl ka ka hka hka, key b (by simp) a (by simp) hab.symm kb ka hkb hka,
      key a (by simp) b (by simp) hab ka kb hka hkb, key b (by simp) c (by simp) hbc kb kc hkb hkc,
      key a (by simp) c (by simp) (hab.trans hbc) ka kc hka hkc]
    refine ⟨ReflCmp.compare_self, OrientedCmp.eq_swap, ?_⟩
    intro h1 h2
    exact Ordering.ne_gt_iff_isLE.mpr
      (TransCmp.isLE_trans (Ordering.ne_gt_iff_isLE.mp h1) (Ordering.ne_gt_iff_isLE.mp h2))

end MJ.CollX
