import MJ.Model.OutputSites
import MJ.Proofs.OutputUser
import MJ.Proofs.OutputProg
/-!
# C19: lemmas about the model with switches (`MJ/Model/OutputSites.lean`)
-/
namespace MJ.Output
open MJ

theorem writeBytesF_ok (w : WriteWrapper) (s : Bytes) : w.writeBytesF true true s = w.writeBytes s := by
  unfold WriteWrapper.writeBytesF WriteWrapper.writeBytes WriteWrapper.writeBytesOk
  cases h : w.err with
  | some e => rfl
  | none =>
    simp only []
    cases (writeAll w.script s).err <;> simp

theorem fmtWriteF_ok : fmtWriteF AdapterFacts.ok = (inferInstance : FmtWrite WriteWrapper) := by
  show fmtWriteF AdapterFacts.ok = ⟨WriteWrapper.writeBytes, WriteWrapper.writeBytes⟩
  unfold fmtWriteF AdapterFacts.ok
  congr 1 <;> funext w s <;> exact writeBytesF_ok w s

theorem finishF_ok (w : WriteWrapper) (r : Chk (Except Err Unit)) : w.finishF ApiFacts.ok r = w.finish r := by
  rcases r with _ | (e | u) <;> rfl

theorem stepSX_eq {B : Type} [FmtWrite B] (prop : Nat → Bool) (x : SXOp) (st : St B) :
    stepSX prop x st = stepX (x.toXWith prop) st := by
  cases x with
  | user u => rfl
  | op i o =>
    cases o with
    | write c =>
      simp only [stepSX, SXOp.toXWith]
      by_cases h : prop i = true
      · simp [h, stepX]
      · simp [h, stepX, UserCode.run]
    | _ => rfl

theorem runSX_eq {B : Type} [FmtWrite B] (prop : Nat → Bool) (xs : List SXOp) (st : St B) :
    runSX prop xs st = runX (xs.map (SXOp.toXWith prop)) st := by
  induction xs generalizing st with
  | nil => rfl
  | cons x xs ih =>
    simp only [runSX, List.map_cons, runX, stepSX_eq]
    rcases stepX (x.toXWith prop) st with ⟨st', halt⟩
    cases halt with
    | none => exact ih st'
    | some y => cases y <;> rfl

theorem toXWith_propagate (prop : Nat → Bool) (xs : List SXOp)
    (h : ∀ i o, SXOp.op i o ∈ xs → prop i = true) :
    xs.map (SXOp.toXWith prop) = xs.map SXOp.toX := by
  apply List.map_congr_left
  intro x hx
  cases x with
  | user u => rfl
  | op i o =>
    cases o with
    | write c => simp [SXOp.toXWith, SXOp.toX, h i _ hx]
    | _ => rfl

/-- with the adapter and the boundary as the model has them, the engine with ANY classification
    of its write sites is a render with user strategies -/
theorem renderToF_eq (F : CodeFacts) (api : Api) (xs : List SXOp) (script : List Beh)
    (ha : F.adapter = AdapterFacts.ok) (hb : F.api api = ApiFacts.ok) :
    renderToF F api xs script = renderToX (xs.map (SXOp.toXWith F.site)) script := by
  unfold renderToF renderToX
  rw [ha, hb, fmtWriteF_ok]
  simp only [runSX_eq, finishF_ok]

theorem renderStringF_eq (F : CodeFacts) (xs : List SXOp) :
    renderStringF F xs = renderStringX (xs.map (SXOp.toXWith F.site)) := by
  unfold renderStringF renderStringX
  simp only [runSX_eq]

/-! ## the evaluation stops at the failing write -/

theorem step_keeps_clean (o : Op) (st : St WriteWrapper) (h : st.out.w.err = none)
    (hn : (step o st).2 = none) : (step o st).1.out.w.err = none := by
  cases o with
  | write c =>
    simp only [step] at hn ⊢
    have := Out.write_err st.out c h
    by_cases hw : (st.out.write c).2 = true
    · exact this.1 hw
    · simp [hw] at hn
  | beginCapture d => simpa [step, Out.beginCapture] using h
  | endCapture =>
    obtain ⟨⟨w, stack⟩, wraps⟩ := st
    cases stack <;> simp_all [step, Out.endCapture]
  | enter x => simpa [step] using h
  | leave => simpa [step] using h
  | fail x => simp [step] at hn
  | panic => simp [step] at hn

theorem step_halt_keeps_unless_write (o : Op) (st : St WriteWrapper) (y : Chk Err)
    (hn : (step o st).2 = some y) (hne : ∀ c, o ≠ .write c) : (step o st).1 = st := by
  cases o with
  | write c => exact absurd rfl (hne c)
  | beginCapture d => simp [step] at hn
  | endCapture =>
    obtain ⟨⟨w, stack⟩, wraps⟩ := st
    cases stack <;> simp_all [step, Out.endCapture]
  | enter x => simp [step] at hn
  | leave => simp [step] at hn
  | fail x => rfl
  | panic => rfl

/-- if the adapter holds an error after `run ops st` (and held none before), the operations split
    into `pre ++ write c :: post` such that `pre` ran through without failure, the write of `c`
    reached the base writer and failed, and the final state and result are those right after that
    write: nothing of `post` was executed -/
theorem run_stops (ops : List Op) (st : St WriteWrapper) (h : st.out.w.err = none) (e : IoErr)
    (he : (run ops st).1.out.w.err = some e) :
    ∃ pre c post, ops = pre ++ .write c :: post ∧
      (run pre st).2 = .ok (.ok ()) ∧ (run pre st).1.out.w.err = none ∧
      (run pre st).1.out.stack = [] ∧
      run ops st = ((step (.write c) (run pre st).1).1,
        .ok (.error (wrapAll (run pre st).1.wraps Err.fromFmt))) := by
  induction ops generalizing st with
  | nil => simp [run, h] at he
  | cons o ops ih =>
    rcases hs : step o st with ⟨st', halt⟩
    cases halt with
    | none =>
      have hc : st'.out.w.err = none := by
        have := step_keeps_clean o st h (by rw [hs])
        rwa [hs] at this
      have hr : run (o :: ops) st = run ops st' := by simp [run, hs]
      rw [hr] at he
      obtain ⟨pre, c, post, hops, h1, h2, h3, h4⟩ := ih st' hc he
      refine ⟨o :: pre, c, post, by rw [hops]; rfl, ?_, ?_, ?_, ?_⟩
      · simpa [run, hs] using h1
      · simpa [run, hs] using h2
      · simpa [run, hs] using h3
      · rw [hr, h4]; simp [run, hs]
    | some y =>
      by_cases hw : ∃ c, o = .write c
      · obtain ⟨c, rfl⟩ := hw
        have hb : (st.out.write c).2 = false := by
          simp only [step] at hs
          by_cases hb : (st.out.write c).2 = true
          · simp [hb] at hs
          · simpa using hb
        refine ⟨[], c, ops, rfl, rfl, h, ?_, ?_⟩
        · by_cases hst : st.out.stack = []
          · simpa [run] using hst
          · have := (Out.write_captured st.out c hst).2.1
            rw [hb] at this; cases this
        · have hy : y = .ok (wrapAll st.wraps Err.fromFmt) := by
            simp only [step, hb] at hs
            injection hs with _ h2
            simpa using h2.symm
          subst hy
          simp [run, hs]
      · exfalso
        have hk := step_halt_keeps_unless_write o st y (by rw [hs]) (fun c hc => hw ⟨c, hc⟩)
        rw [hs] at hk
        simp only at hk
        subst hk
        cases y <;> simp [run, hs, h] at he

/-! ## user code that forwards: the render is an operation sequence -/

theorem runX_strict_append {B : Type} [FmtWrite B] (ops : List Op) (xs : List XOp) (st : St B) :
    runX (ops.map XOp.strict ++ xs) st =
      match run ops st with
      | (st', .ok (.ok ())) => runX xs st'
      | r => r := by
  induction ops generalizing st with
  | nil => simp [run]
  | cons o ops ih =>
    simp only [List.map_cons, List.cons_append, runX, stepX, run]
    rcases step o st with ⟨st', halt⟩
    cases halt with
    | none => exact ih st'
    | some y => cases y <;> rfl

theorem runX_user_forwards {B : Type} [FmtWrite B] (u : UserCode) (h : u.forwards) (xs : List XOp) (st : St B) :
    runX (.user u :: xs) st = runX (u.okOps.map XOp.strict ++ xs) st := by
  induction u generalizing st with
  | ret ok =>
    cases ok
    · simp [UserCode.okOps, runX, stepX, UserCode.run, step]
    · simp [UserCode.okOps, runX, stepX, UserCode.run]
  | write c k ih =>
    obtain ⟨hf, ht⟩ := h
    simp only [UserCode.okOps, List.map_cons, List.cons_append]
    by_cases hw : (st.out.write c).2 = true
    · have hl : runX (.user (.write c k) :: xs) st = runX (.user (k true) :: xs) { st with out := (st.out.write c).1 } := by
        simp [runX, stepX, UserCode.run, hw]
      rw [hl, ih true ht]
      simp [runX, stepX, step, hw]
    · have hw' : (st.out.write c).2 = false := by simpa using hw
      simp [runX, stepX, step, UserCode.run, hw', hf]

theorem runX_flattenX {B : Type} [FmtWrite B] (xs : List XOp) (h : ∀ u, XOp.user u ∈ xs → u.forwards) (st : St B) :
    runX xs st = run (flattenX xs) st := by
  induction xs generalizing st with
  | nil => rfl
  | cons x xs ih =>
    have hx : ∀ u, XOp.user u ∈ xs → u.forwards := fun u hu => h u (List.mem_cons_of_mem _ hu)
    cases x with
    | strict o =>
      simp only [runX, stepX, flattenX, run]
      rcases step o st with ⟨st', halt⟩
      cases halt with
      | none => exact ih hx st'
      | some y => cases y <;> rfl
    | user u =>
      rw [runX_user_forwards u (h u (List.mem_cons_self)) xs st, runX_strict_append, flattenX, run_append]
      rcases run u.okOps st with ⟨st', r⟩
      cases r with
      | panic => rfl
      | ok x =>
        cases x with
        | error e => rfl
        | ok u' => exact ih hx st'

end MJ.Output
