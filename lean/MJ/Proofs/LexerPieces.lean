import MJ.Proofs.LexerBasic
/-! The token texts `scanPieces` records are a partition of what `tokenize_block_or_var` reads: no
character is lost or invented (`tokens_concat_verbatim` in `Props/C10.lean`). -/
namespace MJ.Lexer

/-- `scanPieces` is `scanTag` with bookkeeping: same result -/
theorem scanPieces_snd (e : List Char) (line : Bool) :
    ∀ (s : List Char) (m : Mode) (bal : Int) (cur : List Char),
      (scanPieces e line m bal s cur).2 = scanTag e line m bal s
  | [], m, bal, cur => by simp [scanPieces, scanTag]
  | c :: r, m, bal, cur => by
    rw [scanPieces, scanTag]
    split
    · rfl
    · exact scanPieces_snd e line r _ _ _
    · split
      · exact scanPieces_snd e line _ _ _ _
      · rfl

theorem piecesSrc_append (a b : List Piece) : piecesSrc (a ++ b) = piecesSrc a ++ piecesSrc b := by
  simp [piecesSrc]

theorem piecesSrc_closeCur (cur : List Char) : piecesSrc (closeCur cur) = cur.reverse := by
  unfold closeCur piecesSrc
  cases cur <;> simp [Piece.src]

/-- one step of bookkeeping keeps every character: what was read so far plus the characters of this
    step = the complete pieces plus the token that is being read -/
theorem pieceUpd_src (m : Mode) (c : Char) (r : List Char) (m' : Mode) (two : Bool) (cur : List Char) :
    piecesSrc (pieceUpd m c r m' two cur).1 ++ (pieceUpd m c r m' two cur).2.reverse =
      cur.reverse ++ (if two then c :: r.take 1 else [c]) := by
  unfold pieceUpd
  generalize (if two then c :: r.take 1 else [c]) = cs
  have hc := piecesSrc_closeCur cur
  cases tokCont m c r <;> (simp only []; split)
  all_goals first
    | exact hc
    | (simp only [piecesSrc_append, hc]; split <;> simp [piecesSrc, Piece.src]; done)
    | (simp [piecesSrc, Piece.src]; done)
    | (simp only [hc]; simp; done)

/-- a token that cannot continue is an error (or outside the model), never the end of the tag -/
theorem tokCont_fail {m : Mode} {c : Char} {r : List Char} {res : ScanRes} (h : tokCont m c r = .fail res) :
    res = .error ∨ res = .unsupported := by
  unfold tokCont at h
  repeat' split at h
  all_goals first | (cases h; done) | (cases h; simp)

/-- where `topStep` finds the end of an ordinary tag, the input reads: marker, end delimiter, rest -/
theorem topStep_found {e : List Char} {bal : Int} {c : Char} {r rest : List Char} {ws : Ws}
    (h : topStep e false bal c r = .done (.found rest ws)) : c :: r = ws.src ++ (e ++ rest) := by
  unfold topStep at h
  simp only [Bool.false_and, if_false, Bool.false_eq_true] at h
  split at h
  · cases h
  · split at h
    · rename_i hm
      simp only [Bool.not_false, Bool.true_and, Bool.and_eq_true, beq_iff_eq, Bool.or_eq_true,
        decide_eq_true_eq] at hm
      obtain ⟨⟨_, hc⟩, hsw⟩ := hm
      obtain ⟨x, hx⟩ := (startsWith_iff e r).1 hsw
      simp only [Next.done.injEq, ScanRes.found.injEq] at h
      obtain ⟨h1, h2⟩ := h
      subst h1 h2
      rcases hc with rfl | rfl <;> simp [Ws.src, hx]
    · split at h
      · rename_i hm
        simp only [Bool.not_false, Bool.true_and, Bool.and_eq_true] at hm
        obtain ⟨x, hx⟩ := (startsWith_iff e (c :: r)).1 hm.2
        simp only [Next.done.injEq, ScanRes.found.injEq] at h
        obtain ⟨h1, h2⟩ := h
        subst h1 h2
        simp [Ws.src, hx]
      · unfold dispatch at h
        repeat' split at h
        all_goals first | cases h | (simp at h)

/-- **no character is lost or invented**: behind an ordinary tag's start the lexer's pieces (tokens
    and skipped blanks), concatenated in order, followed by the marker and the end delimiter,
    followed by what it leaves unread, are the input -/
theorem scanPieces_concat (e : List Char) :
    ∀ (s : List Char) (m : Mode) (bal : Int) (cur : List Char) (rest : List Char) (ws : Ws),
      (scanPieces e false m bal s cur).2 = .found rest ws →
      cur.reverse ++ s = piecesSrc (scanPieces e false m bal s cur).1 ++ (ws.src ++ (e ++ rest))
  | [], m, bal, cur, rest, ws => by
    intro h
    simp only [scanPieces, scanEof] at h
    cases m <;> simp at h
    all_goals (split at h <;> cases h)
  | c :: r, m, bal, cur, rest, ws => by
    intro h
    rw [scanPieces] at h ⊢
    split at h
    · -- the tag ends here (or an error): only `topStep` reports `found`
      rename_i res hstep
      simp only [] at h
      subst h
      simp only [piecesSrc_closeCur]
      unfold scanStep at hstep
      split at hstep
      · cases hstep
      · rename_i hf
        simp only [Next.done.injEq] at hstep; subst hstep
        rcases tokCont_fail hf with h | h <;> cases h
      · rw [topStep_found hstep]
    · rename_i m' bal' hstep
      simp only [] at h ⊢
      have ih := scanPieces_concat e r m' bal' _ rest ws h
      have hu := pieceUpd_src m c r m' false cur
      simp only [Bool.false_eq_true, if_false] at hu
      rw [piecesSrc_append, List.append_assoc, ← ih, ← List.append_assoc, hu]
      simp
    · rename_i m' bal' hstep
      split at h
      · rename_i c2 r2
        simp only [] at h ⊢
        have ih := scanPieces_concat e r2 m' bal' _ rest ws h
        have hu := pieceUpd_src m c (c2 :: r2) m' true cur
        simp only [if_true, List.take_succ_cons, List.take_zero] at hu
        rw [piecesSrc_append, List.append_assoc, ← ih, ← List.append_assoc, hu]
        simp
      · cases h

end MJ.Lexer
