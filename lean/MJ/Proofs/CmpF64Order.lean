import MJ.Model.CmpF64
/-!
# Order of float bit patterns

`scaledOfMag` (the exact magnitude times `2^1074`) is strictly monotone in the 63 magnitude bits, so
`cmp_f64` (IEEE `==`, else `total_cmp`) is `compare` on `key`.
-/
namespace MJ.F64

theorem P52_pos : 0 < P52 := by decide

theorem two_pow_le {a b : Nat} (h : a ≤ b) : 2 ^ a ≤ 2 ^ b := Nat.pow_le_pow_right (by omega) h

theorem scaledOfMag_strictMono {m m' : Nat} (h : m < m') : scaledOfMag m < scaledOfMag m' := by
  unfold scaledOfMag
  have hm := Nat.div_add_mod m P52
  have hm' := Nat.div_add_mod m' P52
  have hr : m % P52 < P52 := Nat.mod_lt _ P52_pos
  have hr' : m' % P52 < P52 := Nat.mod_lt _ P52_pos
  generalize m / P52 = e at *
  generalize m' / P52 = e' at *
  generalize m % P52 = f at *
  generalize m' % P52 = f' at *
  have hee : e ≤ e' := by
    apply Nat.le_of_lt_succ
    apply Nat.lt_of_mul_lt_mul_left (a := P52)
    rw [Nat.mul_succ]; omega
  by_cases he : e = e'
  · subst he
    have hf : f < f' := by omega
    by_cases h0 : e = 0
    · simp [h0]; exact hf
    · simp [h0]
      exact Nat.mul_lt_mul_of_pos_right (by omega) (Nat.pow_pos (by omega))
  · have hlt : e < e' := by omega
    have h0' : e' ≠ 0 := by omega
    by_cases h0 : e = 0
    · simp only [h0, if_true, if_neg h0']
      calc f < P52 := hr
        _ ≤ (P52 + f') * 1 := by omega
        _ ≤ (P52 + f') * 2 ^ (e' - 1) := Nat.mul_le_mul_left _ (Nat.pow_pos (by omega))
    · simp only [if_neg h0, if_neg h0']
      have h1 : (P52 + f) * 2 ^ (e - 1) < (P52 + P52) * 2 ^ (e - 1) :=
        Nat.mul_lt_mul_of_pos_right (by omega) (Nat.pow_pos (by omega))
      have h2 : (P52 + P52) * 2 ^ (e - 1) = P52 * 2 ^ e := by
        have : e = (e - 1) + 1 := by omega
        rw [this, Nat.pow_succ]; simp; rw [← Nat.two_mul]
        simp [Nat.mul_assoc, Nat.mul_comm, Nat.mul_left_comm]
      have h3 : P52 * 2 ^ e ≤ P52 * 2 ^ (e' - 1) := Nat.mul_le_mul_left _ (two_pow_le (by omega))
      have h4 : P52 * 2 ^ (e' - 1) ≤ (P52 + f') * 2 ^ (e' - 1) := Nat.mul_le_mul_right _ (by omega)
      omega

theorem scaledOfMag_zero : scaledOfMag 0 = 0 := by decide

theorem scaledOfMag_lt_iff {m m' : Nat} : scaledOfMag m < scaledOfMag m' ↔ m < m' := by
  constructor
  · intro h
    apply Nat.lt_of_not_le
    intro hle
    rcases Nat.lt_or_eq_of_le hle with h' | h'
    · have := scaledOfMag_strictMono h'; omega
    · subst h'; omega
  · exact scaledOfMag_strictMono

theorem scaledOfMag_inj {m m' : Nat} (h : scaledOfMag m = scaledOfMag m') : m = m' := by
  rcases Nat.lt_trichotomy m m' with h' | h' | h'
  · have := scaledOfMag_strictMono h'; omega
  · exact h'
  · have := scaledOfMag_strictMono h'; omega

theorem scaledOfMag_eq_zero {m : Nat} : scaledOfMag m = 0 ↔ m = 0 := by
  constructor
  · intro h; exact scaledOfMag_inj (h.trans scaledOfMag_zero.symm)
  · intro h; subst h; exact scaledOfMag_zero

end MJ.F64

namespace MJ.F64

theorem compare_congr_int {a b c d : Int} (h1 : a < b ↔ c < d) (h2 : b < a ↔ d < c) :
    compare a b = compare c d := by
  simp only [Int.compare_eq_ite_lt]
  by_cases x : a < b
  · rw [if_pos x, if_pos (h1.mp x)]
  · rw [if_neg x, if_neg (fun h => x (h1.mpr h))]
    by_cases y : b < a
    · rw [if_pos y, if_pos (h2.mp y)]
    · rw [if_neg y, if_neg (fun h => y (h2.mpr h))]

theorem isNaN_false_of_mag_zero {a : Nat} (h : mag a = 0) : isNaN a = false := by
  simp [isNaN, h]

/-- `cmp_f64` orders bit patterns by `key` -/
theorem cmpF64_eq (a b : Nat) : cmpF64 a b = compare (key a) (key b) := by
  unfold cmpF64
  by_cases hf : feq a b = true
  · rw [if_pos hf]
    simp only [feq, Bool.and_eq_true, decide_eq_true_eq] at hf
    exact (Int.compare_eq_eq.mpr hf.2).symm
  · rw [if_neg hf]
    have hnz : ¬ (mag a = 0 ∧ mag b = 0) := by
      intro ⟨h1, h2⟩
      apply hf
      simp [feq, isNaN_false_of_mag_zero h1, isNaN_false_of_mag_zero h2, key, scaled, h1, h2,
        scaledOfMag_zero]
    have m1 := @scaledOfMag_lt_iff (mag a) (mag b)
    have m2 := @scaledOfMag_lt_iff (mag b) (mag a)
    have z1 := @scaledOfMag_eq_zero (mag a)
    have z2 := @scaledOfMag_eq_zero (mag b)
    unfold totalCmp
    apply compare_congr_int <;> unfold totalKey key scaled <;>
      cases sign a <;> cases sign b <;> simp only [Bool.false_eq_true, if_false, if_true] <;> omega

end MJ.F64
