import MJ.Model.Fuel
/-! Helper lemmas about `MJ.Fuel.runFrom` (C13). -/
namespace MJ.Fuel
open Tracker

theorem total_append (a b : List String) : total (a ++ b) = total a + total b := by
  induction a with
  | nil => simp [total]
  | cons i rest ih => simp [total, ih, Nat.add_assoc]

theorem track_zero (t : Tracker) : t.track 0 = .ok t := by simp [track]

theorem track_pos_ok (t : Tracker) (c : Nat) (hc : c ≠ 0) (h : c < t.remaining) :
    t.track c = .ok { t with remaining := t.remaining - c } := by
  have : t.remaining - c ≠ 0 := by omega
  simp [track, satSub, hc, this]

theorem track_pos_fail (t : Tracker) (c : Nat) (hc : c ≠ 0) (h : t.remaining ≤ c) :
    t.track c = .outOfFuel { t with remaining := 0 } := by
  have : t.remaining - c = 0 := by omega
  simp [track, satSub, hc, this]

/-- a run whose instructions are all free never looks at the budget -/
theorem runFrom_free (t : Tracker) (trace : List String) (h : total trace = 0) :
    runFrom t trace = { executed := trace, status := .done, tracker := t } := by
  induction trace with
  | nil => rfl
  | cons i rest ih =>
    simp only [total] at h
    have h1 : costOf i = 0 := by omega
    have h2 : total rest = 0 := by omega
    simp [runFrom, h1, track_zero, ih h2]

/-- enough fuel: everything is dispatched and exactly `total` is taken off -/
theorem runFrom_enough (t : Tracker) (trace : List String) (h : total trace < t.remaining) :
    runFrom t trace =
      { executed := trace, status := .done, tracker := { t with remaining := t.remaining - total trace } } := by
  induction trace generalizing t with
  | nil => simp [runFrom, total]
  | cons i rest ih =>
    simp only [total] at h
    by_cases hc : costOf i = 0
    · have := ih t (by omega)
      simp [runFrom, total, hc, track_zero, this]
    · rw [runFrom, track_pos_ok t _ hc (by omega)]
      have := ih { t with remaining := t.remaining - costOf i } (by simp; omega)
      simp only [this, total]
      simp
      omega

/-- not enough fuel: a proper prefix is dispatched, the run ends out of fuel with nothing left -/
theorem runFrom_short (t : Tracker) (trace : List String) (h0 : total trace ≠ 0)
    (h : t.remaining ≤ total trace) :
    ∃ pre, (runFrom t trace) = { executed := pre, status := .outOfFuel, tracker := { t with remaining := 0 } }
      ∧ pre.length < trace.length ∧ pre <+: trace ∧ total pre < t.remaining + (if t.remaining = 0 then 1 else 0) := by
  induction trace generalizing t with
  | nil => simp [total] at h0
  | cons i rest ih =>
    simp only [total] at h h0
    by_cases hc : costOf i = 0
    · obtain ⟨pre, e, hl, hp, ht⟩ := ih t (by omega) (by omega)
      refine ⟨i :: pre, ?_, by simpa using hl, ?_, ?_⟩
      · simp [runFrom, hc, track_zero, e]
      · exact List.prefix_cons_inj i |>.mpr hp
      · simpa [total, hc] using ht
    · by_cases hr : t.remaining ≤ costOf i
      · refine ⟨[], ?_, by simp, List.nil_prefix, ?_⟩
        · rw [runFrom, track_pos_fail t _ hc hr]
        · simp [total]; split <;> omega
      · have hr' : costOf i < t.remaining := by omega
        by_cases hz : total rest = 0
        · omega
        · obtain ⟨pre, e, hl, hp, ht⟩ :=
            ih { t with remaining := t.remaining - costOf i } hz (by simp; omega)
          refine ⟨i :: pre, ?_, by simpa using hl, ?_, ?_⟩
          · rw [runFrom, track_pos_ok t _ hc hr']
            simp only [e]
          · exact List.prefix_cons_inj i |>.mpr hp
          · simp only [total]
            have hne : t.remaining - costOf i ≠ 0 := by omega
            simp only [hne, if_false] at ht
            simp at ht
            split <;> omega

/-- sequential composition: the second part continues with the tracker the first part left -/
theorem runFrom_append (t : Tracker) (a b : List String) :
    runFrom t (a ++ b) =
      match (runFrom t a).status with
      | .outOfFuel => runFrom t a
      | .done =>
        let r := runFrom (runFrom t a).tracker b
        { r with executed := (runFrom t a).executed ++ r.executed } := by
  induction a generalizing t with
  | nil => simp [runFrom]
  | cons i rest ih =>
    simp only [List.cons_append, runFrom]
    cases h : t.track (costOf i) with
    | outOfFuel t' => simp
    | ok t' =>
      simp only [ih t']
      cases hs : (runFrom t' rest).status <;> simp [hs]

theorem track_ok_le (t t' : Tracker) (c : Nat) (h : t.track c = .ok t') :
    t'.remaining ≤ t.remaining ∧ t'.initial = t.initial := by
  by_cases hc : c = 0
  · subst hc; rw [track_zero] at h; cases h; simp
  · by_cases hr : c < t.remaining
    · rw [track_pos_ok t c hc hr] at h; cases h; simp
    · rw [track_pos_fail t c hc (by omega)] at h; cases h

theorem track_fail_le (t t' : Tracker) (c : Nat) (h : t.track c = .outOfFuel t') :
    t'.remaining ≤ t.remaining ∧ t'.initial = t.initial := by
  by_cases hc : c = 0
  · subst hc; rw [track_zero] at h; cases h
  · by_cases hr : c < t.remaining
    · rw [track_pos_ok t c hc hr] at h; cases h
    · rw [track_pos_fail t c hc (by omega)] at h; cases h; simp

/-- the tracker never holds more than the budget -/
theorem runFrom_remaining_le (t : Tracker) (trace : List String) :
    (runFrom t trace).tracker.remaining ≤ t.remaining ∧ (runFrom t trace).tracker.initial = t.initial := by
  induction trace generalizing t with
  | nil => simp [runFrom]
  | cons i rest ih =>
    simp only [runFrom]
    cases h : t.track (costOf i) with
    | outOfFuel t' => simpa using track_fail_le t t' _ h
    | ok t' =>
      have h1 := ih t'
      have h2 := track_ok_le t t' _ h
      simp only []
      omega

theorem executed_prefix (t : Tracker) (trace : List String) : (runFrom t trace).executed <+: trace := by
  induction trace generalizing t with
  | nil => simp [runFrom]
  | cons i rest ih =>
    simp only [runFrom]
    cases h : t.track (costOf i) with
    | outOfFuel t' => simp
    | ok t' => simpa using (List.prefix_cons_inj i).mpr (ih t')

end MJ.Fuel
