import MJ.Proofs.Output
/-!
# Structured renders refine to operation sequences (C19)

`exec p o` (big-step, errors wrapped on the way out, later output may depend on captured values)
and `run (flatten p)` (the flat operation sequence) agree on the `Output` and on the result.
-/
namespace MJ.Output
open MJ

theorem run_append {B : Type} [FmtWrite B] (a b : List Op) (st : St B) :
    run (a ++ b) st =
      match run a st with
      | (st', .ok (.ok ())) => run b st'
      | r => r := by
  induction a generalizing st with
  | nil => simp [run]
  | cons op ops ih =>
    simp only [List.cons_append, run]
    rcases hs : step op st with ⟨st', h⟩
    cases h with
    | none => simpa using ih st'
    | some x => cases x <;> rfl

/-- what a completed program does to the capture stack: its output is appended to the innermost
    capture buffer, a discard swallows it, at top level the stack stays empty -/
def appendTop : List (Option Bytes) → Bytes → List (Option Bytes)
  | [], _ => []
  | some buf :: tl, s => some (buf ++ s) :: tl
  | none :: tl, _ => none :: tl

@[simp] theorem appendTop_nil (st : List (Option Bytes)) : appendTop st [] = st := by
  cases st with
  | nil => rfl
  | cons a tl => cases a <;> simp [appendTop]

theorem appendTop_append (st : List (Option Bytes)) (a b : Bytes) :
    appendTop (appendTop st a) b = appendTop st (a ++ b) := by
  cases st with
  | nil => rfl
  | cons x tl => cases x <;> simp [appendTop]

def mapErr (f : Err → Err) : Chk (Except Err Unit) → Chk (Except Err Unit)
  | .ok (.error e) => .ok (.error (f e))
  | r => r

theorem wrapAll_cons (w : Wrap) (ws : List Wrap) (e : Err) :
    wrapAll (w :: ws) e = wrapAll ws (.wrapped w e) := rfl

theorem Out.write_stack {B : Type} [FmtWrite B] (o : Out B) (c : Chunk) :
    (o.write c).1.stack = appendTop o.stack c.bytes := by
  obtain ⟨w, stack⟩ := o
  cases stack with
  | nil => simp [Out.write, appendTop]
  | cons a tl => cases a <;> simp [Out.write, appendTop]

/-- an evaluation on an `Output` of its own: only its value and its result matter to the caller -/
theorem exec_own {B : Type} [FmtWrite B] (f : Fresh) (body : Prog) (k : Bytes → Prog) (o : Out B) :
    exec (.own f body k) o =
      match ownRun f body with
      | (v, .ok (.ok ())) => exec (k v) o
      | (_, res) => (o, res) := by
  have h : exec (.own f body k) o = ownThen (ownRun f body) (fun v => exec (k v) o) (fun res => (o, res)) := by
    cases f <;> simp only [exec, ownRun]
  rw [h]
  rcases ownRun f body with ⟨v, res⟩
  cases res with
  | panic => rfl
  | ok y => cases y <;> rfl

/-- **Refinement**: the flat run of `flatten p` and the structured evaluation of `p` agree. -/
theorem run_flatten {B : Type} [FmtWrite B] (p : Prog) (o : Out B) (ws : List Wrap) :
    (run (flatten p) ⟨o, ws⟩).1.out = (exec p o).1 ∧
    (run (flatten p) ⟨o, ws⟩).2 = mapErr (wrapAll ws) (exec p o).2 ∧
    ((exec p o).2 = .ok (.ok ()) →
      (run (flatten p) ⟨o, ws⟩).1.wraps = ws ∧ (exec p o).1.stack = appendTop o.stack (written p)) := by
  induction p generalizing o ws with
  | skip => simp [flatten, run, exec, mapErr, written]
  | emit c =>
    simp only [flatten, run, step, exec, written]
    by_cases hok : (o.write c).2 = true
    · simp [hok, mapErr, Out.write_stack]
    · simp [hok, mapErr, wrapAll, Err.fromFmt]
  | fail id => simp [flatten, run, step, exec, mapErr]
  | seq a b iha ihb =>
    obtain ⟨h1, h2, h3⟩ := iha o ws
    simp only [flatten, run_append, exec, written]
    rcases hr : run (flatten a) ⟨o, ws⟩ with ⟨st', res⟩
    rcases he : exec a o with ⟨o', eres⟩
    rw [hr, he] at h1 h2 h3
    simp only at h1 h2 h3
    cases eres with
    | panic =>
      simp only [mapErr] at h2
      subst h2
      simp [h1, mapErr]
    | ok x =>
      cases x with
      | error e =>
        simp only [mapErr] at h2
        subst h2
        simp [h1, mapErr]
      | ok u =>
        simp only [mapErr] at h2
        subst h2
        obtain ⟨hw, hst⟩ := h3 rfl
        have hst' : st' = ⟨o', ws⟩ := by
          cases st' with
          | mk out wraps =>
            simp only at h1 hw
            subst h1 hw
            rfl
        subst hst'
        obtain ⟨g1, g2, g3⟩ := ihb o' ws
        refine ⟨g1, g2, ?_⟩
        intro hb
        obtain ⟨k1, k2⟩ := g3 hb
        exact ⟨k1, by rw [k2, hst, appendTop_append]⟩
  | capture d body k ihb ihk =>
    obtain ⟨h1, h2, h3⟩ := ihb (o.beginCapture d) ws
    simp only [flatten, run, step, run_append, exec, written]
    rcases hr : run (flatten body) ⟨o.beginCapture d, ws⟩ with ⟨st', res⟩
    rcases he : exec body (o.beginCapture d) with ⟨o', eres⟩
    rw [hr, he] at h1 h2 h3
    simp only at h1 h2 h3
    cases eres with
    | panic =>
      simp only [mapErr] at h2
      subst h2
      simp [h1, mapErr]
    | ok x =>
      cases x with
      | error e =>
        simp only [mapErr] at h2
        subst h2
        simp [h1, mapErr]
      | ok u =>
        simp only [mapErr] at h2
        subst h2
        obtain ⟨hw, hst⟩ := h3 rfl
        have hst' : st' = ⟨o', ws⟩ := by
          cases st' with
          | mk out wraps =>
            simp only at h1 hw
            subst h1 hw
            rfl
        subst hst'
        obtain ⟨w', stack'⟩ := o'
        simp only [Out.beginCapture] at hst
        have hstack : stack' = (if d then none else some (written body)) :: o.stack := by
          rw [hst]
          cases d <;> simp [appendTop]
        subst hstack
        simp only [Out.endCapture]
        obtain ⟨g1, g2, g3⟩ := ihk (if d then none else some (written body)) ⟨w', o.stack⟩ ws
        exact ⟨g1, g2, g3⟩
  | nested w body ih =>
    obtain ⟨h1, h2, h3⟩ := ih o (w :: ws)
    simp only [flatten, run, step, run_append, exec, written]
    rcases hr : run (flatten body) ⟨o, w :: ws⟩ with ⟨st', res⟩
    rcases he : exec body o with ⟨o', eres⟩
    rw [hr, he] at h1 h2 h3
    simp only at h1 h2 h3
    cases eres with
    | panic =>
      simp only [mapErr] at h2
      subst h2
      simp [h1, mapErr]
    | ok x =>
      cases x with
      | error e =>
        simp only [mapErr] at h2
        subst h2
        simp [h1, mapErr, wrapAll_cons]
      | ok u =>
        simp only [mapErr] at h2
        subst h2
        obtain ⟨hw, hst⟩ := h3 rfl
        simp [h1, hw, mapErr, hst]
  | own f body k _ ihk =>
    rw [exec_own]
    simp only [flatten, written]
    rcases hr : ownRun f body with ⟨v, res⟩
    cases res with
    | panic => simp [run, step, mapErr]
    | ok x =>
      cases x with
      | error e => simp [run, step, mapErr]
      | ok u => exact ihk v o ws

theorem mapErr_wrapAll_nil (r : Chk (Except Err Unit)) : mapErr (wrapAll []) r = r := by
  cases r with
  | panic => rfl
  | ok x => cases x <;> rfl

/-- the writer API and the plain render of a structured program are those of its flattening -/
theorem renderProg_eq (p : Prog) (script : List Beh) :
    renderProgTo p script = renderTo (flatten p) script ∧
    renderProgString p = renderString (flatten p) := by
  constructor
  · obtain ⟨h1, h2, _⟩ := run_flatten p (⟨(⟨script, [], none⟩ : WriteWrapper), []⟩ : Out WriteWrapper) []
    rw [mapErr_wrapAll_nil] at h2
    simp only [renderProgTo, renderTo, St.init, h1, h2]
  · obtain ⟨h1, h2, _⟩ := run_flatten p (⟨([] : Bytes), []⟩ : Out Bytes) []
    rw [mapErr_wrapAll_nil] at h2
    simp only [renderProgString, renderString, St.init, h1, h2]

theorem finish_ne_panic (w : WriteWrapper) (r : Chk (Except Err Unit)) (h : r ≠ .panic) :
    w.finish r ≠ .panic := by
  cases r with
  | panic => exact absurd rfl h
  | ok x => cases x <;> simp [WriteWrapper.finish]

/-- the structured evaluation never hits the `end_capture` panic -/
theorem exec_no_panic (p : Prog) : ∀ {B : Type} [FmtWrite B] (o : Out B), (exec p o).2 ≠ .panic := by
  induction p with
  | skip => intro B _ o; simp [exec]
  | emit c => intro B _ o; simp only [exec]; by_cases h : (o.write c).2 = true <;> simp [h]
  | fail id => intro B _ o; simp [exec]
  | seq a b iha ihb =>
    intro B _ o
    simp only [exec]
    rcases he : exec a o with ⟨o', eres⟩
    have := iha o
    rw [he] at this
    cases eres with
    | panic => exact absurd rfl this
    | ok x =>
      cases x with
      | error e => simp
      | ok u => exact ihb o'
  | capture d body k ihb ihk =>
    intro B _ o
    simp only [exec]
    rcases he : exec body (o.beginCapture d) with ⟨o', eres⟩
    have hb := ihb (o.beginCapture d)
    have hs := (run_flatten body (o.beginCapture d) []).2.2
    rw [he] at hb hs
    cases eres with
    | panic => exact absurd rfl hb
    | ok x =>
      cases x with
      | error e => simp
      | ok u =>
        obtain ⟨_, hst⟩ := hs rfl
        obtain ⟨w', stack'⟩ := o'
        simp only [Out.beginCapture] at hst
        have hstack : stack' = (if d then none else some (written body)) :: o.stack := by
          rw [hst]
          cases d <;> simp [appendTop]
        subst hstack
        simp only [Out.endCapture]
        exact ihk _ _
  | nested w body ih =>
    intro B _ o
    simp only [exec]
    rcases he : exec body o with ⟨o', eres⟩
    have := ih o
    rw [he] at this
    cases eres with
    | panic => exact absurd rfl this
    | ok x => cases x <;> simp
  | own f body k ihb ihk =>
    intro B _ o
    rw [exec_own]
    have hown : (ownRun f body).2 ≠ .panic := by
      cases f with
      | string => exact ihb (⟨([] : Bytes), []⟩ : Out Bytes)
      | null => exact ihb (⟨(), [none]⟩ : Out Unit)
      | sink script => exact finish_ne_panic _ _ (ihb _)
    rcases hr : ownRun f body with ⟨v, res⟩
    rw [hr] at hown
    cases res with
    | panic => exact absurd rfl hown
    | ok x =>
      cases x with
      | error e => simp
      | ok u => exact ihk v o

theorem ownRun_no_panic (f : Fresh) (body : Prog) : (ownRun f body).2 ≠ .panic := by
  cases f with
  | string => exact exec_no_panic body (⟨([] : Bytes), []⟩ : Out Bytes)
  | null => exact exec_no_panic body (⟨(), [none]⟩ : Out Unit)
  | sink script => exact finish_ne_panic _ _ (exec_no_panic body _)

/-- the capture brackets of a flattened program are balanced -/
theorem balanced_flatten (p : Prog) (d : Nat) (rest : List Op) :
    balanced d (flatten p ++ rest) = balanced d rest := by
  induction p generalizing d rest with
  | skip => simp [flatten]
  | emit c => simp [flatten, balanced]
  | fail id => simp [flatten, balanced]
  | seq a b iha ihb => simp [flatten, List.append_assoc, iha, ihb]
  | capture dd body k ihb ihk =>
    simp only [flatten, List.cons_append, List.append_assoc, balanced]
    rw [ihb]
    simp only [balanced]
    exact ihk _ _ _
  | nested w body ih =>
    simp only [flatten, List.cons_append, List.append_assoc, balanced]
    rw [ih]
    simp [balanced]
  | own f body k _ ihk =>
    simp only [flatten]
    have hown := ownRun_no_panic f body
    rcases hr : ownRun f body with ⟨v, res⟩
    rw [hr] at hown
    cases res with
    | panic => exact absurd rfl hown
    | ok x =>
      cases x with
      | error e => simp [balanced]
      | ok u => exact ihk v d rest

end MJ.Output
