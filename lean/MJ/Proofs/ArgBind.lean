import MJ.Model.Eval
import MJ.Model.VmM
/-!
# The argument-binding rules of macros and call-block callers (C03)

Laws of `MJ.Eval.bindArgs` / `slotOf` (the reference semantics of `Macro::prepare_args`), and the
agreement of the model VM's `MJ.Vm.prepareArgs` with it.
-/
namespace MJ.ArgBind
open MJ.Eval

theorem assocGet_append {α : Type} (k : String) : ∀ (a b : List (String × α)),
    assocGet k (a ++ b) = match assocGet k a with
      | some v => some v
      | none => assocGet k b
  | [], b => by simp [assocGet]
  | (k', v) :: a, b => by
    by_cases h : k' = k
    · simp [assocGet, h]
    · simp [assocGet, h, assocGet_append k a b]

theorem assocGet_some_of_mem {α : Type} {k : String} {v : α} : ∀ {l : List (String × α)}, (k, v) ∈ l →
    ∃ w, assocGet k l = some w
  | (k', v') :: l, h => by
    by_cases hk : k' = k
    · exact ⟨v', by simp [assocGet, hk]⟩
    · have : (k, v) ∈ l := by
        rcases List.mem_cons.1 h with h | h
        · exact absurd (by simpa using (congrArg Prod.fst h).symm) hk
        · exact h
      obtain ⟨w, hw⟩ := assocGet_some_of_mem this
      exact ⟨w, by simp [assocGet, hk, hw]⟩

theorem assocGet_mem {α : Type} {k : String} {v : α} : ∀ {l : List (String × α)}, assocGet k l = some v → (k, v) ∈ l
  | (k', v') :: l, h => by
    by_cases hk : k' = k
    · simp [assocGet, hk] at h; subst h; subst hk; simp
    · simp [assocGet, hk] at h; exact List.mem_cons_of_mem _ (assocGet_mem h)

/-- what parameter number `i` is bound to: the positional value if there is one, else the (first)
keyword value of that name, else `undef` -/
def boundValue (pos : List Val) (kw : List (String × Val)) (i : Nat) (p : String) : Val :=
  match pos[i]? with
  | some v => v
  | none => (assocGet p kw).getD .undef

theorem bindParams_length : ∀ (params : List String) (pos : List Val) (kw : List (String × Val)) (bound),
    bindParams params pos kw = .ok bound → bound.length = params.length ∧ pos.length ≤ params.length
  | [], [], _, bound, h => by simp [bindParams] at h; subst h; simp
  | [], _ :: _, _, _, h => by simp [bindParams] at h
  | p :: ps, [], kw, bound, h => by
    simp only [bindParams] at h
    split at h
    · rename_i r hr; simp at h; subst h; simp [(bindParams_length ps [] kw r hr).1]
    · simp at h
  | p :: ps, a :: as, kw, bound, h => by
    simp only [bindParams] at h
    split at h
    · simp at h
    · split at h
      · rename_i r hr; simp at h; subst h
        have := bindParams_length ps as kw r hr
        simp [this.1]; omega
      · simp at h

/-- **An explicitly passed value is bound as it is** (1): the binding of every parameter is the
value found for it, untouched. -/
theorem bindParams_getElem? : ∀ (params : List String) (pos : List Val) (kw : List (String × Val)) (bound),
    bindParams params pos kw = .ok bound →
    ∀ i p, params[i]? = some p → bound[i]? = some (p, boundValue pos kw i p)
  | [], _, _, _, _, i, p, hp => by simp at hp
  | p0 :: ps, [], kw, bound, h, i, p, hp => by
    simp only [bindParams] at h
    split at h
    · rename_i r hr; simp at h; subst h
      cases i with
      | zero => simp at hp; subst hp; simp [boundValue]
      | succ j =>
        have := bindParams_getElem? ps [] kw r hr j p (by simpa using hp)
        simpa [boundValue] using this
    · simp at h
  | p0 :: ps, a :: as, kw, bound, h, i, p, hp => by
    simp only [bindParams] at h
    split at h
    · simp at h
    · split at h
      · rename_i r hr; simp at h; subst h
        cases i with
        | zero => simp at hp; subst hp; simp [boundValue]
        | succ j =>
          have := bindParams_getElem? ps as kw r hr j p (by simpa using hp)
          simpa [boundValue] using this
      · simp at h

/-- binding succeeds exactly when there are not more positional values than parameters and no
parameter that is filled by position is also named by a keyword -/
theorem bindParams_isOk : ∀ (params : List String) (pos : List Val) (kw : List (String × Val)),
    (∃ bound, bindParams params pos kw = .ok bound) ↔
      pos.length ≤ params.length ∧ ∀ i p, i < pos.length → params[i]? = some p → assocGet p kw = none
  | [], [], kw => by simp [bindParams]
  | [], _ :: _, kw => by simp [bindParams]
  | p0 :: ps, [], kw => by
    have ih := bindParams_isOk ps [] kw
    simp only [bindParams]
    constructor
    · intro _; simp
    · intro _
      have : ∃ b, bindParams ps [] kw = .ok b := ih.2 (by simp)
      obtain ⟨b, hb⟩ := this
      exact ⟨_, by rw [hb]⟩
  | p0 :: ps, a :: as, kw => by
    have ih := bindParams_isOk ps as kw
    simp only [bindParams]
    constructor
    · rintro ⟨bound, h⟩
      split at h
      · simp at h
      · rename_i hk
        split at h
        · rename_i r hr
          have := ih.1 ⟨r, hr⟩
          refine ⟨by simp; exact this.1, ?_⟩
          intro i p hi hp
          cases i with
          | zero => simp at hp; subst hp; exact hk
          | succ j => exact this.2 j p (by simpa using hi) (by simpa using hp)
        · simp at h
    · rintro ⟨hl, hd⟩
      have hk : assocGet p0 kw = none := hd 0 p0 (by simp) (by simp)
      have : ∃ b, bindParams ps as kw = .ok b :=
        ih.2 ⟨by simpa using hl, fun i p hi hp => hd (i + 1) p (by simpa using hi) (by simpa using hp)⟩
      obtain ⟨b, hb⟩ := this
      exact ⟨_, by rw [hk, hb]⟩

/-- the only error of the binder is `TooManyArguments` -/
theorem bindParams_error : ∀ (params : List String) (pos : List Val) (kw : List (String × Val)) (e),
    bindParams params pos kw = .error e → e = .tooManyArgs
  | [], [], _, e, h => by simp [bindParams] at h
  | [], _ :: _, _, e, h => by simp [bindParams] at h; exact h.symm
  | p :: ps, [], kw, e, h => by
    simp only [bindParams] at h
    split at h
    · simp at h
    · rename_i e' he; simp at h; subst h; exact bindParams_error ps [] kw _ he
  | p :: ps, a :: as, kw, e, h => by
    simp only [bindParams] at h
    split at h
    · simp at h; exact h.symm
    · split at h
      · simp at h
      · rename_i e' he; simp at h; subst h; exact bindParams_error ps as kw _ he

/-- the keyword list is only consulted through `assocGet` on the parameter names -/
theorem bindParams_congr : ∀ (params : List String) (pos : List Val) (kw kw' : List (String × Val)),
    (∀ p ∈ params, assocGet p kw = assocGet p kw') → bindParams params pos kw = bindParams params pos kw'
  | [], [], _, _, _ => rfl
  | [], _ :: _, _, _, _ => rfl
  | p :: ps, [], kw, kw', h => by
    simp only [bindParams]
    rw [bindParams_congr ps [] kw kw' (fun q hq => h q (by simp [hq])), h p (by simp)]
  | p :: ps, a :: as, kw, kw', h => by
    simp only [bindParams]
    rw [bindParams_congr ps as kw kw' (fun q hq => h q (by simp [hq])), h p (by simp)]

/-- **Positional and keyword passing of the same value bind the same** (binder level): the next
free parameter `p` gets `v` by position or as `p=v`. -/
theorem bindParams_pos_eq_kw : ∀ (params : List String) (pos : List Val) (kw : List (String × Val)) (p : String) (v : Val),
    params.Nodup → params[pos.length]? = some p → assocGet p kw = none →
    bindParams params (pos ++ [v]) kw = bindParams params pos (kw ++ [(p, v)])
  | [], pos, kw, p, v, _, hp, _ => by simp at hp
  | p0 :: ps, [], kw, p, v, hnd, hp, hk => by
    simp at hp; subst hp
    have hnot : p0 ∉ ps := (List.nodup_cons.1 hnd).1
    have e1 : assocGet p0 (kw ++ [(p0, v)]) = some v := by
      rw [assocGet_append, hk]; simp [assocGet]
    have e2 : bindParams ps [] (kw ++ [(p0, v)]) = bindParams ps [] kw := by
      refine bindParams_congr ps [] _ _ (fun q hq => ?_)
      rw [assocGet_append]
      cases assocGet q kw with
      | some w => rfl
      | none =>
        have : ¬ p0 = q := fun e => hnot (e ▸ hq)
        simp [assocGet, this]
    simp only [List.nil_append, bindParams, hk, e1, e2, Option.getD_some]
  | p0 :: ps, a :: as, kw, p, v, hnd, hp, hk => by
    have hnot : p0 ∉ ps := (List.nodup_cons.1 hnd).1
    have hp' : ps[as.length]? = some p := by simpa using hp
    have hne : ¬ p = p0 := by
      intro e; subst e
      exact hnot (List.mem_of_getElem? hp')
    have e1 : assocGet p0 (kw ++ [(p, v)]) = assocGet p0 kw := by
      rw [assocGet_append]
      cases assocGet p0 kw with
      | some w => rfl
      | none => simp [assocGet, hne]
    simp only [List.cons_append, bindParams, e1]
    rw [bindParams_pos_eq_kw ps as kw p v (List.nodup_cons.1 hnd).2 hp' hk]

theorem any_append_single {α : Type} (f : α → Bool) (l : List α) (x : α) (h : f x = false) :
    (l ++ [x]).any f = l.any f := by simp [h]

/-- **Positional and keyword passing of the same value bind the same**: calling with one more
positional value `v` is the same — parameters, hidden `caller`, error-or-not — as passing `v` by
keyword to the next free parameter. -/
theorem bindArgs_pos_eq_kw (params : List String) (uc : Bool) (pos : List Val) (kw : List (String × Val))
    (p : String) (v : Val) (hnd : params.Nodup) (hp : params[pos.length]? = some p)
    (hk : assocGet p kw = none) (hc : p ≠ "caller") :
    bindArgs params uc (pos ++ [v]) kw = bindArgs params uc pos (kw ++ [(p, v)]) := by
  have hmem : p ∈ params := List.mem_of_getElem? hp
  have e1 : (kw ++ [(p, v)]).any (fun q => !(params.contains q.1) && !(uc && q.1 == "caller")) =
      kw.any (fun q => !(params.contains q.1) && !(uc && q.1 == "caller")) :=
    any_append_single _ _ _ (by simp [hmem])
  have e2 : assocGet "caller" (kw ++ [(p, v)]) = assocGet "caller" kw := by
    rw [assocGet_append]
    cases assocGet "caller" kw with
    | some w => rfl
    | none => simp [assocGet, hc]
  simp only [bindArgs, bindParams_pos_eq_kw params pos kw p v hnd hp hk, e1, e2]

/-- **Every keyword is either consumed or an error**: when binding succeeds, every keyword names a
parameter that was not filled by position (and is bound to the keyword's value) or is the hidden
`caller` of a macro that refers to it. -/
theorem bindArgs_keywords_consumed {params uc pos kw bound c}
    (h : bindArgs params uc pos kw = .ok (bound, c)) (k : String) (v : Val) (hm : (k, v) ∈ kw) :
    (∃ i w, params[i]? = some k ∧ pos.length ≤ i ∧ assocGet k kw = some w ∧ bound[i]? = some (k, w)) ∨
      (uc = true ∧ k = "caller") := by
  simp only [bindArgs] at h
  split at h
  · simp at h
  · rename_i b hb
    split at h
    · simp at h
    · rename_i hany
      simp at h
      obtain ⟨rfl, _⟩ := h
      have hk : (!(params.contains k) && !(uc && k == "caller")) = false := by
        cases hf : (!(params.contains k) && !(uc && k == "caller")) with
        | false => rfl
        | true => exact absurd (List.any_eq_true.2 ⟨(k, v), hm, hf⟩) hany
      by_cases hin : k ∈ params
      · left
        obtain ⟨i, hi, hpi⟩ := List.getElem_of_mem hin
        have hpi' : params[i]? = some k := by simp [hi, hpi]
        obtain ⟨w, hw⟩ := assocGet_some_of_mem hm
        have hle : pos.length ≤ i := by
          by_cases hlt : i < pos.length
          · have := ((bindParams_isOk params pos kw).1 ⟨b, hb⟩).2 i k hlt hpi'
            rw [hw] at this; cases this
          · omega
        refine ⟨i, w, hpi', hle, hw, ?_⟩
        have := bindParams_getElem? params pos kw b hb i k hpi'
        have hnone : pos[i]? = none := by simp [hle]
        simpa [boundValue, hnone, hw] using this
      · right
        simpa [hin] using hk

/-- the error cases of the binder -/
theorem bindArgs_error_iff (params : List String) (uc : Bool) (pos : List Val) (kw : List (String × Val)) :
    bindArgs params uc pos kw = .error .tooManyArgs ↔
      (params.length < pos.length ∨ (∃ i p, i < pos.length ∧ params[i]? = some p ∧ (assocGet p kw).isSome) ∨
        ∃ k v, (k, v) ∈ kw ∧ k ∉ params ∧ ¬ (uc = true ∧ k = "caller")) := by
  have hok := bindParams_isOk params pos kw
  constructor
  · intro h
    simp only [bindArgs] at h
    split at h
    · rename_i e he
      -- the parameter binder failed
      by_cases hl : pos.length ≤ params.length
      · right; left
        have : ¬ ∀ i p, i < pos.length → params[i]? = some p → assocGet p kw = none := by
          intro hall
          obtain ⟨b, hb⟩ := hok.2 ⟨hl, hall⟩
          rw [hb] at he; cases he
        have := Classical.not_forall.1 this
        obtain ⟨i, hi⟩ := this
        obtain ⟨p, hp⟩ := Classical.not_forall.1 hi
        refine ⟨i, p, ?_⟩
        by_cases h1 : i < pos.length
        · by_cases h2 : params[i]? = some p
          · refine ⟨h1, h2, ?_⟩
            cases hg : assocGet p kw with
            | none => exact absurd (fun _ _ => hg) hp
            | some w => rfl
          · exact absurd (fun _ h => absurd h h2) hp
        · exact absurd (fun h => absurd h h1) hp
      · left; omega
    · rename_i b hb
      split at h
      · rename_i hany
        right; right
        obtain ⟨⟨k, v⟩, hm, hf⟩ := List.any_eq_true.1 hany
        refine ⟨k, v, hm, ?_, ?_⟩
        · intro hin; simp [hin] at hf
        · rintro ⟨hu, hc⟩; simp [hu, hc] at hf
      · simp at h
  · intro h
    simp only [bindArgs]
    split
    · rename_i e he; rw [bindParams_error params pos kw e he]
    · rename_i b hb
      have hb' := hok.1 ⟨b, hb⟩
      rcases h with h | ⟨i, p, hi, hp, hs⟩ | ⟨k, v, hm, hnp, hnc⟩
      · omega
      · rw [hb'.2 i p hi hp] at hs; cases hs
      · have : kw.any (fun q => !(params.contains q.1) && !(uc && q.1 == "caller")) = true := by
          refine List.any_eq_true.2 ⟨(k, v), hm, ?_⟩
          by_cases hu : uc = true
          · have : ¬ k = "caller" := fun e => hnc ⟨hu, e⟩
            simp [hnp, this]
          · simp [hnp, hu]
        rw [if_pos this]

/-- **The default is evaluated iff the parameter is missing or undefined**: a parameter takes its
default exactly when it is bound to `undef` and has one. -/
theorem slotOf_dflt_iff (v : Val) (dflt : Option Expr) (d : Expr) :
    slotOf v dflt = .dflt d ↔ v = .undef ∧ dflt = some d := by
  cases v <;> cases dflt <;> simp [slotOf]

/-- … every other bound value — `none`, `false`, `0`, `""`, `[]` included — is kept as it is -/
theorem slotOf_passed_of_ne_undef (v : Val) (dflt : Option Expr) (h : v ≠ .undef) : slotOf v dflt = .passed v := by
  cases v <;> cases dflt <;> simp_all [slotOf]

theorem slotOf_no_default (v : Val) : slotOf v none = .passed v := by
  cases v <;> simp [slotOf]

/-! ## The model VM's `prepare_args` is this binder -/


theorem prepareArgs_fold (pos : List Val) (kw : List (String × Val)) : ∀ (spec : List String) (k : Nat),
    pos.length ≤ k + spec.length →
    (spec.zipIdx k).foldr (MJ.Vm.prepareStep pos kw) (.ok []) =
      (bindParams spec (pos.drop k) kw).map (·.map (·.2))
  | [], k, h => by
    have : pos.drop k = [] := by simp; omega
    simp [this, bindParams, Except.map]
  | p :: ps, k, h => by
    have ih := prepareArgs_fold pos kw ps (k + 1) (by simp at h; omega)
    simp only [List.zipIdx_cons, List.foldr_cons]
    rw [ih]
    by_cases hk : k < pos.length
    · have hd : pos.drop k = pos[k] :: pos.drop (k + 1) := by
        rw [List.drop_eq_getElem_cons hk]
      have hg : pos[k]? = some pos[k] := by simp [hk]
      rw [hd]
      simp only [bindParams, hg, MJ.Vm.prepareStep]
      cases hb : bindParams ps (pos.drop (k + 1)) kw with
      | error e =>
        have := bindParams_error _ _ _ _ hb; subst this
        cases assocGet p kw <;> simp [Except.map]
      | ok r => cases assocGet p kw <;> simp [Except.map]
    · have hd : pos.drop k = [] := by simp; omega
      have hd1 : pos.drop (k + 1) = [] := by simp; omega
      have hg : pos[k]? = none := by simp; omega
      rw [hd]; rw [hd1] at *
      simp only [bindParams, hg, MJ.Vm.prepareStep]
      cases hb : bindParams ps [] kw with
      | error e => simp [Except.map]
      | ok r => cases assocGet p kw <;> simp [Except.map]

/-- a call whose last value is a keyword bundle -/
theorem prepareArgs_kwargs (spec : List String) (cref : Bool) (pos : List Val) (kw : List (String × Val)) :
    MJ.Vm.prepareArgs spec cref (pos ++ [.kwargs kw]) =
      (bindArgs spec cref pos kw).map fun r => (r.1.map (·.2), r.2) := by
  simp only [MJ.Vm.prepareArgs, List.getLast?_append, List.getLast?_singleton, Option.some_or,
    List.dropLast_concat, Option.getD_some]
  by_cases hl : pos.length > spec.length
  · simp only [hl, if_true, bindArgs]
    have : ¬ ∃ b, bindParams spec pos kw = .ok b := fun h => by
      have := ((bindParams_isOk spec pos kw).1 h).1; omega
    cases hb : bindParams spec pos kw with
    | ok b => exact absurd ⟨b, hb⟩ this
    | error e => rw [bindParams_error _ _ _ _ hb]; rfl
  · simp only [hl, if_false]
    have hf := prepareArgs_fold pos kw spec 0 (by omega)
    simp only [List.drop_zero] at hf
    rw [hf]
    simp only [bindArgs]
    cases hb : bindParams spec pos kw with
    | error e => rfl
    | ok b =>
      simp only [Except.map]
      split <;> rfl

/-- a call without keyword bundle (the last value is not one) -/
theorem prepareArgs_positional (spec : List String) (cref : Bool) (pos : List Val)
    (hlast : ∀ kvs, pos.getLast? ≠ some (.kwargs kvs)) :
    MJ.Vm.prepareArgs spec cref pos =
      (bindArgs spec cref pos []).map fun r => (r.1.map (·.2), r.2) := by
  -- (the equation of `prepareArgs` for "the last value is no keyword bundle" is discharged by `hlast`)
  simp only [MJ.Vm.prepareArgs, Option.getD_none]
  by_cases hl : pos.length > spec.length
  · simp only [hl, if_true, bindArgs]
    have : ¬ ∃ b, bindParams spec pos [] = .ok b := fun h => by
      have := ((bindParams_isOk spec pos []).1 h).1; omega
    cases hb : bindParams spec pos [] with
    | ok b => exact absurd ⟨b, hb⟩ this
    | error e => rw [bindParams_error _ _ _ _ hb]; rfl
  · simp only [hl, if_false]
    have hf := prepareArgs_fold pos [] spec 0 (by omega)
    simp only [List.drop_zero] at hf
    rw [hf]
    simp only [bindArgs]
    cases hb : bindParams spec pos [] with
    | error e => rfl
    | ok b => simp [Except.map, assocGet]

end MJ.ArgBind
