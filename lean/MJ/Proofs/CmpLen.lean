import MJ.Proofs.CmpEq
/-!
# Reported lengths are exact or absent, so `==` on maps may trust them
-/
namespace MJ.CmpEq
open MJ MJ.Val MJ.Cmp

/-- `query_len` answers `Some n` only for a stored count or an *exact* size hint `(n, Some(n))` -/
theorem queryLen_exact (s : EnumShape) (n : Nat) (h : queryLen s = some n) :
    match s with
    | .hinted v lo hi => v ∈ hintedVariants → (lo = n ∧ hi = some n)
    | .empty => n = 0
    | .values k => n = k
    | .str k => n = k
    | .seq k => n = k
    | .nonEnumerable => False := by
  cases s with
  | empty => simp only [queryLen] at h; split at h <;> simp_all
  | values k => simp only [queryLen] at h; split at h <;> simp_all
  | str k => simp only [queryLen] at h; split at h <;> simp_all
  | seq k => simp only [queryLen] at h; split at h <;> simp_all
  | nonEnumerable => simp [queryLen] at h
  | hinted v lo hi =>
    intro hv
    simp only [hintedVariants, List.mem_cons, List.not_mem_nil, or_false] at hv
    cases hi with
    | none => rcases hv with rfl | rfl | rfl | rfl <;> simp [queryLen] at h
    | some b =>
      -- the regenerated guards of the four size-hint arms
      have g1 : MJ.Gen.queryLenArms.lookup "Iter" = some "==" := by decide
      have g2 : MJ.Gen.queryLenArms.lookup "KeyValueIter" = some "==" := by decide
      have g3 : MJ.Gen.queryLenArms.lookup "RevIter" = some "==" := by decide
      have g4 : MJ.Gen.queryLenArms.lookup "RevKeyValueIter" = some "==" := by decide
      have key : ∀ v, MJ.Gen.queryLenArms.lookup v = some "==" → queryLen (.hinted v lo (some b)) = some n →
          lo = n ∧ some b = some n := by
        intro v hv' hq
        simp only [queryLen, hv'] at hq
        have hg : guardHolds "==" lo b = (lo == b) := by simp [guardHolds]
        rw [hg] at hq
        by_cases hlb : lo = b
        · subst hlb; simp at hq; subst hq; exact ⟨rfl, rfl⟩
        · have : (lo == b) = false := by simpa using hlb
          rw [this] at hq; simp at hq
      rcases hv with rfl | rfl | rfl | rfl
      · exact key _ g1 h
      · exact key _ g2 h
      · exact key _ g3 h
      · exact key _ g4 h

/-- … hence a reported length is the number of items the enumerator yields -/
theorem queryLen_is_count (s : EnumShape) (count n : Nat) (hy : s.Yields count) (h : queryLen s = some n) :
    n = count := by
  have he := queryLen_exact s n h
  cases s with
  | empty => simp only [EnumShape.Yields] at hy; simp_all
  | values k => simp only [EnumShape.Yields] at hy; simp_all
  | str k => simp only [EnumShape.Yields] at hy; simp_all
  | seq k => simp only [EnumShape.Yields] at hy; simp_all
  | nonEnumerable => exact absurd he id
  | hinted v lo hi =>
    obtain ⟨hv, h1, h2⟩ := hy
    obtain ⟨e1, e2⟩ := he hv
    have := h2 n e2
    omega

/-- with lengths that are exact or absent, the length-trusting map equality of the Rust is the
    map equality of the model (same number of entries and every entry of `a` found in `b`) -/
theorem eqMapWithLen_exact (m : Mode) (la lb : Option Nat) (ps qs : List (V × V))
    (ha : ∀ n, la = some n → n = ps.length) (hb : ∀ n, lb = some n → n = qs.length) :
    eqMapWithLen m la lb ps qs = eqV m (.map ps) (.map qs) := by
  rw [eqV]
  unfold eqMapWithLen
  cases la with
  | none =>
    by_cases hl : ps.length = qs.length
    · simp [hl]
    · simp [hl]
  | some a =>
    cases lb with
    | none =>
      by_cases hl : ps.length = qs.length
      · simp [hl]
      · simp [hl]
    | some b =>
      have e1 := ha a rfl
      have e2 := hb b rfl
      subst e1 e2
      simp only []

end MJ.CmpEq
