import MJ.Model.Extends
/-! lemmas about `MJ/Model/Extends.lean` -/
namespace MJ.Extends

/-- balanced capture events take off exactly what they put on: the `d` innermost entries are gone, the
rest of the stack and `parent_instructions` are untouched -/
theorem dyck_run (es : List Ev) : ∀ (d : Nat) (s : St), dyck d es = true → d ≤ s.caps.length →
    ∃ s', run s es = some s' ∧ s'.caps = s.caps.drop d ∧ s'.parent = s.parent := by
  induction es with
  | nil =>
    intro d s h _
    have hd : d = 0 := by simpa [dyck] using h
    subst hd
    exact ⟨s, rfl, by simp, rfl⟩
  | cons e es ih =>
    intro d s h hle
    cases e with
    | beginCapture n =>
      have h' : dyck (d + 1) es = true := by simpa [dyck] using h
      obtain ⟨s', hr, hc, hp⟩ := ih (d + 1) { s with caps := .block n :: s.caps } h' (by simp; omega)
      exact ⟨s', by simpa [run, ev] using hr, by simpa using hc, by simpa using hp⟩
    | endCapture =>
      cases d with
      | zero => simp [dyck] at h
      | succ d =>
        have h' : dyck d es = true := by simpa [dyck] using h
        cases hcs : s.caps with
        | nil => rw [hcs] at hle; simp at hle
        | cons c cs =>
          obtain ⟨s', hr, hc, hp⟩ := ih d { s with caps := cs, popped := s.popped ++ [c] } h'
            (by rw [hcs] at hle; simp at hle ⊢; omega)
          exact ⟨s', by simpa [run, ev, hcs] using hr, by simpa [hcs] using hc, by simpa using hp⟩
    | loadBlocks p => simp [dyck] at h

end MJ.Extends

namespace MJ.Extends

/-- a stream whose captures never reach below its entry leaves the caller's part of the capture stack
(`c`) exactly as it was, with as many entries of its own on top as `bal` says — wherever its one
`LoadBlocks` sits -/
theorem bal_run (c : List Entry) (es : List Ev) : ∀ (l : Bool) (d : Nat) (s : St) (top : List Entry) (l' : Bool) (d' : Nat),
    s.caps = top ++ c → top.length = d → (s.parent.isSome = l) → bal l d es = some (l', d') →
    ∃ s' top', run s es = some s' ∧ s'.caps = top' ++ c ∧ top'.length = d' ∧ s'.parent.isSome = l' := by
  induction es with
  | nil =>
    intro l d s top l' d' hc hl hp hb
    simp only [bal, Option.some.injEq, Prod.mk.injEq] at hb
    exact ⟨s, top, rfl, hc, by omega, by rw [hp]; exact hb.1⟩
  | cons e es ih =>
    intro l d s top l' d' hc hl hp hb
    cases e with
    | beginCapture n =>
      simp only [bal] at hb
      obtain ⟨s', top', hr, h1, h2, h3⟩ := ih l (d + 1) { s with caps := .block n :: s.caps } (.block n :: top) l' d'
        (by simp [hc]) (by simp [hl]) hp hb
      exact ⟨s', top', by simpa [run, ev] using hr, h1, h2, h3⟩
    | endCapture =>
      cases d with
      | zero => simp [bal] at hb
      | succ d =>
        simp only [bal] at hb
        cases top with
        | nil => simp at hl
        | cons t ts =>
          obtain ⟨s', top', hr, h1, h2, h3⟩ := ih l d { s with caps := ts ++ c, popped := s.popped ++ [t] } ts l' d'
            rfl (by simpa using hl) hp hb
          exact ⟨s', top', by simpa [run, ev, hc] using hr, h1, h2, h3⟩
    | loadBlocks p =>
      cases l with
      | true => simp [bal] at hb
      | false =>
        simp only [bal] at hb
        have hpn : s.parent = none := by
          cases h : s.parent with
          | none => rfl
          | some x => simp [h] at hp
        obtain ⟨s', top', hr, h1, h2, h3⟩ := ih true (d + 1) { s with caps := .discard :: s.caps, parent := some p }
          (.discard :: top) l' d' (by simp [hc]) (by simp [hl]) rfl hb
        exact ⟨s', top', by simpa [run, ev, hpn] using hr, h1, h2, h3⟩

end MJ.Extends
