import MJ.Model.Extends
/-! lemmas about `MJ/Model/Extends.lean` -/
namespace MJ.Extends

/-- balanced capture events take off exactly what they put on: the `d` innermost entries are gone, the
rest of the stack and `parent_instructions` are untouched -/
theorem dyck_run (es : List Ev) : ∀ (d : Nat) (s : St), dyck d es = true → d ≤ s.caps.length →
    ∃ s', run s es = some s' ∧ s'.caps = s.caps.drop d ∧ s'.parent = s.parent := by
  induction es with
  | nil =>
    intro d s h _
    have hd : d = 0 := by simpa [dyck] using h
    subst hd
    exact ⟨s, rfl, by simp, rfl⟩
  | cons e es ih =>
    intro d s h hle
    cases e with
    | beginCapture n =>
      have h' : dyck (d + 1) es = true := by simpa [dyck] using h
      obtain ⟨s', hr, hc, hp⟩ := ih (d + 1) { s with caps := .block n :: s.caps } h' (by simp; omega)
      exact ⟨s', by simpa [run, ev] using hr, by simpa using hc, by simpa using hp⟩
    | endCapture =>
      cases d with
      | zero => simp [dyck] at h
      | succ d =>
        have h' : dyck d es = true := by simpa [dyck] using h
        cases hcs : s.caps with
        | nil => rw [hcs] at hle; simp at hle
        | cons c cs =>
          obtain ⟨s', hr, hc, hp⟩ := ih d { s with caps := cs, popped := s.popped ++ [c] } h'
            (by rw [hcs] at hle; simp at hle ⊢; omega)
          exact ⟨s', by simpa [run, ev, hcs] using hr, by simpa [hcs] using hc, by simpa using hp⟩
    | loadBlocks p => simp [dyck] at h

end MJ.Extends
