import MJ.Model.LocAst
import Lean.Elab.Tactic
/-!
# Lines of the instructions of a compiled program lie within their constructs (C14)

`J needCur givesPrev lo hi evs`: run from any state (whose current line lies in `lo..hi` if
`needCur`), the events `evs` emit only instructions whose line lies within the range they are
tagged with, leave the current line in `lo..hi`, leave the line of the previous instruction
unchanged or in `lo..hi` (in `lo..hi` if `givesPrev`) and the stack of suspended generators as it
was.  Every compile arm is a composition of such pieces.
-/
namespace MJ.LocAst
open MJ MJ.Loc

def InR (lo hi x : Nat) : Prop := lo ≤ x ∧ x ≤ hi

def PrevIn (lo hi : Nat) (s : LS) : Prop := ∃ p, s.prev = some p ∧ lo ≤ p ∧ p ≤ hi

def OutOk (out : List Em) : Prop := ∀ e ∈ out, e.ok = true

def J (needCur givesPrev : Bool) (lo hi : Nat) (evs : List Ev) : Prop :=
  ∀ s : LS, (needCur = true → InR lo hi s.cur) →
    OutOk (execL s evs).2 ∧ InR lo hi (execL s evs).1.cur ∧
    ((execL s evs).1.prev = s.prev ∨ PrevIn lo hi (execL s evs).1) ∧
    (givesPrev = true → PrevIn lo hi (execL s evs).1) ∧ (execL s evs).1.saved = s.saved

theorem execL_nil (s : LS) : execL s [] = (s, []) := rfl

theorem execL_cons (s : LS) (e : Ev) (es : List Ev) :
    execL s (e :: es) = ((execL (stepL s e).1 es).1, (stepL s e).2 ++ (execL (stepL s e).1 es).2) := rfl

theorem execL_append (s : LS) (a b : List Ev) :
    execL s (a ++ b) = ((execL (execL s a).1 b).1, (execL s a).2 ++ (execL (execL s a).1 b).2) := by
  induction a generalizing s with
  | nil => simp [execL_nil]
  | cons e es ih => simp only [List.cons_append, execL_cons, ih, List.append_assoc]

theorem OutOk_append {a b : List Em} (ha : OutOk a) (hb : OutOk b) : OutOk (a ++ b) := by
  intro e he
  rcases List.mem_append.mp he with h | h
  · exact ha e h
  · exact hb e h

theorem PrevIn.mono {lo hi lo' hi' : Nat} {s : LS} (h : PrevIn lo' hi' s) (h1 : lo ≤ lo') (h2 : hi' ≤ hi) :
    PrevIn lo hi s := by
  obtain ⟨p, hp, a, b⟩ := h
  exact ⟨p, hp, by omega, by omega⟩

/-! ## structural rules -/

theorem J.nil (lo hi : Nat) : J true false lo hi [] := by
  intro s h
  exact ⟨(by intro e he; cases he), h rfl, Or.inl rfl, (by intro h; cases h), rfl⟩

/-- sequencing: the second part may rely on the current line -/
theorem J.seq {n g1 g2 : Bool} {lo hi : Nat} {a b : List Ev} (ha : J n g1 lo hi a) (hb : J true g2 lo hi b) :
    J n (g1 || g2) lo hi (a ++ b) := by
  intro s hs
  obtain ⟨a1, a2, a3, a4, a5⟩ := ha s hs
  obtain ⟨b1, b2, b3, b4, b5⟩ := hb (execL s a).1 (fun _ => a2)
  rw [execL_append]
  refine ⟨OutOk_append a1 b1, b2, ?_, ?_, by rw [b5, a5]⟩
  · rcases b3 with h | h
    · rcases a3 with h' | h'
      · left; rw [h, h']
      · right; obtain ⟨p, hp, x, y⟩ := h'; exact ⟨p, by rw [h, hp], x, y⟩
    · right; exact h
  · intro hg
    cases g2 with
    | true => exact b4 rfl
    | false =>
      have : g1 = true := by simpa using hg
      rcases b3 with h | h
      · obtain ⟨p, hp, x, y⟩ := a4 this; exact ⟨p, by rw [h, hp], x, y⟩
      · exact h

theorem J.weaken {n g : Bool} {lo hi : Nat} {evs : List Ev} (h : J n g lo hi evs) (n' g' : Bool)
    (hn : n = true → n' = true) (hg : g' = true → g = true) : J n' g' lo hi evs := by
  intro s hs
  obtain ⟨a1, a2, a3, a4, a5⟩ := h s (fun hn' => hs (hn hn'))
  exact ⟨a1, a2, a3, fun x => a4 (hg x), a5⟩

/-- a self-locating piece may be placed in any wider range -/
theorem J.mono {g : Bool} {lo hi lo' hi' : Nat} {evs : List Ev} (h : J false g lo' hi' evs) (h1 : lo ≤ lo') (h2 : hi' ≤ hi) :
    J false g lo hi evs := by
  intro s _
  obtain ⟨a1, a2, a3, a4, a5⟩ := h s (by intro h; cases h)
  refine ⟨a1, ⟨by have := a2.1; omega, by have := a2.2; omega⟩, ?_, fun x => (a4 x).mono h1 h2, a5⟩
  rcases a3 with h | h
  · exact Or.inl h
  · exact Or.inr (h.mono h1 h2)

/-- … and used where the current line is known, whether or not the previous line is needed -/
theorem J.use {g : Bool} {lo hi lo' hi' : Nat} {evs : List Ev} (h : J false g lo' hi' evs) (h1 : lo ≤ lo') (h2 : hi' ≤ hi)
    (n g' : Bool) (hg : g' = true → g = true) : J n g' lo hi evs :=
  (h.mono h1 h2).weaken n g' (by intro h; cases h) hg

/-! ## atoms -/

theorem J.setLine {lo hi l : Nat} (h : InR lo hi l) : J false false lo hi [.setLine l] := by
  intro s _
  exact ⟨(by intro e he; cases he), h, Or.inl rfl, (by intro h; cases h), rfl⟩

theorem J.push {lo hi : Nat} {sp : Span} (h : InR lo hi sp.startLine) : J false false lo hi [.push sp] := by
  intro s _
  exact ⟨(by intro e he; cases he), h, Or.inl rfl, (by intro h; cases h), rfl⟩

theorem J.pop (lo hi : Nat) : J true false lo hi [.pop] := by
  intro s h
  exact ⟨(by intro e he; cases he), h rfl, Or.inl rfl, (by intro h; cases h), rfl⟩

theorem J.add (nm : String) (lo hi : Nat) : J true true lo hi [.add nm lo hi] := by
  intro s h
  have hc := h rfl
  refine ⟨?_, hc, Or.inr ⟨s.cur, rfl, hc.1, hc.2⟩, fun _ => ⟨s.cur, rfl, hc.1, hc.2⟩, rfl⟩
  intro e he
  simp only [execL_cons, execL_nil, stepL, List.append_nil, List.mem_singleton] at he
  subst he
  simp [Em.ok, hc.1, hc.2]

theorem J.addSpan (nm : String) {lo hi : Nat} {sp : Span} (hsp : InR lo hi sp.startLine) :
    J true true lo hi [.addSpan nm sp lo hi] := by
  intro s h
  have hc := h rfl
  refine ⟨?_, hc, Or.inr ⟨sp.startLine, rfl, hsp.1, hsp.2⟩, fun _ => ⟨sp.startLine, rfl, hsp.1, hsp.2⟩, rfl⟩
  intro e he
  simp only [execL_cons, execL_nil, stepL, List.append_nil, List.mem_singleton] at he
  subst he
  simp [Em.ok, hsp.1, hsp.2]

/-- the location-less instruction of `sc_bool` after a piece that has emitted something -/
theorem J.raw {n : Bool} {lo hi : Nat} {a : List Ev} (nm : String) (ha : J n true lo hi a) :
    J n true lo hi (a ++ [.raw nm lo hi]) := by
  intro s hs
  obtain ⟨a1, a2, a3, a4, a5⟩ := ha s hs
  obtain ⟨p, hp, x, y⟩ := a4 rfl
  rw [execL_append]
  refine ⟨OutOk_append a1 ?_, a2, a3, fun _ => ⟨p, hp, x, y⟩, a5⟩
  intro e he
  simp only [execL_cons, execL_nil, stepL, List.append_nil, List.mem_singleton] at he
  subst he
  simp [Em.ok, hp, x, y]

/-- a non-emitting event in front of a self-locating piece does not matter (this is why a span that
    starts in front of its construct is harmless as long as an operand is compiled next) -/
theorem J.skipSetLine {g : Bool} {lo hi : Nat} {b : List Ev} (l : Nat) (hb : J false g lo hi b) :
    J false g lo hi (.setLine l :: b) := by
  intro s _
  obtain ⟨b1, b2, b3, b4, b5⟩ := hb { s with cur := l } (by intro h; cases h)
  exact ⟨by simpa [execL_cons, stepL] using b1, b2, b3, b4, b5⟩

theorem J.skipPush {g : Bool} {lo hi : Nat} {b : List Ev} (sp : Span) (hb : J false g lo hi b) :
    J false g lo hi (.push sp :: b) := by
  intro s _
  obtain ⟨b1, b2, b3, b4, b5⟩ := hb { s with cur := sp.startLine } (by intro h; cases h)
  exact ⟨by simpa [execL_cons, stepL] using b1, b2, b3, b4, b5⟩

/-- the body of a `{% block %}` runs in a sub-generator -/
theorem J.block {lo hi : Nat} {body : List Ev} (nm : String) (hb : J true false lo hi body) :
    J true false lo hi ([.blockBegin nm] ++ body ++ [.blockEnd]) := by
  intro s hs
  obtain ⟨b1, b2, _, _, b5⟩ := hb { s with prev := none, saved := s.prev :: s.saved } hs
  have e1 : execL s ([.blockBegin nm] ++ body ++ [.blockEnd]) =
      ({ (execL { s with prev := none, saved := s.prev :: s.saved } body).1 with
          prev := (execL { s with prev := none, saved := s.prev :: s.saved } body).1.saved.head?.join,
          saved := (execL { s with prev := none, saved := s.prev :: s.saved } body).1.saved.tail },
        (execL { s with prev := none, saved := s.prev :: s.saved } body).2) := by
    rw [List.append_assoc, List.singleton_append, execL_cons, execL_append]
    simp [stepL, execL_cons, execL_nil]
  rw [e1]
  refine ⟨b1, b2, Or.inl ?_, (by intro h; cases h), ?_⟩
  · simp [b5]
  · simp [b5]

/-- cons forms -/
theorem J.cons {n g1 g2 : Bool} {lo hi : Nat} {e : Ev} {b : List Ev} (ha : J n g1 lo hi [e]) (hb : J true g2 lo hi b) :
    J n (g1 || g2) lo hi (e :: b) := J.seq ha hb

end MJ.LocAst

namespace MJ.LocAst
open MJ MJ.Loc

/-! ## goal-directed forms and the `jauto` tactic -/

theorem J.seqF {n : Bool} {lo hi : Nat} {a b : List Ev} (ha : J n false lo hi a) (hb : J true false lo hi b) :
    J n false lo hi (a ++ b) := (J.seq ha hb).weaken _ _ id (by simp)
theorem J.seqT2 {n : Bool} {lo hi : Nat} {a b : List Ev} (ha : J n false lo hi a) (hb : J true true lo hi b) :
    J n true lo hi (a ++ b) := (J.seq ha hb).weaken _ _ id (by simp)
theorem J.seqT1 {n : Bool} {lo hi : Nat} {a b : List Ev} (ha : J n true lo hi a) (hb : J true false lo hi b) :
    J n true lo hi (a ++ b) := (J.seq ha hb).weaken _ _ id (by simp)
theorem J.consF {n : Bool} {lo hi : Nat} {e e2 : Ev} {b : List Ev} (ha : J n false lo hi [e]) (hb : J true false lo hi (e2 :: b)) :
    J n false lo hi (e :: e2 :: b) := J.seqF ha hb
theorem J.consT2 {n : Bool} {lo hi : Nat} {e e2 : Ev} {b : List Ev} (ha : J n false lo hi [e]) (hb : J true true lo hi (e2 :: b)) :
    J n true lo hi (e :: e2 :: b) := J.seqT2 ha hb
theorem J.consT1 {n : Bool} {lo hi : Nat} {e e2 : Ev} {b : List Ev} (ha : J n true lo hi [e]) (hb : J true false lo hi (e2 :: b)) :
    J n true lo hi (e :: e2 :: b) := J.seqT1 ha hb

theorem J.addG (g : Bool) (nm : String) (lo hi : Nat) : J true g lo hi [.add nm lo hi] :=
  (J.add nm lo hi).weaken _ _ id (by simp)
theorem J.addSpanG (g : Bool) (nm : String) {lo hi : Nat} {sp : Span} (hsp : InR lo hi sp.startLine) :
    J true g lo hi [.addSpan nm sp lo hi] := (J.addSpan nm hsp).weaken _ _ id (by simp)
theorem J.setLineG (n : Bool) {lo hi l : Nat} (h : InR lo hi l) : J n false lo hi [.setLine l] :=
  (J.setLine h).weaken _ _ (by intro h; cases h) id
theorem J.pushG (n : Bool) {lo hi : Nat} {sp : Span} (h : InR lo hi sp.startLine) : J n false lo hi [.push sp] :=
  (J.push h).weaken _ _ (by intro h; cases h) id
theorem J.skipPushA {n g : Bool} {lo hi : Nat} {b : List Ev} (sp : Span) (hb : J false g lo hi b) :
    J n g lo hi ([.push sp] ++ b) := (J.skipPush sp hb).weaken _ _ (by intro h; cases h) id
theorem J.skipSetLineA {n g : Bool} {lo hi : Nat} {b : List Ev} (l : Nat) (hb : J false g lo hi b) :
    J n g lo hi ([.setLine l] ++ b) := (J.skipSetLine l hb).weaken _ _ (by intro h; cases h) id
theorem J.nilG (lo hi : Nat) : J true false lo hi [] := J.nil lo hi
/-- anything that holds without a current line and establishes the previous one holds in every mode -/
theorem J.all {lo hi : Nat} {evs : List Ev} (h : J false true lo hi evs) (n g : Bool) : J n g lo hi evs :=
  h.weaken n g (by intro h; cases h) (by simp)

theorem J.dropG {n : Bool} {lo hi : Nat} {evs : List Ev} (h : J n true lo hi evs) : J n false lo hi evs :=
  h.weaken _ _ id (by simp)

open Lean Elab Tactic Meta in
/-- keep only the hypotheses `jgo` can use: judgments `J`, ranges `InR` and the small (in)equalities that
    `split` adds -/
elab "jkeep" : tactic => do
  let g ← getMainGoal
  g.withContext do
    let mut toClear := #[]
    for d in ← getLCtx do
      if d.isImplementationDetail then continue
      let ty ← instantiateMVars d.type
      if ← isProp ty then
        let body := ty.getForallBody
        let keep := body.isAppOf ``MJ.LocAst.J || body.isAppOf ``MJ.LocAst.InR ||
          ((body.isAppOf ``Not || body.isAppOf ``Eq) && ty.sizeWithoutSharing ≤ 80)
        unless keep do toClear := toClear.push d.fvarId
    let g' ← g.tryClearMany toClear
    replaceMainGoal [g']

open Lean Elab Tactic Meta in
/-- close the goal with a hypothesis whose conclusion is a judgment `J`, its premises by assumption -/
elab "jleaf" : tactic => do
  let g ← getMainGoal
  g.withContext do
    for d in (← getLCtx) do
      if d.isImplementationDetail then continue
      let ty ← instantiateMVars d.type
      if ty.getForallBody.isAppOf ``MJ.LocAst.J then
        let s ← saveState
        try
          let gs ← withReducible (g.apply d.toExpr)
          for g' in gs do g'.assumption
          replaceMainGoal []
          return
        catch _ => restoreState s
    throwError "jleaf: no hypothesis applies"

syntax "jgo" : tactic
macro_rules
  | `(tactic| jgo) => `(tactic|
    first
    | exact J.nilG _ _
    | exact J.addG _ _ _ _
    | exact J.pop _ _
    | exact J.addSpanG _ _ (by assumption)
    | exact J.setLineG _ (by assumption)
    | exact J.pushG _ (by assumption)
    | (apply J.all; assumption)
    | (apply J.dropG; assumption)
    | jleaf
    | ((with_reducible apply J.seqF) <;> jgo)
    | ((with_reducible apply J.seqT2) <;> jgo)
    | ((with_reducible apply J.seqT1) <;> jgo)
    | ((with_reducible apply J.consF) <;> jgo)
    | ((with_reducible apply J.consT2) <;> jgo)
    | ((with_reducible apply J.consT1) <;> jgo)
    | ((with_reducible apply J.skipPushA); jgo)
    | ((with_reducible apply J.skipSetLineA); jgo)
    | (split <;> jgo))

macro "jauto" : tactic => `(tactic| (jkeep; jgo))

example (lo hi : Nat) (sp : Span) (h : InR lo hi sp.startLine) (x : List Ev) (hx : ∀ n g, J n g lo hi x) :
    J false true lo hi ([.push sp] ++ x ++ [.add "GetAttr" lo hi, .pop]) := by
  jauto


/-! ## helpers of the code generator -/

theorem J.emitCompare (op : String) (lo hi : Nat) : J true true lo hi (emitCompare op lo hi) := by
  unfold MJ.LocAst.emitCompare
  jauto

theorem J.startFor (g : Bool) (lo hi : Nat) : J true g lo hi (startFor lo hi) := by
  unfold MJ.LocAst.startFor
  cases g <;> jauto

theorem J.endFor (g p : Bool) (lo hi : Nat) : J true g lo hi (endFor p lo hi) := by
  unfold MJ.LocAst.endFor
  cases g <;> jauto

theorem J.leaveScopes (lo hi : Nat) (ctx : List Pend) : J true false lo hi (leaveScopes lo hi ctx) := by
  induction ctx with
  | nil => exact J.nil _ _
  | cons p r ih =>
    cases p <;> simp only [MJ.LocAst.leaveScopes]
    · exact J.nil _ _
    · exact J.seqF (a := [_]) (J.addG _ _ _ _) ih
    · exact J.seqF (a := [_, _]) (by jauto) ih
    · exact J.seqF (a := [_]) (J.addG _ _ _ _) ih

theorem J.replicateAdd (nm : String) (lo hi k : Nat) : J true false lo hi (List.replicate k (.add nm lo hi)) := by
  induction k with
  | zero => exact J.nil _ _
  | succ k ih =>
    rw [List.replicate_succ]
    exact J.seqF (a := [_]) (J.addG _ _ _ _) ih

/-- what `cCallBody` is given for the caller macro of a call block: it only emits correct lines -/
def CallerOk (c : Option (List Ev)) : Prop :=
  ∀ evs, c = some evs → ∀ s, OutOk (execL s evs).2 ∧ (execL s evs).1.saved = s.saved

theorem J.callerPart {lo hi l : Nat} {evs rest : List Ev} (nm : String)
    (hc : ∀ s, OutOk (execL s evs).2 ∧ (execL s evs).1.saved = s.saved) (hl : InR lo hi l)
    (hr : J true true lo hi rest) : J true true lo hi (([.add nm lo hi] ++ evs ++ [.setLine l]) ++ rest) := by
  intro s hs
  have h0 := hs rfl
  rw [execL_append, execL_append, execL_append]
  simp only [execL_cons, execL_nil, stepL, List.append_nil]
  obtain ⟨c1, c2⟩ := hc { s with prev := some s.cur }
  obtain ⟨r1, r2, _, r4, r5⟩ := hr { (execL { s with prev := some s.cur } evs).1 with cur := l } (fun _ => hl)
  refine ⟨?_, r2, Or.inr (r4 rfl), fun _ => r4 rfl, ?_⟩
  · apply OutOk_append (OutOk_append ?_ c1) r1
    intro e he
    simp only [List.mem_singleton] at he
    subst he
    simp [Em.ok, h0.1, h0.2]
  · rw [r5]; exact c2

theorem J.kwBuild (lo hi pk nb : Nat) : J true true lo hi (kwBuild lo hi pk nb) := by
  unfold MJ.LocAst.kwBuild
  jauto

theorem J.argsList (lo hi p b : Nat) : J true false lo hi (argsList lo hi p b) := by
  unfold MJ.LocAst.argsList
  jauto

theorem J.argsKw {lo hi l : Nat} (args : List Node) (c : Option (List Ev)) (hc : CallerOk c) (hl : InR lo hi l) :
    J true false lo hi (argsKw lo hi l args c) := by
  unfold MJ.LocAst.argsKw
  split
  · exact J.nil _ _
  · split
    · jauto
    · cases c with
      | none => exact (J.kwBuild _ _ _ _).weaken _ _ id (by simp)
      | some evs => exact (J.callerPart _ (hc evs rfl) hl (J.kwBuild _ _ _ _)).weaken _ _ id (by simp)

theorem J.argsTail {lo hi l : Nat} (extra : Nat) (args : List Node) (c : Option (List Ev)) (hc : CallerOk c)
    (hl : InR lo hi l) : J true false lo hi (argsTail lo hi l extra args c) :=
  J.seqF (J.argsKw args c hc hl) (J.argsList _ _ _ _)

/-! ## what is shown by recursion over the tree -/

def M (n : Node) : Prop :=
  (wf n = true → isE n = true → ∀ ctx, J false true n.lo n.hi (cExpr ctx n)) ∧
  (wf n = true → ∀ ctx LO HI, LO ≤ n.lo → n.hi ≤ HI → J true false LO HI (cStmt ctx n)) ∧
  (wf n = true → ∀ ctx LO HI, LO ≤ n.lo → n.hi ≤ HI → J true false LO HI (cAssign ctx LO HI n))

def WFs (LO HI : Nat) (l : List Node) : Prop := ∀ n ∈ l, wf n = true ∧ LO ≤ n.lo ∧ n.hi ≤ HI

def Facts (l : List Node) : Prop := ∀ LO HI, WFs LO HI l → ∀ ctx,
  ((∀ n ∈ l, isE n = true) → J true false LO HI (cExprs ctx l)) ∧
  ((∀ n ∈ l, n.kind = .cmpop) → J true false LO HI (cCmpOps ctx LO HI l)) ∧
  (∀ p, J true false LO HI (cArgs1 ctx LO HI p l)) ∧
  (∀ st p, J true false LO HI (cArgs2 ctx LO HI st p l)) ∧
  J true false LO HI (cAssigns ctx LO HI l) ∧
  J true false LO HI (cMacroKids ctx LO HI l) ∧
  J true false LO HI (cWithKids ctx LO HI l) ∧
  J true false LO HI (cImportNames ctx LO HI l) ∧
  J true false LO HI (cStmts ctx l) ∧
  (∀ c sp, CallerOk c → InR LO HI sp.startLine → (∀ h, l.head? = some h → isE h = true) → l ≠ [] →
    J false true LO HI (cCallBody ctx c sp LO HI l))

def K (n : Node) : Prop := (∀ c ∈ n.kids, M c) ∧ (∀ t, t <:+ n.kids → Facts t)

/-! ### reading `wf` -/

theorem wf_mk {kind : Kind} {sp : Span} {flag : Bool} {name : String} {num lo hi : Nat} {kids : List Node}
    (h : wf (.mk kind sp flag name num lo hi kids) = true) :
    lo ≤ hi ∧ (mustAnchor (.mk kind sp flag name num lo hi []) = true → InR lo hi sp.startLine) ∧
      (kind = .const → flag = true) ∧ shapeOk kind kids = true ∧ wfKids lo hi kids = true := by
  unfold wf at h
  simp only [Bool.and_eq_true, decide_eq_true_eq, Bool.or_eq_true, Bool.not_eq_true', bne_iff_ne, ne_eq] at h
  obtain ⟨⟨⟨⟨h1, h2⟩, h3⟩, h4⟩, h5⟩ := h
  refine ⟨h1, ?_, ?_, h4, h5⟩
  · intro hm
    rcases h2 with h2 | h2
    · rw [hm] at h2; cases h2
    · exact h2
  · intro hk
    rcases h3 with h3 | h3
    · exact absurd hk h3
    · exact h3

theorem wfKids_WFs {lo hi : Nat} {l : List Node} (h : wfKids lo hi l = true) : WFs lo hi l := by
  induction l with
  | nil => intro n hn; cases hn
  | cons a r ih =>
    unfold wfKids at h
    simp only [Bool.and_eq_true, decide_eq_true_eq] at h
    intro n hn
    rcases List.mem_cons.mp hn with rfl | hn
    · exact ⟨h.1.2, h.1.1.1, h.1.1.2⟩
    · exact ih h.2 n hn

theorem wf_anchor {n : Node} (hw : wf n = true) (hm : mustAnchor n = true) : InR n.lo n.hi n.sp.startLine := by
  cases n with
  | mk kind sp flag name num lo hi kids =>
    have h := (wf_mk hw).2.1
    apply h
    simpa [mustAnchor, startsAtPreviousToken, Node.kind, Node.flag, Node.name] using hm

theorem WFs.mono {LO HI lo hi : Nat} {l : List Node} (h : WFs lo hi l) (h1 : LO ≤ lo) (h2 : hi ≤ HI) : WFs LO HI l := by
  intro n hn
  obtain ⟨a, b, c⟩ := h n hn
  exact ⟨a, by omega, by omega⟩

theorem WFs.tail {LO HI : Nat} {a : Node} {l : List Node} (h : WFs LO HI (a :: l)) : WFs LO HI l :=
  fun n hn => h n (List.mem_cons_of_mem _ hn)

/-- a child expression, placed in the range of its parent -/
theorem M.expr {c : Node} (hm : M c) (hw : wf c = true) (he : isE c = true) {lo hi : Nat} (h1 : lo ≤ c.lo) (h2 : c.hi ≤ hi)
    (ctx : List Pend) : ∀ n g, J n g lo hi (cExpr ctx c) :=
  fun n g => (hm.1 hw he ctx).use h1 h2 n g (by simp)

theorem M.exprO {c : Node} (hm : M c) (hw : wf c = true) (he : isEo c = true) {lo hi : Nat} (h1 : lo ≤ c.lo) (h2 : c.hi ≤ hi)
    (ctx : List Pend) : ¬((c.kind == Kind.absent) = true) → ∀ n g, J n g lo hi (cExpr ctx c) := by
  intro hk
  have : isE c = true := by
    unfold isEo at he
    simp only [Bool.or_eq_true] at he
    rcases he with h | h
    · exact absurd h hk
    · exact h
  exact hm.expr hw this h1 h2 ctx


/-! ### the list functions -/

attribute [local irreducible] cExpr cExprs cCmpOps cCallBody cArgs1 cArgs2 cAssign cAssigns cMacroKids cWithKids cImportNames
  cStmt cStmts


theorem K.kid {n c : Node} (hk : K n) (hc : c ∈ n.kids) : M c := hk.1 c hc

theorem Facts.nil : Facts [] := by
  intro LO HI _ ctx
  refine ⟨fun _ => ?_, fun _ => ?_, fun _ => ?_, fun _ _ => ?_, ?_, ?_, ?_, ?_, ?_, ?_⟩
  · unfold cExprs; exact J.nil _ _
  · unfold cCmpOps; exact J.nil _ _
  · unfold cArgs1; exact J.nil _ _
  · unfold cArgs2; exact J.nil _ _
  · unfold cAssigns; exact J.nil _ _
  · unfold cMacroKids; exact J.nil _ _
  · unfold cWithKids; exact J.nil _ _
  · unfold cImportNames; exact J.nil _ _
  · unfold cStmts; exact J.nil _ _
  · intro c sp _ _ _ h
    exact absurd rfl h

/-- the kids of a well-formed node, in the range of a construct that contains the node -/
theorem kids_in {h : Node} {LO HI : Nat} (hw : wf h = true) (h1 : LO ≤ h.lo) (h2 : h.hi ≤ HI) :
    WFs LO HI h.kids ∧ shapeOk h.kind h.kids = true := by
  cases h with
  | mk kind sp flag name num lo hi kids =>
    obtain ⟨_, _, _, hs, hk⟩ := wf_mk hw
    exact ⟨(wfKids_WFs hk).mono h1 h2, hs⟩

set_option maxHeartbeats 4000000 in
theorem Facts.cons {h : Node} {t : List Node} (hM : M h) (hK : K h) (ih : Facts t) : Facts (h :: t) := by
  intro LO HI hwf ctx
  obtain ⟨hw, h1, h2⟩ := hwf h (List.mem_cons_self ..)
  have hwt : WFs LO HI t := hwf.tail
  obtain ⟨i1, i2, i3, i4, i5, i6, i7, i8, i9, _⟩ := ih LO HI hwt ctx
  obtain ⟨hkids, hshape⟩ := kids_in hw h1 h2
  refine ⟨?_, ?_, ?_, ?_, ?_, ?_, ?_, ?_, ?_, ?_⟩
  · -- cExprs
    intro he
    unfold cExprs
    exact J.seqF (hM.expr hw (he h (List.mem_cons_self ..)) h1 h2 ctx _ _) (i1 (fun n hn => he n (List.mem_cons_of_mem _ hn)))
  · -- cCmpOps
    intro hc
    have hkind := hc h (List.mem_cons_self ..)
    have ht := i2 (fun n hn => hc n (List.mem_cons_of_mem _ hn))
    unfold cCmpOps
    split
    · cases ‹h :: t = []›
    · rename_i heq
      injection heq with e1 e2
      subst e1; subst e2
      simp only [Node.kind] at hkind; subst hkind
      simp only [Node.kind, Node.kids, shapeOk] at hshape hkids
      have hx := hkids _ (List.mem_singleton.mpr rfl)
      have hmx := hK.kid (c := _) (List.mem_singleton.mpr rfl)
      have := hmx.expr hx.1 hshape hx.2.1 hx.2.2 ctx
      have := J.emitCompare ‹String› LO HI
      jauto
    · rename_i heq
      injection heq with e1 e2
      subst e1; subst e2
      simp only [Node.kind] at hkind; subst hkind
      simp only [Node.kind, Node.kids, shapeOk] at hshape hkids
      have hx := hkids _ (List.mem_singleton.mpr rfl)
      have hmx := hK.kid (c := _) (List.mem_singleton.mpr rfl)
      have := hmx.expr hx.1 hshape hx.2.1 hx.2.2 ctx
      jauto
    · rename_i heq
      injection heq with e1 e2
      subst e1; subst e2
      exact ht
  · -- cArgs1
    intro p
    unfold cArgs1
    split
    · cases ‹h :: t = []›
    · rename_i heq
      injection heq with e1 e2
      subst e1; subst e2
      simp only [Node.kind, Node.kids, shapeOk] at hshape hkids
      have hx := hkids _ (List.mem_singleton.mpr rfl)
      have hmx := hK.kid (c := _) (List.mem_singleton.mpr rfl)
      have := hmx.expr hx.1 hshape hx.2.1 hx.2.2 ctx
      have := i3
      jauto
    · rename_i heq
      injection heq with e1 e2
      subst e1; subst e2
      simp only [Node.kind, Node.kids, shapeOk] at hshape hkids
      have hx := hkids _ (List.mem_singleton.mpr rfl)
      have hmx := hK.kid (c := _) (List.mem_singleton.mpr rfl)
      have := hmx.expr hx.1 hshape hx.2.1 hx.2.2 ctx
      have := i3
      jauto
    · rename_i heq
      injection heq with e1 e2
      subst e1; subst e2
      exact i3 _
  · -- cArgs2
    intro st p
    unfold cArgs2
    split
    · cases ‹h :: t = []›
    · rename_i heq
      injection heq with e1 e2
      subst e1; subst e2
      simp only [Node.kind, Node.kids, shapeOk] at hshape hkids
      have hx := hkids _ (List.mem_singleton.mpr rfl)
      have hmx := hK.kid (c := _) (List.mem_singleton.mpr rfl)
      have := hmx.expr hx.1 hshape hx.2.1 hx.2.2 ctx
      have := i4
      jauto
    · rename_i heq
      injection heq with e1 e2
      subst e1; subst e2
      simp only [Node.kind, Node.kids, shapeOk] at hshape hkids
      have hx := hkids _ (List.mem_singleton.mpr rfl)
      have hmx := hK.kid (c := _) (List.mem_singleton.mpr rfl)
      have hE := hmx.expr hx.1 hshape hx.2.1 hx.2.2 ctx
      refine J.seqF (J.seqF ?_ (hE _ _)) (i4 _ _)
      split
      · exact J.addG _ _ _ _
      · exact J.nil _ _
    · rename_i heq
      injection heq with e1 e2
      subst e1; subst e2
      exact i4 _ _
  · -- cAssigns
    unfold cAssigns
    exact J.seqF (hM.2.2 hw ctx LO HI h1 h2) i5
  · -- cMacroKids
    unfold cMacroKids
    split
    · cases ‹h :: t = []›
    · rename_i heq
      injection heq with e1 e2
      subst e1; subst e2
      simp only [Node.kind, Node.kids, shapeOk] at hshape hkids
      have ha := hkids _ (List.mem_cons_self ..)
      have hd := hkids _ (List.mem_cons_of_mem _ (List.mem_singleton.mpr rfl))
      have hma := hK.kid (c := _) (List.mem_cons_self ..)
      have hmd := hK.kid (c := _) (List.mem_cons_of_mem _ (List.mem_singleton.mpr rfl))
      have := hmd.exprO hd.1 hshape hd.2.1 hd.2.2 ctx
      have := hma.2.2 ha.1 ctx LO HI ha.2.1 ha.2.2
      jauto
    · rename_i heq
      injection heq with e1 e2
      subst e1; subst e2
      have hb := (hK.2 _ (List.suffix_refl _) LO HI hkids ctx).2.2.2.2.2.2.2.2.1
      simp only [Node.kids] at hb
      jauto
    · rename_i heq
      injection heq with e1 e2
      subst e1; subst e2
      exact i6
  · -- cWithKids
    unfold cWithKids
    split
    · cases ‹h :: t = []›
    · rename_i heq
      injection heq with e1 e2
      subst e1; subst e2
      simp only [Node.kind, Node.kids, shapeOk] at hshape hkids
      have ha := hkids _ (List.mem_cons_self ..)
      have hd := hkids _ (List.mem_cons_of_mem _ (List.mem_singleton.mpr rfl))
      have hma := hK.kid (c := _) (List.mem_cons_self ..)
      have hmd := hK.kid (c := _) (List.mem_cons_of_mem _ (List.mem_singleton.mpr rfl))
      have := hmd.expr hd.1 hshape hd.2.1 hd.2.2 ctx
      have := hma.2.2 ha.1 ctx LO HI ha.2.1 ha.2.2
      jauto
    · rename_i heq
      injection heq with e1 e2
      subst e1; subst e2
      have hb := (hK.2 _ (List.suffix_refl _) LO HI hkids (Pend.withS :: ctx)).2.2.2.2.2.2.2.2.1
      simp only [Node.kids] at hb
      jauto
    · rename_i heq
      injection heq with e1 e2
      subst e1; subst e2
      exact i7
  · -- cImportNames
    unfold cImportNames
    split
    · cases ‹h :: t = []›
    · rename_i heq
      injection heq with e1 e2
      subst e1; subst e2
      simp only [Node.kids] at hkids
      have ha := hkids _ (List.mem_cons_self ..)
      have hd := hkids _ (List.mem_cons_of_mem _ (List.mem_singleton.mpr rfl))
      have hma := hK.kid (c := _) (List.mem_cons_self ..)
      have hmd := hK.kid (c := _) (List.mem_cons_of_mem _ (List.mem_singleton.mpr rfl))
      have := hma.2.2 ha.1 ctx LO HI ha.2.1 ha.2.2
      have := hmd.2.2 hd.1 ctx LO HI hd.2.1 hd.2.2
      rename_i nm al _
      have hnv : nm.kind = .var := by simpa [Node.kind, Node.kids, shapeOk] using hshape
      have ha0 := wf_anchor ha.1 (by simp [mustAnchor, spanless, startsAtPreviousToken, hnv])
      have hsp : InR LO HI nm.sp.startLine := ⟨by have := ha0.1; omega, by have := ha0.2; omega⟩
      jauto
    · rename_i heq
      injection heq with e1 e2
      subst e1; subst e2
      exact i8
  · -- cStmts
    unfold cStmts
    exact J.seqF (hM.2.1 hw ctx LO HI h1 h2) i9
  · -- cCallBody
    intro c sp hc hsp hhead _
    have hT0 := J.argsTail (l := sp.startLine) 0 t c hc hsp
    have hT1 := J.argsTail (l := sp.startLine) 1 t c hc hsp
    unfold cCallBody
    split
    · cases ‹h :: t = []›
    · rename_i heq
      injection heq with e1 e2
      subst e1; subst e2
      have := i3
      have := i4
      jauto
    · rename_i heq
      injection heq with e1 e2
      subst e1; subst e2
      simp only [Node.kind, Node.kids, shapeOk] at hshape hkids
      have hx := hkids _ (List.mem_singleton.mpr rfl)
      have hmx := hK.kid (c := _) (List.mem_singleton.mpr rfl)
      have := hmx.expr hx.1 hshape hx.2.1 hx.2.2 ctx
      have := i3
      have := i4
      jauto
    · rename_i heq
      injection heq with e1 e2
      subst e1; subst e2
      have := hM.expr hw (hhead _ rfl) h1 h2 ctx
      have := i3
      have := i4
      jauto

end MJ.LocAst
