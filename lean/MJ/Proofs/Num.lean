import MJ.Model.Num
/-! Helper lemmas for C08 (property theorems are in `MJ/Props/C08.lean`). -/
namespace MJ.Num

theorem wrapI128_of_in {x : Int} (h : InI128 x) : wrapI128 x = x := by
  unfold InI128 at h
  unfold wrapI128
  simp only []
  split <;> omega

theorem wrapI64_range (x : Int) : -9223372036854775808 ≤ wrapI64 x ∧ wrapI64 x < 9223372036854775808 := by
  unfold wrapI64
  simp only []
  split <;> omega

theorem wrapI64_eq_iff (x : Int) :
    wrapI64 x = x ↔ (-9223372036854775808 ≤ x ∧ x < 9223372036854775808) := by
  unfold wrapI64
  simp only []
  split <;> omega

theorem inI128_of_i64 {x : Int} (h : -9223372036854775808 ≤ x ∧ x < 9223372036854775808) : InI128 x := by
  unfold InI128; omega

/-- `int_as_value` never changes the number -/
theorem intAsValue_val (v : Int) : (intAsValue v).val = v := by
  unfold intAsValue
  split
  · rename_i h
    have h2 := wrapI128_of_in (inI128_of_i64 (wrapI64_range v))
    rw [h2] at h
    simp [NumRepr.val, h]
  · rfl

/-- and produces a well-formed representation for every `i128` -/
theorem intAsValue_wf {v : Int} (h : InI128 v) : (intAsValue v).WF := by
  unfold intAsValue
  split
  · exact wrapI64_range v
  · exact h

/-- it picks the narrow representation exactly on the `i64` range -/
theorem intAsValue_eq (v : Int) :
    intAsValue v = if -9223372036854775808 ≤ v ∧ v < 9223372036854775808 then .i64 v else .i128 v := by
  unfold intAsValue
  have h2 := wrapI128_of_in (inI128_of_i64 (wrapI64_range v))
  rw [h2]
  by_cases h : -9223372036854775808 ≤ v ∧ v < 9223372036854775808
  · rw [if_pos ((wrapI64_eq_iff v).2 h), if_pos h, (wrapI64_eq_iff v).2 h]
  · rw [if_neg (fun hh => h ((wrapI64_eq_iff v).1 hh)), if_neg h]

theorem wf_u64_in {n : Nat} (h : (NumRepr.u64 n).WF) : InI128 (n : Int) := by
  unfold NumRepr.WF at h; unfold InI128; omega

theorem wf_i64_in {i : Int} (h : (NumRepr.i64 i).WF) : InI128 i := by
  unfold NumRepr.WF at h; unfold InI128; omega

theorem i128OfU128_some {n : Nat} (h : InI128 (n : Int)) : i128OfU128 n = some (n : Int) := by
  unfold i128OfU128
  have : n < 170141183460469231731687303715884105728 := by unfold InI128 at h; omega
  rw [if_pos this]

theorem i128OfU128_none {n : Nat} (h : ¬ InI128 (n : Int)) : i128OfU128 n = none := by
  unfold i128OfU128
  have : ¬ (n < 170141183460469231731687303715884105728) := by
    intro hh; apply h; unfold InI128; omega
  rw [if_neg this]

/-- `i128::try_from(value)` succeeds exactly on the `i128` range and returns the number -/
theorem toI128_some {a : NumRepr} (h : a.WF) (hin : InI128 a.val) : toI128 a = some a.val := by
  cases a with
  | u64 n => rfl
  | i64 i => rfl
  | u128 n => exact i128OfU128_some hin
  | i128 i => rfl

theorem toI128_none {a : NumRepr} (h : a.WF) (hin : ¬ InI128 a.val) : toI128 a = none := by
  cases a with
  | u64 n => exact absurd (wf_u64_in h) hin
  | i64 i => exact absurd (wf_i64_in h) hin
  | u128 n => exact i128OfU128_none hin
  | i128 i => exact absurd h hin

/-- `coerce` succeeds exactly when both numbers are `i128`s, and then returns the numbers
    themselves — whatever the representations -/
theorem coerceViaTryFrom_some {a b : NumRepr} (ha : a.WF) (hb : b.WF) (h1 : InI128 a.val) (h2 : InI128 b.val) :
    coerceViaTryFrom a b = some (a.val, b.val) := by
  unfold coerceViaTryFrom
  rw [toI128_some ha h1, toI128_some hb h2]

theorem coerceViaTryFrom_none {a b : NumRepr} (ha : a.WF) (hb : b.WF) (h : ¬ (InI128 a.val ∧ InI128 b.val)) :
    coerceViaTryFrom a b = none := by
  unfold coerceViaTryFrom
  by_cases h1 : InI128 a.val
  · rw [toI128_some ha h1, toI128_none hb (fun h2 => h ⟨h1, h2⟩)]
  · rw [toI128_none ha h1]

theorem coerce_some {a b : NumRepr} (ha : a.WF) (hb : b.WF) (h1 : InI128 a.val) (h2 : InI128 b.val) :
    coerce a b = some (a.val, b.val) := by
  have key := coerceViaTryFrom_some ha hb h1 h2
  cases a with
  | u64 x =>
    cases b with
    | u64 y =>
      show some (wrapI128 x, wrapI128 y) = some ((x : Int), (y : Int))
      rw [wrapI128_of_in (wf_u64_in ha), wrapI128_of_in (wf_u64_in hb)]
    | _ => exact key
  | i64 x =>
    cases b with
    | i64 y =>
      show some (wrapI128 x, wrapI128 y) = some (x, y)
      rw [wrapI128_of_in (wf_i64_in ha), wrapI128_of_in (wf_i64_in hb)]
    | _ => exact key
  | u128 x =>
    cases b with
    | u128 y =>
      show coerceU128 x y = some ((x : Int), (y : Int))
      unfold coerceU128
      rw [i128OfU128_some h1, i128OfU128_some h2]
    | _ => exact key
  | i128 x =>
    cases b with
    | i128 y => rfl
    | _ => exact key

theorem coerce_none {a b : NumRepr} (ha : a.WF) (hb : b.WF) (h : ¬ (InI128 a.val ∧ InI128 b.val)) :
    coerce a b = none := by
  have key := coerceViaTryFrom_none ha hb h
  cases a with
  | u64 x =>
    cases b with
    | u64 y => exact absurd ⟨wf_u64_in ha, wf_u64_in hb⟩ h
    | _ => exact key
  | i64 x =>
    cases b with
    | i64 y => exact absurd ⟨wf_i64_in ha, wf_i64_in hb⟩ h
    | _ => exact key
  | u128 x =>
    cases b with
    | u128 y =>
      show coerceU128 x y = none
      unfold coerceU128
      by_cases h1 : InI128 (x : Int)
      · rw [i128OfU128_some h1, i128OfU128_none (fun h2 => h ⟨h1, h2⟩)]
      · rw [i128OfU128_none h1]
    | _ => exact key
  | i128 x =>
    cases b with
    | i128 y => exact absurd ⟨ha, hb⟩ h
    | _ => exact key

theorem chk_some {x v : Int} (h : chk x = some v) : v = x ∧ InI128 x := by
  unfold chk at h
  split at h
  · rename_i hx; exact ⟨by injection h with h; exact h.symm, hx⟩
  · cases h

theorem chk_of_in {x : Int} (h : InI128 x) : chk x = some x := by
  unfold chk; rw [if_pos h]

/-- a power of a base of magnitude ≥ 2 with exponent ≥ 128 is no `i128` -/
theorem pow_big_not_in {a : Int} {e : Nat} (ha : 2 ≤ a.natAbs) (he : 128 ≤ e) : ¬ InI128 (a ^ e) := by
  intro h
  have h1 : (a ^ e).natAbs = a.natAbs ^ e := Int.natAbs_pow a e
  have h2 : 2 ^ 128 ≤ a.natAbs ^ e :=
    Nat.le_trans (Nat.pow_le_pow_right (by decide) he) (Nat.pow_le_pow_left ha e)
  have h3 : (2 : Nat) ^ 128 = 340282366920938463463374607431768211456 := by decide
  unfold InI128 at h
  omega

/-- the executable shortcut in `checkedPow` does not change the function -/
theorem checkedPow_eq_chk (a : Int) (e : Nat) : checkedPow a e = chk (a ^ e) := by
  unfold checkedPow
  split
  · rename_i h
    unfold chk
    rw [if_neg (pow_big_not_in h.1 h.2)]
  · rfl

theorem finish_ok {o : Option Int} {r : NumRepr} (h : finish o = .ok r) : ∃ v, o = some v ∧ r = intAsValue v := by
  cases o with
  | none => simp [finish] at h
  | some v => exact ⟨v, rfl, by simp [finish] at h; exact h.symm⟩

end MJ.Num
