import MJ.Model.JsonFloatRT
import MJ.Proofs.JsonFloat
/-!
# The digits printed for a finite double lie in its rounding interval (C16)

`shortestDec` searches, in exact integer arithmetic, for the decimal `d·10^k` with the largest `k` inside the
double's rounding interval.  Proved here: whenever the search stops at a candidate (`f64Found`), the decimal it
returns lies in the interval — open or closed exactly as round-to-nearest-even makes it — so a correctly rounded
reader gives the double back.  Also proved: the search stops at a candidate for every finite non-zero double (`f64Found_all`: at 10^-325 the
interval is wider than three units and the search reaches that power within its 800 steps; the driver still
evaluates `f64Found` on every case of the `ff` stream).  Also proved: ryu's layout of the digits (`layoutF`, five cases) is a token that an independent digit-by-digit reader
(`readTok`) evaluates to `d·10^k` (`readTok_layout`), hence `f64Text_denotes`.  Formerly not proved: that ryu's layout of the digits denotes
`d·10^k` (the emitted token is read by Python's and Rust's correctly rounded readers on every float case).
-/
namespace MJ.Json

theorem ceilDiv_mul_ge (x b : Nat) (hb : 0 < b) : x ≤ ceilDiv x b * b := by
  unfold ceilDiv
  have h1 := Nat.div_add_mod (x + b - 1) b
  have h2 := Nat.mod_lt (x + b - 1) hb
  have : b * ((x + b - 1) / b) = (x + b - 1) / b * b := Nat.mul_comm _ _
  omega

theorem ceilDiv_mul_gt_of_dvd (x b : Nat) (hb : 0 < b) (h : x % b = 0) : ceilDiv x b * b = x := by
  unfold ceilDiv
  have h1 := Nat.div_add_mod x b
  rw [h, Nat.add_zero] at h1
  have h3 : (x + b - 1) / b = x / b := by
    have : x + b - 1 = (b - 1) + b * (x / b) := by omega
    rw [this, Nat.add_mul_div_left _ _ hb, Nat.div_eq_of_lt (by omega)]
    omega
  rw [h3, Nat.mul_comm]; exact h1

theorem candidates_in_interval (lo v hi den : Nat) (closed : Bool) (k : Int) (d : Nat) (hden : 0 < den) (hd : 1 ≤ d)
    (h1 : (decCandidates lo v hi den closed k).1 ≤ d) (h2 : d ≤ (decCandidates lo v hi den closed k).2.1) :
    InInterval lo hi den closed d k := by
  unfold InInterval
  unfold decCandidates at h1 h2
  simp only at h1 h2 ⊢
  generalize ha : (if k < 0 then 10 ^ k.natAbs else 1 : Nat) = a at h1 h2 ⊢
  generalize hb : den * (if k < 0 then 1 else 10 ^ k.natAbs : Nat) = b at h1 h2 ⊢
  have hbpos : 0 < b := by
    rw [← hb]; apply Nat.mul_pos hden; split <;> first | exact Nat.one_pos | exact Nat.pow_pos (by decide)
  have hmaxle := Nat.div_mul_le_self (hi * a) b
  have hminge := ceilDiv_mul_ge (lo * a) b hbpos
  have hdm := Nat.div_add_mod (hi * a) b
  have hcomm : b * (hi * a / b) = hi * a / b * b := Nat.mul_comm _ _
  cases closed with
  | true =>
    simp only [Bool.not_true, Bool.false_and, if_false, if_true] at h1 h2 ⊢
    constructor
    · calc lo * a ≤ ceilDiv (lo * a) b * b := hminge
        _ ≤ d * b := Nat.mul_le_mul_right b h1
    · calc d * b ≤ hi * a / b * b := Nat.mul_le_mul_right b h2
        _ ≤ hi * a := hmaxle
  | false =>
    simp only [Bool.not_false, Bool.true_and, decide_eq_true_eq, if_false] at h1 h2 ⊢
    constructor
    · by_cases hz : lo * a % b = 0
      · rw [if_pos hz] at h1
        have he := ceilDiv_mul_gt_of_dvd (lo * a) b hbpos hz
        have : (ceilDiv (lo * a) b + 1) * b ≤ d * b := Nat.mul_le_mul_right b h1
        rw [Nat.add_mul, he] at this
        omega
      · rw [if_neg hz] at h1
        have h3 : ceilDiv (lo * a) b * b ≤ d * b := Nat.mul_le_mul_right b h1
        have hne : lo * a ≠ ceilDiv (lo * a) b * b := by
          intro hc; apply hz; rw [hc]; exact Nat.mul_mod_left _ _
        omega
    · generalize hq : hi * a / b = q at h2 hmaxle hdm hcomm
      by_cases hz : hi * a % b = 0
      · rw [if_pos hz] at h2
        have hq1 : 1 ≤ q := by omega
        have h3 : d * b ≤ (q - 1) * b := Nat.mul_le_mul_right b h2
        have h4 : (q - 1) * b + b = q * b := by
          rw [← Nat.succ_mul]; congr 1; omega
        omega
      · rw [if_neg hz] at h2
        have h3 : d * b ≤ q * b := Nat.mul_le_mul_right b h2
        have : 0 < hi * a % b := Nat.pos_of_ne_zero hz
        omega

theorem shortestFrom_in_interval (lo v hi den : Nat) (closed : Bool) (hden : 0 < den) :
    ∀ (fuel : Nat) (k : Int), shortestFound lo v hi den closed fuel k = true →
      InInterval lo hi den closed (shortestFrom lo v hi den closed fuel k).1 (shortestFrom lo v hi den closed fuel k).2 := by
  intro fuel
  induction fuel with
  | zero => intro k h; simp [shortestFound] at h
  | succ n ih =>
    intro k h
    unfold shortestFound at h
    unfold shortestFrom
    simp only at h ⊢
    by_cases hc : (decCandidates lo v hi den closed k).1 ≤ (decCandidates lo v hi den closed k).2.1 ∧
        1 ≤ (decCandidates lo v hi den closed k).2.1
    · rw [if_pos hc]
      simp only
      apply candidates_in_interval lo v hi den closed k _ hden
      · exact Nat.le_max_left _ _
      · apply Nat.le_trans _ (Nat.le_max_right 1 _)
        split
        · exact Nat.le_refl _
        · split <;> omega
      · apply Nat.max_le.mpr
        refine ⟨hc.2, ?_⟩
        split
        · exact hc.1
        · split <;> omega
    · rw [if_neg hc] at h ⊢
      exact ih (k - 1) h


theorem shortestDec_eq (bits : Nat) :
    shortestDec bits = shortestFrom (f64Interval bits).lo (f64Interval bits).v (f64Interval bits).hi
      (f64Interval bits).den (f64Interval bits).closed 800 (f64Interval bits).kStart := rfl

theorem f64Interval_den_pos (bits : Nat) : 0 < (f64Interval bits).den := by
  have key : ∀ (c : Prop) [Decidable c] (n : Nat), 0 < (if c then 2 ^ n else 1) := by
    intro c _ n
    split
    · exact Nat.pow_pos (by decide)
    · exact Nat.one_pos
  exact key _ _

theorem shortestDec_reads_back (bits : Nat) (h : f64Found bits = true) :
    ReadsBack bits (shortestDec bits).1 (shortestDec bits).2 := by
  rw [shortestDec_eq]
  exact shortestFrom_in_interval _ _ _ _ _ (f64Interval_den_pos bits) 800 _ h

/-! ## the search stops at a candidate for every finite non-zero double -/

def candAt (lo v hi den : Nat) (closed : Bool) (k : Int) : Prop :=
  (decCandidates lo v hi den closed k).1 ≤ (decCandidates lo v hi den closed k).2.1 ∧
    1 ≤ (decCandidates lo v hi den closed k).2.1

theorem found_of_candidate (lo v hi den : Nat) (closed : Bool) :
    ∀ (fuel : Nat) (k : Int) (j : Nat), j < fuel → candAt lo v hi den closed (k - j) →
      shortestFound lo v hi den closed fuel k = true := by
  intro fuel
  induction fuel with
  | zero => intro k j h; omega
  | succ n ih =>
    intro k j hj hc
    unfold shortestFound
    simp only
    by_cases h0 : (decCandidates lo v hi den closed k).1 ≤ (decCandidates lo v hi den closed k).2.1 ∧
        1 ≤ (decCandidates lo v hi den closed k).2.1
    · rw [if_pos h0]
    · rw [if_neg h0]
      cases j with
      | zero => exfalso; apply h0; simpa [candAt] using hc
      | succ j' =>
        apply ih (k - 1) j' (by omega)
        have : k - 1 - (j' : Int) = k - ((j' + 1 : Nat) : Int) := by omega
        rw [this]; exact hc

theorem ceilDiv_le_div_succ (x b : Nat) (hb : 0 < b) : ceilDiv x b ≤ x / b + 1 := by
  unfold ceilDiv
  have h : x + b - 1 < (x / b + 1 + 1) * b := by
    have h1 := Nat.div_add_mod x b
    have h2 := Nat.mod_lt x hb
    have h3 : (x / b + 1 + 1) * b = b * (x / b) + b + b := by
      rw [Nat.add_mul, Nat.add_mul, Nat.one_mul, Nat.mul_comm]
    omega
  have := (Nat.div_lt_iff_lt_mul hb).mpr h
  omega

/-- a wide enough interval has a candidate at a negative power -/
theorem cand_of_wide (lo v hi den : Nat) (closed : Bool) (k : Int) (hk : k < 0) (hden : 0 < den)
    (hw : lo * 10 ^ k.natAbs + 3 * den ≤ hi * 10 ^ k.natAbs) : candAt lo v hi den closed k := by
  unfold candAt decCandidates
  simp only [hk, if_true, Nat.mul_one]
  generalize lo * 10 ^ k.natAbs = L at hw ⊢
  generalize hi * 10 ^ k.natAbs = H at hw ⊢
  have hA := ceilDiv_le_div_succ L den hden
  have hB : L / den + 3 ≤ H / den := by
    apply (Nat.le_div_iff_mul_le hden).mpr
    have h1 := Nat.div_add_mod L den
    have h3 : (L / den + 3) * den = den * (L / den) + 3 * den := by
      rw [Nat.add_mul, Nat.mul_comm]
    omega
  constructor
  · split <;> split <;> omega
  · split <;> omega

theorem pow2_le_pow10 (n : Nat) (h : n ≤ 1076) : 2 ^ n ≤ 10 ^ 325 :=
  Nat.le_trans (Nat.pow_le_pow_right (by decide) h) (by decide +kernel)

/-- the digit search stops at a candidate for every finite non-zero double: at the power 10^-325 the rounding
interval is wider than three units, and the search, starting at most 310 powers above, reaches it within its
800 steps -/
theorem f64Found_all (bits : Nat) (hfin : bits / 4503599627370496 % 2048 ≠ 2047)
    (hnz : bits / 4503599627370496 % 2048 ≠ 0 ∨ bits % 4503599627370496 ≠ 0) : f64Found bits = true := by
  unfold f64Found f64Interval
  simp only
  generalize hef : bits / 4503599627370496 % 2048 = ef at hfin hnz ⊢
  generalize hmf : bits % 4503599627370496 = mf at hnz ⊢
  have hef2 : ef < 2048 := by rw [← hef]; exact Nat.mod_lt _ (by decide)
  generalize he2 : ((if ef = 0 then 1 else (ef : Int)) - 1075 - 2 : Int) = e2
  have he2lo : -1076 ≤ e2 := by rw [← he2]; split <;> omega
  have he2hi : e2 ≤ 969 := by rw [← he2]; split <;> omega
  generalize hm : (if ef = 0 then mf else 4503599627370496 + mf) = m
  have hm1 : 1 ≤ m := by rw [← hm]; split <;> omega
  have hk1 : -325 ≤ (e2 + 56) * 30103 / 100000 + 2 := by omega
  have hk2 : (e2 + 56) * 30103 / 100000 + 2 ≤ 400 := by omega
  apply found_of_candidate _ _ _ _ _ 800 _ (((e2 + 56) * 30103 / 100000 + 2 + 325).toNat) (by omega)
  have hk : (e2 + 56) * 30103 / 100000 + 2 - ((((e2 + 56) * 30103 / 100000 + 2 + 325).toNat : Nat) : Int) = -325 := by
    omega
  rw [hk]
  have hden : 0 < (if e2 < 0 then 2 ^ e2.natAbs else 1 : Nat) := by
    split
    · exact Nat.pow_pos (by decide)
    · exact Nat.one_pos
  apply cand_of_wide _ _ _ _ _ (-325) (by decide) hden
  show _ * 10 ^ 325 + _ ≤ _ * 10 ^ 325
  have hdle : (if e2 < 0 then 2 ^ e2.natAbs else 1 : Nat) ≤ 10 ^ 325 := by
    split
    · exact pow2_le_pow10 _ (by omega)
    · exact Nat.one_le_pow _ _ (by decide)
  have hnum : 1 ≤ (if e2 < 0 then 1 else 2 ^ e2.natAbs : Nat) := by
    split
    · exact Nat.le_refl _
    · exact Nat.pow_pos (by decide)
  generalize (if e2 < 0 then 2 ^ e2.natAbs else 1 : Nat) = den at hdle hden ⊢
  generalize (if e2 < 0 then 1 else 2 ^ e2.natAbs : Nat) = num at hnum ⊢
  generalize (10 : Nat) ^ 325 = A at hdle ⊢
  -- (4m + 2)·num·A ≥ (4m − c)·num·A + 3·den with c ∈ {1, 2}
  have h1 : (4 * m - (if mf = 0 ∧ 1 < ef then 1 else 2)) + 3 ≤ 4 * m + 2 := by split <;> omega
  have h2 : ((4 * m - (if mf = 0 ∧ 1 < ef then 1 else 2)) + 3) * num * A ≤ (4 * m + 2) * num * A :=
    Nat.mul_le_mul_right _ (Nat.mul_le_mul_right _ h1)
  have h3 : 3 * den ≤ 3 * num * A := by
    calc 3 * den ≤ 3 * A := Nat.mul_le_mul_left _ hdle
      _ = 3 * 1 * A := by rw [Nat.mul_one]
      _ ≤ 3 * num * A := Nat.mul_le_mul_right _ (Nat.mul_le_mul_left _ hnum)
  rw [Nat.add_mul, Nat.add_mul] at h2
  omega

/-- for every finite non-zero double the chosen decimal lies in the rounding interval -/
theorem shortestDec_reads_back_all (bits : Nat) (hfin : f64Finite bits = true)
    (hnz : bits % 9223372036854775808 ≠ 0) : ReadsBack bits (shortestDec bits).1 (shortestDec bits).2 := by
  apply shortestDec_reads_back
  apply f64Found_all
  · simpa [f64Finite] using hfin
  · omega

/-! ## ryu's layout of the digits denotes `d·10^k` -/

theorem natOfDigits_foldl (ds : List Char) (a : Nat) :
    ds.foldl (fun acc c => acc * 10 + digVal c) a = a * 10 ^ ds.length + natOfDigits ds := by
  induction ds generalizing a with
  | nil => simp [natOfDigits]
  | cons c cs ih =>
    simp only [List.foldl_cons, List.length_cons, natOfDigits]
    rw [ih, ih (0 * 10 + digVal c)]
    simp only [Nat.zero_mul, Nat.zero_add, Nat.pow_succ]
    rw [Nat.add_mul, Nat.add_assoc, Nat.mul_assoc, Nat.mul_comm 10]

theorem natOfDigits_append (a b : List Char) :
    natOfDigits (a ++ b) = natOfDigits a * 10 ^ b.length + natOfDigits b := by
  unfold natOfDigits
  rw [List.foldl_append, natOfDigits_foldl]
  rfl

theorem natOfDigits_zeros (n : Nat) : natOfDigits (zeros n) = 0 := by
  induction n with
  | zero => rfl
  | succ n ih =>
    have : zeros (n + 1) = zeros n ++ ['0'] := by
      simp [zeros, List.replicate_succ']
    rw [this, natOfDigits_append, ih]
    rfl

theorem length_zeros (n : Nat) : (zeros n).length = n := by simp [zeros]

theorem digVal_digitChar (n : Nat) : digVal (digitChar n) = n % 10 := by
  have h : n % 10 < 10 := Nat.mod_lt _ (by decide)
  unfold digVal digitChar
  generalize n % 10 = r at h
  have : r = 0 ∨ r = 1 ∨ r = 2 ∨ r = 3 ∨ r = 4 ∨ r = 5 ∨ r = 6 ∨ r = 7 ∨ r = 8 ∨ r = 9 := by omega
  rcases this with rfl | rfl | rfl | rfl | rfl | rfl | rfl | rfl | rfl | rfl <;> rfl

theorem natOfDigits_natDigits (n : Nat) : natOfDigits (natDigits n) = n := by
  induction n using Nat.strongRecOn with
  | _ n ih =>
    rw [natDigits]
    by_cases h : n < 10
    · simp only [h, dite_true]
      show 0 * 10 + digVal (digitChar n) = n
      rw [digVal_digitChar]; omega
    · simp only [h, dite_false]
      rw [natOfDigits_append, ih (n / 10) (by omega)]
      show n / 10 * 10 ^ 1 + (0 * 10 + digVal (digitChar n)) = n
      rw [digVal_digitChar]; omega

theorem readExp_intDigits (x : Int) : readExp (intDigits x) = x := by
  unfold intDigits
  by_cases hx : x < 0
  · rw [if_pos hx]
    show -(natOfDigits (natDigits x.natAbs) : Int) = x
    rw [natOfDigits_natDigits]; omega
  · rw [if_neg hx]
    obtain ⟨hall, c, cs, hd, _, _⟩ := natDigits_spec x.natAbs
    have hc : isDigit c = true := hall c (by rw [hd]; simp)
    have h1 : c ≠ '-' := by intro e; subst e; simp [isDigit] at hc
    have h2 : c ≠ '+' := by intro e; subst e; simp [isDigit] at hc
    have : readExp (c :: cs) = (natOfDigits (c :: cs) : Int) := by
      unfold readExp
      split
      · rename_i h; simp at h; exact absurd h.1 h1
      · rename_i h; simp at h; exact absurd h.1 h2
      · rfl
    rw [hd, this, ← hd, natOfDigits_natDigits]; omega

theorem readTok_frac (ip fp : List Char) (hi : AllDig ip) (hf : AllDig fp) :
    readTok (ip ++ '.' :: fp) = (natOfDigits (ip ++ fp), 0 - (fp.length : Int)) := by
  unfold readTok
  rw [spanDigits_append ip '.' fp hi (by decide)]
  simp only
  rw [spanDigits_all fp hf]

theorem readTok_frac_exp (ip fp ex : List Char) (hi : AllDig ip) (hf : AllDig fp) :
    readTok (ip ++ '.' :: (fp ++ 'e' :: ex)) = (natOfDigits (ip ++ fp), readExp ex - (fp.length : Int)) := by
  unfold readTok
  rw [spanDigits_append ip '.' _ hi (by decide)]
  simp only
  rw [spanDigits_append fp 'e' ex hf (by decide)]
  simp only

theorem readTok_exp (ip ex : List Char) (hi : AllDig ip) :
    readTok (ip ++ 'e' :: ex) = (natOfDigits ip, readExp ex) := by
  unfold readTok
  rw [spanDigits_append ip 'e' ex hi (by decide)]
  simp

theorem sameDec_shift (m d : Nat) (e k : Int) (n : Nat) (he : e = k - n) (hm : m = d * 10 ^ n) :
    sameDec m e d k := by
  unfold sameDec
  have h1 : (e - min e k).toNat = 0 := by omega
  have h2 : (k - min e k).toNat = n := by omega
  rw [h1, h2, hm]; simp

/-- ryu's layout of the digits `natDigits d` with exponent `k` is a token that denotes `d·10^k` -/
theorem readTok_layout (d : Nat) (k : Int) :
    sameDec (readTok (layoutF [] (natDigits d) k)).1 (readTok (layoutF [] (natDigits d) k)).2 d k := by
  obtain ⟨hall, c, cs, hd, _, _⟩ := natDigits_spec d
  have hval := natOfDigits_natDigits d
  generalize natDigits d = ds at hall hval hd
  have hlen : 1 ≤ ds.length := by rw [hd]; simp
  have hall' : AllDig ds := hall
  rw [layoutF_eq]
  simp only [List.nil_append]
  split
  · -- digits, zeros, ".0"
    rename_i h
    have ht : ds ++ (zeros k.natAbs ++ ['.', '0']) = (ds ++ zeros k.natAbs) ++ '.' :: ['0'] := by simp
    rw [ht, readTok_frac _ _ (allDig_append _ _ hall' (allDig_zeros _))
      (by intro c hc; simp at hc; subst hc; decide)]
    apply sameDec_shift _ _ _ _ (k.natAbs + 1)
    · simp only [List.length_singleton]; omega
    · rw [natOfDigits_append, natOfDigits_append, natOfDigits_zeros, length_zeros, hval]
      show (d * 10 ^ k.natAbs + 0) * 10 ^ 1 + 0 = d * 10 ^ (k.natAbs + 1)
      simp [Nat.pow_succ, Nat.mul_assoc]
  · split
    · -- some digits, ".", the other digits
      rename_i h1 h
      rw [readTok_frac _ _ (allDig_take _ _ hall') (allDig_drop _ _ hall')]
      apply sameDec_shift _ _ _ _ 0
      · simp only [List.length_drop]; omega
      · rw [List.take_append_drop, hval]; simp
    · split
      · -- "0.", zeros, digits
        rename_i h1 h2 h
        have ht : '0' :: '.' :: (zeros ((ds.length : Int) + k).natAbs ++ ds)
            = ['0'] ++ '.' :: (zeros ((ds.length : Int) + k).natAbs ++ ds) := rfl
        rw [ht, readTok_frac _ _ (by intro c hc; simp at hc; subst hc; decide)
          (allDig_append _ _ (allDig_zeros _) hall')]
        apply sameDec_shift _ _ _ _ 0
        · simp only [List.length_append, length_zeros]; omega
        · rw [natOfDigits_append, natOfDigits_append, natOfDigits_zeros, hval]
          show (0 * 10 + digVal '0') * 10 ^ _ + (0 * 10 ^ ds.length + d) = d * 10 ^ 0
          simp [digVal]
      · split
        · -- one digit, "e", exponent
          rename_i h1 h2 h3 h
          rw [readTok_exp _ _ hall', readExp_intDigits, hval]
          apply sameDec_shift _ _ _ _ 0
          · omega
          · simp
        · -- first digit, ".", other digits, "e", exponent
          rename_i h1 h2 h3 h
          rw [readTok_frac_exp _ _ _ (allDig_take _ _ hall') (allDig_drop _ _ hall'), readExp_intDigits,
            List.take_append_drop, hval]
          apply sameDec_shift _ _ _ _ 0
          · simp only [List.length_drop]; omega
          · simp

/-- **the printed float token denotes the same double**: the token is the double's sign followed by a body
which, read digit by digit (integer part, fraction, exponent), denotes a decimal inside the double's rounding
interval (or zero for ±0) -/
theorem f64Text_denotes (bits : Nat) (hfin : f64Finite bits = true) :
    ∃ body, f64Text bits = (if bits / 9223372036854775808 % 2 = 1 then ['-'] else []) ++ body ∧
      ((bits % 9223372036854775808 ≠ 0 ∧
          ∃ d k, sameDec (readTok body).1 (readTok body).2 d k ∧ ReadsBack bits d k) ∨
        (bits % 9223372036854775808 = 0 ∧ (readTok body).1 = 0)) := by
  rw [f64Text_eq]
  by_cases hz : bits % 9223372036854775808 = 0
  · rw [if_pos hz]
    exact ⟨['0', '.', '0'], rfl, Or.inr ⟨hz, by decide⟩⟩
  · rw [if_neg hz, layoutF_sign]
    exact ⟨_, rfl, Or.inl ⟨hz, _, _, readTok_layout _ _, shortestDec_reads_back_all bits hfin hz⟩⟩

/-- every correctly rounded reader reads the token printed for a finite double as that double -/
theorem float_token_reads_back (readNumber : List Char → Option Nat) (hr : CorrectlyRounded readNumber)
    (bits : Nat) (hb : bits < 18446744073709551616) (hfin : f64Finite bits = true) :
    readNumber (f64Text bits) = some bits := by
  obtain ⟨body, ht, h⟩ := f64Text_denotes bits hfin
  rw [ht]
  exact hr bits body hb hfin h

end MJ.Json
