import MJ.Gen.Tables
import MJ.Model.Compile
/-!
# C03: ties to tables regenerated from the sources

If `Loop::enumerate`, `MAX_LOCALS`, `LOOP_FLAG_WITH_LOOP_VAR`, the `ValueKind` order or the
parser's reserved names change in `/repo`, `MJ/Gen/Tables.lean` changes and these theorems stop
checking (= broken tie).
-/
namespace MJ.C03
open MJ.Eval

def loopKeys : List String :=
  match loopVal { index0 := 0, length := some 1, prev := none, next := none } with
  | .map kvs => kvs.map (·.1)
  | _ => []

/-- the reference semantics' `loop` has exactly the attributes the engine's loop object enumerates -/
theorem loop_attrs_tie :
    (MJ.Gen.c03LoopAttrs.all fun a => loopKeys.contains a) = true ∧
    (loopKeys.all fun k => MJ.Gen.c03LoopAttrs.contains k) = true ∧
    loopKeys.length = MJ.Gen.c03LoopAttrs.length := by decide

/-- the model code generator's limit of filter/test local ids is the engine's `MAX_LOCALS` -/
theorem max_locals_tie : MJ.Compile.maxLocals = MJ.Gen.maxLocals := by decide

/-- `PushLoop 1` is "with loop variable" -/
theorem loop_flag_tie : MJ.Gen.c03LoopFlagWithLoopVar = 1 := by decide

/-- `loop` cannot be an assignment target (so a scope cell never binds `loop` except through `for`) -/
theorem loop_reserved_tie : MJ.Gen.c03ReservedNames.contains "loop" = true := by decide

/-- the kind-first ordering of the reference semantics uses the engine's `ValueKind` order -/
theorem kind_rank_tie :
    MJ.Gen.valueKindOrder.idxOf "Undefined" = kindRank .undef ∧
    MJ.Gen.valueKindOrder.idxOf "None" = kindRank .none ∧
    MJ.Gen.valueKindOrder.idxOf "Bool" = kindRank (.bool true) ∧
    MJ.Gen.valueKindOrder.idxOf "Number" = kindRank (.int 0) ∧
    MJ.Gen.valueKindOrder.idxOf "String" = kindRank (.str "") ∧
    MJ.Gen.valueKindOrder.idxOf "Seq" = kindRank (.list []) ∧
    MJ.Gen.valueKindOrder.idxOf "Map" = kindRank (.map []) ∧
    MJ.Gen.valueKindOrder.idxOf "Plain" = kindRank (.macro "" [] [] [] false []) := by decide

/-- `BuildMacro`'s flag for "the macro looks up `caller`" is the engine's `MACRO_CALLER` -/
theorem macro_caller_tie : MJ.Compile.macroCallerFlag = MJ.Gen.c03MacroCaller := by decide

/-- an output capture either captures or discards (`renderAfter` / `runD` model `Discard`) -/
theorem capture_modes_tie : MJ.Gen.c03CaptureModes = ["Capture", "Discard"] := by decide

/-- every instruction of the model is an instruction of the engine (by name: the instruction
streams are compared by these names) -/
theorem instructions_tie (i : MJ.Compile.Instr) : MJ.Gen.c03Instructions.contains i.opName = true := by
  cases i <;> simp only [MJ.Compile.Instr.opName] <;> decide

/-- the filters and tests the reference semantics knows are built-ins of the engine -/
def modelFilters : List String := ["length", "upper", "lower", "default", "join", "first", "last", "list"]
def modelTests : List String := ["defined", "undefined", "none", "odd", "even"]

theorem filters_tie : (modelFilters.all fun f => MJ.Gen.builtinFilterNames.contains f) = true := by decide
theorem tests_tie : (modelTests.all fun t => MJ.Gen.c03BuiltinTestNames.contains t) = true := by decide

/-- … and it knows no others -/
theorem unknown_filter (name : String) (v : Val) (args : List Val) (h : name ∉ modelFilters) :
    applyFilter name v args = .error .unknownFilter := by
  unfold applyFilter
  simp only [modelFilters, List.mem_cons, List.mem_nil_iff, or_false, not_or] at h
  obtain ⟨h1, h2, h3, h4, h5, h6, h7, h8⟩ := h
  split <;> simp_all

theorem unknown_test (name : String) (v : Val) (args : List Val) (h : name ∉ modelTests) :
    applyTest name v args = .error .unknownTest := by
  unfold applyTest
  simp only [modelTests, List.mem_cons, List.mem_nil_iff, or_false, not_or] at h
  obtain ⟨h1, h2, h3, h4, h5⟩ := h
  split <;> simp_all

end MJ.C03
