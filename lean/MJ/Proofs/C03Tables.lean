import MJ.Gen.Tables
import MJ.Model.Compile
/-!
# C03: ties to tables regenerated from the sources

If `Loop::enumerate`, `MAX_LOCALS`, `LOOP_FLAG_WITH_LOOP_VAR`, the `ValueKind` order or the
parser's reserved names change in `/repo`, `MJ/Gen/Tables.lean` changes and these theorems stop
checking (= broken tie).
-/
namespace MJ.C03
open MJ.Eval

def loopKeys : List String :=
  match loopVal { index0 := 0, length := some 1, prev := none, next := none } with
  | .map kvs => kvs.map (·.1)
  | _ => []

/-- the reference semantics' `loop` has exactly the attributes the engine's loop object enumerates -/
theorem loop_attrs_tie :
    (MJ.Gen.c03LoopAttrs.all fun a => loopKeys.contains a) = true ∧
    (loopKeys.all fun k => MJ.Gen.c03LoopAttrs.contains k) = true ∧
    loopKeys.length = MJ.Gen.c03LoopAttrs.length := by decide

/-- the model code generator's limit of filter/test local ids is the engine's `MAX_LOCALS` -/
theorem max_locals_tie : MJ.Compile.maxLocals = MJ.Gen.maxLocals := by decide

/-- `PushLoop 1` is "with loop variable" -/
theorem loop_flag_tie : MJ.Gen.c03LoopFlagWithLoopVar = 1 := by decide

/-- `loop` cannot be an assignment target (so a scope cell never binds `loop` except through `for`) -/
theorem loop_reserved_tie : MJ.Gen.c03ReservedNames.contains "loop" = true := by decide

/-- the kind-first ordering of the reference semantics uses the engine's `ValueKind` order -/
theorem kind_rank_tie :
    MJ.Gen.valueKindOrder.idxOf "Undefined" = kindRank .undef ∧
    MJ.Gen.valueKindOrder.idxOf "None" = kindRank .none ∧
    MJ.Gen.valueKindOrder.idxOf "Bool" = kindRank (.bool true) ∧
    MJ.Gen.valueKindOrder.idxOf "Number" = kindRank (.int 0) ∧
    MJ.Gen.valueKindOrder.idxOf "String" = kindRank (.str "") ∧
    MJ.Gen.valueKindOrder.idxOf "Seq" = kindRank (.list []) ∧
    MJ.Gen.valueKindOrder.idxOf "Map" = kindRank (.map []) ∧
    MJ.Gen.valueKindOrder.idxOf "Plain" = kindRank (.macro "" [] [] [] false []) := by decide

end MJ.C03
