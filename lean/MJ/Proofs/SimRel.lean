import MJ.Proofs.VmSim
import MJ.Proofs.Scoping
import MJ.Proofs.EvalFrame
import MJ.Proofs.Plain
/-!
# The simulation relation between the reference semantics and the model VM (C03)

Scopes of the reference semantics are heap cells, a macro value remembers the cells that were
visible at its declaration (by reference).  The VM has frames, and a macro object has a *closure*:
a copy of the values of its free names taken at the declaration, kept up to date by duplicating
every later store into the declaring frame.  `HRel` relates the two:

* the cells `loc` of the current context (template level, or the body of the macro being called)
  pair up with the frames `locF`; the rest of the lexical scope (`env`, empty at template level) is
  visible to the VM only through the closure `clo` the bottom frame reads;
* a ghost map `G` says which scope stack a closure mirrors; `closOK`: every entry of a closure is the
  value a lookup from that scope stack gives *now*;
* macro values correspond (`MacroRel`): same declaration, code at the recorded offset, the closure
  mirrors the declaration environment and holds every name the macro encloses.

Macro names (`K.M`) are kept apart from data names (`wfExpr`): data values are equal on both sides.
-/
namespace MJ.Vm
open MJ.Eval MJ.Compile MJ.C03

/-- which scope stack of the reference semantics a closure mirrors -/
abbrev Ghost := Nat → Option (List Nat)

structure Cfg where
  ctx : Scope
  M : List String
  C : List Instr

/-- the code of a macro (prologue, body, `Return`) sits at `off` -/
def MacroCode (C : List Instr) (off : Nat) (params : List String) (defaults : List Expr) (body : List Stmt) : Prop :=
  ∃ a : Aux,
    At C off ((relPrologue (paramDefaults params defaults).reverse off a).1 ++
      (relBlock body (off + (relPrologue (paramDefaults params defaults).reverse off a).1.length)
        (relPrologue (paramDefaults params defaults).reverse off a).2 none).1.1 ++ [.return_]) ∧
    (relBlock body (off + (relPrologue (paramDefaults params defaults).reverse off a).1.length)
        (relPrologue (paramDefaults params defaults).reverse off a).2 none).1.2.oof = false

/-- a macro of the reference semantics against a macro object of the VM -/
def MacroRel (K : Cfg) (G : Ghost) (cls : List Scope) (hl : Nat) (u w : Val) : Prop :=
  match w with
  | .macro name params defaults body uc env =>
    ∃ off clo, u = .vmMacro name params off clo uc ∧ MacroCode K.C off params defaults body ∧
      wfMacroBody K.M params defaults body uc = true ∧
      (∀ id ∈ env, id < hl) ∧
      (∀ c, clo = some c → G c = some env) ∧
      (∀ x, x ∈ fvOf params defaults body → ∃ c m, clo = some c ∧ cls[c]? = some m ∧ (assocGet x m).isSome = true)
  | _ => u = w

/-- values of a variable: equal for data names, corresponding macros for macro names -/
def ValAgree (K : Cfg) (G : Ghost) (cls : List Scope) (hl : Nat) (x : String) (w u : Val) : Prop :=
  if x ∈ K.M then MacroRel K G cls hl u w else u = w

def OptAgree (K : Cfg) (G : Ghost) (cls : List Scope) (hl : Nat) (x : String) (e v : Option Val) : Prop :=
  if x ∈ K.M then e.isSome = v.isSome ∧ ∀ w u, e = some w → v = some u → MacroRel K G cls hl u w else v = e

/-- keys of closures are never removed -/
def KeysMono (cls cls' : List Scope) : Prop :=
  ∀ (c : Nat) (m : Scope), cls[c]? = some m → ∃ m', cls'[c]? = some m' ∧ ∀ x, (assocGet x m).isSome = true → (assocGet x m').isSome = true

theorem KeysMono.refl (cls : List Scope) : KeysMono cls cls := fun _ m h => ⟨m, h, fun _ h => h⟩

theorem KeysMono.trans {a b c : List Scope} (h1 : KeysMono a b) (h2 : KeysMono b c) : KeysMono a c := by
  intro i m hm
  obtain ⟨m1, hm1, k1⟩ := h1 i m hm
  obtain ⟨m2, hm2, k2⟩ := h2 i m1 hm1
  exact ⟨m2, hm2, fun x hx => k2 x (k1 x hx)⟩

theorem KeysMono.append (cls extra : List Scope) : KeysMono cls (cls ++ extra) := by
  intro c m h
  have hc : c < cls.length := by
    cases hl : decide (c < cls.length) with
    | true => exact of_decide_eq_true hl
    | false =>
      have : cls.length ≤ c := Nat.le_of_not_lt (of_decide_eq_false hl)
      rw [List.getElem?_eq_none this] at h; cases h
  exact ⟨m, by rw [List.getElem?_append_left hc]; exact h, fun _ h => h⟩

/-- the ghost map only grows -/
def GhostLe (G G' : Ghost) : Prop := ∀ c env, G c = some env → G' c = some env

theorem MacroRel.mono {K G G' cls cls' hl hl' u w} (h : MacroRel K G cls hl u w) (hg : GhostLe G G') (hk : KeysMono cls cls')
    (hle : hl ≤ hl') : MacroRel K G' cls' hl' u w := by
  cases w <;> try exact h
  rename_i name params defaults body uc env
  obtain ⟨off, clo, h1, h2, h3, hb, h4, h5⟩ := h
  refine ⟨off, clo, h1, h2, h3, fun id hid => Nat.lt_of_lt_of_le (hb id hid) hle, fun c hc => hg c env (h4 c hc), fun x hx => ?_⟩
  obtain ⟨c, m, hc, hm, hx'⟩ := h5 x hx
  obtain ⟨m', hm', hk'⟩ := hk c m hm
  exact ⟨c, m', hc, hm', hk' x hx'⟩

theorem ValAgree.mono {K G G' cls cls' hl hl' x w u} (h : ValAgree K G cls hl x w u) (hg : GhostLe G G') (hk : KeysMono cls cls')
    (hle : hl ≤ hl') : ValAgree K G' cls' hl' x w u := by
  unfold ValAgree at h ⊢
  split
  · rename_i hm; rw [if_pos hm] at h; exact h.mono hg hk hle
  · rename_i hm; rw [if_neg hm] at h; exact h

theorem OptAgree.mono {K G G' cls cls' hl hl' x e v} (h : OptAgree K G cls hl x e v) (hg : GhostLe G G') (hk : KeysMono cls cls')
    (hle : hl ≤ hl') : OptAgree K G' cls' hl' x e v := by
  unfold OptAgree at h ⊢
  split
  · rename_i hm; rw [if_pos hm] at h
    exact ⟨h.1, fun w u hw hu => (h.2 w u hw hu).mono hg hk hle⟩
  · rename_i hm; rw [if_neg hm] at h; exact h

theorem OptAgree.none (K : Cfg) (G : Ghost) (cls : List Scope) (hl : Nat) (x : String) : OptAgree K G cls hl x none none := by
  unfold OptAgree; split <;> simp

theorem OptAgree.some {K G cls hl x w u} (h : ValAgree K G cls hl x w u) : OptAgree K G cls hl x (some w) (some u) := by
  unfold OptAgree; unfold ValAgree at h
  split
  · rename_i hm; rw [if_pos hm] at h
    exact ⟨rfl, fun w' u' hw hu => by cases hw; cases hu; exact h⟩
  · rename_i hm; rw [if_neg hm] at h; rw [h]

/-- cell `id` of the reference semantics and frame `f` of the VM answer alike (locals and `loop`) -/
def CellAgree (K : Cfg) (G : Ghost) (cls : List Scope) (heap : Heap) (id : Nat) (f : Frame) : Prop :=
  ∃ cell, heap[id]? = some cell ∧ ∀ x, OptAgree K G cls heap.length x (assocGet x cell) (frameLocal f x)

/-- the cells of the current context against its frames; only the bottom frame reads a closure (`clo`) -/
def FramesRel (K : Cfg) (G : Ghost) (cls : List Scope) (heap : Heap) (clo : Option Nat) : List Nat → List Frame → Prop
  | [], [] => True
  | id :: ids, f :: fs =>
    CellAgree K G cls heap id f ∧ f.closureCtx = (if ids.isEmpty then clo else none) ∧ FramesRel K G cls heap clo ids fs
  | _, _ => False

/-- what the VM finds below the frames of the context: the closure the bottom frame reads, then the
render context -/
def tailLookup (ctx : Scope) (cls : List Scope) (clo : Option Nat) (x : String) : Val :=
  match (clo.bind fun c => cls[c]?).bind (assocGet x) with
  | some v => v
  | none => (assocGet x ctx).getD .undef

/-- names whose lookup may fall through the local cells -/
def tailOk (P : Option (List String)) (x : String) : Prop :=
  match P with
  | none => True
  | some fv => x ∈ fv

/-- frames that answer nothing -/
def EmptyFrame (f : Frame) : Prop := f.locals = [] ∧ f.loop = none ∧ f.closureCtx = none

structure HRel (K : Cfg) (G : Ghost) (P : Option (List String)) (clo : Option Nat) (heap : Heap)
    (loc env : List Nat) (s : VmState) : Prop where
  /-- the frames of the context, and the (empty) base frame of a macro call below them -/
  frames : ∃ locF tailF, s.frames = locF ++ tailF ∧ FramesRel K G s.closures heap clo loc locF ∧
    (∀ f ∈ tailF, EmptyFrame f) ∧
    (∀ k f c, locF[k]? = some f → f.closure = some c → G c = some (loc.drop k ++ env)) ∧
    (∀ c env', G c = some env' →
      (∃ k f, locF[k]? = some f ∧ f.closure = some c ∧ env' = loc.drop k ++ env) ∨ (∀ id ∈ env', ∀ l ∈ loc, id < l))
  tail : ∀ x, tailOk P x → ValAgree K G s.closures heap.length x ((lookup K.ctx heap env x).getD .undef) (tailLookup K.ctx s.closures clo x)
  /-- every entry of a mirrored closure is what a lookup from the mirrored scope stack gives now -/
  closOK : ∀ c env', G c = some env' → ∃ m, s.closures[c]? = some m ∧
    ∀ x u, assocGet x m = some u → ValAgree K G s.closures heap.length x ((lookup K.ctx heap env' x).getD .undef) u
  genv : ∀ c env', G c = some env' → ∀ id ∈ env', id < heap.length
  bound : ∀ id ∈ loc ++ env, id < heap.length
  nodup : loc.Nodup
  below : ∀ e ∈ env, ∀ l ∈ loc, e < l
  cloG : ∀ c, clo = some c → G c = some env
  /-- the data of the reference semantics is plain data -/
  plain : PlainSt K.M K.ctx heap

/-! ## Lookups -/

theorem frameLookup_of_ctx_none {cls : List Scope} {f : Frame} (h : f.closureCtx = none) (x : String) :
    frameLookup cls f x = frameLocal f x := by
  unfold frameLookup
  cases frameLocal f x <;> simp [h]

theorem lookupFrames_empty (ctx : Scope) (cls : List Scope) (x : String) : ∀ (fs : List Frame), (∀ f ∈ fs, EmptyFrame f) →
    lookupFrames ctx cls x fs = (assocGet x ctx).getD .undef
  | [], _ => rfl
  | f :: rest, h => by
    have hf := h f (by simp)
    have : frameLookup cls f x = none := by
      simp [frameLookup, frameLocal, hf.1, hf.2.1, hf.2.2, assocGet]
    simp only [lookupFrames, this]
    exact lookupFrames_empty ctx cls x rest (fun g hg => h g (by simp [hg]))

theorem lookupIn_append (heap : Heap) (x : String) : ∀ (a b : List Nat),
    lookupIn heap x (a ++ b) = match lookupIn heap x a with
      | some v => some v
      | none => lookupIn heap x b
  | [], b => by simp [lookupIn]
  | id :: a, b => by
    simp only [List.cons_append, lookupIn]
    cases (heap[id]?).bind (assocGet x) with
    | some v => rfl
    | none => exact lookupIn_append heap x a b

theorem lookupFrames_last {ctx : Scope} {cls : List Scope} {f : Frame} {tailF : List Frame} {x : String}
    (hl : frameLocal f x = none) (htail : ∀ f ∈ tailF, EmptyFrame f) :
    lookupFrames ctx cls x (f :: tailF) = tailLookup ctx cls f.closureCtx x := by
  simp only [lookupFrames, frameLookup, hl, tailLookup, lookupFrames_empty ctx cls x tailF htail]
  cases (f.closureCtx.bind fun c => cls[c]?).bind (assocGet x) <;> rfl

theorem lookupFrames_some {ctx : Scope} {cls : List Scope} {f : Frame} {rest : List Frame} {x : String} {u : Val}
    (hl : frameLocal f x = some u) : lookupFrames ctx cls x (f :: rest) = u := by
  simp [lookupFrames, frameLookup, hl]

theorem lookupFrames_skip {ctx : Scope} {cls : List Scope} {f : Frame} {rest : List Frame} {x : String}
    (hl : frameLocal f x = none) (hc : f.closureCtx = none) :
    lookupFrames ctx cls x (f :: rest) = lookupFrames ctx cls x rest := by
  simp [lookupFrames, frameLookup, hl, hc]

theorem lookup_cons_none {ctx : Scope} {heap : Heap} {id : Nat} {st : List Nat} {x : String}
    (h : (heap[id]?).bind (assocGet x) = none) : MJ.Eval.lookup ctx heap (id :: st) x = MJ.Eval.lookup ctx heap st x := by
  simp [MJ.Eval.lookup, lookupIn, h]

theorem lookup_cons_some {ctx : Scope} {heap : Heap} {id : Nat} {st : List Nat} {x : String} {v : Val}
    (h : (heap[id]?).bind (assocGet x) = some v) : MJ.Eval.lookup ctx heap (id :: st) x = some v := by
  simp [MJ.Eval.lookup, lookupIn, h]

/-- `x` is bound in one of the cells `ids` -/
def BoundIn (heap : Heap) (ids : List Nat) (x : String) : Prop :=
  ∃ id ∈ ids, ∃ cell, heap[id]? = some cell ∧ (assocGet x cell).isSome = true

theorem lookupIn_none_of_not_bound {heap : Heap} {x : String} : ∀ {ids : List Nat}, (∀ id ∈ ids, id < heap.length) →
    ¬ BoundIn heap ids x → lookupIn heap x ids = none
  | [], _, _ => rfl
  | id :: rest, hb, hn => by
    have hid : id < heap.length := hb id (by simp)
    have h1 : (heap[id]?).bind (assocGet x) = none := by
      rw [List.getElem?_eq_getElem hid]
      cases hg : assocGet x heap[id] with
      | none => simp [hg]
      | some v => exact absurd ⟨id, by simp, heap[id], List.getElem?_eq_getElem hid, by simp [hg]⟩ hn
    simp only [lookupIn, h1]
    exact lookupIn_none_of_not_bound (fun i hi => hb i (by simp [hi]))
      (fun ⟨i, hi, c, hc, hx⟩ => hn ⟨i, by simp [hi], c, hc, hx⟩)

/-- the heart of the relation: a variable that is bound in a local cell or may fall through has
corresponding values on both sides -/
theorem FramesRel.lookup {K : Cfg} {G : Ghost} {cls : List Scope} {heap : Heap} {clo : Option Nat} {env : List Nat}
    {tailF : List Frame} (htail : ∀ f ∈ tailF, EmptyFrame f) (x : String) :
    ∀ {loc : List Nat} {locF : List Frame}, loc ≠ [] → FramesRel K G cls heap clo loc locF →
      (BoundIn heap loc x ∨ ValAgree K G cls heap.length x ((MJ.Eval.lookup K.ctx heap env x).getD .undef) (tailLookup K.ctx cls clo x)) →
      ValAgree K G cls heap.length x ((MJ.Eval.lookup K.ctx heap (loc ++ env) x).getD .undef) (lookupFrames K.ctx cls x (locF ++ tailF))
  | [], _, hne, _, _ => absurd rfl hne
  | id :: ids, [], _, h, _ => by simp [FramesRel] at h
  | id :: ids, f :: fs, _, h, hx => by
    obtain ⟨⟨cell, hc, hag⟩, hctx, hrest⟩ := h
    have ha := hag x
    simp only [List.cons_append]
    cases hl : frameLocal f x with
    | some u =>
      rw [hl] at ha
      rw [lookupFrames_some hl]
      cases he : assocGet x cell with
      | some w =>
        rw [he] at ha
        rw [lookup_cons_some (v := w) (by simp [hc, he])]
        simp only [Option.getD_some]
        unfold OptAgree at ha; unfold ValAgree
        split
        · rename_i hm; rw [if_pos hm] at ha; exact ha.2 w u rfl rfl
        · rename_i hm; rw [if_neg hm] at ha; cases ha; rfl
      | none =>
        rw [he] at ha
        unfold OptAgree at ha
        split at ha
        · simp at ha
        · cases ha
    | none =>
      rw [hl] at ha
      have he : assocGet x cell = none := by
        unfold OptAgree at ha
        split at ha
        · cases hh : assocGet x cell with
          | none => rfl
          | some w => rw [hh] at ha; simp at ha
        · exact ha.symm
      rw [lookup_cons_none (by simp [hc, he])]
      have hx' : BoundIn heap ids x ∨
          ValAgree K G cls heap.length x ((MJ.Eval.lookup K.ctx heap env x).getD .undef) (tailLookup K.ctx cls clo x) := by
        rcases hx with ⟨i, hi, c', hc', hb⟩ | hx
        · rcases List.mem_cons.1 hi with rfl | hi'
          · rw [hc] at hc'; cases hc'; rw [he] at hb; cases hb
          · exact Or.inl ⟨i, hi', c', hc', hb⟩
        · exact Or.inr hx
      cases ids with
      | nil =>
        cases fs with
        | nil =>
          simp only [List.isEmpty_nil, if_true] at hctx
          have hxt : ValAgree K G cls heap.length x ((MJ.Eval.lookup K.ctx heap env x).getD .undef) (tailLookup K.ctx cls clo x) := by
            rcases hx' with ⟨i, hi, _⟩ | hx
            · simp at hi
            · exact hx
          simp only [List.nil_append]
          rw [lookupFrames_last hl htail, hctx]
          exact hxt
        | cons f2 fs2 => simp [FramesRel] at hrest
      | cons id2 ids2 =>
        have hctx' : f.closureCtx = none := by simpa using hctx
        rw [lookupFrames_skip hl hctx']
        exact FramesRel.lookup htail x (by simp) hrest hx'

theorem FramesRel.length {K G cls heap clo} : ∀ {loc : List Nat} {locF : List Frame},
    FramesRel K G cls heap clo loc locF → locF.length = loc.length
  | [], [], _ => rfl
  | [], _ :: _, h => by simp [FramesRel] at h
  | _ :: _, [], h => by simp [FramesRel] at h
  | _ :: ids, _ :: fs, h => by simp [FramesRel.length h.2.2]

/-- the relation only looks at the cells of `loc`, and is monotone in the ghost map and the closures -/
theorem FramesRel.congr {K G G' cls cls' heap heap' clo} (hg : GhostLe G G') (hk : KeysMono cls cls')
    (hlen : heap.length ≤ heap'.length) :
    ∀ {loc : List Nat} {locF : List Frame}, (∀ id ∈ loc, heap'[id]? = heap[id]?) →
      FramesRel K G cls heap clo loc locF → FramesRel K G' cls' heap' clo loc locF
  | [], [], _, _ => trivial
  | [], _ :: _, _, h => by simp [FramesRel] at h
  | _ :: _, [], _, h => by simp [FramesRel] at h
  | id :: ids, f :: fs, hh, h => by
    obtain ⟨⟨cell, hc, hag⟩, hctx, hrest⟩ := h
    exact ⟨⟨cell, by rw [hh id (by simp)]; exact hc, fun x => (hag x).mono hg hk hlen⟩, hctx,
      FramesRel.congr hg hk hlen (fun i hi => hh i (by simp [hi])) hrest⟩

/-- lookups only look at the cells of the scope stack -/
theorem lookup_congr {ctx : Scope} {heap heap' : Heap} {x : String} : ∀ {st : List Nat},
    (∀ id ∈ st, heap'[id]? = heap[id]?) → MJ.Eval.lookup ctx heap' st x = MJ.Eval.lookup ctx heap st x
  | [], _ => rfl
  | id :: rest, h => by
    have ih := lookup_congr (ctx := ctx) (x := x) (st := rest) (fun i hi => h i (by simp [hi]))
    simp only [MJ.Eval.lookup, lookupIn, h id (by simp)] at ih ⊢
    cases (heap[id]?).bind (assocGet x) with
    | some v => rfl
    | none => exact ih

theorem HRel.lookupAgree {K G P clo heap loc env s} (h : HRel K G P clo heap loc env s) (hne : loc ≠ []) (x : String)
    (hx : BoundIn heap loc x ∨ tailOk P x) :
    ValAgree K G s.closures heap.length x ((MJ.Eval.lookup K.ctx heap (loc ++ env) x).getD .undef)
      (lookupFrames K.ctx s.closures x s.frames) := by
  obtain ⟨locF, tailF, hf, hfr, htl, _, _⟩ := h.frames
  rw [hf]
  exact FramesRel.lookup htl x hne hfr (hx.elim Or.inl (fun ht => Or.inr (h.tail x ht)))

/-- only program counter, operand stack and output buffers change -/
theorem HRel.same {K G P clo heap loc env s} (h : HRel K G P clo heap loc env s) (s' : VmState)
    (hf : s'.frames = s.frames) (hc : s'.closures = s.closures) : HRel K G P clo heap loc env s' := by
  obtain ⟨f, t, c, g, b, n, bl, cg, pl⟩ := h
  exact ⟨by rw [hf, hc]; exact f, by rw [hc]; exact t, by rw [hc]; exact c, g, b, n, bl, cg, pl⟩

theorem GhostLe.refl (G : Ghost) : GhostLe G G := fun _ _ h => h

theorem tailLookup_congr {ctx : Scope} {cls cls' : List Scope} {clo : Option Nat} (x : String)
    (h : ∀ c, clo = some c → cls'[c]? = cls[c]?) : tailLookup ctx cls' clo x = tailLookup ctx cls clo x := by
  unfold tailLookup
  cases clo with
  | none => rfl
  | some c => simp [h c rfl]

/-- the closures change, but not the mirrored ones (and no key is lost) -/
theorem HRel.mono {K G P clo heap loc env s} (h : HRel K G P clo heap loc env s) (s' : VmState)
    (hf : s'.frames = s.frames) (hk : KeysMono s.closures s'.closures)
    (hsame : ∀ c env', G c = some env' → s'.closures[c]? = s.closures[c]?) : HRel K G P clo heap loc env s' := by
  obtain ⟨locF, tailF, hfr, hrel, htl, hown1, hown2⟩ := h.frames
  refine ⟨⟨locF, tailF, by rw [hf]; exact hfr, FramesRel.congr (GhostLe.refl G) hk (Nat.le_refl _) (fun _ _ => rfl) hrel, htl, hown1, hown2⟩,
    ?_, ?_, h.genv, h.bound, h.nodup, h.below, h.cloG, h.plain⟩
  · intro x hx
    rw [tailLookup_congr x (fun c hc => hsame c env (h.cloG c hc))]
    exact (h.tail x hx).mono (GhostLe.refl G) hk (Nat.le_refl _)
  · intro c env' hg
    obtain ⟨m, hm, hag⟩ := h.closOK c env' hg
    exact ⟨m, by rw [hsame c env' hg]; exact hm, fun x u hx => (hag x u hx).mono (GhostLe.refl G) hk (Nat.le_refl _)⟩

/-- calls only append closures -/
theorem HRel.ext {K G P clo heap loc env s} (h : HRel K G P clo heap loc env s) (s' : VmState)
    (hf : s'.frames = s.frames) (extra : List Scope) (hc : s'.closures = s.closures ++ extra) :
    HRel K G P clo heap loc env s' := by
  refine h.mono s' hf (by rw [hc]; exact KeysMono.append _ _) (fun c env' hg => ?_)
  obtain ⟨m, hm, _⟩ := h.closOK c env' hg
  have hlt : c < s.closures.length := by
    cases hl : decide (c < s.closures.length) with
    | true => exact of_decide_eq_true hl
    | false =>
      have : s.closures.length ≤ c := Nat.le_of_not_lt (of_decide_eq_false hl)
      rw [List.getElem?_eq_none this] at hm; cases hm
  rw [hc, List.getElem?_append_left hlt]

theorem getElem?_append_of_lt {α : Type} (l : List α) (x : α) {i : Nat} (h : i < l.length) : (l ++ [x])[i]? = l[i]? :=
  List.getElem?_append_left h

/-- a fresh cell / frame on top (`with`, a loop iteration) -/
theorem HRel.push {K G P clo heap loc env s} (h : HRel K G P clo heap loc env s) (hne : loc ≠ []) (cell : Scope)
    (f : Frame) (hcl : f.closure = none) (hcc : f.closureCtx = none)
    (hag : ∀ x, OptAgree K G s.closures (heap.length + 1) x (assocGet x cell) (frameLocal f x))
    (hpl : ∀ x v, x ∉ K.M → assocGet x cell = some v → MJ.Eval.plain v = true) (s' : VmState)
    (hf : s'.frames = f :: s.frames) (hc : s'.closures = s.closures) :
    HRel K G P clo (heap ++ [cell]) (heap.length :: loc) env s' := by
  have hlen1 : (heap ++ [cell]).length = heap.length + 1 := by simp
  obtain ⟨locF, tailF, hfr, hrel, htl, hown1, hown2⟩ := h.frames
  have hold : ∀ id ∈ loc ++ env, (heap ++ [cell])[id]? = heap[id]? :=
    fun id hid => getElem?_append_of_lt heap cell (h.bound id hid)
  have hlook : ∀ (st : List Nat) (x : String), (∀ id ∈ st, id < heap.length) →
      MJ.Eval.lookup K.ctx (heap ++ [cell]) st x = MJ.Eval.lookup K.ctx heap st x :=
    fun st x hst => lookup_congr (fun id hid => getElem?_append_of_lt heap cell (hst id hid))
  refine ⟨⟨f :: locF, tailF, by rw [hf, hfr]; rfl, ?_, htl, ?_, ?_⟩, ?_, ?_, ?_, ?_, ?_, ?_, h.cloG, h.plain.push cell hpl⟩
  · rw [hc]
    refine ⟨⟨cell, by simp, fun x => by rw [hlen1]; exact hag x⟩, ?_, FramesRel.congr (GhostLe.refl G) (KeysMono.refl _)
      (by rw [hlen1]; omega) (fun id hid => hold id (by simp [hid])) hrel⟩
    cases loc with
    | nil => exact absurd rfl hne
    | cons a b => simpa using hcc
  · intro k g c hk hg
    cases k with
    | zero => simp at hk; subst hk; rw [hcl] at hg; cases hg
    | succ j => simpa using hown1 j g c (by simpa using hk) hg
  · intro c env' hg
    rcases hown2 c env' hg with ⟨k, g, hk, hgc, he⟩ | hfor
    · exact Or.inl ⟨k + 1, g, by simpa using hk, hgc, by simpa using he⟩
    · refine Or.inr (fun id hid l hl => ?_)
      rcases List.mem_cons.1 hl with rfl | hl'
      · exact h.genv c env' hg id hid
      · exact hfor id hid l hl'
  · intro x hx
    rw [hc, hlook env x (fun id hid => h.bound id (by simp [hid]))]
    exact (h.tail x hx).mono (GhostLe.refl G) (KeysMono.refl _) (by rw [hlen1]; omega)
  · intro c env' hg
    obtain ⟨m, hm, hag'⟩ := h.closOK c env' hg
    refine ⟨m, by rw [hc]; exact hm, fun x u hx => ?_⟩
    rw [hc, hlook env' x (h.genv c env' hg)]
    exact (hag' x u hx).mono (GhostLe.refl G) (KeysMono.refl _) (by rw [hlen1]; omega)
  · intro c env' hg id hid
    have := h.genv c env' hg id hid
    simp; omega
  · intro id hid
    simp at hid ⊢
    rcases hid with rfl | hid | hid
    · omega
    · have := h.bound id (by simp [hid]); omega
    · have := h.bound id (by simp [hid]); omega
  · simp only [List.nodup_cons]
    refine ⟨fun hmem => ?_, h.nodup⟩
    have := h.bound heap.length (List.mem_append.2 (Or.inl hmem)); omega
  · intro e he l hl
    rcases List.mem_cons.1 hl with rfl | hl'
    · exact h.bound e (by simp [he])
    · exact h.below e he l hl'

/-! ## Stores -/

theorem isSome_assocSet {α : Type} (x y : String) (v : α) (c : List (String × α)) (h : (assocGet y c).isSome = true) :
    (assocGet y (assocSet x v c)).isSome = true := by
  by_cases hy : y = x
  · subst hy; simp [assocGet_assocSet_same]
  · rw [assocGet_assocSet_other x y v c hy]; exact h

theorem lt_of_getElem?_some {α : Type} {l : List α} {i : Nat} {x : α} (h : l[i]? = some x) : i < l.length := by
  cases hl : decide (i < l.length) with
  | true => exact of_decide_eq_true hl
  | false =>
    have : l.length ≤ i := Nat.le_of_not_lt (of_decide_eq_false hl)
    rw [List.getElem?_eq_none this] at h; cases h

theorem storeClosure_keys (x : String) (u : Val) (frames : List Frame) (cls : List Scope) :
    KeysMono cls (storeClosure x u frames cls) := by
  unfold storeClosure
  split
  · rename_i c hc
    split
    · rename_i m hm
      intro i mi hi
      by_cases hic : i = c
      · subst hic
        rw [hm] at hi; cases hi
        have hlt := lt_of_getElem?_some hm
        exact ⟨assocSet x u m, by simp [hlt], fun y hy => isSome_assocSet x y u m hy⟩
      · exact ⟨mi, by rw [List.getElem?_set_ne (Ne.symm hic)]; exact hi, fun _ h => h⟩
    · exact KeysMono.refl _
  · exact KeysMono.refl _

theorem storeClosure_other (x : String) (u : Val) (frames : List Frame) (cls : List Scope) (c : Nat)
    (h : topClosure frames ≠ some c) : (storeClosure x u frames cls)[c]? = cls[c]? := by
  unfold storeClosure
  split
  · rename_i c' ht
    have hne : c' ≠ c := fun e => h (by rw [ht, e])
    split
    · rw [List.getElem?_set_ne hne]
    · rfl
  · rfl

theorem storeClosure_top (x : String) (u : Val) (frames : List Frame) (cls : List Scope) (c : Nat) (m : Scope)
    (h : topClosure frames = some c) (hm : cls[c]? = some m) :
    (storeClosure x u frames cls)[c]? = some (assocSet x u m) := by
  have hlt := lt_of_getElem?_some hm
  have hcm : cls[c] = m := by
    have := hm; rw [List.getElem?_eq_getElem hlt] at this; exact Option.some.inj this
  simp [storeClosure, h, hm, hlt, hcm]

theorem frameLocal_store_same (f : Frame) (x : String) (u : Val) :
    frameLocal { f with locals := assocSet x u f.locals } x = some u := by
  simp [frameLocal, assocGet_assocSet_same]

theorem frameLocal_store_other (f : Frame) (x y : String) (u : Val) (h : y ≠ x) :
    frameLocal { f with locals := assocSet x u f.locals } y = frameLocal f y := by
  simp [frameLocal, assocGet_assocSet_other x y u _ h]

theorem lookup_heapSet_notin {ctx : Scope} {heap : Heap} {T : Nat} {st : List Nat} (x y : String) (w : Val)
    (h : T ∉ st) : MJ.Eval.lookup ctx (heapSet heap T x w) st y = MJ.Eval.lookup ctx heap st y :=
  lookup_congr (fun id hid => heapSet_getElem?_ne _ _ _ _ _ (fun e => h (e ▸ hid)))

theorem lookup_heapSet_top_other {ctx : Scope} {heap : Heap} {T : Nat} {r : List Nat} (x y : String) (w : Val)
    (hT : T < heap.length) (hr : T ∉ r) (hne : y ≠ x) :
    MJ.Eval.lookup ctx (heapSet heap T x w) (T :: r) y = MJ.Eval.lookup ctx heap (T :: r) y := by
  have h1 := heapSet_other heap T x y w hne hT
  have h2 := lookup_heapSet_notin (ctx := ctx) (heap := heap) x y w hr
  simp only [MJ.Eval.lookup, lookupIn, h1] at h2 ⊢
  cases (heap[T]?).bind (assocGet y) with
  | some v => rfl
  | none => exact h2

/-- a store into the innermost scope, on both sides (`set`, loop targets, `with` bindings, a macro name) -/
theorem HRel.store {K G P clo heap T locR env s} (h : HRel K G P clo heap (T :: locR) env s) (x : String) (w u : Val)
    (hv : ValAgree K G s.closures heap.length x w u) (hpw : x ∉ K.M → MJ.Eval.plain w = true) (s' : VmState)
    (hf : s'.frames = storeLocal x u s.frames)
    (hc : s'.closures = storeClosure x u s.frames s.closures) :
    HRel K G P clo (heapSet heap T x w) (T :: locR) env s' := by
  obtain ⟨locF, tailF, hfr, hrel, htl, hown1, hown2⟩ := h.frames
  have hT : T < heap.length := h.bound T (by simp)
  have hlen : heap.length ≤ (heapSet heap T x w).length := Nat.le_of_eq (heapSet_length _ _ _ _).symm
  have hnd := h.nodup
  simp only [List.nodup_cons] at hnd
  have hTr : T ∉ locR ++ env := by
    intro hmem
    rcases List.mem_append.1 hmem with h1 | h1
    · exact hnd.1 h1
    · have := h.below T h1 T (by simp); omega
  have hk : KeysMono s.closures s'.closures := by rw [hc]; exact storeClosure_keys _ _ _ _
  cases locF with
  | nil => simp [FramesRel] at hrel
  | cons f fsR =>
    obtain ⟨⟨cell, hcell, hag⟩, hctx, hrest⟩ := hrel
    have htop : topClosure s.frames = f.closure := by rw [hfr]; rfl
    have hfr' : s'.frames = ({ f with locals := assocSet x u f.locals } :: fsR) ++ tailF := by
      rw [hf, hfr]; rfl
    -- closures other than the one the top frame owns are untouched
    have hother : ∀ c, f.closure ≠ some c → s'.closures[c]? = s.closures[c]? := by
      intro c hne; rw [hc]; exact storeClosure_other _ _ _ _ c (by rw [htop]; exact hne)
    have hcellT : (heapSet heap T x w)[T]? = some (assocSet x w cell) := by
      have := heapSet_getElem?_same heap T x w hT
      rw [List.getElem?_eq_getElem hT] at hcell
      cases hcell; exact this
    refine ⟨⟨_, tailF, hfr', ?_, htl, ?_, ?_⟩, ?_, ?_, ?_, ?_, h.nodup, h.below, h.cloG, h.plain.heapSet T x w hpw⟩
    · refine ⟨⟨assocSet x w cell, hcellT, fun y => ?_⟩, hctx,
        FramesRel.congr (GhostLe.refl G) hk hlen (fun id hid => heapSet_getElem?_ne _ _ _ _ _
          (fun e => hTr (by rw [← e]; simp [hid]))) hrest⟩
      by_cases hy : y = x
      · subst hy
        rw [assocGet_assocSet_same, frameLocal_store_same]
        exact OptAgree.some (hv.mono (GhostLe.refl G) hk hlen)
      · rw [assocGet_assocSet_other x y w cell hy, frameLocal_store_other f x y u hy]
        exact (hag y).mono (GhostLe.refl G) hk hlen
    · intro k g c hk' hg
      cases k with
      | zero => simp at hk'; subst hk'; exact hown1 0 f c (by simp) hg
      | succ j => exact hown1 (j + 1) g c (by simpa using hk') hg
    · intro c env' hg
      rcases hown2 c env' hg with ⟨k, g, hk', hgc, he⟩ | hfor
      · cases k with
        | zero =>
          simp at hk'; subst hk'
          exact Or.inl ⟨0, { f with locals := assocSet x u f.locals }, by simp, hgc, he⟩
        | succ j => exact Or.inl ⟨j + 1, g, by simpa using hk', hgc, he⟩
      · exact Or.inr hfor
    · -- below the local cells
      intro y hy
      have hclo : ∀ c, clo = some c → s'.closures[c]? = s.closures[c]? := by
        intro c hcc
        apply hother
        intro hfc
        have h1 := hown1 0 f c (by simp) hfc
        have h2 := h.cloG c hcc
        rw [h1] at h2
        have := congrArg List.length (Option.some.inj h2)
        simp at this
        omega
      rw [tailLookup_congr y hclo, lookup_heapSet_notin x y w (fun hm => hTr (by simp [hm]))]
      exact (h.tail y hy).mono (GhostLe.refl G) hk hlen
    · intro c env' hg
      obtain ⟨m, hm, hag'⟩ := h.closOK c env' hg
      by_cases hfc : f.closure = some c
      · -- the closure the innermost frame owns: the store is duplicated into it
        have henv : env' = T :: locR ++ env := by
          have := hown1 0 f c (by simp) hfc
          rw [hg] at this; simpa using Option.some.inj this
        subst henv
        refine ⟨assocSet x u m, by rw [hc]; exact storeClosure_top _ _ _ _ c m (by rw [htop]; exact hfc) hm, fun y v hy => ?_⟩
        by_cases hyx : y = x
        · subst hyx
          rw [assocGet_assocSet_same] at hy; cases hy
          have : MJ.Eval.lookup K.ctx (heapSet heap T y w) (T :: (locR ++ env)) y = some w :=
            lookup_heapSet_same _ _ _ _ _ _ hT
          simp only [List.cons_append, this, Option.getD_some]
          exact hv.mono (GhostLe.refl G) hk hlen
        · rw [assocGet_assocSet_other x y u m hyx] at hy
          have : MJ.Eval.lookup K.ctx (heapSet heap T x w) (T :: (locR ++ env)) y =
              MJ.Eval.lookup K.ctx heap (T :: (locR ++ env)) y := lookup_heapSet_top_other x y w hT hTr hyx
          simp only [List.cons_append, this]
          exact (hag' y v hy).mono (GhostLe.refl G) hk hlen
      · refine ⟨m, by rw [hother c hfc]; exact hm, fun y v hy => ?_⟩
        have hTe : T ∉ env' := by
          rcases hown2 c env' hg with ⟨k, g, hk', hgc, he⟩ | hfor
          · cases k with
            | zero => simp at hk'; subst hk'; exact absurd hgc hfc
            | succ j =>
              subst he
              intro hmem
              have : T ∈ locR ++ env := by
                simp only [List.drop_succ_cons] at hmem
                rcases List.mem_append.1 hmem with h1 | h1
                · exact List.mem_append.2 (Or.inl (List.mem_of_mem_drop h1))
                · exact List.mem_append.2 (Or.inr h1)
              exact hTr this
          · intro hmem
            have := hfor T hmem T (by simp)
            omega
        rw [lookup_heapSet_notin x y w hTe]
        exact (hag' y v hy).mono (GhostLe.refl G) hk hlen
    · intro c env' hg id hid
      rw [heapSet_length]; exact h.genv c env' hg id hid
    · intro id hid
      rw [heapSet_length]; exact h.bound id hid

/-! ## `Enclose`: the closure of the innermost frame -/

theorem frameLocal_closure (f : Frame) (c : Option Nat) (x : String) :
    frameLocal { f with closure := c } x = frameLocal f x := rfl

/-- the first `Enclose` executed in a frame creates its (empty) closure; the ghost map records that it
mirrors the current scope stack -/
theorem HRel.newClosure {K G P clo heap T locR env s} (h : HRel K G P clo heap (T :: locR) env s) {f : Frame} {rest : List Frame}
    (hfr : s.frames = f :: rest) (hcl : f.closure = none) (s' : VmState)
    (hf : s'.frames = { f with closure := some s.closures.length } :: rest) (hc : s'.closures = s.closures ++ [[]]) :
    HRel K (fun i => if i = s.closures.length then some (T :: locR ++ env) else G i) P clo heap (T :: locR) env s' ∧
      GhostLe G (fun i => if i = s.closures.length then some (T :: locR ++ env) else G i) := by
  obtain ⟨locF, tailF, hfr0, hrel, htl, hown1, hown2⟩ := h.frames
  have hGlt : ∀ i env', G i = some env' → i < s.closures.length := by
    intro i env' hg
    obtain ⟨m, hm, _⟩ := h.closOK i env' hg
    exact lt_of_getElem?_some hm
  have hle : GhostLe G (fun i => if i = s.closures.length then some (T :: locR ++ env) else G i) := by
    intro i env' hg
    have := hGlt i env' hg
    have hne : ¬ i = s.closures.length := by omega
    simp [hne, hg]
  have hk : KeysMono s.closures s'.closures := by rw [hc]; exact KeysMono.append _ _
  have hsame : ∀ i, i < s.closures.length → s'.closures[i]? = s.closures[i]? := by
    intro i hi; rw [hc, List.getElem?_append_left hi]
  refine ⟨?_, hle⟩
  cases locF with
  | nil => simp [FramesRel] at hrel
  | cons f0 fsR =>
    have hf0 : f0 = f ∧ fsR ++ tailF = rest := by
      rw [hfr] at hfr0; simpa using hfr0.symm
    obtain ⟨rfl, hrest⟩ := hf0
    obtain ⟨⟨cell, hcell, hag⟩, hctx, hrestF⟩ := hrel
    refine ⟨⟨{ f0 with closure := some s.closures.length } :: fsR, tailF, by rw [hf, ← hrest]; rfl, ?_, htl, ?_, ?_⟩, ?_, ?_, ?_,
      h.bound, h.nodup, h.below, ?_, h.plain⟩
    · exact ⟨⟨cell, hcell, fun x => by rw [frameLocal_closure]; exact (hag x).mono hle hk (Nat.le_refl _)⟩, hctx,
        FramesRel.congr hle hk (Nat.le_refl _) (fun _ _ => rfl) hrestF⟩
    · intro k g c hk' hg
      cases k with
      | zero =>
        simp at hk'; subst hk'
        simp at hg; subst hg
        simp
      | succ j =>
        have := hown1 (j + 1) g c (by simpa using hk') hg
        exact hle c _ this
    · intro c env' hg
      by_cases hcn : c = s.closures.length
      · subst hcn
        simp at hg; subst hg
        exact Or.inl ⟨0, { f0 with closure := some s.closures.length }, by simp, rfl, by simp⟩
      · simp [hcn] at hg
        rcases hown2 c env' hg with ⟨k, g, hk', hgc, he⟩ | hfor
        · cases k with
          | zero => simp at hk'; subst hk'; rw [hcl] at hgc; cases hgc
          | succ j => exact Or.inl ⟨j + 1, g, by simpa using hk', hgc, he⟩
        · exact Or.inr hfor
    · intro x hx
      rw [tailLookup_congr x (fun c hcc => hsame c (hGlt c env (h.cloG c hcc)))]
      exact (h.tail x hx).mono hle hk (Nat.le_refl _)
    · intro c env' hg
      by_cases hcn : c = s.closures.length
      · subst hcn
        exact ⟨[], by rw [hc]; simp, fun x u hx => by simp [assocGet] at hx⟩
      · simp [hcn] at hg
        obtain ⟨m, hm, hag'⟩ := h.closOK c env' hg
        exact ⟨m, by rw [hsame c (hGlt c env' hg)]; exact hm, fun x u hx => (hag' x u hx).mono hle hk (Nat.le_refl _)⟩
    · intro c env' hg id hid
      by_cases hcn : c = s.closures.length
      · subst hcn
        simp at hg; subst hg
        exact h.bound id (by simpa using hid)
      · simp [hcn] at hg
        exact h.genv c env' hg id hid
    · intro c hcc
      have := h.cloG c hcc
      exact hle c env this

/-- `Enclose` puts the current value of a name into the closure the innermost frame owns -/
theorem HRel.addEntry {K G P clo heap T locR env s} (h : HRel K G P clo heap (T :: locR) env s) {f : Frame} {rest : List Frame}
    (hfr : s.frames = f :: rest) {c : Nat} (hcl : f.closure = some c) {m : Scope} (hm : s.closures[c]? = some m)
    (x : String) (u : Val)
    (hv : ValAgree K G s.closures heap.length x ((MJ.Eval.lookup K.ctx heap (T :: locR ++ env) x).getD .undef) u) (s' : VmState)
    (hf : s'.frames = s.frames) (hc : s'.closures = s.closures.set c (assocSet x u m)) :
    HRel K G P clo heap (T :: locR) env s' := by
  obtain ⟨locF, tailF, hfr0, hrel, htl, hown1, hown2⟩ := h.frames
  have hlt := lt_of_getElem?_some hm
  have hk : KeysMono s.closures s'.closures := by
    rw [hc]
    intro i mi hi
    by_cases hic : i = c
    · subst hic
      rw [hm] at hi; cases hi
      exact ⟨assocSet x u m, by simp [hlt], fun y hy => isSome_assocSet x y u m hy⟩
    · exact ⟨mi, by rw [List.getElem?_set_ne (Ne.symm hic)]; exact hi, fun _ h => h⟩
  have hother : ∀ i, i ≠ c → s'.closures[i]? = s.closures[i]? := by
    intro i hi; rw [hc, List.getElem?_set_ne (Ne.symm hi)]
  have hGc : G c = some (T :: locR ++ env) := by
    cases locF with
    | nil => simp [FramesRel] at hrel
    | cons f0 fsR =>
      have : f0 = f := by rw [hfr] at hfr0; simpa using (List.cons.inj hfr0.symm).1
      subst this
      simpa using hown1 0 f0 c (by simp) hcl
  refine ⟨⟨locF, tailF, by rw [hf]; exact hfr0, FramesRel.congr (GhostLe.refl G) hk (Nat.le_refl _) (fun _ _ => rfl) hrel, htl, hown1, hown2⟩,
    ?_, ?_, h.genv, h.bound, h.nodup, h.below, h.cloG, h.plain⟩
  · intro y hy
    have hclo : ∀ i, clo = some i → s'.closures[i]? = s.closures[i]? := by
      intro i hi
      apply hother
      intro e; subst e
      have h2 := h.cloG i hi
      rw [hGc] at h2
      have := congrArg List.length (Option.some.inj h2)
      simp at this
      omega
    rw [tailLookup_congr y hclo]
    exact (h.tail y hy).mono (GhostLe.refl G) hk (Nat.le_refl _)
  · intro i env' hg
    by_cases hic : i = c
    · subst hic
      rw [hGc] at hg; cases hg
      refine ⟨assocSet x u m, by rw [hc]; simp [hlt], fun y v hy => ?_⟩
      obtain ⟨m0, hm0, hag0⟩ := h.closOK i _ hGc
      rw [hm] at hm0; cases hm0
      by_cases hyx : y = x
      · subst hyx
        rw [assocGet_assocSet_same] at hy; cases hy
        exact hv.mono (GhostLe.refl G) hk (Nat.le_refl _)
      · rw [assocGet_assocSet_other x y u m hyx] at hy
        exact (hag0 y v hy).mono (GhostLe.refl G) hk (Nat.le_refl _)
    · obtain ⟨m0, hm0, hag0⟩ := h.closOK i env' hg
      exact ⟨m0, by rw [hother i hic]; exact hm0, fun y v hy => (hag0 y v hy).mono (GhostLe.refl G) hk (Nat.le_refl _)⟩

/-- the context in which the code of a macro starts: one cell (holding `caller`) on top of the
macro's declaration environment; one frame that reads the macro's closure, on top of the base frame -/
theorem HRel.callee {K G heap cls} (hclos : ∀ c env', G c = some env' → ∃ m, cls[c]? = some m ∧
      ∀ x u, assocGet x m = some u → ValAgree K G cls heap.length x ((MJ.Eval.lookup K.ctx heap env' x).getD .undef) u)
    (hgenv : ∀ c env', G c = some env' → ∀ id ∈ env', id < heap.length)
    (fv : List String) (env : List Nat) (clo : Option Nat)
    (hclo : ∀ c, clo = some c → G c = some env)
    (hkeys : ∀ x, x ∈ fv → ∃ c m, clo = some c ∧ cls[c]? = some m ∧ (assocGet x m).isSome = true)
    (henvb : ∀ id ∈ env, id < heap.length) (cellE : Scope) (fM : Frame)
    (hcell : ∀ x, OptAgree K G cls (heap.length + 1) x (assocGet x cellE) (frameLocal fM x))
    (hfc : fM.closure = none) (hfx : fM.closureCtx = clo) (hpl : PlainSt K.M K.ctx (heap ++ [cellE]))
    (s : VmState) (hf : s.frames = [fM, {}]) (hc : s.closures = cls) :
    HRel K G (some fv) clo (heap ++ [cellE]) [heap.length] env s := by
  have hlook : ∀ (st : List Nat) (x : String), (∀ id ∈ st, id < heap.length) →
      MJ.Eval.lookup K.ctx (heap ++ [cellE]) st x = MJ.Eval.lookup K.ctx heap st x :=
    fun st x hst => lookup_congr (fun id hid => getElem?_append_of_lt heap cellE (hst id hid))
  have hlen1 : (heap ++ [cellE]).length = heap.length + 1 := by simp
  refine ⟨⟨[fM], [{}], by rw [hf]; rfl, ?_, ?_, ?_, ?_⟩, ?_, ?_, ?_, ?_, by simp, ?_, hclo, hpl⟩
  · rw [hc]
    exact ⟨⟨cellE, by simp, fun x => by rw [hlen1]; exact hcell x⟩, by simpa using hfx, trivial⟩
  · intro f hfm; simp at hfm; subst hfm; exact ⟨rfl, rfl, rfl⟩
  · intro k g c hk hg
    cases k with
    | zero => simp at hk; subst hk; rw [hfc] at hg; cases hg
    | succ j => simp at hk
  · intro c env' hg
    refine Or.inr (fun id hid l hl => ?_)
    simp at hl; subst hl
    exact hgenv c env' hg id hid
  · intro x hx
    obtain ⟨c, m, hcc, hm, hxs⟩ := hkeys x hx
    obtain ⟨m', hm', hag⟩ := hclos c env (hclo c hcc)
    rw [hm] at hm'; cases hm'
    cases hu : assocGet x m with
    | none => rw [hu] at hxs; cases hxs
    | some u =>
      have htl : tailLookup K.ctx s.closures clo x = u := by
        simp [tailLookup, hcc, hc, hm, hu]
      rw [htl, hlook env x henvb, hc]
      exact (hag x u hu).mono (GhostLe.refl G) (KeysMono.refl _) (by rw [hlen1]; omega)
  · intro c env' hg
    obtain ⟨m, hm, hag⟩ := hclos c env' hg
    refine ⟨m, by rw [hc]; exact hm, fun x u hx => ?_⟩
    rw [hc, hlook env' x (hgenv c env' hg)]
    exact (hag x u hx).mono (GhostLe.refl G) (KeysMono.refl _) (by rw [hlen1]; omega)
  · intro c env' hg id hid
    have := hgenv c env' hg id hid
    simp; omega
  · intro id hid
    simp at hid ⊢
    rcases hid with rfl | hid
    · omega
    · have := henvb id hid; omega
  · intro e he l hl
    simp at hl; subst hl
    exact henvb e he

end MJ.Vm
