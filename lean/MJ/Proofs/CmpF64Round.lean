import MJ.Proofs.CmpF64Order
/-!
# `n as f64` (round to nearest, ties to even) — what the proofs need to know about it

* `scaled_ofNat`: the result is the float whose exact value is `rnd n`;
* `rnd_bracket`: `rnd n` is one of the two multiples of `2^k` around `n` (`k = ⌊log2 n⌋ - 52`), and
  `n` itself when `n` is such a multiple;
* `grid`: every float of magnitude at least `2^l` is a multiple of `2^(l-52)`;
* `rnd_below` / `rnd_above`: no float lies strictly between `n` and `rnd n`.
-/
namespace MJ.F64

theorem P52_eq : P52 = 2 ^ 52 := by decide
theorem P63_eq : P63 = 2 ^ 63 := by decide
theorem infMag_eq : infMag = 2047 * P52 := by decide

/-- the exact value of `n as f64` -/
def rnd (n : Nat) : Nat :=
  if n = 0 then 0
  else
    let l := Nat.log2 n
    if l ≤ 52 then n
    else
      let k := l - 52
      let q := n / 2 ^ k
      let r := n % 2 ^ k
      let half := 2 ^ (k - 1)
      (if half < r ∨ (r = half ∧ q % 2 = 1) then q + 1 else q) * 2 ^ k

/-- decoding `e * 2^52 + m` with `m ≤ 2^52` (a mantissa overflow carries into the exponent) -/
theorem scaledOfMag_em (e m : Nat) (he : 1 ≤ e) (hm : m ≤ P52) :
    scaledOfMag (e * P52 + m) = (P52 + m) * 2 ^ (e - 1) := by
  unfold scaledOfMag
  by_cases hlt : m < P52
  · have h1 : (e * P52 + m) / P52 = e := by
      rw [Nat.mul_comm, Nat.mul_add_div P52_pos, Nat.div_eq_of_lt hlt]; rfl
    have h2 : (e * P52 + m) % P52 = m := by
      rw [Nat.mul_comm, Nat.mul_add_mod, Nat.mod_eq_of_lt hlt]
    rw [h1, h2, if_neg (by omega)]
  · have hm' : m = P52 := by omega
    subst hm'
    have h0 : e * P52 + P52 = P52 * (e + 1) := by rw [Nat.mul_comm, Nat.mul_succ]
    have h1 : (e * P52 + P52) / P52 = e + 1 := by
      rw [h0, Nat.mul_div_cancel_left _ P52_pos]
    have h2 : (e * P52 + P52) % P52 = 0 := by
      rw [h0, Nat.mul_mod_right]
    rw [h1, h2, if_neg (by omega)]
    have : e + 1 - 1 = (e - 1) + 1 := by omega
    rw [this, Nat.pow_succ]
    simp only [Nat.add_zero, P52]
    generalize 2 ^ (e - 1) = t
    omega

theorem log2_bounds {n : Nat} (h : n ≠ 0) : 2 ^ n.log2 ≤ n ∧ n < 2 ^ (n.log2 + 1) :=
  ⟨Nat.log2_self_le h, Nat.lt_log2_self⟩

/-- the quotient that becomes the 53-bit significand -/
theorem q_bounds {n l : Nat} (hl : 52 < l) (h1 : 2 ^ l ≤ n) (h2 : n < 2 ^ (l + 1)) :
    P52 ≤ n / 2 ^ (l - 52) ∧ n / 2 ^ (l - 52) < 2 * P52 := by
  have hk : 0 < 2 ^ (l - 52) := Nat.pow_pos (by omega)
  have e1 : 2 ^ l = P52 * 2 ^ (l - 52) := by
    rw [P52_eq, ← Nat.pow_add]; congr 1; omega
  have e2 : 2 ^ (l + 1) = 2 * P52 * 2 ^ (l - 52) := by
    rw [Nat.pow_succ, e1]
    simp only [P52]
    generalize 2 ^ (l - 52) = t
    omega
  constructor
  · rw [Nat.le_div_iff_mul_le hk, ← e1]; exact h1
  · rw [Nat.div_lt_iff_lt_mul hk, ← e2]; exact h2

/-- the bits `n as f64` decode to the value `rnd n`; the result is a finite non-negative float -/
theorem ofNat_spec (n : Nat) (hn : n.log2 < 1000) :
    ofNat n < infMag ∧ scaledOfMag (ofNat n) = rnd n * scale := by
  unfold ofNat rnd
  by_cases h0 : n = 0
  · subst h0
    rw [if_pos rfl, if_pos rfl, scaledOfMag_zero, Nat.zero_mul]
    exact ⟨by decide, rfl⟩
  · rw [if_neg h0, if_neg h0]
    obtain ⟨b1, b2⟩ := log2_bounds h0
    have hl1000 : n.log2 < 1000 := hn
    generalize n.log2 = l at *
    simp only []
    by_cases hl : l ≤ 52
    · rw [if_pos hl, if_pos hl]
      have hx1 : P52 ≤ n * 2 ^ (52 - l) := by
        have : 2 ^ l * 2 ^ (52 - l) = P52 := by rw [P52_eq, ← Nat.pow_add]; congr 1; omega
        rw [← this]; exact Nat.mul_le_mul_right _ b1
      have hx2 : n * 2 ^ (52 - l) < 2 * P52 := by
        have : 2 ^ (l + 1) * 2 ^ (52 - l) = 2 * P52 := by
          rw [P52_eq, ← Nat.pow_add, show l + 1 + (52 - l) = 52 + 1 by omega, Nat.pow_succ, Nat.mul_comm]
        rw [← this]; exact Nat.mul_lt_mul_of_pos_right b2 (Nat.pow_pos (by omega))
      have hX : n * 2 ^ (52 - l) * 2 ^ (l + 1022) = n * scale := by
        rw [Nat.mul_assoc, ← Nat.pow_add]
        rw [show 52 - l + (l + 1022) = 1074 by omega]
        rfl
      generalize n * 2 ^ (52 - l) = X at *
      refine ⟨?_, ?_⟩
      · rw [infMag_eq]; clear hX; simp only [P52] at *; omega
      · rw [scaledOfMag_em (l + 1023) (X - P52) (by omega) (by omega)]
        rw [show P52 + (X - P52) = X by omega, show l + 1023 - 1 = l + 1022 by omega]
        exact hX
    · rw [if_neg hl, if_neg hl]
      have hl' : 52 < l := by omega
      obtain ⟨q1, q2⟩ := q_bounds hl' b1 b2
      generalize hq : n / 2 ^ (l - 52) = q at *
      generalize n % 2 ^ (l - 52) = r at *
      generalize hX : (if 2 ^ (l - 52 - 1) < r ∨ r = 2 ^ (l - 52 - 1) ∧ q % 2 = 1 then q + 1 else q) = X
      have hX1 : P52 ≤ X := by rw [← hX]; split <;> omega
      have hX2 : X ≤ 2 * P52 := by rw [← hX]; split <;> omega
      refine ⟨?_, ?_⟩
      · rw [infMag_eq]; simp only [P52] at *; omega
      · rw [scaledOfMag_em (l + 1023) (X - P52) (by omega) (by omega)]
        rw [show P52 + (X - P52) = X by omega, show l + 1023 - 1 = l + 1022 by omega]
        rw [Nat.mul_assoc]
        show X * 2 ^ (l + 1022) = X * (2 ^ (l - 52) * 2 ^ 1074)
        rw [← Nat.pow_add, show l - 52 + 1074 = l + 1022 by omega]

theorem scale_eq_pow : scale = 2 ^ 1074 := rfl
theorem scale_pos' : 0 < scale := Nat.pow_pos (by omega)

/-- every float of magnitude at least `2^l` (`l ≥ 52`) is a multiple of `2^(l-52)` -/
theorem grid (l m : Nat) (hl : 52 ≤ l) (h : 2 ^ l * scale ≤ scaledOfMag m) :
    ∃ j, scaledOfMag m = j * (2 ^ (l - 52) * scale) := by
  unfold scaledOfMag at *
  have hf : m % P52 < P52 := Nat.mod_lt _ P52_pos
  generalize m / P52 = e at *
  generalize m % P52 = f at *
  have hls : 2 ^ l * scale = 2 ^ (l + 1074) := by rw [scale_eq_pow, Nat.pow_add]
  by_cases he : e = 0
  · rw [if_pos he] at h
    exfalso
    have h1 : 2 ^ 52 ≤ 2 ^ (l + 1074) := two_pow_le (by omega)
    rw [hls] at h
    rw [P52_eq] at hf
    omega
  · rw [if_neg he] at h ⊢
    have hlt : (P52 + f) * 2 ^ (e - 1) < 2 ^ (e + 52) := by
      have : 2 ^ (e + 52) = (P52 + P52) * 2 ^ (e - 1) := by
        rw [show e + 52 = (e - 1) + 53 by omega, Nat.pow_add]
        rw [show (2:Nat) ^ 53 = P52 + P52 by decide, Nat.mul_comm]
      rw [this]
      exact Nat.mul_lt_mul_of_pos_right (by omega) (Nat.pow_pos (by omega))
    have hexp : l + 1074 < e + 52 := by
      have : 2 ^ (l + 1074) < 2 ^ (e + 52) := by rw [← hls]; exact Nat.lt_of_le_of_lt h hlt
      exact (Nat.pow_lt_pow_iff_right (by omega)).mp this
    refine ⟨(P52 + f) * 2 ^ (e - 1 - (l + 1022)), ?_⟩
    rw [Nat.mul_assoc]
    refine congrArg (fun t => (P52 + f) * t) ?_
    rw [scale_eq_pow, ← Nat.pow_add, ← Nat.pow_add,
      show e - 1 - (l + 1022) + (l - 52 + 1074) = e - 1 by omega]

/-- `rnd n` is `q·2^k` or `(q+1)·2^k` around `n` -/
theorem rnd_bracket (n : Nat) (h0 : n ≠ 0) (hl : 52 < n.log2) :
    n / 2 ^ (n.log2 - 52) * 2 ^ (n.log2 - 52) ≤ n ∧
    n < (n / 2 ^ (n.log2 - 52) + 1) * 2 ^ (n.log2 - 52) ∧
    2 ^ n.log2 ≤ n / 2 ^ (n.log2 - 52) * 2 ^ (n.log2 - 52) ∧
    (rnd n = n / 2 ^ (n.log2 - 52) * 2 ^ (n.log2 - 52) ∨
      (rnd n = (n / 2 ^ (n.log2 - 52) + 1) * 2 ^ (n.log2 - 52) ∧
        n / 2 ^ (n.log2 - 52) * 2 ^ (n.log2 - 52) < n)) := by
  obtain ⟨b1, b2⟩ := log2_bounds h0
  obtain ⟨q1, _⟩ := q_bounds hl b1 b2
  have e1 : 2 ^ n.log2 = P52 * 2 ^ (n.log2 - 52) := by
    rw [P52_eq, ← Nat.pow_add]; congr 1; omega
  have hrnd : rnd n = (if 2 ^ (n.log2 - 52 - 1) < n % 2 ^ (n.log2 - 52) ∨
      (n % 2 ^ (n.log2 - 52) = 2 ^ (n.log2 - 52 - 1) ∧ n / 2 ^ (n.log2 - 52) % 2 = 1)
      then n / 2 ^ (n.log2 - 52) + 1 else n / 2 ^ (n.log2 - 52)) * 2 ^ (n.log2 - 52) := by
    unfold rnd
    rw [if_neg h0, if_neg (by omega)]
  have hhalf : 0 < 2 ^ (n.log2 - 52 - 1) := Nat.pow_pos (by omega)
  have hk : 0 < 2 ^ (n.log2 - 52) := Nat.pow_pos (by omega)
  have hdm := Nat.div_add_mod n (2 ^ (n.log2 - 52))
  have hr : n % 2 ^ (n.log2 - 52) < 2 ^ (n.log2 - 52) := Nat.mod_lt _ hk
  rw [Nat.mul_comm] at hdm
  generalize 2 ^ (n.log2 - 52 - 1) = half at *
  generalize 2 ^ (n.log2 - 52) = K at *
  generalize n / K = q at *
  generalize n % K = r at *
  have hq1 : P52 * K ≤ q * K := Nat.mul_le_mul_right _ q1
  refine ⟨by omega, by rw [Nat.succ_mul]; omega, by rw [e1]; exact hq1, ?_⟩
  rw [hrnd]
  split
  · rename_i hc
    right
    refine ⟨rfl, ?_⟩
    rcases hc with hc | hc <;> omega
  · left; rfl

/-- no float lies strictly between `n` and `rnd n` from above … -/
theorem rnd_above (n m : Nat) (h : n * scale ≤ scaledOfMag m) : rnd n * scale ≤ scaledOfMag m := by
  by_cases h0 : n = 0
  · subst h0; simp [rnd]
  by_cases hl : n.log2 ≤ 52
  · have : rnd n = n := by unfold rnd; rw [if_neg h0, if_pos hl]
    rw [this]; exact h
  · have hl' : 52 < n.log2 := by omega
    obtain ⟨c1, c2, c3, c4⟩ := rnd_bracket n h0 hl'
    rcases c4 with c4 | ⟨c4, c5⟩
    · rw [c4]; exact Nat.le_trans (Nat.mul_le_mul_right _ c1) h
    · rw [c4]
      have hg : 2 ^ n.log2 * scale ≤ scaledOfMag m :=
        Nat.le_trans (Nat.mul_le_mul_right _ (Nat.le_trans c3 c1)) h
      obtain ⟨j, hj⟩ := grid n.log2 m (by omega) hg
      rw [hj] at h ⊢
      rw [Nat.mul_assoc]
      apply Nat.mul_le_mul_right
      -- q < j
      have hlt : n / 2 ^ (n.log2 - 52) * (2 ^ (n.log2 - 52) * scale) < j * (2 ^ (n.log2 - 52) * scale) := by
        rw [← Nat.mul_assoc]
        exact Nat.lt_of_lt_of_le (Nat.mul_lt_mul_of_pos_right c5 scale_pos') h
      exact Nat.succ_le_of_lt (Nat.lt_of_mul_lt_mul_right hlt)

/-- … nor from below -/
theorem rnd_below (n m : Nat) (h : scaledOfMag m ≤ n * scale) : scaledOfMag m ≤ rnd n * scale := by
  by_cases h0 : n = 0
  · subst h0; simpa [rnd] using h
  by_cases hl : n.log2 ≤ 52
  · have : rnd n = n := by unfold rnd; rw [if_neg h0, if_pos hl]
    rw [this]; exact h
  · have hl' : 52 < n.log2 := by omega
    obtain ⟨c1, c2, c3, c4⟩ := rnd_bracket n h0 hl'
    rcases c4 with c4 | ⟨c4, _⟩
    · rw [c4]
      apply Nat.le_of_not_lt
      intro hgt
      have hg : 2 ^ n.log2 * scale ≤ scaledOfMag m :=
        Nat.le_trans (Nat.mul_le_mul_right _ c3) (Nat.le_of_lt hgt)
      obtain ⟨j, hj⟩ := grid n.log2 m (by omega) hg
      rw [hj, Nat.mul_assoc] at hgt
      have hqj : n / 2 ^ (n.log2 - 52) < j := Nat.lt_of_mul_lt_mul_right hgt
      have : (n / 2 ^ (n.log2 - 52) + 1) * (2 ^ (n.log2 - 52) * scale) ≤ j * (2 ^ (n.log2 - 52) * scale) :=
        Nat.mul_le_mul_right _ (Nat.succ_le_of_lt hqj)
      rw [← hj, ← Nat.mul_assoc] at this
      have h2 : n * scale < (n / 2 ^ (n.log2 - 52) + 1) * 2 ^ (n.log2 - 52) * scale :=
        Nat.mul_lt_mul_of_pos_right c2 scale_pos'
      omega
    · rw [c4]
      exact Nat.le_trans h (Nat.mul_le_mul_right _ (Nat.le_of_lt c2))

end MJ.F64
