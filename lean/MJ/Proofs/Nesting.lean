import MJ.Model.Nesting
/-! Proofs about the parser's nesting accounting (`MJ/Model/Nesting.lean`). -/
namespace MJ.Nesting

mutual
  /-- the accounting computes exactly the longest loop-built chain on a path -/
  theorem sim_ok (L : Limits) : ∀ (p : P) (depth hw r : Nat), sim L depth hw p = .ok r →
      r = max hw (chainDepth p)
    | .leaf, depth, hw, r, h => by
      simp only [sim, Except.ok.injEq] at h
      simp [chainDepth, ← h]
    | .chain l its, depth, hw, r, h => by
      simp only [sim] at h
      cases hl : sim L depth 0 l with
      | error e => rw [hl] at h; cases h
      | ok d =>
        rw [hl] at h
        simp only at h
        cases hf : simFold L depth d its with
        | error e => rw [hf] at h; cases h
        | ok d' =>
          rw [hf] at h
          simp only [Except.ok.injEq] at h
          have h1 := sim_ok L l depth 0 d hl
          have h2 := simFold_ok L its depth d d' hf
          simp only [chainDepth]
          rw [← h, h2, h1]
          simp [Nat.max_comm]
    | .group items, depth, hw, r, h => by
      simp only [sim] at h
      split at h
      · cases h
      · simpa [chainDepth] using simItems_ok L items (depth + 1) hw r h
  theorem simFold_ok (L : Limits) : ∀ (its : List P) (depth d r : Nat), simFold L depth d its = .ok r →
      r = chainFold d its
    | [], depth, d, r, h => by
      simp only [simFold, Except.ok.injEq] at h
      simp [chainFold, h]
    | it :: its, depth, d, r, h => by
      simp only [simFold] at h
      cases hi : sim L depth d it with
      | error e => rw [hi] at h; cases h
      | ok d1 =>
        rw [hi] at h
        simp only at h
        split at h
        · cases h
        · have h1 := sim_ok L it depth d d1 hi
          have h2 := simFold_ok L its depth (d1 + 1) r h
          simp only [chainFold]
          rw [h2, h1]
  theorem simItems_ok (L : Limits) : ∀ (ps : List P) (depth hw r : Nat), simItems L depth hw ps = .ok r →
      r = max hw (chainMax ps)
    | [], depth, hw, r, h => by
      simp only [simItems, Except.ok.injEq] at h
      simp [chainMax, ← h]
    | p :: ps, depth, hw, r, h => by
      simp only [simItems] at h
      cases hp : sim L depth hw p with
      | error e => rw [hp] at h; cases h
      | ok hw' =>
        rw [hp] at h
        simp only at h
        have h1 := sim_ok L p depth hw hw' hp
        have h2 := simItems_ok L ps depth hw' r h
        simp only [chainMax]
        rw [h2, h1]
        omega
end

theorem chainFold_ge (its : List P) (d : Nat) : d ≤ chainFold d its := by
  induction its generalizing d with
  | nil => simp [chainFold]
  | cons it its ih =>
    simp only [chainFold]
    have := ih (max d (chainDepth it) + 1)
    omega

theorem guardMax_le_of_mem : ∀ (ps : List P) (p : P), p ∈ ps → guardDepth p ≤ guardMax ps
  | [], p, h => by simp at h
  | q :: qs, p, h => by
    simp only [guardMax]
    rcases List.mem_cons.mp h with rfl | h'
    · omega
    · have := guardMax_le_of_mem qs p h'; omega

mutual
  /-- a successful parse respects both limits -/
  theorem sim_le (L : Limits) : ∀ (p : P) (depth hw r : Nat), depth ≤ L.maxRecursion → hw ≤ L.maxNesting →
      sim L depth hw p = .ok r →
      chainDepth p ≤ L.maxNesting ∧ depth + guardDepth p ≤ L.maxRecursion ∧ r ≤ L.maxNesting
    | .leaf, depth, hw, r, hd, hh, h => by
      simp only [sim, Except.ok.injEq] at h
      simp only [chainDepth, guardDepth]
      omega
    | .chain l its, depth, hw, r, hd, hh, h => by
      simp only [sim] at h
      cases hl : sim L depth 0 l with
      | error e => rw [hl] at h; cases h
      | ok d =>
        rw [hl] at h
        simp only at h
        cases hf : simFold L depth d its with
        | error e => rw [hf] at h; cases h
        | ok d' =>
          rw [hf] at h
          simp only [Except.ok.injEq] at h
          have h1 := sim_le L l depth 0 d hd (Nat.zero_le _) hl
          have e1 := sim_ok L l depth 0 d hl
          have h2 := simFold_le L its depth d d' hd h1.2.2 hf
          have e2 := simFold_ok L its depth d d' hf
          simp only [chainDepth, guardDepth]
          have : d = chainDepth l := by rw [e1]; simp
          subst this
          refine ⟨by rw [← e2]; exact h2.1, by have := h1.2.1; have := h2.2; omega, by omega⟩
    | .group items, depth, hw, r, hd, hh, h => by
      simp only [sim] at h
      split at h
      · cases h
      · rename_i hlim
        have := simItems_le L items (depth + 1) hw r (by omega) hh h
        simp only [chainDepth, guardDepth]
        omega
  theorem simFold_le (L : Limits) : ∀ (its : List P) (depth d r : Nat), depth ≤ L.maxRecursion → d ≤ L.maxNesting →
      simFold L depth d its = .ok r → r ≤ L.maxNesting ∧ depth + guardMax its ≤ L.maxRecursion
    | [], depth, d, r, hd, hh, h => by
      simp only [simFold, Except.ok.injEq] at h
      simp only [guardMax]; omega
    | it :: its, depth, d, r, hd, hh, h => by
      simp only [simFold] at h
      cases hi : sim L depth d it with
      | error e => rw [hi] at h; cases h
      | ok d1 =>
        rw [hi] at h
        simp only at h
        split at h
        · cases h
        · rename_i hlim
          have h1 := sim_le L it depth d d1 hd hh hi
          have h2 := simFold_le L its depth (d1 + 1) r hd (by omega) h
          simp only [guardMax]
          omega
  theorem simItems_le (L : Limits) : ∀ (ps : List P) (depth hw r : Nat), depth ≤ L.maxRecursion → hw ≤ L.maxNesting →
      simItems L depth hw ps = .ok r →
      chainMax ps ≤ L.maxNesting ∧ depth + guardMax ps ≤ L.maxRecursion ∧ r ≤ L.maxNesting
    | [], depth, hw, r, hd, hh, h => by
      simp only [simItems, Except.ok.injEq] at h
      simp only [chainMax, guardMax]; omega
    | p :: ps, depth, hw, r, hd, hh, h => by
      simp only [simItems] at h
      cases hp : sim L depth hw p with
      | error e => rw [hp] at h; cases h
      | ok hw' =>
        rw [hp] at h
        simp only at h
        have h1 := sim_le L p depth hw hw' hd hh hp
        have h2 := simItems_le L ps depth hw' r hd h1.2.2 h
        simp only [chainMax, guardMax]
        omega
end

mutual
  /-- the depth of the AST in terms of the two accounted quantities -/
  theorem ast_le : ∀ p : P, astDepthUB p ≤ wrapNodes * chainDepth p + groupNodes * guardDepth p + 1
    | .leaf => by simp [astDepthUB]
    | .chain l its => by
      simp only [astDepthUB, chainDepth, guardDepth]
      have h1 := ast_le l
      have := astFold_le its (astDepthUB l) (chainDepth l) (max (guardDepth l) (guardMax its))
        (by simp only [wrapNodes, groupNodes] at h1 ⊢; omega) (by omega)
      exact this
    | .group items => by
      simp only [astDepthUB, chainDepth, guardDepth]
      have := astMax_le items
      simp only [wrapNodes, groupNodes] at this ⊢
      omega
  theorem astFold_le : ∀ (its : List P) (dA dC G : Nat), dA ≤ wrapNodes * dC + groupNodes * G + 1 → guardMax its ≤ G →
      astFold dA its ≤ wrapNodes * chainFold dC its + groupNodes * G + 1
    | [], dA, dC, G, h, _ => by simpa [astFold, chainFold] using h
    | it :: its, dA, dC, G, h, hg => by
      simp only [astFold, chainFold]
      have h1 := ast_le it
      simp only [guardMax] at hg
      apply astFold_le its _ _ G _ (by omega)
      simp only [wrapNodes, groupNodes] at h h1 ⊢
      omega
  theorem astMax_le : ∀ ps : List P, astMax ps ≤ wrapNodes * chainMax ps + groupNodes * guardMax ps + 1
    | [] => by simp [astMax]
    | p :: ps => by
      simp only [astMax, chainMax, guardMax]
      have h1 := ast_le p
      have h2 := astMax_le ps
      simp only [wrapNodes, groupNodes] at h1 h2 ⊢
      omega
end

mutual
  /-- the chain error is raised only when the longest chain really exceeds the limit -/
  theorem sim_chain_err (L : Limits) : ∀ (p : P) (depth hw : Nat), sim L depth hw p = .error .chain →
      L.maxNesting < chainDepth p
    | .leaf, depth, hw, h => by simp [sim] at h
    | .chain l its, depth, hw, h => by
      simp only [sim] at h
      simp only [chainDepth]
      cases hl : sim L depth 0 l with
      | error e =>
        rw [hl] at h
        simp only [Except.error.injEq] at h
        subst h
        have := sim_chain_err L l depth 0 hl
        have := chainFold_ge its (chainDepth l)
        omega
      | ok d =>
        rw [hl] at h
        simp only at h
        have e1 := sim_ok L l depth 0 d hl
        have : d = chainDepth l := by rw [e1]; simp
        subst this
        cases hf : simFold L depth (chainDepth l) its with
        | error e =>
          rw [hf] at h
          simp only [Except.error.injEq] at h
          subst h
          exact simFold_chain_err L its depth _ hf
        | ok d' => rw [hf] at h; cases h
    | .group items, depth, hw, h => by
      simp only [sim] at h
      split at h
      · cases h
      · simpa [chainDepth] using simItems_chain_err L items (depth + 1) hw h
  theorem simFold_chain_err (L : Limits) : ∀ (its : List P) (depth d : Nat), simFold L depth d its = .error .chain →
      L.maxNesting < chainFold d its
    | [], depth, d, h => by simp [simFold] at h
    | it :: its, depth, d, h => by
      simp only [simFold] at h
      simp only [chainFold]
      cases hi : sim L depth d it with
      | error e =>
        rw [hi] at h
        simp only [Except.error.injEq] at h
        subst h
        have := sim_chain_err L it depth d hi
        have := chainFold_ge its (max d (chainDepth it) + 1)
        omega
      | ok d1 =>
        rw [hi] at h
        simp only at h
        have e1 := sim_ok L it depth d d1 hi
        subst e1
        split at h
        · have := chainFold_ge its (max d (chainDepth it) + 1)
          omega
        · exact simFold_chain_err L its depth _ h
  theorem simItems_chain_err (L : Limits) : ∀ (ps : List P) (depth hw : Nat), simItems L depth hw ps = .error .chain →
      L.maxNesting < chainMax ps
    | [], depth, hw, h => by simp [simItems] at h
    | p :: ps, depth, hw, h => by
      simp only [simItems] at h
      simp only [chainMax]
      cases hp : sim L depth hw p with
      | error e =>
        rw [hp] at h
        simp only [Except.error.injEq] at h
        subst h
        have := sim_chain_err L p depth hw hp
        omega
      | ok hw' =>
        rw [hp] at h
        simp only at h
        have := simItems_chain_err L ps depth hw' h
        omega
end

end MJ.Nesting
