import MJ.Proofs.StmtRel
/-!
# The core fragment of the refinement theorem (C03): static conditions

`wfBlock M P A inLoop prog` is the decidable description of the programs `vm_refines_eval` is about.
On top of the shape conditions of `coreBlock` (which forms are compiled) it asks for

* **macro names are only called** (`M` = the names declared by `{% macro %}` plus `caller`): a name of
  `M` occurs in expressions only as the head of a call, never as a value, and is never an assignment
  target / loop variable / parameter — so the values that flow through expressions are plain data and
  macro values sit in variables only; the hidden `caller` keyword is only passed by call blocks;
* **every read is covered** (`P`, `A`): inside a macro body a variable that is read is one of the
  names the macro's closure was built for (`P = some (find_macro_closure …)`) or was certainly
  assigned before in the body (`A`); at template level (`P = none`) nothing is asked.  The same for
  the names a nested declaration / a call block encloses.  This is what `find_macro_closure` is meant to
  guarantee;
* **defaults cannot tell the binding order** (`wfDefault`): a parameter default contains no call and reads
  no parameter (the engine binds back to front, the reference semantics front to back);
* keyword arguments of one call are distinct; parameters are distinct; the `caller` flag of a
  declaration / a call block is the one `find_macro_closure` computes.
-/
namespace MJ.Compile
open MJ.Eval

/-- may `x` be read here?  `P = none`: template level (every name); `P = some fv`: the names the
enclosing macro encloses, plus `A`, the names certainly bound in the scopes of the body -/
def allowed (P : Option (List String)) (A : List String) (x : String) : Bool :=
  match P with
  | none => true
  | some fv => fv.contains x || A.contains x

mutual
  /-- the names an assignment target binds -/
  def targetNames : Target → List String
    | .var x => [x]
    | .tuple ts => targetsNames ts
  def targetsNames : List Target → List String
    | [] => []
    | t :: ts => targetNames t ++ targetsNames ts
end

def keysOf (args : List (Option String × Expr)) : List String :=
  args.filterMap fun a => a.1

/-- the names a macro encloses (all free names but `caller`) -/
def fvOf (params : List String) (defaults : List Expr) (body : List Stmt) : List String :=
  (findMacroClosure params defaults body).filter (· != "caller")

mutual
  def wfExpr (M : List String) (P : Option (List String)) (A : List String) : Expr → Bool
    | .const _ => true
    | .var x => !M.contains x && allowed P A x
    | .unop _ e => wfExpr M P A e
    | .binop _ l r => wfExpr M P A l && wfExpr M P A r
    | .cmp e ops => decide (2 ≤ ops.length) && wfExpr M P A e && wfChain M P A ops
    | .ife c t none => wfExpr M P A c && wfExpr M P A t
    | .ife c t (some f) => wfExpr M P A c && wfExpr M P A t && wfExpr M P A f
    | .filter _ e args => wfExpr M P A e && wfArgs M P A args
    | .test name e args =>
      -- `m is defined` / `m is undefined` for a macro name `m`: the only use of a macro as a value
      (match e with
        | .var x => M.contains x && (name == "defined" || name == "undefined") && allowed P A x && args.isEmpty
        | _ => false) ||
      (wfExpr M P A e && wfArgs M P A args)
    | .getattr e _ => wfExpr M P A e
    | .getitem e i => wfExpr M P A e && wfExpr M P A i
    | .call (.var x) args =>
      M.contains x && allowed P A x && ((keysOf args).Nodup && !(keysOf args).contains "caller") && wfCallArgs M P A args
    | .call _ _ => false
    | .list items => wfList M P A items
    | .map kvs => wfPairs M P A kvs
  def wfChain (M : List String) (P : Option (List String)) (A : List String) : List (CmpOp × Expr) → Bool
    | [] => true
    | (_, e) :: rest => wfExpr M P A e && wfChain M P A rest
  def wfArgs (M : List String) (P : Option (List String)) (A : List String) : List (Option String × Expr) → Bool
    | [] => true
    | (none, e) :: rest => wfExpr M P A e && wfArgs M P A rest
    | (some _, _) :: _ => false
  def wfCallArgs (M : List String) (P : Option (List String)) (A : List String) : List (Option String × Expr) → Bool
    | [] => true
    | (_, e) :: rest => wfExpr M P A e && wfCallArgs M P A rest
  def wfList (M : List String) (P : Option (List String)) (A : List String) : List Expr → Bool
    | [] => true
    | e :: rest => wfExpr M P A e && wfList M P A rest
  def wfPairs (M : List String) (P : Option (List String)) (A : List String) : List (Expr × Expr) → Bool
    | [] => true
    | (k, v) :: rest => wfExpr M P A k && wfExpr M P A v && wfPairs M P A rest
end

mutual
  /-- `e` contains no call and reads only names of `F` -/
  def readsIn (F : List String) : Expr → Bool
    | .const _ => true
    | .var x => F.contains x
    | .unop _ e => readsIn F e
    | .binop _ l r => readsIn F l && readsIn F r
    | .cmp e ops => readsIn F e && readsInChain F ops
    | .ife c t none => readsIn F c && readsIn F t
    | .ife c t (some f) => readsIn F c && readsIn F t && readsIn F f
    | .filter _ e args => readsIn F e && readsInArgs F args
    | .test _ e args => readsIn F e && readsInArgs F args
    | .getattr e _ => readsIn F e
    | .getitem e i => readsIn F e && readsIn F i
    | .call _ _ => false
    | .list items => readsInList F items
    | .map kvs => readsInPairs F kvs
  def readsInChain (F : List String) : List (CmpOp × Expr) → Bool
    | [] => true
    | (_, e) :: rest => readsIn F e && readsInChain F rest
  def readsInArgs (F : List String) : List (Option String × Expr) → Bool
    | [] => true
    | (_, e) :: rest => readsIn F e && readsInArgs F rest
  def readsInList (F : List String) : List Expr → Bool
    | [] => true
    | e :: rest => readsIn F e && readsInList F rest
  def readsInPairs (F : List String) : List (Expr × Expr) → Bool
    | [] => true
    | (k, v) :: rest => readsIn F k && readsIn F v && readsInPairs F rest
end

/-- a parameter default: no call, reads only enclosed names that are not parameters (the engine binds
the parameters back to front, the reference semantics front to back: such a default cannot tell), -/
def wfDefault (M : List String) (fv params : List String) (d : Expr) : Bool :=
  readsIn (fv.filter fun x => !params.contains x) d && wfExpr M (some fv) [] d

/-- no name of the target is a macro name -/
def targetOk (M : List String) (t : Target) : Bool := (targetNames t).all fun x => !M.contains x

/-- the `with` bindings are evaluated one after the other in the new scope -/
def wfBinds (M : List String) (P : Option (List String)) : List String → List (Target × Expr) → Bool
  | _, [] => true
  | A, (t, e) :: rest => targetOk M t && wfExpr M P A e && wfBinds M P (A ++ targetNames t) rest

def bindsNames : List (Target × Expr) → List String
  | [] => []
  | (t, _) :: rest => targetNames t ++ bindsNames rest

def wfFilters (M : List String) (P : Option (List String)) (A : List String) : List FilterApp → Bool
  | [] => true
  | (_, args) :: rest => wfArgs M P A args && wfFilters M P A rest

/-- the names a statement certainly binds in the scope it stands in -/
def assignedBy : Stmt → List String
  | .set t _ => targetNames t
  | .setBlock x _ _ => [x]
  | .macroS name _ _ _ _ => [name]
  | _ => []

/-- `caller` is bound in the body of a macro that refers to it -/
def macroBound (params : List String) (uc : Bool) : List String := params ++ (if uc then ["caller"] else [])

mutual
  def wfStmt (M : List String) (P : Option (List String)) (A : List String) : Bool → Stmt → Bool
    | _, .text _ => true
    | _, .emit e => wfExpr M P A e
    | _, .set t e => targetOk M t && wfExpr M P A e
    | inLoop, .ifS c t f => wfExpr M P A c && wfBlock M P A inLoop t && wfBlock M P A inLoop f
    | inLoop, .withS binds body => wfBinds M P A binds && wfBlock M P (A ++ bindsNames binds) inLoop body
    | inLoop, .forS t iter flt body els =>
      targetOk M t && wfExpr M P A iter &&
        (match flt with | some c => wfExpr M P (A ++ targetNames t) c | none => true) &&
        wfBlock M P (A ++ targetNames t ++ ["loop"]) true body && wfBlock M P A inLoop els
    | inLoop, .setBlock x filters body => !M.contains x && wfFilters M P A filters && wfBlock M P A inLoop body
    | inLoop, .filterBlock filters body => wfFilters M P A filters && wfBlock M P A inLoop body
    | _, .macroS name params defaults body uc =>
      -- the declaration encloses names that may be read here; the body reads enclosed names, its
      -- parameters and what it assigned itself; defaults: `wfDefault`
      M.contains name && (fvOf params defaults body).all (allowed P A) &&
        (params.Nodup && params.all (fun p => !M.contains p && p != "caller") &&
          (decide (defaults.length ≤ params.length) && defaults.all (wfDefault M (fvOf params defaults body) params)) &&
          (uc == (findMacroClosure params defaults body).contains "caller") && (!uc || M.contains "caller") &&
          wfBlock M (some (fvOf params defaults body)) (macroBound params uc) false body)
    | _, .callBlock (.var x) args params defaults body uc =>
      -- a call of `x` with the hidden keyword argument `caller`: a macro made of the body of the block
      M.contains x && allowed P A x && ((keysOf args).Nodup && !(keysOf args).contains "caller") && wfCallArgs M P A args &&
        (M.contains "caller" && (fvOf params defaults body).all (allowed P A)) &&
        (params.Nodup && params.all (fun p => !M.contains p && p != "caller") &&
          (decide (defaults.length ≤ params.length) && defaults.all (wfDefault M (fvOf params defaults body) params)) &&
          (uc == (findMacroClosure params defaults body).contains "caller") && (!uc || M.contains "caller") &&
          wfBlock M (some (fvOf params defaults body)) (macroBound params uc) false body)
    | _, .callBlock _ _ _ _ _ _ => false
    | inLoop, .breakS => inLoop
    | inLoop, .continueS => inLoop
  def wfBlock (M : List String) (P : Option (List String)) (A : List String) : Bool → List Stmt → Bool
    | _, [] => true
    | inLoop, s :: rest => wfStmt M P A inLoop s && wfBlock M P (A ++ assignedBy s) inLoop rest
end

/-- what the body of a declared macro satisfies (the part of `wfStmt` a call needs) -/
def wfMacroBody (M : List String) (params : List String) (defaults : List Expr) (body : List Stmt) (uc : Bool) : Bool :=
  params.Nodup && params.all (fun p => !M.contains p && p != "caller") &&
    (decide (defaults.length ≤ params.length) && defaults.all (wfDefault M (fvOf params defaults body) params)) &&
    (uc == (findMacroClosure params defaults body).contains "caller") && (!uc || M.contains "caller") &&
    wfBlock M (some (fvOf params defaults body)) (macroBound params uc) false body

theorem wfStmt_macro {M P A l name params defaults body uc} (h : wfStmt M P A l (.macroS name params defaults body uc) = true) :
    M.contains name = true ∧ (fvOf params defaults body).all (allowed P A) = true ∧
      wfMacroBody M params defaults body uc = true := by
  simp only [wfStmt, Bool.and_eq_true] at h
  refine ⟨h.1.1, h.1.2, ?_⟩
  simp only [wfMacroBody, Bool.and_eq_true]
  exact h.2

theorem wfStmt_callBlock {M P A l x args params defaults body uc}
    (h : wfStmt M P A l (.callBlock (.var x) args params defaults body uc) = true) :
    (M.contains x = true ∧ allowed P A x = true ∧ (keysOf args).Nodup ∧ ¬ "caller" ∈ keysOf args ∧
      wfCallArgs M P A args = true) ∧ M.contains "caller" = true ∧
      (fvOf params defaults body).all (allowed P A) = true ∧ wfMacroBody M params defaults body uc = true := by
  simp only [wfStmt, Bool.and_eq_true] at h
  refine ⟨⟨h.1.1.1.1.1, h.1.1.1.1.2, by simpa using h.1.1.1.2.1, by simpa using h.1.1.1.2.2, h.1.1.2⟩, h.1.2.1, h.1.2.2, ?_⟩
  simp only [wfMacroBody, Bool.and_eq_true]
  exact h.2

mutual
  /-- the names declared by `{% macro %}` in a program -/
  def declaredStmt : Stmt → List String
    | .ifS _ t f => declaredBlock t ++ declaredBlock f
    | .forS _ _ _ body els => declaredBlock body ++ declaredBlock els
    | .setBlock _ _ body => declaredBlock body
    | .withS _ body => declaredBlock body
    | .filterBlock _ body => declaredBlock body
    | .macroS name _ _ body _ => name :: declaredBlock body
    | .callBlock _ _ _ _ body _ => declaredBlock body
    | _ => []
  def declaredBlock : List Stmt → List String
    | [] => []
    | s :: rest => declaredStmt s ++ declaredBlock rest
end

/-- the macro names of a program -/
def macroNames (prog : List Stmt) : List String := "caller" :: declaredBlock prog

/-- the fragment of `vm_refines_eval` -/
def CoreFragment (prog : List Stmt) : Prop := wfBlock (macroNames prog) none [] false prog = true

instance (prog : List Stmt) : Decidable (CoreFragment prog) := by unfold CoreFragment; infer_instance

/-! ## `wf` implies the shape fragment `core` -/

mutual
theorem wf_core (M P A) : ∀ (e : Expr), wfExpr M P A e = true → coreExpr e = true
  | .const _, _ => rfl
  | .var _, _ => rfl
  | .unop _ e, h => by simp only [wfExpr] at h; simp only [coreExpr]; exact wf_core M P A e h
  | .binop _ l r, h => by
    simp only [wfExpr, Bool.and_eq_true] at h; simp only [coreExpr, Bool.and_eq_true]
    exact ⟨wf_core M P A l h.1, wf_core M P A r h.2⟩
  | .cmp e ops, h => by
    simp only [wfExpr, Bool.and_eq_true] at h; simp only [coreExpr, Bool.and_eq_true]
    exact ⟨⟨h.1.1, wf_core M P A e h.1.2⟩, wf_coreChain M P A ops h.2⟩
  | .ife c t none, h => by
    simp only [wfExpr, Bool.and_eq_true] at h; simp only [coreExpr, Bool.and_eq_true]
    exact ⟨wf_core M P A c h.1, wf_core M P A t h.2⟩
  | .ife c t (some f), h => by
    simp only [wfExpr, Bool.and_eq_true] at h; simp only [coreExpr, Bool.and_eq_true]
    exact ⟨⟨wf_core M P A c h.1.1, wf_core M P A t h.1.2⟩, wf_core M P A f h.2⟩
  | .filter _ e args, h => by
    simp only [wfExpr, Bool.and_eq_true] at h; simp only [coreExpr, Bool.and_eq_true]
    exact ⟨wf_core M P A e h.1, wf_coreArgs M P A args h.2⟩
  | .test _ e args, h => by
    simp only [wfExpr, Bool.or_eq_true, Bool.and_eq_true] at h; simp only [coreExpr, Bool.and_eq_true]
    rcases h with h | h
    · cases e <;> try (simp at h; done)
      simp only [Bool.and_eq_true] at h
      have ha : args = [] := by simpa using h.2
      subst ha
      exact ⟨rfl, rfl⟩
    · exact ⟨wf_core M P A e h.1, wf_coreArgs M P A args h.2⟩
  | .getattr e _, h => by simp only [wfExpr] at h; simp only [coreExpr]; exact wf_core M P A e h
  | .getitem e i, h => by
    simp only [wfExpr, Bool.and_eq_true] at h; simp only [coreExpr, Bool.and_eq_true]
    exact ⟨wf_core M P A e h.1, wf_core M P A i h.2⟩
  | .call f args, h => by
    cases f with
    | var x =>
      simp only [wfExpr, Bool.and_eq_true] at h; simp only [coreExpr]
      exact wf_coreCallArgs M P A args h.2
    | _ => simp [wfExpr] at h
  | .list items, h => by simp only [wfExpr] at h; simp only [coreExpr]; exact wf_coreList M P A items h
  | .map kvs, h => by simp only [wfExpr] at h; simp only [coreExpr]; exact wf_corePairs M P A kvs h
theorem wf_coreChain (M P A) : ∀ (ops : List (CmpOp × Expr)), wfChain M P A ops = true → coreChain ops = true
  | [], _ => rfl
  | (_, e) :: rest, h => by
    simp only [wfChain, Bool.and_eq_true] at h; simp only [coreChain, Bool.and_eq_true]
    exact ⟨wf_core M P A e h.1, wf_coreChain M P A rest h.2⟩
theorem wf_coreArgs (M P A) : ∀ (args : List (Option String × Expr)), wfArgs M P A args = true → coreArgs args = true
  | [], _ => rfl
  | (none, e) :: rest, h => by
    simp only [wfArgs, Bool.and_eq_true] at h; simp only [coreArgs, Bool.and_eq_true]
    exact ⟨wf_core M P A e h.1, wf_coreArgs M P A rest h.2⟩
  | (some _, _) :: _, h => by simp [wfArgs] at h
theorem wf_coreCallArgs (M P A) : ∀ (args : List (Option String × Expr)), wfCallArgs M P A args = true →
    coreCallArgs args = true
  | [], _ => rfl
  | (_, e) :: rest, h => by
    simp only [wfCallArgs, Bool.and_eq_true] at h; simp only [coreCallArgs, Bool.and_eq_true]
    exact ⟨wf_core M P A e h.1, wf_coreCallArgs M P A rest h.2⟩
theorem wf_coreList (M P A) : ∀ (es : List Expr), wfList M P A es = true → coreList es = true
  | [], _ => rfl
  | e :: rest, h => by
    simp only [wfList, Bool.and_eq_true] at h; simp only [coreList, Bool.and_eq_true]
    exact ⟨wf_core M P A e h.1, wf_coreList M P A rest h.2⟩
theorem wf_corePairs (M P A) : ∀ (kvs : List (Expr × Expr)), wfPairs M P A kvs = true → corePairs kvs = true
  | [], _ => rfl
  | (k, v) :: rest, h => by
    simp only [wfPairs, Bool.and_eq_true] at h; simp only [corePairs, Bool.and_eq_true]
    exact ⟨⟨wf_core M P A k h.1.1, wf_core M P A v h.1.2⟩, wf_corePairs M P A rest h.2⟩
end

theorem wf_coreBinds (M P) : ∀ (A : List String) (bs : List (Target × Expr)), wfBinds M P A bs = true → coreBinds bs = true
  | _, [], _ => rfl
  | A, (t, e) :: rest, h => by
    simp only [wfBinds, Bool.and_eq_true] at h; simp only [coreBinds, Bool.and_eq_true]
    exact ⟨wf_core M P A e h.1.2, wf_coreBinds M P _ rest h.2⟩

theorem wf_coreFilters (M P A) : ∀ (fs : List FilterApp), wfFilters M P A fs = true → coreFilters fs = true
  | [], _ => rfl
  | (_, args) :: rest, h => by
    simp only [wfFilters, Bool.and_eq_true] at h; simp only [coreFilters, Bool.and_eq_true]
    exact ⟨wf_coreArgs M P A args h.1, wf_coreFilters M P A rest h.2⟩

theorem wf_coreDefaults (M P) : ∀ (ds : List Expr), (∀ d ∈ ds, wfExpr M P [] d = true) → coreDefaults ds = true
  | [], _ => rfl
  | d :: rest, h => by
    simp only [coreDefaults, Bool.and_eq_true]
    exact ⟨wf_core M P [] d (h d (by simp)), wf_coreDefaults M P rest (fun e he => h e (by simp [he]))⟩

mutual
theorem wf_coreStmt (M) : ∀ (P : Option (List String)) (A : List String) (l : Bool) (st : Stmt),
    wfStmt M P A l st = true → coreStmt l st = true
  | _, _, _, .text _, _ => rfl
  | P, A, _, .emit e, h => by simp only [wfStmt] at h; simp only [coreStmt]; exact wf_core M P A e h
  | P, A, _, .set _ e, h => by
    simp only [wfStmt, Bool.and_eq_true] at h; simp only [coreStmt]; exact wf_core M P A e h.2
  | P, A, l, .ifS c t f, h => by
    simp only [wfStmt, Bool.and_eq_true] at h; simp only [coreStmt, Bool.and_eq_true]
    exact ⟨⟨wf_core M P A c h.1.1, wf_coreBlock M P A l t h.1.2⟩, wf_coreBlock M P A l f h.2⟩
  | P, A, l, .withS binds body, h => by
    simp only [wfStmt, Bool.and_eq_true] at h; simp only [coreStmt, Bool.and_eq_true]
    exact ⟨wf_coreBinds M P A binds h.1, wf_coreBlock M P _ l body h.2⟩
  | P, A, l, .forS t iter flt body els, h => by
    simp only [wfStmt, Bool.and_eq_true] at h; simp only [coreStmt, Bool.and_eq_true]
    refine ⟨⟨⟨wf_core M P A iter h.1.1.1.2, ?_⟩, wf_coreBlock M P _ true body h.1.2⟩, wf_coreBlock M P A l els h.2⟩
    cases flt with
    | none => rfl
    | some c => exact wf_core M P _ c h.1.1.2
  | P, A, l, .setBlock _ fs body, h => by
    simp only [wfStmt, Bool.and_eq_true] at h; simp only [coreStmt, Bool.and_eq_true]
    exact ⟨wf_coreFilters M P A fs h.1.2, wf_coreBlock M P A l body h.2⟩
  | P, A, l, .filterBlock fs body, h => by
    simp only [wfStmt, Bool.and_eq_true] at h; simp only [coreStmt, Bool.and_eq_true]
    exact ⟨wf_coreFilters M P A fs h.1, wf_coreBlock M P A l body h.2⟩
  | P, A, _, .macroS name params defaults body uc, h => by
    simp only [wfStmt, Bool.and_eq_true] at h; simp only [coreStmt, Bool.and_eq_true]
    refine ⟨wf_coreDefaults M (some (fvOf params defaults body)) defaults (fun d hd => ?_), wf_coreBlock M _ _ false body h.2.2⟩
    have := h.2.1.1.1.2.2
    rw [List.all_eq_true] at this
    have := this d hd
    simp only [wfDefault, Bool.and_eq_true] at this
    exact this.2
  | P, A, _, .callBlock callee args params defaults body uc, h => by
    cases callee <;> try (simp [wfStmt] at h; done)
    have h' := wfStmt_callBlock h
    have hb : wfMacroBody M params defaults body uc = true := h'.2.2.2
    simp only [wfMacroBody, Bool.and_eq_true] at hb
    simp only [coreStmt, Bool.and_eq_true]
    refine ⟨⟨wf_coreCallArgs M P A args h'.1.2.2.2.2, wf_coreDefaults M (some (fvOf params defaults body)) defaults (fun d hd => ?_)⟩,
      wf_coreBlock M _ _ false body hb.2⟩
    have := hb.1.1.1.2.2
    rw [List.all_eq_true] at this
    have := this d hd
    simp only [wfDefault, Bool.and_eq_true] at this
    exact this.2
  | _, _, _, .breakS, h => by simpa [wfStmt, coreStmt] using h
  | _, _, _, .continueS, h => by simpa [wfStmt, coreStmt] using h
theorem wf_coreBlock (M) : ∀ (P : Option (List String)) (A : List String) (l : Bool) (ss : List Stmt),
    wfBlock M P A l ss = true → coreBlock l ss = true
  | _, _, _, [], _ => rfl
  | P, A, l, s :: rest, h => by
    simp only [wfBlock, Bool.and_eq_true] at h; simp only [coreBlock, Bool.and_eq_true]
    exact ⟨wf_coreStmt M P A l s h.1, wf_coreBlock M P _ l rest h.2⟩
end

/-- a bigger set of certainly-bound names allows more -/
theorem allowed_mono {P : Option (List String)} {A B : List String} (hAB : ∀ x, x ∈ A → x ∈ B) {x : String}
    (h : allowed P A x = true) : allowed P B x = true := by
  cases P with
  | none => rfl
  | some fv =>
    simp only [allowed, Bool.or_eq_true, List.contains_iff_mem] at h ⊢
    exact h.elim Or.inl (fun h => Or.inr (hAB x h))

end MJ.Compile
