import MJ.Model.LexerSpec
/-! Basic list lemmas for the lexer model: `startsWith`, suffix counts, `trimEnd`, `lstripBlock`,
`scanLineStart`, `nlLen`. -/
namespace MJ.Lexer

/-! ### startsWith -/

@[simp] theorem startsWith_nil (s : List Char) : startsWith [] s = true := by
  cases s <;> rfl

theorem startsWith_append_self (p s : List Char) : startsWith p (p ++ s) = true := by
  induction p with
  | nil => simp
  | cons a p ih => simp [startsWith, ih]

theorem startsWith_cons_ne {a c : Char} (p r : List Char) (h : a ≠ c) :
    startsWith (a :: p) (c :: r) = false := by
  simp [startsWith, h]

theorem startsWith_iff (p s : List Char) : startsWith p s = true ↔ ∃ r, s = p ++ r := by
  induction p generalizing s with
  | nil => simp
  | cons a p ih =>
    cases s with
    | nil => simp [startsWith]
    | cons c s =>
      simp only [startsWith, Bool.and_eq_true, decide_eq_true_eq, ih, List.cons_append, List.cons.injEq]
      constructor
      · rintro ⟨rfl, r, rfl⟩; exact ⟨r, rfl, rfl⟩
      · rintro ⟨r, rfl, rfl⟩; exact ⟨rfl, r, rfl⟩

/-- two prefixes of one string with the same length are equal -/
theorem startsWith_eq_of_length_eq {p q s : List Char} (hp : startsWith p s = true)
    (hq : startsWith q s = true) (hl : p.length = q.length) : p = q := by
  obtain ⟨r1, h1⟩ := (startsWith_iff p s).1 hp
  obtain ⟨r2, h2⟩ := (startsWith_iff q s).1 hq
  rw [h1] at h2
  exact List.append_inj_left h2 hl

/-! ### character classes -/

theorem isHws_isWs {c : Char} (h : isHws c = true) : isWs c = true := by
  simp [isHws] at h; exact h.1

theorem isNl_isWs {c : Char} (h : isNl c = true) : isWs c = true := by
  simp only [isNl, Bool.or_eq_true, decide_eq_true_eq] at h
  rcases h with rfl | rfl <;> decide

theorem isHws_not_nl {c : Char} (h : isHws c = true) : isNl c = false := by
  simp [isHws] at h; exact h.2

theorem isHws_eq (c : Char) : isHws c = (isWs c && !isNl c) := rfl

theorem not_hws_of_not_ws {c : Char} (h : isWs c = false) : isHws c = false := by
  simp [isHws, h]

/-! ### takeWhile / dropWhile -/

theorem mem_takeWhile_sat {p : Char → Bool} {l : List Char} {x : Char} (h : x ∈ l.takeWhile p) :
    p x = true := by
  induction l with
  | nil => simp at h
  | cons a l ih =>
    rw [List.takeWhile_cons] at h
    by_cases ha : p a = true
    · simp only [ha, if_true, List.mem_cons] at h
      rcases h with rfl | h
      · exact ha
      · exact ih h
    · simp [ha] at h

theorem takeWhile_all {p : Char → Bool} {l : List Char} (h : ∀ x ∈ l, p x = true) :
    l.takeWhile p = l := by
  induction l with
  | nil => rfl
  | cons a l ih =>
    rw [List.takeWhile_cons, if_pos (h a (by simp)), ih (fun x hx => h x (by simp [hx]))]

theorem dropWhile_all {p : Char → Bool} {l : List Char} (h : ∀ x ∈ l, p x = true) :
    l.dropWhile p = [] := by
  induction l with
  | nil => rfl
  | cons a l ih =>
    rw [List.dropWhile_cons, if_pos (h a (by simp)), ih (fun x hx => h x (by simp [hx]))]

theorem dropWhile_head_false {p : Char → Bool} {l : List Char} {c : Char} {r : List Char}
    (h : l.dropWhile p = c :: r) : p c = false := by
  have := List.head_dropWhile_not p (l := l) (by simp [h])
  simpa [h] using this

/-- `s = b ++ u` where `u` is the maximal suffix satisfying `p` -/
structure SufSplit (p : Char → Bool) (s b u : List Char) : Prop where
  eq : s = b ++ u
  sat : ∀ x ∈ u, p x = true
  stop : b = [] ∨ ∃ b' c, b = b' ++ [c] ∧ p c = false

theorem SufSplit.rev_takeWhile {p : Char → Bool} {s b u : List Char} (h : SufSplit p s b u) :
    s.reverse.takeWhile p = u.reverse := by
  rw [h.eq, List.reverse_append, List.takeWhile_append_of_pos (by simpa using h.sat)]
  rcases h.stop with rfl | ⟨b', c, rfl, hc⟩
  · simp
  · simp [List.takeWhile_cons, hc]

theorem SufSplit.rev_dropWhile {p : Char → Bool} {s b u : List Char} (h : SufSplit p s b u) :
    s.reverse.dropWhile p = b.reverse := by
  rw [h.eq, List.reverse_append, List.dropWhile_append_of_pos (by simpa using h.sat)]
  rcases h.stop with rfl | ⟨b', c, rfl, hc⟩
  · simp
  · simp [List.dropWhile_cons, hc]

theorem sufSplit_exists (p : Char → Bool) (s : List Char) : ∃ b u, SufSplit p s b u := by
  refine ⟨(s.reverse.dropWhile p).reverse, (s.reverse.takeWhile p).reverse, ?_, ?_, ?_⟩
  · have h2 := congrArg List.reverse (List.takeWhile_append_dropWhile (p := p) (l := s.reverse))
    rw [List.reverse_append, List.reverse_reverse] at h2
    exact h2.symm
  · intro x hx
    exact mem_takeWhile_sat (List.mem_reverse.1 hx)
  · cases h : s.reverse.dropWhile p with
    | nil => left; simp
    | cons c r => exact Or.inr ⟨r.reverse, c, by simp, dropWhile_head_false h⟩

theorem SufSplit.sufCount {p : Char → Bool} {s b u : List Char} (h : SufSplit p s b u) :
    sufCount p s = u.length := by
  unfold Lexer.sufCount
  rw [h.rev_takeWhile]; simp

theorem sufCount_le (p : Char → Bool) (s : List Char) : sufCount p s ≤ s.length := by
  obtain ⟨b, u, h⟩ := sufSplit_exists p s
  rw [h.sufCount, h.eq]; simp

/-- dropping a prefix of length `k` keeps the suffix split (shortened when `k` reaches into `u`) -/
theorem SufSplit.drop {p : Char → Bool} {s b u : List Char} (h : SufSplit p s b u) (k : Nat) :
    SufSplit p (s.drop k) (b.drop k) (u.drop (k - b.length)) := by
  refine ⟨?_, ?_, ?_⟩
  · rw [h.eq, List.drop_append]
  · intro x hx; exact h.sat x (List.mem_of_mem_drop hx)
  · rcases h.stop with rfl | ⟨b', c, rfl, hc⟩
    · left; simp
    · by_cases hk : k ≤ b'.length
      · right
        refine ⟨b'.drop k, c, ?_, hc⟩
        rw [List.drop_append_of_le_length hk]
      · left
        apply List.drop_eq_nil_of_le
        simp; omega

end MJ.Lexer
