import MJ.Proofs.Output
/-!
# User code that drops write errors (C19)

With the poisoned `WriteWrapper` (no call reaches the sink after the first error, the first error is
kept) and the check at the API boundary, a render in which user code ignores the results of its
writes (`UOp.writeIgn`) is indistinguishable, for the sink and in its result, from the render of
the same operations with well-behaved user code (`strictU`) — unless it panics later.
-/
namespace MJ.Output
open MJ

theorem Out.write_err (o : Out WriteWrapper) (c : Chunk) (h : o.w.err = none) :
    ((o.write c).2 = true → (o.write c).1.w.err = none) ∧
    ((o.write c).2 = false → ∃ e, (o.write c).1.w.err = some e) := by
  obtain ⟨w, stack⟩ := o
  simp only at h
  cases stack with
  | nil =>
    simp only [Out.write, put_wrapper, writeBytes_of_none h, WriteWrapper.writeBytesOk]
    cases he : (writeAll w.script c.bytes).err with
    | none => simp [h]
    | some e => simp
  | cons top rest => cases top <;> simp [Out.write, h]

theorem Out.write_poisoned (o : Out WriteWrapper) (c : Chunk) {e : IoErr} (h : o.w.err = some e) :
    (o.write c).1.w = o.w := by
  obtain ⟨w, stack⟩ := o
  simp only at h
  cases stack with
  | nil => simp [Out.write, put_wrapper, writeBytes_of_some h]
  | cons top rest => cases top <;> simp [Out.write]

theorem step_w (o : Op) (st : St WriteWrapper) {e : IoErr} (h : st.out.w.err = some e) :
    (step o st).1.out.w = st.out.w := by
  cases o with
  | write c => simpa [step] using Out.write_poisoned st.out c h
  | beginCapture d => simp [step, Out.beginCapture]
  | endCapture =>
    obtain ⟨⟨w, stack⟩, wraps⟩ := st
    cases stack <;> simp [step, Out.endCapture]
  | enter x => simp [step]
  | leave => simp [step]
  | fail x => simp [step]
  | panic => simp [step]

/-- a poisoned wrapper stays as it is, whatever follows -/
theorem runU_poisoned (uops : List UOp) (st : St WriteWrapper) {e : IoErr} (h : st.out.w.err = some e) :
    (runU uops st).1.out.w = st.out.w := by
  induction uops generalizing st with
  | nil => simp [runU]
  | cons u us ih =>
    have hs : (stepU u st).1.out.w = st.out.w := by
      cases u with
      | strict o => simpa [stepU] using step_w o st h
      | writeIgn c => simpa [stepU] using Out.write_poisoned st.out c h
    simp only [runU]
    rcases hx : stepU u st with ⟨st', halt⟩
    rw [hx] at hs
    simp only at hs
    cases halt with
    | none =>
      simp only []
      rw [ih st' (by rw [hs]; exact h), hs]
    | some x => cases x <;> simpa using hs

/-- **Lockstep**: with an unpoisoned wrapper the careless run and the strict run of the same
    operations end with the same wrapper; their results agree unless the strict run stopped at a
    failed write (then the wrapper holds the error). -/
theorem runU_strict (uops : List UOp) (st : St WriteWrapper) (h : st.out.w.err = none) :
    (runU uops st).1.out.w = (run (strictU uops) st).1.out.w ∧
    ((runU uops st).2 = (run (strictU uops) st).2 ∨
      ((run (strictU uops) st).1.out.w.err ≠ none ∧ ∃ e0, (run (strictU uops) st).2 = .ok (.error e0))) := by
  induction uops generalizing st with
  | nil => simp [runU, strictU, run]
  | cons u us ih =>
    cases u with
    | strict o =>
      simp only [runU, strictU, run, stepU]
      rcases hx : step o st with ⟨st', halt⟩
      cases halt with
      | some x => cases x <;> simp
      | none =>
        simp only []
        apply ih
        -- only a write changes the wrapper, and a write that lets the run go on succeeded
        cases o with
        | write c =>
          simp only [step] at hx
          by_cases hok : (st.out.write c).2 = true
          · simp only [hok, if_true, Prod.mk.injEq] at hx
            rw [← hx.1]
            exact (Out.write_err st.out c h).1 hok
          · simp [hok] at hx
        | beginCapture d => simp only [step, Prod.mk.injEq] at hx; rw [← hx.1]; simpa [Out.beginCapture] using h
        | endCapture =>
          obtain ⟨⟨w, stack⟩, wraps⟩ := st
          cases stack with
          | nil => simp [step, Out.endCapture] at hx
          | cons top rest =>
            simp only [step, Out.endCapture, Prod.mk.injEq] at hx
            rw [← hx.1]; simpa using h
        | enter x => simp only [step, Prod.mk.injEq] at hx; rw [← hx.1]; simpa using h
        | leave => simp only [step, Prod.mk.injEq] at hx; rw [← hx.1]; simpa using h
        | fail x => simp [step] at hx
        | panic => simp [step] at hx
    | writeIgn c =>
      simp only [runU, strictU, run, stepU, step]
      by_cases hok : (st.out.write c).2 = true
      · simp only [hok, if_true]
        exact ih _ ((Out.write_err st.out c h).1 hok)
      · simp only [hok]
        obtain ⟨e, he⟩ := (Out.write_err st.out c h).2 (by simpa using hok)
        refine ⟨?_, Or.inr ⟨by simp [he], _, rfl⟩⟩
        simpa using runU_poisoned us ⟨(st.out.write c).1, st.wraps⟩ he

/-! ## user code as a strategy (`UserCode`, `XOp`) -/

/-- **Sticky**: user code running against a poisoned adapter cannot reach the sink, whatever it
    does with the results of its writes -/
theorem UserCode.run_poisoned (u : UserCode) (o : Out WriteWrapper) {e : IoErr} (h : o.w.err = some e) :
    (u.run o).1.w = o.w := by
  induction u generalizing o with
  | ret ok => rfl
  | write c k ih =>
    simp only [UserCode.run]
    have hw := Out.write_poisoned o c h
    rw [ih _ _ (by rw [hw]; exact h), hw]

theorem stepX_poisoned (x : XOp) (st : St WriteWrapper) {e : IoErr} (h : st.out.w.err = some e) :
    (stepX x st).1.out.w = st.out.w := by
  cases x with
  | strict o => simpa [stepX] using step_w o st h
  | user u => simpa [stepX] using UserCode.run_poisoned u st.out h

theorem runX_poisoned (xs : List XOp) (st : St WriteWrapper) {e : IoErr} (h : st.out.w.err = some e) :
    (runX xs st).1.out.w = st.out.w := by
  induction xs generalizing st with
  | nil => simp [runX]
  | cons x xs ih =>
    have hs := stepX_poisoned x st h
    simp only [runX]
    rcases hx : stepX x st with ⟨st', halt⟩
    rw [hx] at hs
    simp only at hs
    cases halt with
    | none =>
      simp only []
      rw [ih st' (by rw [hs]; exact h), hs]
    | some y => cases y <;> simpa using hs

/-! ### the `String` side only ever appends -/

theorem Out.write_string_appends (o : Out Bytes) (c : Chunk) :
    (∃ x, (o.write c).1.w = o.w ++ x) ∧ (o.write c).2 = true := by
  obtain ⟨w, stack⟩ := o
  cases stack with
  | nil => cases c <;> exact ⟨⟨_, rfl⟩, rfl⟩
  | cons top rest => cases top <;> exact ⟨⟨[], by simp [Out.write]⟩, rfl⟩

theorem UserCode.run_string_appends (u : UserCode) (o : Out Bytes) : ∃ x, (u.run o).1.w = o.w ++ x := by
  induction u generalizing o with
  | ret ok => exact ⟨[], by simp [UserCode.run]⟩
  | write c k ih =>
    simp only [UserCode.run]
    obtain ⟨⟨x, hx⟩, _⟩ := Out.write_string_appends o c
    obtain ⟨y, hy⟩ := ih (o.write c).2 (o.write c).1
    exact ⟨x ++ y, by rw [hy, hx, List.append_assoc]⟩

theorem stepX_string_appends (x : XOp) (st : St Bytes) : ∃ y, (stepX x st).1.out.w = st.out.w ++ y := by
  cases x with
  | strict o =>
    cases o with
    | write c =>
      obtain ⟨⟨y, hy⟩, _⟩ := Out.write_string_appends st.out c
      exact ⟨y, by simpa [stepX, step] using hy⟩
    | beginCapture d => exact ⟨[], by simp [stepX, step, Out.beginCapture]⟩
    | endCapture =>
      obtain ⟨⟨w, stack⟩, wraps⟩ := st
      cases stack <;> exact ⟨[], by simp [stepX, step, Out.endCapture]⟩
    | enter w => exact ⟨[], by simp [stepX, step]⟩
    | leave => exact ⟨[], by simp [stepX, step]⟩
    | fail e => exact ⟨[], by simp [stepX, step]⟩
    | panic => exact ⟨[], by simp [stepX, step]⟩
  | user u =>
    obtain ⟨y, hy⟩ := UserCode.run_string_appends u st.out
    exact ⟨y, by simpa [stepX] using hy⟩

theorem runX_string_appends (xs : List XOp) (st : St Bytes) : ∃ y, (runX xs st).1.out.w = st.out.w ++ y := by
  induction xs generalizing st with
  | nil => exact ⟨[], by simp [runX]⟩
  | cons x xs ih =>
    obtain ⟨y, hy⟩ := stepX_string_appends x st
    simp only [runX]
    rcases hx : stepX x st with ⟨st', halt⟩
    rw [hx] at hy
    simp only at hy
    cases halt with
    | none =>
      simp only []
      obtain ⟨z, hz⟩ := ih st'
      exact ⟨y ++ z, by rw [hz, hy, List.append_assoc]⟩
    | some r => cases r <;> exact ⟨y, hy⟩

theorem runX_cons_poisoned (x : XOp) (xs : List XOp) (st : St WriteWrapper) {e : IoErr}
    (h : (stepX x st).1.out.w.err = some e) :
    (runX (x :: xs) st).1.out.w = (stepX x st).1.out.w := by
  simp only [runX]
  rcases hx : stepX x st with ⟨st', halt⟩
  rw [hx] at h
  cases halt with
  | none => exact runX_poisoned xs st' h
  | some r => cases r <;> rfl

theorem runX_cons_string (x : XOp) (xs : List XOp) (st : St Bytes) :
    ∃ y, (runX (x :: xs) st).1.out.w = (stepX x st).1.out.w ++ y := by
  simp only [runX]
  rcases hx : stepX x st with ⟨st', halt⟩
  cases halt with
  | none => exact runX_string_appends xs st'
  | some r => cases r <;> exact ⟨[], by simp⟩

/-! ### lockstep of the sink side and the `String` side up to the first sink failure -/

/-- the two sides agree: same capture stack, no sink failure so far, everything delivered -/
structure Agree (oW : Out WriteWrapper) (oS : Out Bytes) : Prop where
  stack : oW.stack = oS.stack
  err : oW.w.err = none
  clean : Clean oW.w.calls
  deliv : delivered oW.w.calls = oS.w

/-- the sink side is stuck at its first failure; what it took is a prefix of the string -/
def Stuck (w : WriteWrapper) (buf : Bytes) : Prop :=
  ∃ e, w.err = some e ∧ FailsWith w.calls e ∧ delivered w.calls <+: buf

theorem Stuck.mono {w : WriteWrapper} {buf : Bytes} (h : Stuck w buf) (x : Bytes) : Stuck w (buf ++ x) := by
  obtain ⟨e, h1, h2, h3⟩ := h
  exact ⟨e, h1, h2, h3.trans (List.prefix_append _ _)⟩

theorem Out.write_lock (oW : Out WriteWrapper) (oS : Out Bytes) (c : Chunk) (h : Agree oW oS) :
    ((oW.write c).2 = true ∧ Agree (oW.write c).1 (oS.write c).1) ∨
    ((oW.write c).2 = false ∧ Stuck (oW.write c).1.w (oS.write c).1.w) := by
  obtain ⟨w, stack⟩ := oW
  obtain ⟨b, stackS⟩ := oS
  obtain ⟨hst, herr, hclean, hdel⟩ := h
  simp only at hst herr hclean hdel
  subst hst
  cases stack with
  | nil =>
    obtain ⟨h1, h2, h3⟩ := writeAll_spec w.script c.bytes
    have hput : put b c = (b ++ c.bytes, true) := by cases c <;> rfl
    simp only [Out.write, put_wrapper, writeBytes_of_none herr, WriteWrapper.writeBytesOk, hput]
    cases he : (writeAll w.script c.bytes).err with
    | none =>
      left
      obtain ⟨hd, hc⟩ := h2 he
      exact ⟨rfl, ⟨rfl, herr, clean_append.2 ⟨hclean, hc⟩, by simp [hdel, hd]⟩⟩
    | some e =>
      right
      refine ⟨rfl, e, rfl, failsWith_append hclean (h3 e he), ?_⟩
      simp only [delivered_append, hdel]
      obtain ⟨t, ht⟩ := h1
      exact ⟨t, by rw [List.append_assoc, ht]⟩
  | cons top rest =>
    left
    cases top with
    | none => exact ⟨rfl, ⟨rfl, herr, hclean, hdel⟩⟩
    | some buf => exact ⟨rfl, ⟨rfl, herr, hclean, hdel⟩⟩

theorem UserCode.run_lock (u : UserCode) (oW : Out WriteWrapper) (oS : Out Bytes) (h : Agree oW oS) :
    (Agree (u.run oW).1 (u.run oS).1 ∧ (u.run oW).2 = (u.run oS).2) ∨
    Stuck (u.run oW).1.w (u.run oS).1.w := by
  induction u generalizing oW oS with
  | ret ok => exact Or.inl ⟨h, rfl⟩
  | write c k ih =>
    simp only [UserCode.run]
    have hS := (Out.write_string_appends oS c).2
    rcases Out.write_lock oW oS c h with ⟨hok, hag⟩ | ⟨hok, hst⟩
    · rw [hok, hS]
      exact ih true _ _ hag
    · right
      obtain ⟨e, h1, h2, h3⟩ := hst
      rw [UserCode.run_poisoned _ _ h1]
      obtain ⟨x, hx⟩ := UserCode.run_string_appends (k (oS.write c).2) (oS.write c).1
      rw [hx]
      exact Stuck.mono ⟨e, h1, h2, h3⟩ x

/-- **Lockstep of whole renders** with user strategies: either the sink never failed, the sides
    agree at the end and return the same; or the sink side is stuck at its first failure with a
    prefix of the string. -/
theorem runX_lock (xs : List XOp) (stW : St WriteWrapper) (stS : St Bytes)
    (h : Agree stW.out stS.out) (hw : stW.wraps = stS.wraps) :
    (Agree (runX xs stW).1.out (runX xs stS).1.out ∧ (runX xs stW).2 = (runX xs stS).2) ∨
    Stuck (runX xs stW).1.out.w (runX xs stS).1.out.w := by
  induction xs generalizing stW stS with
  | nil => exact Or.inl ⟨h, rfl⟩
  | cons x xs ih =>
    obtain ⟨oW, wraps⟩ := stW
    obtain ⟨oS, wrapsS⟩ := stS
    simp only at h hw
    subst hw
    cases x with
    | user u =>
      rcases UserCode.run_lock u oW oS h with ⟨hag, hres⟩ | hst
      case inr =>
        right
        obtain ⟨e, h1, _, _⟩ := id hst
        have hW := runX_cons_poisoned (.user u) xs (⟨oW, wraps⟩ : St WriteWrapper) (e := e) (by simpa [stepX] using h1)
        obtain ⟨y, hS⟩ := runX_cons_string (.user u) xs (⟨oS, wraps⟩ : St Bytes)
        rw [hW, hS]
        simpa [stepX] using hst.mono y
      simp only [runX, stepX]
      rw [hres]
      by_cases hok : (u.run oS).2 = true
      · simp only [hok, if_true]
        exact ih ⟨(u.run oW).1, wraps⟩ ⟨(u.run oS).1, wraps⟩ hag rfl
      · simp only [hok]
        exact Or.inl ⟨hag, rfl⟩
    | strict o =>
      cases o with
      | write c =>
        simp only [runX, stepX, step]
        have hS := (Out.write_string_appends oS c).2
        rcases Out.write_lock oW oS c h with ⟨hok, hag⟩ | ⟨hok, hst⟩
        · simp only [hok, hS, if_true]
          exact ih ⟨(oW.write c).1, wraps⟩ ⟨(oS.write c).1, wraps⟩ hag rfl
        · right
          simp only [hok, hS, if_true]
          obtain ⟨y, hy⟩ := runX_string_appends xs ⟨(oS.write c).1, wraps⟩
          simp only at hy
          rw [hy]
          exact hst.mono y
      | beginCapture d =>
        simp only [runX, stepX, step]
        exact ih ⟨oW.beginCapture d, wraps⟩ ⟨oS.beginCapture d, wraps⟩
          ⟨by simp [Out.beginCapture, h.stack], h.err, h.clean, h.deliv⟩ rfl
      | endCapture =>
        obtain ⟨w, stack⟩ := oW
        obtain ⟨b, stackS⟩ := oS
        obtain ⟨hst, herr, hclean, hdel⟩ := h
        simp only at hst herr hclean hdel
        subst hst
        cases stack with
        | nil => exact Or.inl ⟨⟨rfl, herr, hclean, hdel⟩, by simp [runX, stepX, step, Out.endCapture]⟩
        | cons top rest =>
          simp only [runX, stepX, step, Out.endCapture]
          exact ih ⟨⟨w, rest⟩, wraps⟩ ⟨⟨b, rest⟩, wraps⟩ ⟨rfl, herr, hclean, hdel⟩ rfl
      | enter x =>
        simp only [runX, stepX, step]
        exact ih ⟨oW, x :: wraps⟩ ⟨oS, x :: wraps⟩ h rfl
      | leave =>
        simp only [runX, stepX, step]
        exact ih ⟨oW, wraps.tail⟩ ⟨oS, wraps.tail⟩ h rfl
      | fail e => exact Or.inl ⟨h, by simp [runX, stepX, step]⟩
      | panic => exact Or.inl ⟨h, by simp [runX, stepX, step]⟩

/-- the facts about a render with user strategies that the theorems are read off from -/
theorem renderX_facts (xops : List XOp) (script : List Beh) :
    delivered (renderToX xops script).calls <+: (renderStringX xops).buf ∧
    ((Clean (renderToX xops script).calls ∧ (renderToX xops script).result = (renderStringX xops).result ∧
        delivered (renderToX xops script).calls = (renderStringX xops).buf) ∨
     (∃ e, FailsWith (renderToX xops script).calls e ∧
        ((renderToX xops script).result = .ok (.error (.writeFailure (some e))) ∨
         (renderToX xops script).result = .panic))) := by
  have h := runX_lock xops (St.init (⟨script, [], none⟩ : WriteWrapper)) (St.init ([] : Bytes))
    ⟨rfl, rfl, clean_nil, rfl⟩ rfl
  simp only [renderToX, renderStringX]
  rcases h with ⟨hag, hres⟩ | ⟨e, h1, h2, h3⟩
  · refine ⟨by rw [hag.deliv]; exact List.prefix_refl _, Or.inl ⟨hag.clean, ?_, hag.deliv⟩⟩
    rw [finish_of_none hag.err, hres]
  · refine ⟨h3, Or.inr ⟨e, h2, ?_⟩⟩
    by_cases hp : (runX xops (St.init (⟨script, [], none⟩ : WriteWrapper))).2 = .panic
    · right; rw [hp]; rfl
    · left; exact finish_of_some h1 _ hp

theorem trackFailed_acc (rs : List Bool) (acc : Bool) :
    rs.foldl (fun failed ok => failed || !ok) acc = (acc || rs.any (fun ok => !ok)) := by
  induction rs generalizing acc with
  | nil => simp
  | cons r rs ih => simp [ih, Bool.or_assoc]

end MJ.Output
