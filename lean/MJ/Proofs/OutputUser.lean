import MJ.Proofs.Output
/-!
# User code that drops write errors (C19)

With the poisoned `WriteWrapper` (no call reaches the sink after the first error, the first error is
kept) and the check at the API boundary, a render in which user code ignores the results of its
writes (`UOp.writeIgn`) is indistinguishable, for the sink and in its result, from the render of
the same operations with well-behaved user code (`strictU`) — unless it panics later.
-/
namespace MJ.Output
open MJ

theorem Out.write_err (o : Out WriteWrapper) (c : Chunk) (h : o.w.err = none) :
    ((o.write c).2 = true → (o.write c).1.w.err = none) ∧
    ((o.write c).2 = false → ∃ e, (o.write c).1.w.err = some e) := by
  obtain ⟨w, stack⟩ := o
  simp only at h
  cases stack with
  | nil =>
    simp only [Out.write, put_wrapper, writeBytes_of_none h, WriteWrapper.writeBytesOk]
    cases he : (writeAll w.script c.bytes).err with
    | none => simp [h]
    | some e => simp
  | cons top rest => cases top <;> simp [Out.write, h]

theorem Out.write_poisoned (o : Out WriteWrapper) (c : Chunk) {e : IoErr} (h : o.w.err = some e) :
    (o.write c).1.w = o.w := by
  obtain ⟨w, stack⟩ := o
  simp only at h
  cases stack with
  | nil => simp [Out.write, put_wrapper, writeBytes_of_some h]
  | cons top rest => cases top <;> simp [Out.write]

theorem step_w (o : Op) (st : St WriteWrapper) {e : IoErr} (h : st.out.w.err = some e) :
    (step o st).1.out.w = st.out.w := by
  cases o with
  | write c => simpa [step] using Out.write_poisoned st.out c h
  | beginCapture d => simp [step, Out.beginCapture]
  | endCapture =>
    obtain ⟨⟨w, stack⟩, wraps⟩ := st
    cases stack <;> simp [step, Out.endCapture]
  | enter x => simp [step]
  | leave => simp [step]
  | fail x => simp [step]
  | panic => simp [step]

/-- a poisoned wrapper stays as it is, whatever follows -/
theorem runU_poisoned (uops : List UOp) (st : St WriteWrapper) {e : IoErr} (h : st.out.w.err = some e) :
    (runU uops st).1.out.w = st.out.w := by
  induction uops generalizing st with
  | nil => simp [runU]
  | cons u us ih =>
    have hs : (stepU u st).1.out.w = st.out.w := by
      cases u with
      | strict o => simpa [stepU] using step_w o st h
      | writeIgn c => simpa [stepU] using Out.write_poisoned st.out c h
    simp only [runU]
    rcases hx : stepU u st with ⟨st', halt⟩
    rw [hx] at hs
    simp only at hs
    cases halt with
    | none =>
      simp only []
      rw [ih st' (by rw [hs]; exact h), hs]
    | some x => cases x <;> simpa using hs

/-- **Lockstep**: with an unpoisoned wrapper the careless run and the strict run of the same
    operations end with the same wrapper; their results agree unless the strict run stopped at a
    failed write (then the wrapper holds the error). -/
theorem runU_strict (uops : List UOp) (st : St WriteWrapper) (h : st.out.w.err = none) :
    (runU uops st).1.out.w = (run (strictU uops) st).1.out.w ∧
    ((runU uops st).2 = (run (strictU uops) st).2 ∨
      ((run (strictU uops) st).1.out.w.err ≠ none ∧ ∃ e0, (run (strictU uops) st).2 = .ok (.error e0))) := by
  induction uops generalizing st with
  | nil => simp [runU, strictU, run]
  | cons u us ih =>
    cases u with
    | strict o =>
      simp only [runU, strictU, run, stepU]
      rcases hx : step o st with ⟨st', halt⟩
      cases halt with
      | some x => cases x <;> simp
      | none =>
        simp only []
        apply ih
        -- only a write changes the wrapper, and a write that lets the run go on succeeded
        cases o with
        | write c =>
          simp only [step] at hx
          by_cases hok : (st.out.write c).2 = true
          · simp only [hok, if_true, Prod.mk.injEq] at hx
            rw [← hx.1]
            exact (Out.write_err st.out c h).1 hok
          · simp [hok] at hx
        | beginCapture d => simp only [step, Prod.mk.injEq] at hx; rw [← hx.1]; simpa [Out.beginCapture] using h
        | endCapture =>
          obtain ⟨⟨w, stack⟩, wraps⟩ := st
          cases stack with
          | nil => simp [step, Out.endCapture] at hx
          | cons top rest =>
            simp only [step, Out.endCapture, Prod.mk.injEq] at hx
            rw [← hx.1]; simpa using h
        | enter x => simp only [step, Prod.mk.injEq] at hx; rw [← hx.1]; simpa using h
        | leave => simp only [step, Prod.mk.injEq] at hx; rw [← hx.1]; simpa using h
        | fail x => simp [step] at hx
        | panic => simp [step] at hx
    | writeIgn c =>
      simp only [runU, strictU, run, stepU, step]
      by_cases hok : (st.out.write c).2 = true
      · simp only [hok, if_true]
        exact ih _ ((Out.write_err st.out c h).1 hok)
      · simp only [hok]
        obtain ⟨e, he⟩ := (Out.write_err st.out c h).2 (by simpa using hok)
        refine ⟨?_, Or.inr ⟨by simp [he], _, rfl⟩⟩
        simpa using runU_poisoned us ⟨(st.out.write c).1, st.wraps⟩ he

theorem trackFailed_acc (rs : List Bool) (acc : Bool) :
    rs.foldl (fun failed ok => failed || !ok) acc = (acc || rs.any (fun ok => !ok)) := by
  induction rs generalizing acc with
  | nil => simp
  | cons r rs ih => simp [ih, Bool.or_assoc]

end MJ.Output
