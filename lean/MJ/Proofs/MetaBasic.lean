import MJ.Model.Meta
/-! Basic facts about the analysis state operations and about frames (C18). -/
namespace MJ.Meta

/-- what the tracker has reported so far: `out` without nested tracking, otherwise the roots of
the dotted names in `nested_out` -/
def St.reported (st : St) (x : String) : Prop :=
  match st.nested with
  | none => x ∈ st.out
  | some n => ∃ a, (x, a) ∈ n

theorem reported_none {st : St} (h : st.nested = none) (x : String) :
    st.reported x ↔ x ∈ st.out := by
  simp [St.reported, h]

theorem isAssigned_iff (st : St) (x : String) :
    st.isAssigned x = true ↔ ∃ f ∈ st.assigned, x ∈ f := by
  simp [St.isAssigned]

theorem bound_iff (top : Frame) (below : List Frame) (x : String) :
    bound top below x = true ↔ x ∈ top ∨ ∃ f ∈ below, x ∈ f := by
  simp [bound]

theorem bound_false_iff (top : Frame) (below : List Frame) (x : String) :
    bound top below x = false ↔ ¬ (x ∈ top ∨ ∃ f ∈ below, x ∈ f) := by
  rw [← bound_iff]; cases bound top below x <;> simp

theorem mem_lookups (top : Frame) (below : List Frame) (xs : List String) (x : String) :
    x ∈ lookups top below xs ↔ x ∈ xs ∧ bound top below x = false := by
  simp [lookups]

theorem bound_push (top : Frame) (below : List Frame) (x : String) :
    bound [] (top :: below) x = bound top below x := by
  simp [bound]

theorem bound_cons_iff (f top : Frame) (below : List Frame) (x : String) :
    bound f (top :: below) x = true ↔ x ∈ f ∨ bound top below x = true := by
  simp only [bound_iff, List.mem_cons]
  constructor
  · rintro (h | ⟨g, hg | hg, hx⟩)
    · exact Or.inl h
    · subst hg; exact Or.inr (Or.inl hx)
    · exact Or.inr (Or.inr ⟨g, hg, hx⟩)
  · rintro (h | h | ⟨g, hg, hx⟩)
    · exact Or.inl h
    · exact Or.inr ⟨top, Or.inl rfl, h⟩
    · exact Or.inr ⟨g, Or.inr hg, hx⟩

theorem bound_mono {top top' : Frame} {below : List Frame} {x : String}
    (h : ∀ y ∈ top, y ∈ top') (hb : bound top below x = true) : bound top' below x = true := by
  rw [bound_iff] at *
  rcases hb with hb | hb
  · exact Or.inl (h _ hb)
  · exact Or.inr hb

theorem unbound_anti {top top' : Frame} {below : List Frame} {x : String}
    (h : ∀ y ∈ top, y ∈ top') (hb : bound top' below x = false) : bound top below x = false := by
  cases hx : bound top below x
  · rfl
  · rw [bound_mono h hx] at hb; cases hb

/-- unbound above a pushed frame ⇒ unbound outside -/
theorem unbound_of_push {f top : Frame} {below : List Frame} {x : String}
    (hb : bound f (top :: below) x = false) : bound top below x = false := by
  cases hx : bound top below x
  · rfl
  · have := (bound_cons_iff f top below x).2 (Or.inr hx)
    rw [this] at hb; cases hb

/-! ### `Step a b`: `b` arises from `a` by a scope-local piece of the walk -/

structure Step (a b : St) : Prop where
  tail : ∀ f fs, a.assigned = f :: fs → ∃ g, b.assigned = g :: fs
  rep : ∀ x, a.reported x → b.reported x
  out : ∀ x ∈ a.out, x ∈ b.out
  bad : ∀ f _fs, a.assigned = f :: _fs → b.bad = a.bad
  mode : b.nested.isSome = a.nested.isSome

theorem Step.nn {a b : St} (h : Step a b) (hn : a.nested = none) : b.nested = none := by
  have := h.mode
  rw [hn] at this
  cases hb : b.nested with
  | none => rfl
  | some n => rw [hb] at this; cases this

theorem Step.sn {a b : St} (h : Step a b) {n : List Leaf} (hn : a.nested = some n) :
    ∃ m, b.nested = some m := by
  have := h.mode
  rw [hn] at this
  cases hb : b.nested with
  | none => rw [hb] at this; cases this
  | some m => exact ⟨m, rfl⟩

theorem Step.refl (a : St) : Step a a :=
  ⟨fun f _ h => ⟨f, h⟩, fun _ h => h, fun _ h => h, fun _ _ _ => rfl, rfl⟩

theorem Step.trans {a b c : St} (h1 : Step a b) (h2 : Step b c) : Step a c := by
  refine ⟨?_, fun x hx => h2.rep x (h1.rep x hx), fun x hx => h2.out x (h1.out x hx), ?_,
    h2.mode.trans h1.mode⟩
  · intro f fs h
    obtain ⟨g, hg⟩ := h1.tail f fs h
    exact h2.tail g fs hg
  · intro f fs h
    obtain ⟨g, hg⟩ := h1.tail f fs h
    rw [h2.bad g fs hg, h1.bad f fs h]

theorem assign_out (st : St) (x : String) : (st.assign x).out = st.out := by
  unfold St.assign; split <;> rfl

theorem assign_nested (st : St) (x : String) : (st.assign x).nested = st.nested := by
  unfold St.assign; split <;> rfl

theorem assign_reported (st : St) (x y : String) : (st.assign x).reported y ↔ st.reported y := by
  simp [St.reported, assign_out, assign_nested]

theorem step_assign (st : St) (x : String) : Step st (st.assign x) := by
  refine ⟨?_, fun y hy => (assign_reported st x y).2 hy, fun y hy => by rw [assign_out]; exact hy,
    ?_, by rw [assign_nested]⟩
  · intro f fs h
    exact ⟨x :: f, by simp [St.assign, h]⟩
  · intro f fs h
    simp [St.assign, h]

theorem visitLeaf_pos {st : St} {l : Leaf} (h : st.isAssigned l.1 = true) : visitLeaf st l = st := by
  simp [visitLeaf, h]

theorem visitLeaf_flat {st : St} {l : Leaf} (h : ¬ st.isAssigned l.1 = true)
    (hn : st.nested = none) :
    visitLeaf st l = ({ st with out := l.1 :: st.out } : St).assign l.1 := by
  simp [visitLeaf, h, hn]

theorem visitLeaf_nested {st : St} {l : Leaf} {n : List Leaf} (h : ¬ st.isAssigned l.1 = true)
    (hn : st.nested = some n) :
    visitLeaf st l = { st with nested := some (l :: n) } := by
  simp [visitLeaf, h, hn]

theorem step_visitLeaf (st : St) (l : Leaf) : Step st (visitLeaf st l) := by
  by_cases ha : st.isAssigned l.1 = true
  · rw [visitLeaf_pos ha]; exact Step.refl st
  · cases hn : st.nested with
    | none =>
      rw [visitLeaf_flat ha hn]
      refine Step.trans (b := { st with out := l.1 :: st.out }) ?_ (step_assign _ l.1)
      refine ⟨fun f fs h => ⟨f, h⟩, ?_, fun y hy => List.mem_cons_of_mem _ hy, fun _ _ _ => rfl,
        rfl⟩
      intro y hy
      simp only [St.reported, hn] at hy ⊢
      exact List.mem_cons_of_mem _ hy
    | some n =>
      rw [visitLeaf_nested ha hn]
      refine ⟨fun f fs h => ⟨f, h⟩, ?_, fun y hy => hy, fun _ _ _ => rfl, by simp [hn]⟩
      intro y hy
      simp only [St.reported, hn] at hy ⊢
      obtain ⟨a, ha⟩ := hy
      exact ⟨a, List.mem_cons_of_mem _ ha⟩

theorem step_visitLeaves (st : St) (ls : List Leaf) : Step st (visitLeaves st ls) := by
  induction ls generalizing st with
  | nil => exact Step.refl st
  | cons x xs ih =>
    simp only [visitLeaves, List.foldl_cons]
    exact Step.trans (step_visitLeaf st x) (ih (visitLeaf st x))

theorem step_visitExpr (st : St) (e : Expr) : Step st (visitExpr st e) := step_visitLeaves _ _
theorem step_visitOpt (st : St) (e : Option Expr) : Step st (visitOpt st e) := step_visitLeaves _ _

theorem step_trackAtom (st : St) (a : TAtom) : Step st (trackAtom st a) := by
  cases a with
  | name x => exact step_assign st x
  | look e => exact step_visitExpr st e

theorem step_trackAtoms (st : St) (as : List TAtom) : Step st (as.foldl trackAtom st) := by
  induction as generalizing st with
  | nil => exact Step.refl st
  | cons a as ih =>
    simp only [List.foldl_cons]
    exact Step.trans (step_trackAtom st a) (ih _)

theorem step_trackAssign (st : St) (t : Expr) : Step st (trackAssign st t) := step_trackAtoms _ _

theorem step_trackTargets (st : St) (ts : List Expr) : Step st (ts.foldl trackAssign st) := by
  induction ts generalizing st with
  | nil => exact Step.refl st
  | cons t ts ih =>
    simp only [List.foldl_cons]
    exact Step.trans (step_trackAssign st t) (ih _)

theorem step_macroArgs (st : St) (as : List String) (ds : List Expr) :
    Step st (macroArgs st as ds) := by
  induction as generalizing st ds with
  | nil => simp only [macroArgs]; exact Step.refl st
  | cons a as ih =>
    cases ds with
    | nil => simp only [macroArgs]; exact Step.trans (step_assign st a) (ih _ _)
    | cons d ds =>
      simp only [macroArgs]
      exact Step.trans (Step.trans (step_visitExpr st d) (step_assign _ a)) (ih _ _)

theorem step_withAssigns (st : St) (as : List (Expr × Expr)) : Step st (withAssigns st as) := by
  induction as generalizing st with
  | nil => simp only [withAssigns]; exact Step.refl st
  | cons p as ih =>
    obtain ⟨t, e⟩ := p
    simp only [withAssigns]
    exact Step.trans (Step.trans (step_visitExpr st e) (step_trackAssign _ t)) (ih _)

theorem pop_reported (st : St) (x : String) : st.pop.reported x ↔ st.reported x := Iff.rfl
theorem push_reported (st : St) (x : String) : st.push.reported x ↔ st.reported x := Iff.rfl

/-- a pushed scope that is walked and popped leaves the stack as it was -/
theorem step_scope {a b : St} (h : Step a.push b) :
    b.pop.assigned = a.assigned ∧ (∀ x, a.reported x → b.pop.reported x) ∧ b.pop.bad = a.bad := by
  obtain ⟨g, hg⟩ := h.tail [] a.assigned rfl
  refine ⟨by simp [St.pop, hg], fun x hx => h.rep x hx, ?_⟩
  have := h.bad [] a.assigned rfl
  simpa [St.pop, St.push] using this

theorem step_of_scope {a b : St} (h : Step a.push b) : Step a b.pop := by
  obtain ⟨h1, h2, h3⟩ := step_scope h
  exact ⟨fun f fs hf => ⟨f, by rw [h1, hf]⟩, h2, fun x hx => h.out x hx, fun _ _ _ => h3,
    h.mode⟩

/-! ### the simulation invariant -/

/-- every name the analysis considers assigned is already reported or bound in a frame -/
def Inv (top : Frame) (below : List Frame) (st : St) : Prop :=
  ∀ x, st.isAssigned x = true → st.reported x ∨ bound top below x = true

/-- the invariant depends on the frames only through what they bind -/
theorem Inv.of_bound {top top' : Frame} {below below' : List Frame} {st : St}
    (h : Inv top below st)
    (hb : ∀ x, bound top below x = true → bound top' below' x = true) : Inv top' below' st :=
  fun x hx => (h x hx).imp id (hb x)

theorem Inv.mono_top {top top' : Frame} {below : List Frame} {st : St}
    (h : Inv top below st) (hs : ∀ y ∈ top, y ∈ top') : Inv top' below st :=
  h.of_bound (fun _ hx => bound_mono hs hx)

theorem Inv.push_frame {top : Frame} {below : List Frame} {st : St}
    (h : Inv top below st) : Inv [] (top :: below) st :=
  h.of_bound (fun x hx => by rw [bound_push]; exact hx)

theorem isAssigned_push (st : St) (y : String) : st.push.isAssigned y = st.isAssigned y := by
  simp [St.isAssigned, St.push]

theorem Inv.push {top : Frame} {below : List Frame} {st : St}
    (h : Inv top below st) : Inv top below st.push := by
  intro x hx
  rw [isAssigned_push] at hx
  exact h x hx

/-- transfer of the invariant along equal stacks and a larger report -/
theorem Inv.of_assigned_eq {top : Frame} {below : List Frame} {a b : St}
    (h : Inv top below a) (he : b.assigned = a.assigned) (ho : ∀ x, a.reported x → b.reported x) :
    Inv top below b := by
  intro x hx
  have : a.isAssigned x = true := by
    rw [isAssigned_iff] at *; rw [← he]; exact hx
  exact (h x this).imp (ho x) id

theorem isAssigned_assign_imp (st : St) (x y : String)
    (h : (st.assign x).isAssigned y = true) : y = x ∨ st.isAssigned y = true := by
  rw [isAssigned_iff] at h
  obtain ⟨f, hf, hyf⟩ := h
  unfold St.assign at hf
  split at hf
  · rename_i g gs hg
    simp only [List.mem_cons] at hf
    rcases hf with rfl | hf
    · simp only [List.mem_cons] at hyf
      rcases hyf with rfl | hyf
      · exact Or.inl rfl
      · exact Or.inr ((isAssigned_iff _ _).2 ⟨g, by simp [hg], hyf⟩)
    · exact Or.inr ((isAssigned_iff _ _).2 ⟨f, by simp [hg, hf], hyf⟩)
  · exact Or.inr ((isAssigned_iff _ _).2 ⟨f, hf, hyf⟩)

theorem inv_assign {top : Frame} {below : List Frame} {st : St} (x : String)
    (h : Inv top below st) : Inv (x :: top) below (st.assign x) := by
  intro y hy
  rcases isAssigned_assign_imp st x y hy with rfl | hy'
  · exact Or.inr (by simp [bound])
  · rcases h y hy' with h | h
    · exact Or.inl ((assign_reported st x y).2 h)
    · exact Or.inr (bound_mono (fun z hz => List.mem_cons_of_mem _ hz) h)

/-- an assignment of a name that some frame binds anyway -/
theorem inv_assign_bound {top : Frame} {below : List Frame} {st : St} (x : String)
    (h : Inv top below st) (hb : bound top below x = true) : Inv top below (st.assign x) := by
  intro y hy
  rcases isAssigned_assign_imp st x y hy with rfl | hy'
  · exact Or.inr hb
  · exact (h y hy').imp (assign_reported st x y).2 id

theorem inv_visitLeaf {top : Frame} {below : List Frame} {st : St} (l : Leaf)
    (h : Inv top below st) :
    Inv top below (visitLeaf st l) ∧
      (bound top below l.1 = false → (visitLeaf st l).reported l.1) := by
  by_cases ha : st.isAssigned l.1 = true
  · rw [visitLeaf_pos ha]
    refine ⟨h, fun hb => ?_⟩
    rcases h l.1 ha with h1 | h1
    · exact h1
    · rw [hb] at h1; cases h1
  · cases hn : st.nested with
    | none =>
      rw [visitLeaf_flat ha hn]
      have hrep : (({ st with out := l.1 :: st.out } : St).assign l.1).reported l.1 := by
        rw [assign_reported]; simp [St.reported, hn]
      refine ⟨?_, fun _ => hrep⟩
      intro y hy
      rcases isAssigned_assign_imp _ _ _ hy with rfl | hy'
      · exact Or.inl hrep
      · have hy'' : st.isAssigned y = true := hy'
        rcases h y hy'' with h1 | h1
        · left
          rw [assign_reported]
          simp only [St.reported, hn] at h1 ⊢
          exact List.mem_cons_of_mem _ h1
        · exact Or.inr h1
    | some n =>
      rw [visitLeaf_nested ha hn]
      refine ⟨?_, fun _ => ?_⟩
      · intro y hy
        have hy' : st.isAssigned y = true := hy
        rcases h y hy' with h1 | h1
        · left
          simp only [St.reported, hn] at h1 ⊢
          obtain ⟨a, ha⟩ := h1
          exact ⟨a, List.mem_cons_of_mem _ ha⟩
        · exact Or.inr h1
      · simp only [St.reported]
        exact ⟨l.2, by simp⟩

theorem inv_visitLeaves {top : Frame} {below : List Frame} (ls : List Leaf) {st : St}
    (h : Inv top below st) :
    Inv top below (visitLeaves st ls) ∧
      ∀ x ∈ lookups top below (roots ls), (visitLeaves st ls).reported x := by
  induction ls generalizing st with
  | nil => exact ⟨h, fun x hx => by simp [lookups, roots] at hx⟩
  | cons y ys ih =>
    obtain ⟨h1, h2⟩ := inv_visitLeaf y h
    obtain ⟨h3, h4⟩ := ih h1
    have hs : visitLeaves st (y :: ys) = visitLeaves (visitLeaf st y) ys := by simp [visitLeaves]
    rw [hs]
    refine ⟨h3, fun x hx => ?_⟩
    rw [mem_lookups] at hx
    obtain ⟨hx1, hx2⟩ := hx
    simp only [roots, List.map_cons, List.mem_cons] at hx1
    rcases hx1 with rfl | hx1
    · exact (step_visitLeaves _ ys).rep _ (h2 hx2)
    · exact h4 x ((mem_lookups _ _ _ _).2 ⟨hx1, hx2⟩)

end MJ.Meta
