import MJ.Model.Meta
/-! Basic facts about the analysis state operations and about frames (C18). -/
namespace MJ.Meta

theorem isAssigned_iff (st : St) (x : String) :
    st.isAssigned x = true ↔ ∃ f ∈ st.assigned, x ∈ f := by
  simp [St.isAssigned]

theorem bound_iff (top : Frame) (below : List Frame) (x : String) :
    bound top below x = true ↔ x ∈ top ∨ ∃ f ∈ below, x ∈ f := by
  simp [bound]

theorem bound_false_iff (top : Frame) (below : List Frame) (x : String) :
    bound top below x = false ↔ ¬ (x ∈ top ∨ ∃ f ∈ below, x ∈ f) := by
  rw [← bound_iff]; cases bound top below x <;> simp

theorem mem_lookups (top : Frame) (below : List Frame) (xs : List String) (x : String) :
    x ∈ lookups top below xs ↔ x ∈ xs ∧ bound top below x = false := by
  simp [lookups]

theorem bound_push (top : Frame) (below : List Frame) (x : String) :
    bound [] (top :: below) x = bound top below x := by
  simp [bound]

theorem bound_mono {top top' : Frame} {below : List Frame} {x : String}
    (h : ∀ y ∈ top, y ∈ top') (hb : bound top below x = true) : bound top' below x = true := by
  rw [bound_iff] at *
  rcases hb with hb | hb
  · exact Or.inl (h _ hb)
  · exact Or.inr hb

theorem unbound_anti {top top' : Frame} {below : List Frame} {x : String}
    (h : ∀ y ∈ top, y ∈ top') (hb : bound top' below x = false) : bound top below x = false := by
  cases hx : bound top below x
  · rfl
  · rw [bound_mono h hx] at hb; cases hb

/-- unbound above a pushed frame that extends the empty one ⇒ unbound outside -/
theorem unbound_of_push {f top : Frame} {below : List Frame} {x : String}
    (hb : bound f (top :: below) x = false) : bound top below x = false := by
  rw [bound_false_iff] at *
  intro h
  apply hb
  rcases h with h | ⟨g, hg, hx⟩
  · exact Or.inr ⟨top, by simp, h⟩
  · exact Or.inr ⟨g, by simp [hg], hx⟩

/-! ### `Step a b`: `b` arises from `a` by a scope-local piece of the walk -/

structure Step (a b : St) : Prop where
  tail : ∀ f fs, a.assigned = f :: fs → ∃ g, b.assigned = g :: fs
  out : ∀ x ∈ a.out, x ∈ b.out
  bad : ∀ f fs, a.assigned = f :: fs → b.bad = a.bad

theorem Step.refl (a : St) : Step a a :=
  ⟨fun f _ h => ⟨f, h⟩, fun _ h => h, fun _ _ _ => rfl⟩

theorem Step.trans {a b c : St} (h1 : Step a b) (h2 : Step b c) : Step a c := by
  refine ⟨?_, fun x hx => h2.out x (h1.out x hx), ?_⟩
  · intro f fs h
    obtain ⟨g, hg⟩ := h1.tail f fs h
    exact h2.tail g fs hg
  · intro f fs h
    obtain ⟨g, hg⟩ := h1.tail f fs h
    rw [h2.bad g fs hg, h1.bad f fs h]

theorem step_assign (st : St) (x : String) : Step st (st.assign x) := by
  refine ⟨?_, ?_, ?_⟩
  · intro f fs h
    exact ⟨x :: f, by simp [St.assign, h]⟩
  · intro y hy
    unfold St.assign
    split <;> exact hy
  · intro f fs h
    simp [St.assign, h]

theorem step_visitVar (st : St) (x : String) : Step st (visitVar st x) := by
  unfold visitVar
  split
  · exact Step.refl st
  · refine Step.trans (b := { st with out := x :: st.out }) ?_ (step_assign _ x)
    exact ⟨fun f fs h => ⟨f, h⟩, fun y hy => List.mem_cons_of_mem _ hy, fun _ _ _ => rfl⟩

theorem step_visitVars (st : St) (xs : List String) : Step st (visitVars st xs) := by
  induction xs generalizing st with
  | nil => exact Step.refl st
  | cons x xs ih =>
    simp only [visitVars, List.foldl_cons]
    exact Step.trans (step_visitVar st x) (ih (visitVar st x))

theorem visitVars_append (st : St) (xs ys : List String) :
    visitVars st (xs ++ ys) = visitVars (visitVars st xs) ys := by
  simp [visitVars, List.foldl_append]

theorem step_visitExpr (st : St) (e : Expr) : Step st (visitExpr st e) := step_visitVars _ _
theorem step_visitOpt (st : St) (e : Option Expr) : Step st (visitOpt st e) := step_visitVars _ _

theorem step_trackAtom (st : St) (a : TAtom) : Step st (trackAtom st a) := by
  cases a with
  | name x => exact step_assign st x
  | look e => exact step_visitExpr st e

theorem step_trackAtoms (st : St) (as : List TAtom) : Step st (as.foldl trackAtom st) := by
  induction as generalizing st with
  | nil => exact Step.refl st
  | cons a as ih =>
    simp only [List.foldl_cons]
    exact Step.trans (step_trackAtom st a) (ih _)

theorem step_trackAssign (st : St) (t : Expr) : Step st (trackAssign st t) := step_trackAtoms _ _

theorem step_macroArgs (st : St) (as : List String) (ds : List Expr) :
    Step st (macroArgs st as ds) := by
  induction as generalizing st ds with
  | nil => simp only [macroArgs]; exact Step.refl st
  | cons a as ih =>
    cases ds with
    | nil => simp only [macroArgs]; exact Step.trans (step_assign st a) (ih _ _)
    | cons d ds =>
      simp only [macroArgs]
      exact Step.trans (Step.trans (step_visitExpr st d) (step_assign _ a)) (ih _ _)

theorem step_withAssigns (st : St) (as : List (Expr × Expr)) : Step st (withAssigns st as) := by
  induction as generalizing st with
  | nil => simp only [withAssigns]; exact Step.refl st
  | cons p as ih =>
    obtain ⟨t, e⟩ := p
    simp only [withAssigns]
    exact Step.trans (Step.trans (step_visitExpr st e) (step_trackAssign _ t)) (ih _)

/-- a pushed scope that is walked and popped leaves the stack as it was -/
theorem step_scope {a b : St} (h : Step a.push b) :
    b.pop.assigned = a.assigned ∧ (∀ x ∈ a.out, x ∈ b.pop.out) ∧ b.pop.bad = a.bad := by
  obtain ⟨g, hg⟩ := h.tail [] a.assigned rfl
  refine ⟨by simp [St.pop, hg], fun x hx => h.out x hx, ?_⟩
  have := h.bad [] a.assigned rfl
  simpa [St.pop, St.push] using this

theorem step_of_scope {a b : St} (h : Step a.push b) : Step a b.pop := by
  obtain ⟨h1, h2, h3⟩ := step_scope h
  exact ⟨fun f fs hf => ⟨f, by rw [h1, hf]⟩, h2, fun _ _ _ => h3⟩

/-! ### the simulation invariant -/

/-- every name the analysis considers assigned is already reported or bound in a frame -/
def Inv (top : Frame) (below : List Frame) (st : St) : Prop :=
  ∀ x, st.isAssigned x = true → x ∈ st.out ∨ bound top below x = true

theorem Inv.mono_top {top top' : Frame} {below : List Frame} {st : St}
    (h : Inv top below st) (hs : ∀ y ∈ top, y ∈ top') : Inv top' below st := by
  intro x hx
  rcases h x hx with h | h
  · exact Or.inl h
  · exact Or.inr (bound_mono hs h)

theorem Inv.push_frame {top : Frame} {below : List Frame} {st : St}
    (h : Inv top below st) : Inv [] (top :: below) st := by
  intro x hx
  rw [bound_push]
  exact h x hx

theorem Inv.push {top : Frame} {below : List Frame} {st : St}
    (h : Inv top below st) : Inv top below st.push := by
  intro x hx
  apply h x
  rw [isAssigned_iff] at *
  obtain ⟨f, hf, hxf⟩ := hx
  simp only [St.push, List.mem_cons] at hf
  rcases hf with rfl | hf
  · cases hxf
  · exact ⟨f, hf, hxf⟩

/-- transfer of the invariant along equal stacks and a larger report -/
theorem Inv.of_assigned_eq {top : Frame} {below : List Frame} {a b : St}
    (h : Inv top below a) (he : b.assigned = a.assigned) (ho : ∀ x ∈ a.out, x ∈ b.out) :
    Inv top below b := by
  intro x hx
  have : a.isAssigned x = true := by
    rw [isAssigned_iff] at *; rw [← he]; exact hx
  rcases h x this with h | h
  · exact Or.inl (ho x h)
  · exact Or.inr h

theorem inv_assign {top : Frame} {below : List Frame} {st : St} (x : String)
    (h : Inv top below st) : Inv (x :: top) below (st.assign x) := by
  intro y hy
  by_cases hxy : y = x
  · subst hxy
    exact Or.inr (by simp [bound])
  · have hy' : st.isAssigned y = true := by
      rw [isAssigned_iff] at *
      obtain ⟨f, hf, hyf⟩ := hy
      unfold St.assign at hf
      split at hf
      · rename_i g gs hg
        simp only [List.mem_cons] at hf
        rcases hf with rfl | hf
        · simp only [List.mem_cons] at hyf
          rcases hyf with rfl | hyf
          · exact absurd rfl hxy
          · exact ⟨g, by simp [hg], hyf⟩
        · exact ⟨f, by simp [hg, hf], hyf⟩
      · exact ⟨f, hf, hyf⟩
    rcases h y hy' with h | h
    · left
      unfold St.assign
      split <;> exact h
    · exact Or.inr (bound_mono (fun z hz => List.mem_cons_of_mem _ hz) h)

/-- an assignment of a name that some frame binds anyway -/
theorem inv_assign_bound {top : Frame} {below : List Frame} {st : St} (x : String)
    (h : Inv top below st) (hb : bound top below x = true) : Inv top below (st.assign x) := by
  intro y hy
  by_cases hxy : y = x
  · subst hxy; exact Or.inr hb
  · have := inv_assign x h y hy
    rcases this with h1 | h1
    · exact Or.inl h1
    · right
      rw [bound_iff] at *
      rcases h1 with h1 | h1
      · simp only [List.mem_cons] at h1
        rcases h1 with rfl | h1
        · exact absurd rfl hxy
        · exact Or.inl h1
      · exact Or.inr h1

theorem inv_visitVar {top : Frame} {below : List Frame} {st : St} (x : String)
    (h : Inv top below st) :
    Inv top below (visitVar st x) ∧ (bound top below x = false → x ∈ (visitVar st x).out) := by
  unfold visitVar
  split
  · rename_i ha
    refine ⟨h, fun hb => ?_⟩
    rcases h x ha with h1 | h1
    · exact h1
    · rw [hb] at h1; cases h1
  · rename_i ha
    have hout : x ∈ (({ st with out := x :: st.out } : St).assign x).out := by
      unfold St.assign
      split <;> simp
    refine ⟨?_, fun _ => hout⟩
    intro y hy
    by_cases hxy : y = x
    · subst hxy; exact Or.inl hout
    · have hy' : st.isAssigned y = true := by
        rw [isAssigned_iff] at *
        obtain ⟨f, hf, hyf⟩ := hy
        unfold St.assign at hf
        split at hf
        · rename_i g gs hg
          simp only at hg
          simp only [List.mem_cons] at hf
          rcases hf with rfl | hf
          · simp only [List.mem_cons] at hyf
            rcases hyf with rfl | hyf
            · exact absurd rfl hxy
            · exact ⟨g, by simp [hg], hyf⟩
          · exact ⟨f, by simp [hg, hf], hyf⟩
        · exact ⟨f, hf, hyf⟩
      rcases h y hy' with h1 | h1
      · left
        unfold St.assign
        split <;> simp [h1]
      · exact Or.inr h1

theorem inv_visitVars {top : Frame} {below : List Frame} (xs : List String) {st : St}
    (h : Inv top below st) :
    Inv top below (visitVars st xs) ∧ ∀ x ∈ lookups top below xs, x ∈ (visitVars st xs).out := by
  induction xs generalizing st with
  | nil => exact ⟨h, fun x hx => by simp [lookups] at hx⟩
  | cons y ys ih =>
    obtain ⟨h1, h2⟩ := inv_visitVar y h
    obtain ⟨h3, h4⟩ := ih h1
    have hs : visitVars st (y :: ys) = visitVars (visitVar st y) ys := by simp [visitVars]
    rw [hs]
    refine ⟨h3, fun x hx => ?_⟩
    rw [mem_lookups] at hx
    obtain ⟨hx1, hx2⟩ := hx
    simp only [List.mem_cons] at hx1
    rcases hx1 with rfl | hx1
    · exact (step_visitVars _ ys).out _ (h2 hx2)
    · exact h4 x ((mem_lookups _ _ _ _).2 ⟨hx1, hx2⟩)

end MJ.Meta
