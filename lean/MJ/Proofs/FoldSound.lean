import MJ.Proofs.CompileRel
/-!
# Constant folding is sound (C03 stage 3; also the core of C04)

`asConst e = .val v` implies that the reference semantics evaluates `e` to `v` in every
environment (unless the fuel runs out).
-/
namespace MJ.Compile
open MJ.Eval

/-- "the value `v`, unless the fuel runs out" -/
def OkOrFuel {α : Type} (r : Res α) (v : α) : Prop := r = .ok v ∨ r = .error .fuel

theorem evalList_const (ctx : Scope) (heap : Heap) (stack : List Nat) :
    ∀ (items : List Expr) (vs : List Val) (n : Nat), constItems items = some vs →
      OkOrFuel (evalList n ctx heap stack items) vs := by
  intro items
  induction items with
  | nil => intro vs n h; simp [constItems] at h; subst h; cases n <;> simp [evalList, OkOrFuel]
  | cons e rest ih =>
    intro vs n h
    cases e <;> simp [constItems] at h
    rename_i l
    obtain ⟨ws, hws, rfl⟩ := h
    cases n with
    | zero => simp [evalList, OkOrFuel]
    | succ m =>
      cases m with
      | zero => simp [evalList, evalExpr, OkOrFuel, bind, Except.bind]
      | succ k =>
        rcases ih ws (k + 1) hws with h1 | h1 <;>
          simp [evalList, evalExpr, OkOrFuel, bind, Except.bind, h1]

theorem evalPairs_const (ctx : Scope) (heap : Heap) (stack : List Nat) :
    ∀ (kvs : List (Expr × Expr)) (ps : List (Val × Val)) (n : Nat), constPairs kvs = some ps →
      OkOrFuel (evalPairs n ctx heap stack kvs) ps := by
  intro kvs
  induction kvs with
  | nil => intro ps n h; simp [constPairs] at h; subst h; cases n <;> simp [evalPairs, OkOrFuel]
  | cons kv rest ih =>
    intro ps n h
    obtain ⟨k, v⟩ := kv
    cases k <;> cases v <;> simp [constPairs] at h
    rename_i lk lv
    obtain ⟨ws, hws, rfl⟩ := h
    cases n with
    | zero => simp [evalPairs, OkOrFuel]
    | succ m =>
      cases m with
      | zero => simp [evalPairs, evalExpr, OkOrFuel, bind, Except.bind]
      | succ k =>
        rcases ih ws (k + 1) hws with h1 | h1 <;>
          simp [evalPairs, evalExpr, OkOrFuel, bind, Except.bind, h1]


theorem ofRes_val {r : Res Val} {v : Val} (h : Fold.ofRes r = .val v) : r = .ok v := by
  cases r with
  | ok w => simp [Fold.ofRes] at h; simp [h]
  | error e => cases e <;> simp [Fold.ofRes] at h

theorem foldBinop_sound (op : BinOp) (a b v : Val) (hop : op ≠ .and) (hor : op ≠ .or)
    (h : foldBinop op a b = .val v) :
    (match op with
      | .concat => Except.ok (Val.str (render a ++ render b))
      | .eq => (compareOp .eq a b).map Val.bool
      | .ne => (compareOp .ne a b).map Val.bool
      | .lt => (compareOp .lt a b).map Val.bool
      | .le => (compareOp .le a b).map Val.bool
      | .gt => (compareOp .gt a b).map Val.bool
      | .ge => (compareOp .ge a b).map Val.bool
      | .isin => (compareOp .isin a b).map Val.bool
      | op => arith op a b) = .ok v := by
  cases op <;> simp [foldBinop] at h ⊢ <;> first | exact ofRes_val h | (simp [h]) | contradiction

theorem asConst_sound_aux (ctx : Scope) (heap : Heap) (stack : List Nat) : ∀ n,
    (∀ e v, asConst e = .val v → OkOrFuel (evalExpr n ctx heap stack e) v) ∧
    (∀ a ops v, asConstChain a ops = .val v → OkOrFuel (evalChain n ctx heap stack a ops) v) := by
  intro n
  induction n with
  | zero => exact ⟨fun e v _ => Or.inr (by simp [evalExpr]), fun a ops v _ => Or.inr (by simp [evalChain])⟩
  | succ n ih =>
    obtain ⟨ihE, ihC⟩ := ih
    refine ⟨?_, ?_⟩
    · intro e v h
      cases e with
      | const l => simp [asConst] at h; subst h; left; simp [evalExpr]
      | var x => simp [asConst] at h
      | unop op x =>
        cases op with
        | not =>
          simp only [asConst] at h
          split at h
          · rename_i w hw; simp at h; subst h
            rcases ihE x w hw with h1 | h1 <;> simp [evalExpr, OkOrFuel, bind, Except.bind, h1]
          · rename_i hx; exact absurd h (hx v)
        | neg =>
          simp only [asConst] at h
          split at h
          · rename_i w hw
            have := ofRes_val h
            rcases ihE x w hw with h1 | h1 <;> simp [evalExpr, OkOrFuel, bind, Except.bind, h1, this]
          · rename_i hx; exact absurd h (hx v)
      | binop op l r =>
        simp only [asConst] at h
        split at h <;> try (simp at h)
        rename_i a b ha hb
        rcases ihE l a ha with h1 | h1
        · rcases ihE r b hb with h2 | h2
          · by_cases hop : op = .and
            · subst hop; simp [foldBinop] at h; subst h
              by_cases ht : truthy a <;> simp [evalExpr, OkOrFuel, bind, Except.bind, h1, h2, ht]
            · by_cases hor : op = .or
              · subst hor; simp [foldBinop] at h; subst h
                by_cases ht : truthy a <;> simp [evalExpr, OkOrFuel, bind, Except.bind, h1, h2, ht]
              · have hs := foldBinop_sound op a b v hop hor h
                left
                cases op <;> simp_all [evalExpr, bind, Except.bind]
          · by_cases hop : op = .and
            · subst hop; simp [foldBinop] at h; subst h
              by_cases ht : truthy a <;> simp [evalExpr, OkOrFuel, bind, Except.bind, h1, h2, ht]
            · by_cases hor : op = .or
              · subst hor; simp [foldBinop] at h; subst h
                by_cases ht : truthy a <;> simp [evalExpr, OkOrFuel, bind, Except.bind, h1, h2, ht]
              · right; cases op <;> simp_all [evalExpr, bind, Except.bind]
        · right; cases op <;> simp [evalExpr, bind, Except.bind, h1]
      | cmp x ops =>
        simp only [asConst] at h
        split at h
        · rename_i a ha
          rcases ihE x a ha with h1 | h1
          · rcases ihC a ops v h with h2 | h2 <;> simp [evalExpr, OkOrFuel, bind, Except.bind, h1, h2]
          · simp [evalExpr, OkOrFuel, bind, Except.bind, h1]
        · rename_i hx; exact absurd h (hx v)
      | ife c t f => simp [asConst] at h
      | filter name x args => simp [asConst] at h
      | test name x args => simp [asConst] at h
      | getattr x name => simp [asConst] at h
      | getitem x i => simp [asConst] at h
      | call f args => simp [asConst] at h
      | list items =>
        simp only [asConst] at h
        split at h <;> try (simp at h)
        rename_i vs hvs; subst h
        rcases evalList_const ctx heap stack items vs n hvs with h1 | h1 <;>
          simp [evalExpr, OkOrFuel, bind, Except.bind, h1]
      | map kvs =>
        simp only [asConst] at h
        split at h <;> try (simp at h)
        rename_i ps hps
        have hm := ofRes_val h
        rcases evalPairs_const ctx heap stack kvs ps n hps with h1 | h1
        · left
          cases hi : insertPairs ps [] with
          | ok m => simp [hi, Except.map] at hm; simp [evalExpr, bind, Except.bind, h1, hi, hm]
          | error e => simp [hi, Except.map] at hm
        · right; simp [evalExpr, bind, Except.bind, h1]
    · intro a ops v h
      cases ops with
      | nil => simp [asConstChain] at h; subst h; left; simp [evalChain]
      | cons o rest =>
        obtain ⟨op, e⟩ := o
        simp only [asConstChain] at h
        split at h
        · rename_i b hb
          rcases ihE e b hb with h1 | h1
          · split at h
            · rename_i hcmp
              rcases ihC b rest v h with h2 | h2 <;> simp [evalChain, OkOrFuel, bind, Except.bind, h1, hcmp, h2]
            · rename_i hcmp; simp at h; subst h; left; simp [evalChain, bind, Except.bind, h1, hcmp]
            · simp at h
            · simp at h
          · right; simp [evalChain, bind, Except.bind, h1]
        · rename_i hx; exact absurd h (hx v)

/-- **Constant folding is sound**: whenever `as_const` folds an expression to `v`, the reference
semantics gives `v` in every environment (or runs out of fuel). -/
theorem asConst_sound {e : Expr} {v : Val} (h : asConst e = .val v) (n : Nat) (ctx : Scope) (heap : Heap)
    (stack : List Nat) : OkOrFuel (evalExpr n ctx heap stack e) v :=
  (asConst_sound_aux ctx heap stack n).1 e v h

end MJ.Compile
