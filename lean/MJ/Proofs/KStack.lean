import MJ.Model.KStack
/-!
# Soundness of the kinded stack check (C01)
-/
namespace MJ.KStack
open MJ.Gen (KProg)

theorem stripPrefix_some {p s r : List Nat} (h : stripPrefix p s = some r) : s = p ++ r := by
  induction p generalizing s with
  | nil => simp [stripPrefix] at h; simp [h]
  | cons x xs ih =>
    cases s with
    | nil => simp [stripPrefix] at h
    | cons y ys =>
      simp only [stripPrefix] at h
      by_cases hxy : x = y
      · simp [hxy] at h
        have := ih h
        simp [hxy, this]
      · simp [hxy] at h

theorem tableOk_get {funs : List Fn} (hok : tableOk funs = true) {f : Nat} {fn : Fn} (h : funs[f]? = some fn) :
    chk funs fn.entry fn.body fn.pre = some fn.post ∧ (fn.entry = true → fn.pre = [] ∧ fn.post = []) := by
  have hm : fn ∈ funs := List.mem_of_getElem? h
  have := (List.all_eq_true.mp hok) fn hm
  simp only [fnOk, Bool.and_eq_true, beq_iff_eq, Bool.or_eq_true, Bool.not_eq_true', List.isEmpty_iff] at this
  refine ⟨this.1, fun he => ?_⟩
  rcases this.2 with h1 | h1
  · simp [he] at h1
  · exact h1

theorem chk_branch {funs : List Fn} {base : Bool} {a b k : KProg} {s e : List Nat}
    (h : chk funs base (.branch a b k) s = some e) :
    ∃ x, chk funs base a s = some x ∧ chk funs base b s = some x ∧ chk funs base k x = some e := by
  unfold chk at h
  split at h
  · rename_i x y ha hb
    by_cases hxy : x = y
    · subst hxy; simp at h; exact ⟨x, ha, hb, h⟩
    · simp [hxy] at h
  · simp at h

theorem chk_loop {funs : List Fn} {base : Bool} {body k : KProg} {s e : List Nat}
    (h : chk funs base (.loop body k) s = some e) :
    chk funs base body s = some s ∧ chk funs base k s = some e := by
  unfold chk at h
  by_cases hb : chk funs base body s = some s
  · simp [hb] at h; exact ⟨hb, h⟩
  · simp [hb] at h

/-- the invariant: the real stack is `s ++ rest` where `s` is what the check tracks (`base` = `rest` is
empty); a checked segment cannot hit `unreachable!()` / the assertion and ends with `e ++ rest` -/
theorem exec_sound {funs : List Fn} (hok : tableOk funs = true) {p : KProg} {stk : List Nat} {r : Option (List Nat)}
    (hx : Exec funs p stk r) :
    ∀ (base : Bool) (s rest e : List Nat), stk = s ++ rest → (base = true → rest = []) →
      chk funs base p s = some e → r = some (e ++ rest) := by
  induction hx with
  | done =>
    intro base s rest e hs _ hc
    simp [chk] at hc
    subst hc; simp [hs]
  | push _ ih =>
    intro base s rest e hs hb hc
    simp only [chk] at hc
    exact ih base _ rest e (by simp [hs]) hb hc
  | @popOk kd k s0 r _ ih =>
    intro base s rest e hs hb hc
    cases s with
    | nil => simp [chk] at hc
    | cons x s' =>
      simp only [chk] at hc
      by_cases hxk : x = kd
      · simp [hxk] at hc
        simp at hs
        exact ih base s' rest e hs.2 hb hc
      · simp [hxk] at hc
  | @popWrong kd kd' k s0 hne =>
    intro base s rest e hs hb hc
    cases s with
    | nil => simp [chk] at hc
    | cons x s' =>
      simp only [chk] at hc
      simp at hs
      by_cases hxk : x = kd
      · exact absurd (hs.1.trans hxk) hne
      · simp [hxk] at hc
  | popEmpty =>
    intro base s rest e hs _ hc
    cases s with
    | nil => simp [chk] at hc
    | cons x s' => simp at hs
  | @topOk kd k s0 r _ ih =>
    intro base s rest e hs hb hc
    cases s with
    | nil => simp [chk] at hc
    | cons x s' =>
      simp only [chk] at hc
      by_cases hxk : x = kd
      · subst hxk
        simp at hc
        exact ih base (x :: s') rest e hs hb hc
      · simp [hxk] at hc
  | @topWrong kd kd' k s0 hne =>
    intro base s rest e hs hb hc
    cases s with
    | nil => simp [chk] at hc
    | cons x s' =>
      simp only [chk] at hc
      simp at hs
      by_cases hxk : x = kd
      · exact absurd (hs.1.trans hxk) hne
      · simp [hxk] at hc
  | topEmpty =>
    intro base s rest e hs _ hc
    cases s with
    | nil => simp [chk] at hc
    | cons x s' => simp at hs
  | emptyOk _ ih =>
    intro base s rest e hs hb hc
    simp only [chk] at hc
    by_cases hbs : (base && s.isEmpty) = true
    · simp [hbs] at hc
      exact ih base s rest e hs hb hc
    · simp [hbs] at hc
  | @emptyFail k x s0 =>
    intro base s rest e hs hb hc
    simp only [chk] at hc
    by_cases hbs : (base && s.isEmpty) = true
    · simp only [Bool.and_eq_true, List.isEmpty_iff] at hbs
      have := hb hbs.1
      simp [hbs.2, this] at hs
    · simp [hbs] at hc
  | @callPanic f k s0 fn hf _ ih =>
    intro base s rest e hs hb hc
    simp only [chk, hf] at hc
    by_cases hent : (fn.entry && !(base && s.isEmpty)) = true
    · rw [if_pos hent] at hc
      simp at hc
    · rw [if_neg hent] at hc
      cases hsp : stripPrefix fn.pre s with
      | none => simp [hsp] at hc
      | some rest' =>
        have hs' := stripPrefix_some hsp
        have hfn := tableOk_get hok hf
        have hbase : fn.entry = true → rest' ++ rest = [] := by
          intro he
          simp [he] at hent
          have hr := hb hent.1
          have hp := (hfn.2 he).1
          simp [hent.2, hp] at hs'
          simp [hr, hs']
        have := ih fn.entry fn.pre (rest' ++ rest) fn.post (by simp [hs, hs']) hbase hfn.1
        simp at this
  | @callOk f k s0 s1 r fn hf _ _ ihb ihk =>
    intro base s rest e hs hb hc
    simp only [chk, hf] at hc
    by_cases hent : (fn.entry && !(base && s.isEmpty)) = true
    · rw [if_pos hent] at hc
      simp at hc
    · rw [if_neg hent] at hc
      cases hsp : stripPrefix fn.pre s with
      | none => simp [hsp] at hc
      | some rest' =>
        simp only [hsp] at hc
        have hs' := stripPrefix_some hsp
        have hfn := tableOk_get hok hf
        have hbase : fn.entry = true → rest' ++ rest = [] := by
          intro he
          simp [he] at hent
          have hr := hb hent.1
          have hp := (hfn.2 he).1
          simp [hent.2, hp] at hs'
          simp [hr, hs']
        have h1 := ihb fn.entry fn.pre (rest' ++ rest) fn.post (by simp [hs, hs']) hbase hfn.1
        simp at h1
        exact ihk base (fn.post ++ rest') rest e (by simp [h1]) hb hc
  | @callExt f k s0 r hf _ ih =>
    intro base s rest e hs hb hc
    simp only [chk, hf] at hc
    exact ih base s rest e hs hb hc
  | branchLPanic _ ih =>
    intro base s rest e hs hb hc
    obtain ⟨x, ha, _, _⟩ := chk_branch hc
    have := ih base s rest x hs hb ha
    simp at this
  | branchL _ _ iha ihk =>
    intro base s rest e hs hb hc
    obtain ⟨x, ha, _, hk⟩ := chk_branch hc
    have h1 := iha base s rest x hs hb ha
    simp at h1
    exact ihk base x rest e h1 hb hk
  | branchRPanic _ ih =>
    intro base s rest e hs hb hc
    obtain ⟨x, _, hb', _⟩ := chk_branch hc
    have := ih base s rest x hs hb hb'
    simp at this
  | branchR _ _ ihb ihk =>
    intro base s rest e hs hb hc
    obtain ⟨x, _, hb', hk⟩ := chk_branch hc
    have h1 := ihb base s rest x hs hb hb'
    simp at h1
    exact ihk base x rest e h1 hb hk
  | loopExit _ ih =>
    intro base s rest e hs hb hc
    exact ih base s rest e hs hb (chk_loop hc).2
  | loopPanic _ ih =>
    intro base s rest e hs hb hc
    have := ih base s rest s hs hb (chk_loop hc).1
    simp at this
  | loopIter _ _ ihb ihl =>
    intro base s rest e hs hb hc
    have h1 := ihb base s rest s hs hb (chk_loop hc).1
    simp at h1
    exact ihl base s rest e h1 hb hc

/-- a function of a checked table, called on any stack that starts with the kinds it expects (an entry point:
on the empty stack), never reaches `unreachable!()` / a failing assertion and leaves `post ++ rest` -/
theorem fn_exec {funs : List Fn} (hok : tableOk funs = true) {f : Nat} {fn : Fn} (hf : funs[f]? = some fn)
    (rest : List Nat) (hrest : fn.entry = true → rest = []) {r : Option (List Nat)}
    (hx : Exec funs fn.body (fn.pre ++ rest) r) : r = some (fn.post ++ rest) :=
  exec_sound hok hx fn.entry fn.pre rest fn.post rfl hrest (tableOk_get hok hf).1

end MJ.KStack
