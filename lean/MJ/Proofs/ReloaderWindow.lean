import MJ.Proofs.ReloaderWatch
/-!
# The window without a file watcher (full reload, no `persistent_watch`)

`prepare_and_mark_reload` throws the fs watcher away before the creator runs; it exists again once the
creator has called `watch_path`.  What IS promised: if every creator call registers its paths, the watcher
is only ever missing while the acquire that dropped it is between its flag reset and its creator's
`watch_path` call — it holds the `cached_env` lock then, so no user can read the old environment, and
whatever the new environment reads it reads after the registration.  In every other reachable state in which
an environment can be looked at (nobody inside, guard held, before the reload decision) the paths are
watched.  What is NOT promised: a creator that does not register (paths registered once from outside)
is silent after the first full reload (`MJ.C20`'s documented-exception example).
-/
namespace MJ.Reloader

/-- states reachable from a GIVEN initial thread list -/
inductive ReachableFrom (ths : List Thread) : State → Prop where
  | init : ReachableFrom ths (init ths)
  | step {σ σ' : State} (i : Nat) (h : ReachableFrom ths σ) (hs : step σ i = some σ') : ReachableFrom ths σ'

theorem ReachableFrom.reachable {ths : List Thread} (h0 : ∀ t ∈ ths, t.initial = true) {σ : State}
    (h : ReachableFrom ths σ) : Reachable σ := by
  induction h with
  | init => exact .init ths h0
  | step i _ hs ih => exact .step i ih hs

theorem reachableFrom_run {ths : List Thread} {σ : State} (h : ReachableFrom ths σ) (sched : List Nat) :
    ReachableFrom ths (run σ sched) := by
  induction sched generalizing σ with
  | nil => exact h
  | cons i is ih =>
    simp only [run]
    cases hs : step σ i with
    | none => simpa using ih h
    | some σ' => exact ih (ReachableFrom.step i h hs)

/-- every acquire that has not finished has a creator that calls `watch_path` -/
def AllRegister (σ : State) : Prop :=
  (∀ t ∈ σ.threads, ∀ cfg, t = .acqIdle cfg → COp.watch ∈ cfg.script) ∧
  (∀ c, σ.cur = some c → COp.watch ∈ c.cfg.script)

/-- where the watcher may be missing -/
def WinOk (σ : State) : Prop :=
  match σ.cur with
  | none => σ.env ≠ none → σ.watching = true
  | some c =>
    match c.pc with
    | .locked | .checked _ | .toClear | .cleared | .holding => σ.env ≠ none → σ.watching = true
    | .reset => c.droppedW = false → σ.env ≠ none → σ.watching = true
    | .toCreate => True
    | .creating rest | .innerSet _ rest => COp.watch ∈ rest ∨ σ.watching = true
    | .created | .failed | .remarked => σ.watching = true

theorem mem_set_cases {α : Type} {l : List α} {i : Nat} {x t : α} (h : t ∈ l.set i x) : t = x ∨ t ∈ l := by
  rcases List.mem_or_eq_of_mem_set h with h | h
  · exact Or.inr h
  · exact Or.inl h

theorem allRegister_stepActive {σ σ' : State} {c : Active} (h : AllRegister σ) (hc : σ.cur = some c)
    (hs : stepActive σ c = some σ') : AllRegister σ' := by
  obtain ⟨h1, h2⟩ := h
  have h2c := h2 c hc
  unfold stepActive at hs
  repeat' split at hs
  all_goals first
    | (cases hs; done)
    | (cases hs
       refine ⟨?_, ?_⟩
       · intro t ht cfg he
         first
           | exact h1 t ht cfg he
           | (rcases mem_set_cases ht with ht | ht
              · subst ht; cases he
              · exact h1 t ht cfg he)
       · intro c' hc'
         first
           | (simp at hc'; subst hc'; exact h2c)
           | (simp at hc'; done))

theorem allRegister_step {σ σ' : State} {i : Nat} (h : AllRegister σ) (hs : step σ i = some σ') :
    AllRegister σ' := by
  unfold step at hs
  split at hs
  · rename_i cfg hth
    split at hs
    · rename_i hc0
      have hreg : COp.watch ∈ cfg.script := h.1 _ (List.mem_of_getElem? hth) cfg rfl
      split at hs <;> cases hs
      · refine ⟨?_, ?_⟩
        · intro t ht cfg' he
          rcases mem_set_cases ht with ht | ht
          · subst ht; cases he
          · exact h.1 t ht cfg' he
        · intro c' hc'; simp [hc0] at hc'
      · refine ⟨?_, ?_⟩
        · intro t ht cfg' he
          rcases mem_set_cases ht with ht | ht
          · subst ht; cases he
          · exact h.1 t ht cfg' he
        · intro c' hc'; simp at hc'; subst hc'; exact hreg
    · cases hs
  · split at hs
    · split at hs
      · rename_i c hc htid
        exact allRegister_stepActive h hc hs
      · cases hs
    · cases hs
  all_goals first
    | (cases hs; done)
    | (cases hs
       refine ⟨?_, ?_⟩
       · intro t ht cfg' he
         rcases mem_set_cases ht with ht | ht
         · subst ht; cases he
         · exact h.1 t ht cfg' he
       · intro c' hc'; exact h.2 c' hc')

theorem winOk_stepActive {σ σ' : State} {c : Active} (hw : WatchInv σ) (hr : AllRegister σ) (h : WinOk σ)
    (hc : σ.cur = some c) (hs : stepActive σ c = some σ') : WinOk σ' := by
  have h3c := hw.hold c hc
  have hreg := hr.2 c hc
  unfold WinOk at h ⊢
  simp only [hc] at h
  unfold stepActive at hs
  repeat' split at hs
  all_goals first
    | (cases hs; done)
    | (cases hs; simp_all [dropWatcher]; done)
    | (cases hs; simp_all [dropWatcher] <;> grind)

theorem winOk_step {σ σ' : State} {i : Nat} (hw : WatchInv σ) (hr : AllRegister σ) (h : WinOk σ)
    (hs : step σ i = some σ') : WinOk σ' := by
  unfold step at hs
  split at hs
  · split at hs
    · rename_i hc0
      unfold WinOk at h ⊢
      simp only [hc0] at h
      split at hs <;> cases hs <;> simp_all
    · cases hs
  · split at hs
    · split at hs
      · rename_i c hc htid
        exact winOk_stepActive hw hr h hc hs
      · cases hs
    · cases hs
  all_goals first
    | (cases hs; done)
    | (cases hs
       unfold WinOk at h ⊢
       simp only at h ⊢
       repeat' split
       all_goals simp_all)

theorem winOk_of_reachableFrom {ths : List Thread} (h0 : ∀ t ∈ ths, t.initial = true)
    (hreg : ∀ t ∈ ths, ∀ cfg, t = .acqIdle cfg → COp.watch ∈ cfg.script) {σ : State}
    (h : ReachableFrom ths σ) : AllRegister σ ∧ WinOk σ := by
  induction h with
  | init => exact ⟨⟨hreg, by simp [init]⟩, by simp [WinOk, init]⟩
  | step i hprev hs ih =>
    exact ⟨allRegister_step ih.1 hs,
      winOk_step (watchInv_of_reachable (hprev.reachable h0)) ih.1 ih.2 hs⟩

end MJ.Reloader
