import MJ.Proofs.Scoping
/-!
# Coincidence: a call-free expression only depends on the variables it reads (C03)
-/
namespace MJ.Eval
open MJ.Compile

section
variable {ctx : Scope} {h h' : Heap} {st : List Nat} {F : List String}
  (hl : ∀ x, x ∈ F → lookup ctx h st x = lookup ctx h' st x)
include hl

mutual
theorem evalExpr_coinc : ∀ (n : Nat) (e : Expr), readsIn F e = true → evalExpr n ctx h st e = evalExpr n ctx h' st e
  | 0, _, _ => rfl
  | n + 1, e, hr => by
    cases e with
    | const l => simp only [evalExpr]
    | var x => simp only [evalExpr]; rw [hl x (by simpa [readsIn] using hr)]
    | unop op e =>
      have := evalExpr_coinc n e (by simpa [readsIn] using hr)
      cases op <;> simp only [evalExpr, this]
    | binop op l r =>
      have hr' : readsIn F l = true ∧ readsIn F r = true := by simpa [readsIn] using hr
      have h1 := evalExpr_coinc n l hr'.1
      have h2 := evalExpr_coinc n r hr'.2
      cases op <;> simp only [evalExpr, h1, h2]
    | cmp e ops =>
      have hr' : readsIn F e = true ∧ readsInChain F ops = true := by simpa [readsIn] using hr
      simp only [evalExpr, evalExpr_coinc n e hr'.1]
      cases evalExpr n ctx h' st e with
      | error _ => rfl
      | ok a => exact evalChain_coinc n a ops hr'.2
    | ife c t f =>
      cases f with
      | none =>
        have hr' : readsIn F c = true ∧ readsIn F t = true := by simpa [readsIn] using hr
        simp only [evalExpr, evalExpr_coinc n c hr'.1, evalExpr_coinc n t hr'.2]
      | some f =>
        have hr' : (readsIn F c = true ∧ readsIn F t = true) ∧ readsIn F f = true := by simpa [readsIn] using hr
        simp only [evalExpr, evalExpr_coinc n c hr'.1.1, evalExpr_coinc n t hr'.1.2, evalExpr_coinc n f hr'.2]
    | filter name e args =>
      have hr' : readsIn F e = true ∧ readsInArgs F args = true := by simpa [readsIn] using hr
      simp only [evalExpr, evalExpr_coinc n e hr'.1, evalArgs_coinc n args hr'.2]
    | test name e args =>
      have hr' : readsIn F e = true ∧ readsInArgs F args = true := by simpa [readsIn] using hr
      simp only [evalExpr, evalExpr_coinc n e hr'.1, evalArgs_coinc n args hr'.2]
    | getattr e name => simp only [evalExpr, evalExpr_coinc n e (by simpa [readsIn] using hr)]
    | getitem e i =>
      have hr' : readsIn F e = true ∧ readsIn F i = true := by simpa [readsIn] using hr
      simp only [evalExpr, evalExpr_coinc n e hr'.1, evalExpr_coinc n i hr'.2]
    | call f args => simp [readsIn] at hr
    | list items => simp only [evalExpr, evalList_coinc n items (by simpa [readsIn] using hr)]
    | map kvs => simp only [evalExpr, evalPairs_coinc n kvs (by simpa [readsIn] using hr)]
theorem evalChain_coinc : ∀ (n : Nat) (a : Val) (ops : List (CmpOp × Expr)), readsInChain F ops = true →
    evalChain n ctx h st a ops = evalChain n ctx h' st a ops
  | 0, _, _, _ => rfl
  | _ + 1, _, [], _ => rfl
  | n + 1, a, (op, e) :: rest, hr => by
    have hr' : readsIn F e = true ∧ readsInChain F rest = true := by simpa [readsInChain] using hr
    simp only [evalChain, evalExpr_coinc n e hr'.1]
    cases evalExpr n ctx h' st e with
    | error _ => rfl
    | ok b =>
      simp only [bind, Except.bind]
      cases compareOp op a b with
      | error _ => rfl
      | ok r =>
        simp only
        rw [evalChain_coinc n b rest hr'.2]
theorem evalArgs_coinc : ∀ (n : Nat) (args : Args), readsInArgs F args = true →
    evalArgs n ctx h st args = evalArgs n ctx h' st args
  | 0, _, _ => rfl
  | _ + 1, [], _ => rfl
  | n + 1, (k, e) :: rest, hr => by
    have hr' : readsIn F e = true ∧ readsInArgs F rest = true := by simpa [readsInArgs] using hr
    simp only [evalArgs, evalExpr_coinc n e hr'.1, evalArgs_coinc n rest hr'.2]
theorem evalList_coinc : ∀ (n : Nat) (es : List Expr), readsInList F es = true →
    evalList n ctx h st es = evalList n ctx h' st es
  | 0, _, _ => rfl
  | _ + 1, [], _ => rfl
  | n + 1, e :: rest, hr => by
    have hr' : readsIn F e = true ∧ readsInList F rest = true := by simpa [readsInList] using hr
    simp only [evalList, evalExpr_coinc n e hr'.1, evalList_coinc n rest hr'.2]
theorem evalPairs_coinc : ∀ (n : Nat) (kvs : List (Expr × Expr)), readsInPairs F kvs = true →
    evalPairs n ctx h st kvs = evalPairs n ctx h' st kvs
  | 0, _, _ => rfl
  | _ + 1, [], _ => rfl
  | n + 1, (k, v) :: rest, hr => by
    have hr' : (readsIn F k = true ∧ readsIn F v = true) ∧ readsInPairs F rest = true := by simpa [readsInPairs] using hr
    simp only [evalPairs, evalExpr_coinc n k hr'.1.1, evalExpr_coinc n v hr'.1.2, evalPairs_coinc n rest hr'.2]
end
end

end MJ.Eval
