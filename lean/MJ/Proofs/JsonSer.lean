import MJ.Model.JsonSer
import MJ.Proofs.ValueSer
import MJ.Proofs.JsonFull
/-! serde_json driven by `impl Serialize for Value` writes exactly `writeJ (jsonOf v)` (C16). -/
namespace MJ.JsonSer
open MJ.Serde MJ.Json MJ.ValueSer

/-! ### the image of the call stream is the image of the value -/

theorem keyOfCall_scalar (v : V) (h : isScalarV v = true) : keyOfCall (scalarCall v) = keyOf v := by
  cases v <;> simp [isScalarV] at h <;> simp [scalarCall, keyOfCall, keyOf]

theorem jOfCall_scalar (v : V) (h : isScalarV v = true) : jOfCall (scalarCall v) = jsonOf v := by
  cases v <;> simp [isScalarV] at h <;> simp [scalarCall, jOfCall, jsonOf]

theorem keyOfCall_serCalls (k : LV) (h : Honest k) : keyOfCall (serCalls k) = keyOf (toV false k) := by
  cases k with
  | leaf v => simp only [serCalls, toV]; exact keyOfCall_scalar v (by simpa [Honest] using h)
  | list t xs => simp [serCalls, toV, keyOfCall, keyOf]
  | lazy en xs => cases en <;> simp [serCalls, toV, keyOfCall, keyOf]
  | vmap kvs => simp [serCalls, toV, keyOfCall, keyOf]
  | omap e kvs => simp [serCalls, toV, keyOfCall, keyOf]

mutual
theorem jOfCall_serCalls : ∀ (lv : LV), Honest lv → jOfCall (serCalls lv) = jsonOf (toV false lv)
  | .leaf v, h => by simp only [serCalls, toV]; exact jOfCall_scalar v (by simpa [Honest] using h)
  | .list t xs, h => by
    simp only [Honest] at h
    simp only [serCalls, toV, jOfCall, jsonOf, jOfCallList_serCalls xs h]
    generalize jsonOfList (toVList false xs) = r
    cases r <;> rfl
  | .lazy en xs, h => by
    simp only [Honest] at h
    cases en <;> simp only [serCalls, toV, jOfCall, jsonOf, jOfCallList, jsonOfList, jOfCallList_serCalls xs h.2] <;>
      (generalize jsonOfList (toVList false xs) = r; cases r <;> rfl)
  | .vmap kvs, h => by
    simp only [Honest] at h
    simp only [serCalls, toV, jOfCall, jsonOf, jOfCallPairs_serCalls kvs h]
    simp only [Bool.false_eq_true, if_false]
    generalize jsonOfPairs (toVPairs false kvs) = r
    cases r <;> rfl
  | .omap e kvs, h => by
    simp only [Honest] at h
    cases e
    · simp [serCalls, toV, jOfCall, jsonOf, jOfCallPairs, jsonOfPairs]
    · simp only [serCalls, toV, jOfCall, jsonOf, if_true, jOfCallPairs_serCalls kvs h]
      generalize jsonOfPairs (toVPairs false kvs) = r
      cases r <;> rfl
theorem jOfCallList_serCalls : ∀ (xs : List LV), HonestList xs → jOfCallList (serCallsList xs) = jsonOfList (toVList false xs)
  | [], _ => rfl
  | x :: xs, h => by
    simp only [HonestList] at h
    simp only [serCallsList, toVList, jOfCallList, jsonOfList, jOfCall_serCalls x h.1, jOfCallList_serCalls xs h.2]
theorem jOfCallPairs_serCalls : ∀ (kvs : List (LV × LV)), HonestPairs kvs →
    jOfCallPairs (serCallsPairs kvs) = jsonOfPairs (toVPairs false kvs)
  | [], _ => rfl
  | (k, v) :: rest, h => by
    simp only [HonestPairs] at h
    simp only [serCallsPairs, toVPairs, jOfCallPairs, jsonOfPairs, keyOfCall_serCalls k h.1, jOfCall_serCalls v h.2.1,
      jOfCallPairs_serCalls rest h.2.2]
end

/-! ### on a call stream that keeps the length contract, serde_json writes `writeAt` of the image -/

theorem endC_succ (st : Style) (close : Char) (lvl : Nat) (hv : Bool) :
    endC st close ⟨lvl + 1, hv⟩ = .ok ((if hv then st.close lvl else []) ++ [close], ⟨lvl, hv⟩) := by
  cases st <;> cases hv <;> simp [endC, Style.close]

theorem bytesText_eq (st : Style) (lvl : Nat) (hv first : Bool) (bs : List Nat) :
    bytesText st ⟨lvl, hv⟩ first bs = writeElems st lvl first (bs.map fun n => J.num (natDigits n)) := by
  induction bs generalizing first with
  | nil => simp [bytesText, writeElems]
  | cons b bs ih => simp [bytesText, writeElems, writeAt, ih]

/-- final state of a run of elements / entries -/
def afterRun (n : Nat) (s : PSt) : PSt := if n = 0 then s else ⟨s.indent, true⟩

mutual
theorem wCall_ok : ∀ (c : Call) (st : Style) (j : J) (s : PSt), ContractOK c → jOfCall c = .ok j →
    ∃ hv, wCall st c s = .ok (writeAt st s.indent j, ⟨s.indent, hv⟩)
  | .unit, st, j, s, _, hj => by simp [jOfCall] at hj; subst hj; exact ⟨s.hasValue, by simp [wCall, writeAt]⟩
  | .bool b, st, j, s, _, hj => by
    simp [jOfCall] at hj; subst hj
    cases b <;> exact ⟨s.hasValue, by simp [wCall, writeAt]⟩
  | .int i, st, j, s, _, hj => by simp [jOfCall] at hj; subst hj; exact ⟨s.hasValue, by simp [wCall, writeAt]⟩
  | .f64 b, st, j, s, _, hj => by
    simp only [jOfCall] at hj
    by_cases hf : f64Finite b = true
    · simp [hf] at hj; subst hj; exact ⟨s.hasValue, by simp [wCall, writeAt, hf]⟩
    · simp [hf] at hj; subst hj; exact ⟨s.hasValue, by simp [wCall, writeAt, hf]⟩
  | .str x, st, j, s, _, hj => by simp [jOfCall] at hj; subst hj; exact ⟨s.hasValue, by simp [wCall, writeAt]⟩
  | .bytes [], st, j, s, _, hj => by
    simp [jOfCall] at hj; subst hj
    refine ⟨false, ?_⟩
    simp only [wCall, beginC, endC_succ]
    simp [writeAt]
  | .bytes (b :: bs), st, j, s, _, hj => by
    simp [jOfCall] at hj; subst hj
    refine ⟨true, ?_⟩
    simp only [wCall, beginC, endV, endC_succ, bytesText_eq]
    simp [writeAt, List.append_assoc]
  | .seq ann elems, st, j, s, hc, hj => by
    simp only [ContractOK] at hc
    simp only [jOfCall] at hj
    cases hl : jOfCallList elems with
    | refuse => rw [hl] at hj; simp at hj
    | unmodelled => rw [hl] at hj; simp at hj
    | ok js =>
      rw [hl] at hj; simp at hj; subst hj
      have hrun := wElems_ok elems st js true (beginC s) hc.2 hl
      by_cases h0 : ann = some 0
      · have hnil : elems = [] := List.eq_nil_of_length_eq_zero (hc.1 0 h0)
        subst hnil
        simp [jOfCallList] at hl; subst hl
        refine ⟨false, ?_⟩
        simp only [wCall, h0, if_true, beginC, endC_succ]
        simp [writeAt]
      · simp only [wCall, h0, if_false, hrun]
        cases elems with
        | nil =>
          simp [jOfCallList] at hl; subst hl
          refine ⟨false, ?_⟩
          simp only [afterRun, List.length_nil, if_true, beginC, endC_succ]
          simp [writeAt, writeElems]
        | cons e es =>
          obtain ⟨x, xs, _, _, hjs⟩ := join2_ok _ _ _ _ (by simpa [jOfCallList] using hl)
          subst hjs
          refine ⟨true, ?_⟩
          simp only [afterRun, List.length_cons, Nat.succ_ne_zero, Nat.add_one_ne_zero, if_false, beginC, endC_succ]
          simp [writeAt, List.append_assoc]
  | .map ann entries, st, j, s, hc, hj => by
    simp only [ContractOK] at hc
    simp only [jOfCall] at hj
    cases hl : jOfCallPairs entries with
    | refuse => rw [hl] at hj; simp at hj
    | unmodelled => rw [hl] at hj; simp at hj
    | ok js =>
      rw [hl] at hj; simp at hj; subst hj
      have hrun := wEntries_ok entries st js true (beginC s) hc.2 hl
      by_cases h0 : ann = some 0
      · have hnil : entries = [] := List.eq_nil_of_length_eq_zero (hc.1 0 h0)
        subst hnil
        simp [jOfCallPairs] at hl; subst hl
        refine ⟨false, ?_⟩
        simp only [wCall, h0, if_true, beginC, endC_succ]
        simp [writeAt]
      · simp only [wCall, h0, if_false, hrun]
        cases entries with
        | nil =>
          simp [jOfCallPairs] at hl; subst hl
          refine ⟨false, ?_⟩
          simp only [afterRun, List.length_nil, if_true, beginC, endC_succ]
          simp [writeAt, writeMembers]
        | cons e es =>
          obtain ⟨k, v⟩ := e
          obtain ⟨x, xs, hx, _, hjs⟩ := join2_ok _ _ _ _ (by simpa [jOfCallPairs] using hl)
          obtain ⟨kk, vv, _, _, hkv⟩ := join2_ok _ _ _ _ hx
          subst hjs; subst hkv
          refine ⟨true, ?_⟩
          simp only [afterRun, List.length_cons, Nat.add_one_ne_zero, if_false, beginC, endC_succ]
          simp [writeAt, List.append_assoc]
theorem wElems_ok : ∀ (cs : List Call) (st : Style) (js : List J) (first : Bool) (s : PSt),
    ContractOKList cs → jOfCallList cs = .ok js →
    wElems st first cs s = .ok (writeElems st s.indent first js, afterRun cs.length s)
  | [], st, js, first, s, _, hj => by
    simp [jOfCallList] at hj; subst hj
    simp [wElems, writeElems, afterRun]
  | c :: cs, st, js, first, s, hc, hj => by
    simp only [ContractOKList] at hc
    obtain ⟨x, xs, hx, hxs, hjs⟩ := join2_ok _ _ _ _ (by simpa [jOfCallList] using hj)
    subst hjs
    obtain ⟨hv, h1⟩ := wCall_ok c st x s hc.1 hx
    have h2 := wElems_ok cs st xs false ⟨s.indent, true⟩ hc.2 hxs
    have h3 : afterRun cs.length ⟨s.indent, true⟩ = ⟨s.indent, true⟩ := by simp only [afterRun]; split <;> rfl
    rw [h3] at h2
    simp only [wElems, h1, endV, h2]
    simp only [afterRun, List.length_cons, Nat.add_one_ne_zero, if_false, writeElems, List.append_assoc]
theorem wEntries_ok : ∀ (es : List (Call × Call)) (st : Style) (js : List (List Char × J)) (first : Bool) (s : PSt),
    ContractOKPairs es → jOfCallPairs es = .ok js →
    wEntries st first es s = .ok (writeMembers st s.indent first js, afterRun es.length s)
  | [], st, js, first, s, _, hj => by
    simp [jOfCallPairs] at hj; subst hj
    simp [wEntries, writeMembers, afterRun]
  | (k, v) :: es, st, js, first, s, hc, hj => by
    simp only [ContractOKPairs] at hc
    obtain ⟨x, xs, hx, hxs, hjs⟩ := join2_ok _ _ _ _ (by simpa [jOfCallPairs] using hj)
    obtain ⟨kk, vv, hk, hv', hkv⟩ := join2_ok _ _ _ _ hx
    subst hjs; subst hkv
    obtain ⟨hv, h1⟩ := wCall_ok v st vv s hc.2.1 hv'
    have h2 := wEntries_ok es st xs false ⟨s.indent, true⟩ hc.2.2 hxs
    have h3 : afterRun es.length ⟨s.indent, true⟩ = ⟨s.indent, true⟩ := by simp only [afterRun]; split <;> rfl
    rw [h3] at h2
    simp only [wEntries, hk, h1, endV, h2]
    simp only [afterRun, List.length_cons, Nat.add_one_ne_zero, if_false, writeMembers, List.append_assoc]
end

/-- the text serde_json writes for a contract-keeping call stream is the model writer on its image -/
theorem writeCalls_eq (st : Style) (c : Call) (j : J) (hc : ContractOK c) (hj : jOfCall c = .ok j) :
    writeCalls st c = .ok (writeJ st j) := by
  obtain ⟨hv, h⟩ := wCall_ok c st j ⟨0, false⟩ hc hj
  simp [writeCalls, h, writeJ]

/-- … in particular for the calls `impl Serialize for Value` makes for honest objects -/
theorem writeCalls_value (st : Style) (lv : LV) (j : J) (h : Honest lv) (hj : jsonOf (toV false lv) = .ok j) :
    writeCalls st (serCalls lv) = .ok (writeJ st j) :=
  writeCalls_eq st (serCalls lv) j (contract_serCalls lv h) (by rw [jOfCall_serCalls lv h]; exact hj)

end MJ.JsonSer
