import MJ.Proofs.LocAstEmit
/-!
# The statement arms (C14) and the theorem for whole programs
-/
namespace MJ.LocAst
open MJ MJ.Loc

attribute [local irreducible] cExpr cExprs cCmpOps cCallBody cArgs1 cArgs2 cAssign cAssigns cMacroKids cWithKids cImportNames
  cStmt cStmts

/-- the statements of a `body` child, in the range of the parent -/
theorem bodyStmts {kids : List Node} {lo hi : Nat} (hk : ∀ c ∈ kids, M c ∧ K c) (hw : WFs lo hi kids) {b : Node} (hb : b ∈ kids)
    (ctx : List Pend) : J true false lo hi (cStmts ctx b.kids) :=
  ((hk b hb).2.2 _ (List.suffix_refl _) lo hi (kids_in (hw b hb).1 (hw b hb).2.1 (hw b hb).2.2).1 ctx).2.2.2.2.2.2.2.2.1

theorem J.blockArm {lo hi l : Nat} {body : List Ev} (nm nm2 : String) (hl : InR lo hi l) (hb : J true false lo hi body) :
    J false true lo hi ([.setLine l, .blockBegin nm] ++ body ++ [.blockEnd, .add nm2 lo hi]) := by
  have e : [Ev.setLine l, .blockBegin nm] ++ body ++ [.blockEnd, .add nm2 lo hi] =
      [.setLine l] ++ (([.blockBegin nm] ++ body ++ [.blockEnd]) ++ [.add nm2 lo hi]) := by simp
  rw [e]
  exact J.seqT2 (J.setLine hl) (J.seqT2 (J.block nm hb) (J.add _ _ _))

/-- `add`, then a span that is pushed just before a self-locating piece -/
theorem J.addPushSkip {g : Bool} {lo hi : Nat} {b : List Ev} (nm : String) (sp : Span) (hb : J false g lo hi b) :
    J true true lo hi ([.add nm lo hi, .push sp] ++ b) :=
  (J.seq (J.add nm lo hi) ((J.skipPush sp hb).weaken true g (by simp) id)).weaken _ _ id (by simp)

theorem callerOk_of_J {lo hi : Nat} {evs : List Ev} (h : J false true lo hi evs) : CallerOk (some evs) := by
  intro e he s
  cases he
  obtain ⟨a1, _, _, _, a5⟩ := h s (by intro h; cases h)
  exact ⟨a1, a5⟩

set_option maxHeartbeats 8000000 in
theorem M_stmt (kind : Kind) (sp : Span) (flag : Bool) (name : String) (num lo hi : Nat) (kids : List Node)
    (hk : ∀ c ∈ kids, M c ∧ K c) (hF : ∀ t, t <:+ kids → Facts t)
    (hw : wf (.mk kind sp flag name num lo hi kids) = true) (ctx : List Pend) (LO HI : Nat) (h1 : LO ≤ lo) (h2 : hi ≤ HI) :
    J true false LO HI (cStmt ctx (.mk kind sp flag name num lo hi kids)) := by
  obtain ⟨hlohi, hanch, hconst, hshape, hkw⟩ := wf_mk hw
  have hkids := wfKids_WFs hkw
  unfold cStmt
  split
  · -- template
    have ha : InR lo hi sp.startLine := hanch (by simp [mustAnchor, spanless, startsAtPreviousToken, Node.kind])
    have h9 := (hF _ (List.suffix_refl _) lo hi hkids ctx).2.2.2.2.2.2.2.2.1
    refine J.use (?_ : J false false lo hi _) h1 h2 true false (by simp)
    jauto
  · -- emitexpr
    rename_i e
    exact M_stmt_emitexpr sp flag name num lo hi e hk hw ctx LO HI h1 h2
  · -- emitraw
    have ha : InR lo hi sp.startLine := hanch (by simp [mustAnchor, spanless, startsAtPreviousToken, Node.kind])
    refine J.use (?_ : J false false lo hi _) h1 h2 true false (by simp)
    jauto
  · -- forloop
    have ha : InR lo hi sp.startLine := hanch (by simp [mustAnchor, spanless, startsAtPreviousToken, Node.kind])
    rename_i target iter filt bsp bfl bnm bnum blo bhi body esp efl enm enum elo ehi els
    simp only [shapeOk, Bool.and_eq_true] at hshape
    have hI := kidE hk hkids (c := iter) (by simp) hshape.1 ctx
    have hFi := kidEo hk hkids (c := filt) (by simp) hshape.2 ctx
    have hT := kidA hk hkids (c := target) (by simp) ctx
    have hB := bodyStmts hk hkids (b := Node.mk Kind.body bsp bfl bnm bnum blo bhi body) (by simp) (Pend.loop :: ctx)
    have hEl := bodyStmts hk hkids (b := Node.mk Kind.body esp efl enm enum elo ehi els) (by simp) ctx
    simp only [Node.kids] at hB hEl
    have s1 := J.startFor false lo hi
    have s2 := J.endFor false false lo hi
    have s3 := J.endFor false (!els.isEmpty) lo hi
    refine J.use (?_ : J false false lo hi _) h1 h2 true false (by simp)
    apply J.seqF; apply J.seqF; apply J.seqF; apply J.seqF; apply J.seqF
    · exact J.setLine ha
    · split
      · jauto
      · rename_i hne
        have hP := (J.addPushSkip "LoadConst" filt.sp (hI false false)).weaken true false id (by simp)
        have hFi' := hFi hne
        jauto
    all_goals jauto
  · -- ifcond
    have ha : InR lo hi sp.startLine := hanch (by simp [mustAnchor, spanless, startsAtPreviousToken, Node.kind])
    rename_i e bsp bfl bnm bnum blo bhi tb esp efl enm enum elo ehi fb
    simp only [shapeOk] at hshape
    have hE := kidE hk hkids (c := e) (by simp) hshape ctx
    have hB := bodyStmts hk hkids (b := Node.mk Kind.body bsp bfl bnm bnum blo bhi tb) (by simp) ctx
    have hEl := bodyStmts hk hkids (b := Node.mk Kind.body esp efl enm enum elo ehi fb) (by simp) ctx
    simp only [Node.kids] at hB hEl
    have hP : J false false lo hi ([Ev.setLine sp.startLine, Ev.push e.sp] ++ cExpr ctx e) :=
      J.skipSetLine _ (J.skipPush _ (hE false false))
    refine J.use (?_ : J false false lo hi _) h1 h2 true false (by simp)
    jauto
  · -- withblock
    have ha : InR lo hi sp.startLine := hanch (by simp [mustAnchor, spanless, startsAtPreviousToken, Node.kind])
    have h7 := (hF _ (List.suffix_refl _) lo hi hkids ctx).2.2.2.2.2.2.1
    refine J.use (?_ : J false false lo hi _) h1 h2 true false (by simp)
    jauto
  · -- set
    have ha : InR lo hi sp.startLine := hanch (by simp [mustAnchor, spanless, startsAtPreviousToken, Node.kind])
    rename_i target e
    simp only [shapeOk] at hshape
    have hE := kidE hk hkids (c := e) (by simp) hshape ctx
    have hT := kidA hk hkids (c := target) (by simp) ctx
    refine J.use (?_ : J false false lo hi _) h1 h2 true false (by simp)
    jauto
  · -- setblock
    have ha : InR lo hi sp.startLine := hanch (by simp [mustAnchor, spanless, startsAtPreviousToken, Node.kind])
    rename_i target filt bsp bfl bnm bnum blo bhi body
    simp only [shapeOk] at hshape
    have hFi := kidEo hk hkids (c := filt) (by simp) hshape ctx
    have hT := kidA hk hkids (c := target) (by simp) ctx
    have hB := bodyStmts hk hkids (b := Node.mk Kind.body bsp bfl bnm bnum blo bhi body) (by simp) (Pend.capture :: ctx)
    simp only [Node.kids] at hB
    refine J.use (?_ : J false false lo hi _) h1 h2 true false (by simp)
    jauto
  · -- autoescape
    have ha : InR lo hi sp.startLine := hanch (by simp [mustAnchor, spanless, startsAtPreviousToken, Node.kind])
    rename_i e bsp bfl bnm bnum blo bhi body
    simp only [shapeOk] at hshape
    have hE := kidE hk hkids (c := e) (by simp) hshape ctx
    have hB := bodyStmts hk hkids (b := Node.mk Kind.body bsp bfl bnm bnum blo bhi body) (by simp) (Pend.autoescape :: ctx)
    simp only [Node.kids] at hB
    refine J.use (?_ : J false false lo hi _) h1 h2 true false (by simp)
    jauto
  · -- filterblock
    have ha : InR lo hi sp.startLine := hanch (by simp [mustAnchor, spanless, startsAtPreviousToken, Node.kind])
    rename_i f bsp bfl bnm bnum blo bhi body
    simp only [shapeOk] at hshape
    have hE := kidE hk hkids (c := f) (by simp) hshape ctx
    have hB := bodyStmts hk hkids (b := Node.mk Kind.body bsp bfl bnm bnum blo bhi body) (by simp) (Pend.capture :: ctx)
    simp only [Node.kids] at hB
    refine J.use (?_ : J false false lo hi _) h1 h2 true false (by simp)
    jauto
  · -- block
    have ha : InR lo hi sp.startLine := hanch (by simp [mustAnchor, spanless, startsAtPreviousToken, Node.kind])
    rename_i bsp bfl bnm bnum blo bhi body
    have hB := bodyStmts hk hkids (b := Node.mk Kind.body bsp bfl bnm bnum blo bhi body) (by simp) []
    simp only [Node.kids] at hB
    exact (J.blockArm name "CallBlock" ha hB).use h1 h2 true false (by simp)
  · -- import
    have ha : InR lo hi sp.startLine := hanch (by simp [mustAnchor, spanless, startsAtPreviousToken, Node.kind])
    rename_i e nm
    simp only [shapeOk] at hshape
    have hE := kidE hk hkids (c := e) (by simp) hshape ctx
    have hT := kidA hk hkids (c := nm) (by simp) ctx
    refine J.use (?_ : J false false lo hi _) h1 h2 true false (by simp)
    jauto
  · -- fromimport
    have ha : InR lo hi sp.startLine := hanch (by simp [mustAnchor, spanless, startsAtPreviousToken, Node.kind])
    rename_i e names
    simp only [shapeOk] at hshape
    have hE := kidE hk hkids (c := e) (by simp) hshape ctx
    have h8 := (hF names (List.suffix_cons _ _) lo hi hkids.tail ctx).2.2.2.2.2.2.2.1
    refine J.use (?_ : J false false lo hi _) h1 h2 true false (by simp)
    jauto
  · -- extends
    have ha : InR lo hi sp.startLine := hanch (by simp [mustAnchor, spanless, startsAtPreviousToken, Node.kind])
    rename_i e
    simp only [shapeOk] at hshape
    have hE := kidE hk hkids (c := e) (by simp) hshape ctx
    refine J.use (?_ : J false false lo hi _) h1 h2 true false (by simp)
    jauto
  · -- include
    have ha : InR lo hi sp.startLine := hanch (by simp [mustAnchor, spanless, startsAtPreviousToken, Node.kind])
    rename_i e
    simp only [shapeOk] at hshape
    have hE := kidE hk hkids (c := e) (by simp) hshape ctx
    refine J.use (?_ : J false false lo hi _) h1 h2 true false (by simp)
    jauto
  · -- macro
    have ha : InR lo hi sp.startLine := hanch (by simp [mustAnchor, spanless, startsAtPreviousToken, Node.kind])
    have h6 := (hF _ (List.suffix_refl _) lo hi hkids ctx).2.2.2.2.2.1
    have hR := J.replicateAdd "Enclose" lo hi num
    refine J.use (?_ : J false false lo hi _) h1 h2 true false (by simp)
    jauto
  · -- callblock
    rename_i csp cfl cnm cnum clo chi ck msp mfl mnm mnum mlo mhi mk
    obtain ⟨cw, c1, c2⟩ := hkids (Node.mk Kind.call csp cfl cnm cnum clo chi ck) (by simp)
    obtain ⟨mw, m1, m2⟩ := hkids (Node.mk Kind.callermacro msp mfl mnm mnum mlo mhi mk) (by simp)
    have hmc := hk (Node.mk Kind.call csp cfl cnm cnum clo chi ck) (by simp)
    have hmm := hk (Node.mk Kind.callermacro msp mfl mnm mnum mlo mhi mk) (by simp)
    simp only [Node.lo, Node.hi] at c1 c2 m1 m2
    have hca : InR clo chi csp.startLine := wf_anchor cw (by simp [mustAnchor, spanless, startsAtPreviousToken, Node.kind])
    have hma : InR mlo mhi msp.startLine := wf_anchor mw (by simp [mustAnchor, spanless, startsAtPreviousToken, Node.kind])
    obtain ⟨ckw, cshape⟩ := kids_in cw (Nat.le_refl _) (Nat.le_refl _)
    obtain ⟨mkw, _⟩ := kids_in mw (Nat.le_refl _) (Nat.le_refl _)
    simp only [Node.kids, Node.kind, Node.lo, Node.hi] at ckw cshape mkw
    have h6 := (hmm.2.2 _ (List.suffix_refl _) mlo mhi mkw ctx).2.2.2.2.2.1
    simp only [Node.kids] at h6
    have hR := J.replicateAdd "Enclose" mlo mhi mnum
    have hMac : J false true mlo mhi ([Ev.setLine msp.startLine, Ev.add "Jump" mlo mhi] ++ cMacroKids ctx mlo mhi mk ++
        [Ev.add "Return" mlo mhi] ++ List.replicate mnum (Ev.add "Enclose" mlo mhi) ++
        [Ev.add "GetClosure" mlo mhi, Ev.add "LoadConst" mlo mhi, Ev.add "BuildMacro" mlo mhi]) := by
      jauto
    cases ck with
    | nil => simp [shapeOk, exprKind, isArg, Node.kind] at cshape
    | cons callee args =>
      simp only [shapeOk, Bool.and_eq_true] at cshape
      have hCB0 := (hmc.2.2 _ (List.suffix_refl _) clo chi ckw ctx).2.2.2.2.2.2.2.2.2 _ csp (callerOk_of_J hMac) hca
        (by intro h hh; cases hh; exact cshape.1) (by simp [Node.kids])
      have hCB := hCB0.use (Nat.le_trans (Nat.le_refl _) c1) c2 false false (by simp)
      simp only [Node.kids] at hCB
      refine J.use (?_ : J false false lo hi _) h1 h2 true false (by simp)
      jauto
  · -- continue
    have ha : InR lo hi sp.startLine := hanch (by simp [mustAnchor, spanless, startsAtPreviousToken, Node.kind])
    have hL := J.leaveScopes lo hi ctx
    refine J.use (?_ : J false false lo hi _) h1 h2 true false (by simp)
    jauto
  · -- break
    have ha : InR lo hi sp.startLine := hanch (by simp [mustAnchor, spanless, startsAtPreviousToken, Node.kind])
    have hL := J.leaveScopes lo hi ctx
    refine J.use (?_ : J false false lo hi _) h1 h2 true false (by simp)
    jauto
  · -- do
    rename_i csp cfl cnm cnum clo chi ck
    obtain ⟨cw, c1, c2⟩ := hkids (Node.mk Kind.call csp cfl cnm cnum clo chi ck) (by simp)
    have hmc := hk (Node.mk Kind.call csp cfl cnm cnum clo chi ck) (by simp)
    simp only [Node.lo, Node.hi] at c1 c2
    have hca : InR clo chi csp.startLine := wf_anchor cw (by simp [mustAnchor, spanless, startsAtPreviousToken, Node.kind])
    obtain ⟨ckw, cshape⟩ := kids_in cw (Nat.le_refl _) (Nat.le_refl _)
    simp only [Node.kids, Node.kind, Node.lo, Node.hi] at ckw cshape
    cases ck with
    | nil => simp [shapeOk, exprKind, isArg, Node.kind] at cshape
    | cons callee args =>
      simp only [shapeOk, Bool.and_eq_true] at cshape
      have hCB0 := (hmc.2.2 _ (List.suffix_refl _) clo chi ckw ctx).2.2.2.2.2.2.2.2.2 none csp callerOk_none hca
        (by intro h hh; cases hh; exact cshape.1) (by simp [Node.kids])
      have hCB := hCB0.use c1 c2 false false (by simp)
      simp only [Node.kids] at hCB
      refine J.use (?_ : J false false lo hi _) h1 h2 true false (by simp)
      jauto
  · exact J.nil _ _


/-! ## the whole tree -/

theorem all_nodes (n : Node) : M n ∧ K n := by
  refine Node.rec (motive_1 := fun n => M n ∧ K n)
    (motive_2 := fun l => (∀ c ∈ l, M c ∧ K c) ∧ (∀ t, t <:+ l → Facts t)) ?_ ?_ ?_ n
  · intro kind sp flag name num lo hi kids ih
    obtain ⟨hk, hF⟩ := ih
    refine ⟨⟨?_, ?_, ?_⟩, fun c hc => (hk c hc).1, hF⟩
    · intro hw he ctx
      exact M_expr kind sp flag name num lo hi kids hk hF hw he ctx
    · intro hw ctx LO HI h1 h2
      exact M_stmt kind sp flag name num lo hi kids hk hF hw ctx LO HI h1 h2
    · intro hw ctx LO HI h1 h2
      exact M_assign kind sp flag name num lo hi kids hk hF hw ctx LO HI h1 h2
  · refine ⟨fun c hc => (by cases hc), ?_⟩
    intro t ht
    have : t = [] := List.suffix_nil.mp ht
    subst this
    exact Facts.nil
  · intro head tail ih1 ih2
    refine ⟨?_, ?_⟩
    · intro c hc
      rcases List.mem_cons.mp hc with rfl | hc
      · exact ih1
      · exact ih2.1 c hc
    · intro t ht
      rcases List.suffix_cons_iff.mp ht with rfl | ht
      · exact Facts.cons ih1.1 ih1.2 (ih2.2 tail (List.suffix_refl _))
      · exact ih2.2 t ht

/-- the instructions of a whole compiled template: every one is recorded with a line inside the
    construct whose compile arm emitted it -/
theorem stmt_lines_ok (ctx : List Pend) (n : Node) (hw : wf n = true) (s : LS) (hs : n.lo ≤ s.cur ∧ s.cur ≤ n.hi) :
    ∀ e ∈ (execL s (cStmt ctx n)).2, e.ok = true :=
  ((all_nodes n).1.2.1 hw ctx n.lo n.hi (Nat.le_refl _) (Nat.le_refl _) s (fun _ => hs)).1

/-- … of a standalone expression -/
theorem expr_lines_ok (ctx : List Pend) (n : Node) (hw : wf n = true) (he : isE n = true) (s : LS) :
    ∀ e ∈ (execL s (cExpr ctx n)).2, e.ok = true :=
  ((all_nodes n).1.1 hw he ctx s (by intro h; cases h)).1

end MJ.LocAst
