import MJ.Model.Subscript
import MJ.Proofs.SubClamp
import MJ.Proofs.SubUtf8
import MJ.Proofs.SliceLemmas
/-!
# Facts about the glue model (`MJ.Sub`) that the C09 theorems combine

The facts about *which arm does what* are proved against the tables regenerated from `/repo`
(`MJ.Gen.c09…`) by evaluation (`rfl`/`decide`): when an arm of `ops::slice`, `slice_bound`,
`primitive_int_try_from!`, `get_item_opt` or `handle_undefined` changes, they stop checking.
-/
namespace MJ.Sub
open MJ Chk Slice

/-- Python's view of an index-like value (`__index__`): integers of every representation, booleans -/
def pyInt {α : Type} : Val α → Option Int
  | .bool b => some (if b then 1 else 0)
  | .num (.i64 x) => some x
  | .num (.u64 x) => some x
  | .num (.i128 x) => some x
  | .num (.u128 x) => some x
  | _ => Option.none

/-- an `I64` holds an `i64` (the other representations need no side condition here) -/
def Val.WF {α : Type} : Val α → Prop
  | .num (.i64 x) => i64Min ≤ x ∧ x ≤ i64Max
  | _ => True

/-- a slice part as Python sees it: omitted (`none`) or an integer -/
def pyBound {α : Type} (v : Val α) : Option (Option Int) :=
  match v with
  | .none => some Option.none
  | v => (pyInt v).map some

/-! ## conversions -/

theorem tryInt_range {α : Type} (lo hi : Int) (v : Val α) (x : Int) (h : tryInt lo hi v = some x) : lo ≤ x ∧ x ≤ hi := by
  unfold tryInt at h
  split at h
  · split at h
    · split at h
      · cases h; assumption
      · cases h
    · cases h
  · cases h

theorem tryInt_of_pyInt {α : Type} (lo hi : Int) (v : Val α) (x : Int) (h : pyInt v = some x) :
    tryInt lo hi v = if lo ≤ x ∧ x ≤ hi then some x else Option.none := by
  cases v with
  | bool b =>
    have : x = if b then 1 else 0 := by simpa [pyInt] using h.symm
    subst this
    have : MJ.Gen.c09IntTryFromArms.contains "Bool" = true := by decide
    simp only [tryInt, Val.repr, this, Val.payload, if_true]
  | num n =>
    cases n with
    | i64 y =>
      have : y = x := by simpa [pyInt] using h
      subst this
      have : MJ.Gen.c09IntTryFromArms.contains "I64" = true := by decide
      simp only [tryInt, Val.repr, this, Val.payload, if_true]
    | u64 y =>
      have : (y : Int) = x := by simpa [pyInt] using h
      subst this
      have : MJ.Gen.c09IntTryFromArms.contains "U64" = true := by decide
      simp only [tryInt, Val.repr, this, Val.payload, if_true]
    | i128 y =>
      have : y = x := by simpa [pyInt] using h
      subst this
      have : MJ.Gen.c09IntTryFromArms.contains "I128" = true := by decide
      simp only [tryInt, Val.repr, this, Val.payload, if_true]
    | u128 y =>
      have : (y : Int) = x := by simpa [pyInt] using h
      subst this
      have : MJ.Gen.c09IntTryFromArms.contains "U128" = true := by decide
      simp only [tryInt, Val.repr, this, Val.payload, if_true]
    | f64 b => simp [pyInt] at h
  | _ => simp [pyInt] at h

theorem clampRow_cases {α : Type} (v : Val α) (tbl : List (String × String)) (c : Int) (h : clampRow v tbl = some c) :
    c = i64Max ∨ c = i64Min := by
  induction tbl with
  | nil => simp [clampRow] at h
  | cons p rest ih =>
    obtain ⟨r, how⟩ := p
    simp only [clampRow] at h
    split at h
    · split at h
      · cases h; exact Or.inl rfl
      · split at h
        · cases h; exact Or.inr rfl
        · split at h
          · split at h
            · cases h; exact Or.inr rfl
            · exact ih h
          · cases h
    · exact ih h

/-- whatever the value: a converted bound or step is an `i64` -/
theorem sliceBound_range {α : Type} (v : Val α) (x : Int) (h : sliceBound v = .ok x) : i64Min ≤ x ∧ x ≤ i64Max := by
  unfold sliceBound at h
  split at h
  next c hc =>
    cases h
    cases hv : valI64 v with
    | none =>
      simp only [Option.getD_none]
      rcases clampRow_cases v _ c hc with rfl | rfl <;> simp [i64Min, i64Max]
    | some y => simpa using tryInt_range _ _ v y hv
  next =>
    split at h
    next y hy => cases h; exact tryInt_range _ _ v x hy
    next => cases h

theorem optBound_range {α : Type} (v : Val α) (b : Option Int) (h : optBound v = .ok b) : OptInI64 b := by
  unfold optBound at h
  split at h
  · cases h; trivial
  · cases hb : sliceBound v with
    | error e => rw [hb] at h; cases h
    | ok x =>
      rw [hb] at h
      cases h
      have := sliceBound_range v x hb
      simpa [OptInI64, InI64, i64Min, i64Max] using (show -9223372036854775808 ≤ x ∧ x < 9223372036854775808 by
        unfold i64Min i64Max at this; omega)

theorem clampRow_bool {α : Type} (b : Bool) : clampRow (Val.bool b : Val α) MJ.Gen.c09SliceBoundClamp = Option.none := rfl
theorem clampRow_i64 {α : Type} (x : Int) : clampRow (Val.num (.i64 x) : Val α) MJ.Gen.c09SliceBoundClamp = Option.none := rfl
theorem clampRow_u64 {α : Type} (x : Nat) : clampRow (Val.num (.u64 x) : Val α) MJ.Gen.c09SliceBoundClamp = some i64Max := rfl
theorem clampRow_u128 {α : Type} (x : Nat) : clampRow (Val.num (.u128 x) : Val α) MJ.Gen.c09SliceBoundClamp = some i64Max := rfl
theorem clampRow_i128 {α : Type} (x : Int) :
    clampRow (Val.num (.i128 x) : Val α) MJ.Gen.c09SliceBoundClamp = if x < 0 then some i64Min else some i64Max := by
  simp [clampRow, MJ.Gen.c09SliceBoundClamp, Val.repr, Val.payload]

/-- Python integers of every representation and size: `slice_bound` clamps them into `i64` -/
theorem sliceBound_pyInt {α : Type} (v : Val α) (x : Int) (h : pyInt v = some x) (wf : v.WF) :
    sliceBound v = .ok (clampI64 x) := by
  have hv : valI64 v = if i64Min ≤ x ∧ x ≤ i64Max then some x else Option.none := tryInt_of_pyInt _ _ v x h
  cases v with
  | bool b =>
    have hx : x = if b then 1 else 0 := by simpa [pyInt] using h.symm
    have hr : i64Min ≤ x ∧ x ≤ i64Max := by subst hx; cases b <;> simp [i64Min, i64Max]
    simp only [sliceBound, clampRow_bool, hv, hr, and_self, if_true, clampI64_id x hr]
  | num n =>
    cases n with
    | i64 y =>
      have : y = x := by simpa [pyInt] using h
      subst this
      have hr : i64Min ≤ y ∧ y ≤ i64Max := wf
      simp only [sliceBound, clampRow_i64, hv, hr, and_self, if_true, clampI64_id y hr]
    | u64 y =>
      have : (y : Int) = x := by simpa [pyInt] using h
      subst this
      simp only [sliceBound, clampRow_u64, hv]
      by_cases hr : i64Min ≤ (y : Int) ∧ (y : Int) ≤ i64Max
      · simp only [hr, and_self, if_true, Option.getD_some, clampI64_id _ hr]
      · rw [if_neg hr, Option.getD_none, clampI64_big _ (by unfold i64Min i64Max at *; omega)]
    | u128 y =>
      have : (y : Int) = x := by simpa [pyInt] using h
      subst this
      simp only [sliceBound, clampRow_u128, hv]
      by_cases hr : i64Min ≤ (y : Int) ∧ (y : Int) ≤ i64Max
      · simp only [hr, and_self, if_true, Option.getD_some, clampI64_id _ hr]
      · rw [if_neg hr, Option.getD_none, clampI64_big _ (by unfold i64Min i64Max at *; omega)]
    | i128 y =>
      have : y = x := by simpa [pyInt] using h
      subst this
      simp only [sliceBound, clampRow_i128, hv]
      by_cases hneg : y < 0
      · simp only [hneg, if_true]
        by_cases hr : i64Min ≤ y ∧ y ≤ i64Max
        · simp only [hr, and_self, if_true, Option.getD_some, clampI64_id _ hr]
        · rw [if_neg hr, Option.getD_none, clampI64_small _ (by unfold i64Min i64Max at *; omega)]
      · simp only [hneg, if_false]
        by_cases hr : i64Min ≤ y ∧ y ≤ i64Max
        · simp only [hr, and_self, if_true, Option.getD_some, clampI64_id _ hr]
        · rw [if_neg hr, Option.getD_none, clampI64_big _ (by unfold i64Min i64Max at *; omega)]
    | f64 b => simp [pyInt] at h
  | _ => simp [pyInt] at h

theorem optBound_pyBound {α : Type} (v : Val α) (b : Option Int) (h : pyBound v = some b) (wf : v.WF) :
    optBound v = .ok (b.map clampI64) := by
  cases v with
  | none => simp [pyBound] at h; subst h; rfl
  | bool c =>
    obtain ⟨x, hx, rfl⟩ : ∃ x, pyInt (Val.bool c : Val α) = some x ∧ b = some x := by
      simp only [pyBound] at h
      cases hp : pyInt (Val.bool c : Val α) with
      | none => rw [hp] at h; cases h
      | some x => rw [hp] at h; cases h; exact ⟨x, rfl, rfl⟩
    simp only [optBound, sliceBound_pyInt _ x hx wf]; rfl
  | num n =>
    obtain ⟨x, hx, rfl⟩ : ∃ x, pyInt (Val.num n : Val α) = some x ∧ b = some x := by
      simp only [pyBound] at h
      cases hp : pyInt (Val.num n : Val α) with
      | none => rw [hp] at h; cases h
      | some x => rw [hp] at h; cases h; exact ⟨x, rfl, rfl⟩
    simp only [optBound, sliceBound_pyInt _ x hx wf]; rfl
  | _ => simp [pyBound, pyInt] at h

/-! ## the dispatch of `ops::slice` (regenerated table) -/

theorem sliceClass_str {α : Type} (r : StrRepr) (bs : List UInt8) : sliceClass (Val.str r bs : Val α) = "str" := by
  cases r <;> rfl
theorem sliceClass_bytes {α : Type} (bs : List UInt8) : sliceClass (Val.bytes bs : Val α) = "bytes" := rfl
theorem sliceClass_undef {α : Type} : sliceClass (Val.undef : Val α) = "empty" := rfl
theorem sliceClass_none {α : Type} : sliceClass (Val.none : Val α) = "empty" := rfl
theorem sliceClass_seq {α : Type} (xs : List α) : sliceClass (Val.seq xs) = "object" := rfl
theorem sliceClass_tuple {α : Type} (xs : List α) : sliceClass (Val.tuple xs) = "object" := rfl
theorem sliceClass_iter {α : Type} (s : Bool) (xs : List α) : sliceClass (Val.iter s xs) = "object" := rfl
theorem sliceClass_once {α : Type} (xs : List α) : sliceClass (Val.once xs) = "object" := rfl
theorem sliceClass_bool {α : Type} (b : Bool) : sliceClass (Val.bool b : Val α) = "error" := rfl
theorem sliceClass_num {α : Type} (n : N) : sliceClass (Val.num n : Val α) = "error" := by cases n <;> rfl
theorem sliceClass_map {α : Type} (kvs : List (MKey × α)) : sliceClass (Val.map kvs) = "error" := rfl
theorem sliceClass_plain {α : Type} : sliceClass (Val.plain : Val α) = "error" := rfl
theorem sliceClass_invalid {α : Type} : sliceClass (Val.invalid : Val α) = "error" := rfl

theorem unsizedLen_eq : MJ.Gen.c09UnsizedLen = 18446744073709551615 := rfl

/-! ## `get_item_opt` (regenerated tables) -/

theorem lenFn_string : MJ.Gen.c09GetItemLenFn.lookup "String" = some "chars" := by decide
theorem lenFn_smallstr : MJ.Gen.c09GetItemLenFn.lookup "SmallStr" = some "chars" := by decide
theorem lenFn_bytes : MJ.Gen.c09GetItemLenFn.lookup "Bytes" = some "bytes" := by decide
theorem obj_seq : MJ.Gen.c09GetItemObject.lookup "Seq" = some "get_value(index-or-key)" := by decide
theorem obj_iter : MJ.Gen.c09GetItemObject.lookup "Iterable" = some "get_value-then-nth(index,len-or-count-on-demand)" := by decide
theorem obj_map : MJ.Gen.c09GetItemObject.lookup "Map" = some "get_value" := by decide

theorem lenBy_chars (bs : List UInt8) : lenBy "chars" bs = some (chars bs).length := rfl
theorem lenBy_bytes (bs : List UInt8) : lenBy "bytes" bs = some bs.length := rfl

/-- `index` followed by the element access is the list-level `index?` of `MJ.Slice` -/
theorem indexOf_bind {α β : Type} (key : Val α) (i : Int) (xs : List β) (h : valI64 key = some i) :
    (match indexOf key (some xs.length) with
     | some idx => xs[idx]?
     | Option.none => Option.none) = index? xs i := by
  unfold indexOf index?
  rw [h]
  by_cases hi : i < 0
  · simp only [hi, if_true]
    by_cases hl : i.natAbs ≤ xs.length <;> simp [hl]
  · simp only [hi, if_false]

theorem indexOf_none {α : Type} (key : Val α) (len : Option Nat) (h : valI64 key = Option.none) :
    indexOf key len = Option.none := by
  unfold indexOf; rw [h]

/-! ## small facts used by the property theorems -/

theorem getD_range (C : Option Int) (h : OptInI64 C) : InI64 (C.getD 1) := by
  cases C with
  | none => simp [InI64]
  | some x => simpa [OptInI64] using h

theorem clampI64_zero_iff (x : Int) : clampI64 x = 0 ↔ x = 0 := by
  unfold clampI64 i64Min i64Max
  repeat' split
  all_goals omega

theorem castInt_range (b : Nat) :
    i64Min ≤ F64.castInt i64Min i64Max b ∧ F64.castInt i64Min i64Max b ≤ i64Max := by
  simp only [F64.castInt]
  repeat' split
  all_goals (unfold i64Min i64Max at *; omega)

theorem f64ToI64_range (b : Nat) (x : Int) (h : f64ToI64 b = some x) : i64Min ≤ x ∧ x ≤ i64Max := by
  simp only [f64ToI64] at h
  split at h
  · cases h; exact castInt_range b
  · cases h

theorem tryInt_usize_none_of_i64 {α : Type} (key : Val α) (n : Nat)
    (h1 : valI64 key = Option.none) (h2 : valUsize key = some n) : 9223372036854775808 ≤ n := by
  unfold valI64 tryInt at h1
  unfold valUsize tryInt at h2
  split at h1
  next harm =>
    rw [if_pos harm] at h2
    cases hp : key.payload with
    | none => rw [hp] at h2; simp at h2
    | some x =>
      rw [hp] at h1 h2
      simp only [] at h1 h2
      by_cases hr : 0 ≤ x ∧ x ≤ usizeMax
      · rw [if_pos hr] at h2
        simp only [Option.map_some, Option.some.injEq] at h2
        split at h1
        · cases h1
        · next hn => unfold i64Min i64Max usizeMax at *; omega
      · rw [if_neg hr] at h2; simp at h2
  next harm => rw [if_neg harm] at h2; simp at h2

theorem indexOf_neg_of_none {α : Type} (key : Val α) (i : Int) (n : Nat) (hk : valI64 key = some i)
    (hi : indexOf key (some n) = Option.none) : valUsize key = Option.none := by
  have hneg : i < 0 := by
    unfold indexOf at hi; rw [hk] at hi
    by_cases h : i < 0
    · exact h
    · simp [h] at hi
  unfold valI64 tryInt at hk
  unfold valUsize tryInt
  split at hk
  next harm =>
    rw [if_pos harm]
    cases hp : key.payload with
    | none => rfl
    | some x =>
      rw [hp] at hk; simp only [] at hk ⊢
      split at hk
      · cases hk; rw [if_neg (by unfold usizeMax; omega)]; rfl
      · cases hk
  next => cases hk

theorem indices_rev (n : Nat) : PySlice.indices n none none (-1) = (List.range n).map (fun j => n - 1 - j) := by
  simp only [PySlice.indices, PySlice.adjust, PySlice.clampNeg]
  have h1 : ¬ ((-1 : Int) > 0) := by omega
  simp only [h1, if_false]
  by_cases hn : n = 0
  · subst hn; simp
  · have : (-1 : Int) < (n : Int) - 1 := by omega
    simp only [this, if_true]
    have e : (((n : Int) - 1 - -1 - 1) / - -1 + 1).toNat = n := by
      have : ((n : Int) - 1 - -1 - 1) / - -1 = (n : Int) - 1 := by
        rw [show (- -1 : Int) = 1 by omega, Int.ediv_one]; omega
      rw [this]; omega
    rw [e]
    apply List.map_congr_left
    intro j hj
    simp only [List.mem_range] at hj
    omega


/-! ## `MergeSeq` -/

theorem mergeGetFrom_eq {α : Type} (xss : List (List α)) : ∀ (idx cur : Nat), cur ≤ idx →
    mergeGetFrom xss idx cur = xss.flatten[idx - cur]? := by
  induction xss with
  | nil => intro idx cur _; simp [mergeGetFrom]
  | cons xs rest ih =>
    intro idx cur h
    simp only [mergeGetFrom, List.flatten_cons]
    by_cases hlt : idx < cur + xs.length
    · rw [if_pos hlt, List.getElem?_append_left (by omega)]
    · rw [if_neg hlt, ih idx (cur + xs.length) (by omega), List.getElem?_append_right (by omega)]
      congr 1; omega

/-- subscripting the chained sequence is subscripting the concatenation of its operands -/
theorem mergeGet_eq_concat_index {α : Type} (xss : List (List α)) (idx : Nat) :
    mergeGet xss idx = xss.flatten[idx]? := by
  unfold mergeGet; rw [mergeGetFrom_eq xss idx 0 (Nat.zero_le _)]; rfl

/-- the objects of `minijinja/src` whose `get_value` has an integer-key path (regenerated by
    scanning every `impl Object`); each one is subscripted by the C09 harness — a new one stops
    this from checking -/
theorem indexable_objects_known :
    (MJ.Gen.c09IndexableObjects.filter (fun p => p.2 == "int")).map (·.1) =
      ["filters.rs:GroupTuple", "merge_object.rs:MergeDict", "merge_object.rs:MergeSeq",
       "object.rs:$vec_type<T>", "object.rs:[T; N]", "tuple.rs:Tuple"] := by decide

/-! ## Python's view of values (specification side) -/

/-- the Python sequence a value stands for: `str`, `bytes`, `tuple`, or a list (sequences and
    iterables of every flavour) -/
inductive PySeq (α : Type) where
  | str (cs : List Char)
  | bytes (bs : List UInt8)
  | tuple (xs : List α)
  | list (xs : List α)
  deriving Repr, DecidableEq

def pyView {α : Type} : Val α → Option (PySeq α)
  | .str _ bs => some (.str (chars bs))
  | .bytes bs => some (.bytes bs)
  | .tuple xs => some (.tuple xs)
  | .seq xs => some (.list xs)
  | .iter _ xs => some (.list xs)
  | .once xs => some (.list xs)
  | _ => Option.none

def PySeq.len {α : Type} : PySeq α → Nat
  | .str cs => cs.length
  | .bytes bs => bs.length
  | .tuple xs => xs.length
  | .list xs => xs.length

/-- select the positions `is`, keeping the type: a string from a string, bytes from bytes, a
    tuple from a tuple, a list otherwise -/
def PySeq.pick {α : Type} (s : PySeq α) (is : List Nat) : PySeq α :=
  match s with
  | .str cs => .str (MJ.Slice.pick cs is)
  | .bytes bs => .bytes (MJ.Slice.pick bs is)
  | .tuple xs => .tuple (MJ.Slice.pick xs is)
  | .list xs => .list (MJ.Slice.pick xs is)

/-- Python's `s[a:b:c]` for `c ≠ 0` -/
def PySeq.slice {α : Type} (s : PySeq α) (a b : Option Int) (c : Int) : PySeq α :=
  s.pick (PySlice.indices s.len a b c)

/-- the item at position `i`, as the engine represents it -/
def PySeq.itemAt {α : Type} (s : PySeq α) (i : Nat) : Option (Item α) :=
  match s with
  | .str cs => (cs[i]?).map Item.chr
  | .bytes bs => (bs[i]?).map Item.byte
  | .tuple xs => (xs[i]?).map Item.elem
  | .list xs => (xs[i]?).map Item.elem

/-- Python's `s[i]`: `none` = IndexError -/
def PySeq.index {α : Type} (s : PySeq α) (i : Int) : Option (Item α) :=
  (PySlice.index s.len i).bind s.itemAt

def isOnce {α : Type} : Val α → Bool
  | .once _ => true
  | _ => false

/-- the error `ops::slice` reports, if any: the first part (in the order start, stop, step) that
    is neither `none` nor convertible, else a zero step, else a value that cannot be sliced -/
def sliceErr? {α : Type} (v a b c : Val α) : Option Err :=
  match optBound a with
  | .error e => some e
  | .ok _ =>
  match optBound b with
  | .error e => some e
  | .ok _ =>
  match optBound c with
  | .error e => some e
  | .ok C =>
    if C.getD 1 = 0 then some zeroStepErr
    else if sliceClass v = "error" then some (unsliceableErr v) else Option.none

end MJ.Sub
