import MJ.Proofs.LocAst
/-!
# The compile arms of one node (C14): expressions, statements, assignment targets
-/
namespace MJ.LocAst
open MJ MJ.Loc

attribute [local irreducible] cExpr cExprs cCmpOps cCallBody cArgs1 cArgs2 cAssign cAssigns cMacroKids cWithKids cImportNames
  cStmt cStmts

/-! ### one node -/

theorem kidE {kids : List Node} {lo hi : Nat} (hk : ∀ c ∈ kids, M c ∧ K c) (hw : WFs lo hi kids) {c : Node} (hc : c ∈ kids)
    (he : isE c = true) (ctx : List Pend) : ∀ n g, J n g lo hi (cExpr ctx c) :=
  (hk c hc).1.expr (hw c hc).1 he (hw c hc).2.1 (hw c hc).2.2 ctx

theorem kidEo {kids : List Node} {lo hi : Nat} (hk : ∀ c ∈ kids, M c ∧ K c) (hw : WFs lo hi kids) {c : Node} (hc : c ∈ kids)
    (he : isEo c = true) (ctx : List Pend) : ¬((c.kind == Kind.absent) = true) → ∀ n g, J n g lo hi (cExpr ctx c) :=
  (hk c hc).1.exprO (hw c hc).1 he (hw c hc).2.1 (hw c hc).2.2 ctx

theorem kidA {kids : List Node} {lo hi : Nat} (hk : ∀ c ∈ kids, M c ∧ K c) (hw : WFs lo hi kids) {c : Node} (hc : c ∈ kids)
    (ctx : List Pend) : J true false lo hi (cAssign ctx lo hi c) :=
  (hk c hc).1.2.2 (hw c hc).1 ctx lo hi (hw c hc).2.1 (hw c hc).2.2

theorem allE {l : List Node} (h : l.all isE = true) : ∀ n ∈ l, isE n = true := by
  intro n hn
  exact List.all_eq_true.mp h n hn

set_option maxHeartbeats 4000000 in
theorem M_expr (kind : Kind) (sp : Span) (flag : Bool) (name : String) (num lo hi : Nat) (kids : List Node)
    (hk : ∀ c ∈ kids, M c ∧ K c) (hF : ∀ t, t <:+ kids → Facts t)
    (hw : wf (.mk kind sp flag name num lo hi kids) = true) (he : isE (.mk kind sp flag name num lo hi kids) = true)
    (ctx : List Pend) : J false true lo hi (cExpr ctx (.mk kind sp flag name num lo hi kids)) := by
  obtain ⟨hlohi, hanch, hconst, hshape, hkw⟩ := wf_mk hw
  have hkids := wfKids_WFs hkw
  have hns : spanless kind = false := by
    cases kind <;> first | rfl | (simp [isE, exprKind, Node.kind] at he)
  unfold cExpr
  split
  · -- folded to a constant
    rename_i hflag
    have ha : InR lo hi sp.startLine := hanch (by simp [mustAnchor, Node.kind, Node.flag, hns, hflag])
    jauto
  · split
    · -- var
      have ha : InR lo hi sp.startLine := hanch (by simp [mustAnchor, spanless, startsAtPreviousToken, Node.kind])
      jauto
    · -- slice
      have ha : InR lo hi sp.startLine := hanch (by simp [mustAnchor, spanless, startsAtPreviousToken, Node.kind])
      simp only [shapeOk, Bool.and_eq_true] at hshape
      rename_i e a b c
      have h2 := kidEo hk hkids (c := a) (by simp) hshape.1.1.2 ctx
      have h3 := kidEo hk hkids (c := b) (by simp) hshape.1.2 ctx
      have h4 := kidEo hk hkids (c := c) (by simp) hshape.2 ctx
      have h1 := kidE hk hkids (c := e) (by simp) hshape.1.1.1 ctx
      jauto
    · -- not
      simp only [shapeOk] at hshape
      rename_i e
      have h1 := kidE hk hkids (c := e) (by simp) hshape ctx
      jauto
    · -- neg
      have ha : InR lo hi sp.startLine := hanch (by simp [mustAnchor, spanless, startsAtPreviousToken, Node.kind])
      simp only [shapeOk] at hshape
      rename_i e
      have h1 := kidE hk hkids (c := e) (by simp) hshape ctx
      jauto
    · -- bin
      simp only [shapeOk, Bool.and_eq_true] at hshape
      rename_i l r
      have h1 := kidE hk hkids (c := l) (by simp) hshape.1 ctx
      have h2 := kidE hk hkids (c := r) (by simp) hshape.2 ctx
      split
      · have hl : J false true lo hi ([.push sp] ++ cExpr ctx l) := J.skipPushA sp (h1 false true)
        exact J.seqT1 (J.seqT1 (J.raw _ hl) (h2 true false)) (J.pop _ _)
      · jauto
    · -- cmp
      simp only [shapeOk, Bool.and_eq_true] at hshape
      rename_i e ops
      have h1 := kidE hk hkids (c := e) (by simp) hshape.1 ctx
      have hops : ∀ n ∈ ops, n.kind = Kind.cmpop := by
        intro n hn
        have := List.all_eq_true.mp hshape.2 n hn
        simpa using this
      have h2 := (hF ops (List.suffix_cons _ _) lo hi hkids.tail ctx).2.1 hops
      jauto
    · -- ifx
      simp only [shapeOk, Bool.and_eq_true] at hshape
      rename_i t a b
      have h1 := kidE hk hkids (c := t) (by simp) hshape.1.1 ctx
      have h2 := kidE hk hkids (c := a) (by simp) hshape.1.2 ctx
      have h3 := kidEo hk hkids (c := b) (by simp) hshape.2 ctx
      jauto
    · -- filter
      have ha : InR lo hi sp.startLine := hanch (by simp [mustAnchor, spanless, startsAtPreviousToken, Node.kind])
      simp only [shapeOk, Bool.and_eq_true] at hshape
      rename_i e args
      have h1 := kidEo hk hkids (c := e) (by simp) hshape.1 ctx
      have hf := hF args (List.suffix_cons _ _) lo hi hkids.tail ctx
      have h3 := hf.2.2.1
      have h4 := hf.2.2.2.1
      have h5 := J.argsTail (l := sp.startLine) 1 args none (fun _ h => by cases h) ha
      jauto
    · -- test
      have ha : InR lo hi sp.startLine := hanch (by simp [mustAnchor, spanless, startsAtPreviousToken, Node.kind])
      simp only [shapeOk, Bool.and_eq_true] at hshape
      rename_i e args
      have h1 := kidE hk hkids (c := e) (by simp) hshape.1 ctx
      have hf := hF args (List.suffix_cons _ _) lo hi hkids.tail ctx
      have h3 := hf.2.2.1
      have h4 := hf.2.2.2.1
      have h5 := J.argsTail (l := sp.startLine) 1 args none (fun _ h => by cases h) ha
      jauto
    · -- attr
      have ha : InR lo hi sp.startLine := hanch (by simp [mustAnchor, spanless, startsAtPreviousToken, Node.kind])
      simp only [shapeOk] at hshape
      rename_i e
      have h1 := kidE hk hkids (c := e) (by simp) hshape ctx
      jauto
    · -- item
      have ha : InR lo hi sp.startLine := hanch (by simp [mustAnchor, spanless, startsAtPreviousToken, Node.kind])
      simp only [shapeOk, Bool.and_eq_true] at hshape
      rename_i e s
      have h1 := kidE hk hkids (c := e) (by simp) hshape.1 ctx
      have h2 := kidE hk hkids (c := s) (by simp) hshape.2 ctx
      jauto
    · -- call
      have ha : InR lo hi sp.startLine := hanch (by simp [mustAnchor, spanless, startsAtPreviousToken, Node.kind])
      cases kids with
      | nil => simp [shapeOk, exprKind, isArg, Node.kind] at hshape
      | cons c args =>
        simp only [shapeOk, Bool.and_eq_true] at hshape
        exact (hF _ (List.suffix_refl _) lo hi hkids ctx).2.2.2.2.2.2.2.2.2 none sp (fun _ h => by cases h) ha
          (by intro h hh; simp at hh; subst hh; exact hshape.1) (by simp)
    · -- list
      have ha : InR lo hi sp.startLine := hanch (by simp [mustAnchor, spanless, startsAtPreviousToken, Node.kind])
      have h1 := (hF _ (List.suffix_refl _) lo hi hkids ctx).1 (allE (by simpa [shapeOk] using hshape))
      jauto
    · -- tuple
      have ha : InR lo hi sp.startLine := hanch (by simp [mustAnchor, spanless, startsAtPreviousToken, Node.kind])
      have h1 := (hF _ (List.suffix_refl _) lo hi hkids ctx).1 (allE (by simpa [shapeOk] using hshape))
      jauto
    · -- map
      have ha : InR lo hi sp.startLine := hanch (by simp [mustAnchor, spanless, startsAtPreviousToken, Node.kind])
      have h1 := (hF _ (List.suffix_refl _) lo hi hkids ctx).1 (allE (by simpa [shapeOk] using hshape))
      jauto
    · -- no other shape is an expression
      exfalso
      cases kind <;> simp [isE, exprKind, Node.kind] at he <;>
        (rcases kids with _ | ⟨k1, _ | ⟨k2, _ | ⟨k3, _ | ⟨k4, _ | ⟨k5, kr⟩⟩⟩⟩⟩ <;> simp_all [shapeOk, exprKind, isArg, Node.kind]) <;>
        (rename_i hx; first | exact hx _ _ _ _ rfl rfl rfl rfl | exact hx _ _ _ rfl rfl rfl | exact hx _ _ rfl rfl | exact hx _ rfl)


theorem InR.mono {lo hi LO HI x : Nat} (h : InR lo hi x) (h1 : LO ≤ lo) (h2 : hi ≤ HI) : InR LO HI x :=
  ⟨by have := h.1; omega, by have := h.2; omega⟩

theorem M_assign (kind : Kind) (sp : Span) (flag : Bool) (name : String) (num lo hi : Nat) (kids : List Node)
    (hk : ∀ c ∈ kids, M c ∧ K c) (hF : ∀ t, t <:+ kids → Facts t)
    (hw : wf (.mk kind sp flag name num lo hi kids) = true) (ctx : List Pend) (LO HI : Nat) (h1 : LO ≤ lo) (h2 : hi ≤ HI) :
    J true false LO HI (cAssign ctx LO HI (.mk kind sp flag name num lo hi kids)) := by
  obtain ⟨hlohi, hanch, hconst, hshape, hkw⟩ := wf_mk hw
  have hkids := (wfKids_WFs hkw).mono h1 h2
  unfold cAssign
  split
  · jauto
  · have ha : InR LO HI sp.startLine :=
      (hanch (by simp [mustAnchor, spanless, startsAtPreviousToken, Node.kind])).mono h1 h2
    have h5 := (hF _ (List.suffix_refl _) LO HI hkids ctx).2.2.2.2.1
    jauto
  · have ha : InR LO HI sp.startLine :=
      (hanch (by simp [mustAnchor, spanless, startsAtPreviousToken, Node.kind])).mono h1 h2
    simp only [shapeOk] at hshape
    rename_i e
    have h1 := kidE hk hkids (c := e) (by simp) hshape ctx
    jauto
  · exact J.nil _ _

end MJ.LocAst
