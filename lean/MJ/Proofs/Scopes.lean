import MJ.Model.Scopes
/-!
# Soundness of the scope-stack check (C01)

If every function of a table passes `chk` (pops only what it pushed, ends at its entry height on
every path) then, started with a non-empty stack, no execution of any balanced program over that
table reaches `need` with an empty stack, and every execution ends at the height it started at.
-/
namespace MJ.Scopes
open MJ.Gen (ScopeProg)

theorem tableOk_get {funs : List ScopeProg} (hok : tableOk funs = true) {f : Nat} {body : ScopeProg}
    (h : funs[f]? = some body) : chk body 0 = some 0 := by
  have hm : body ∈ funs := List.mem_of_getElem? h
  have := (List.all_eq_true.mp hok) body hm
  simpa [balanced] using this

theorem chk_branch {a b k : ScopeProg} {d e : Nat} (h : chk (.branch a b k) d = some e) :
    ∃ x, chk a d = some x ∧ chk b d = some x ∧ chk k x = some e := by
  unfold chk at h
  split at h
  · rename_i x y ha hb
    by_cases hxy : x = y
    · subst hxy; simp at h; exact ⟨x, ha, hb, h⟩
    · simp [hxy] at h
  · simp at h

theorem chk_loop {body k : ScopeProg} {d e : Nat} (h : chk (.loop body k) d = some e) :
    chk body d = some d ∧ chk k d = some e := by
  unfold chk at h
  by_cases hb : chk body d = some d
  · simp [hb] at h; exact ⟨hb, h⟩
  · simp [hb] at h

theorem chk_iso {body k : ScopeProg} {d e : Nat} (h : chk (.isolated body k) d = some e) :
    chk body 0 = some 0 ∧ chk k d = some e := by
  unfold chk at h
  by_cases hb : chk body 0 = some 0
  · simp [hb] at h; exact ⟨hb, h⟩
  · simp [hb] at h

/-- the invariant: with `h = base + d` (`base ≥ 1` = the height at function entry, `d` = what the
check counted) a checked segment cannot panic and ends at `base + e` -/
theorem exec_sound {funs : List ScopeProg} (hok : tableOk funs = true) {p : ScopeProg} {h : Nat} {r : Option Nat}
    (hx : Exec funs p h r) :
    ∀ base d e, h = base + d → 1 ≤ base → chk p d = some e → r = some (base + e) := by
  induction hx with
  | done =>
    intro base d e hh _ hc
    simp [chk] at hc
    subst hc; simp [hh]
  | push _ ih =>
    intro base d e hh hb hc
    simp only [chk] at hc
    exact ih base (d + 1) e (by omega) hb hc
  | pop _ ih =>
    intro base d e hh hb hc
    simp only [chk] at hc
    by_cases hd : d = 0
    · simp [hd] at hc
    · simp [hd] at hc
      exact ih base (d - 1) e (by omega) hb hc
  | needOk _ _ ih =>
    intro base d e hh hb hc
    simp only [chk] at hc
    exact ih base d e hh hb hc
  | needPanic =>
    intro base d e hh hb _
    omega
  | callPanic hf _ ih =>
    intro base d e hh hb _
    have := ih (base + d) 0 0 (by omega) (by omega) (tableOk_get hok hf)
    simp at this
  | callOk hf _ _ ihb ihk =>
    intro base d e hh hb hc
    simp only [chk] at hc
    have h1 := ihb (base + d) 0 0 (by omega) (by omega) (tableOk_get hok hf)
    simp at h1
    exact ihk base d e (by omega) hb hc
  | callExt _ _ ih =>
    intro base d e hh hb hc
    simp only [chk] at hc
    exact ih base d e hh hb hc
  | branchLPanic _ ih =>
    intro base d e hh hb hc
    obtain ⟨x, ha, _, _⟩ := chk_branch hc
    have := ih base d x hh hb ha
    simp at this
  | branchL _ _ iha ihk =>
    intro base d e hh hb hc
    obtain ⟨x, ha, _, hk⟩ := chk_branch hc
    have h1 := iha base d x hh hb ha
    simp at h1
    exact ihk base x e h1 hb hk
  | branchRPanic _ ih =>
    intro base d e hh hb hc
    obtain ⟨x, _, hb', _⟩ := chk_branch hc
    have := ih base d x hh hb hb'
    simp at this
  | branchR _ _ ihb ihk =>
    intro base d e hh hb hc
    obtain ⟨x, _, hb', hk⟩ := chk_branch hc
    have h1 := ihb base d x hh hb hb'
    simp at h1
    exact ihk base x e h1 hb hk
  | loopExit _ ih =>
    intro base d e hh hb hc
    exact ih base d e hh hb (chk_loop hc).2
  | loopPanic _ ih =>
    intro base d e hh hb hc
    have := ih base d d hh hb (chk_loop hc).1
    simp at this
  | loopIter _ _ ihb ihl =>
    intro base d e hh hb hc
    have h1 := ihb base d d hh hb (chk_loop hc).1
    simp at h1
    exact ihl base d e h1 hb hc
  | isoPanic _ ih =>
    intro base d e _ _ hc
    have := ih 1 0 0 rfl (by omega) (chk_iso hc).1
    simp at this
  | iso _ _ _ ihk =>
    intro base d e hh hb hc
    exact ihk base d e hh hb (chk_iso hc).2

/-- a balanced program over a balanced table, started on a non-empty stack: no panic, and the
stack is as high at the end as at the start -/
theorem balanced_exec {funs : List ScopeProg} (hok : tableOk funs = true) {p : ScopeProg}
    (hp : balanced p = true) {h : Nat} (hh : 1 ≤ h) {r : Option Nat} (hx : Exec funs p h r) : r = some h := by
  have hc : chk p 0 = some 0 := by simpa [balanced] using hp
  simpa using exec_sound hok hx h 0 0 rfl hh hc

/-- in particular `need` (`last_mut().unwrap()`) is never reached with an empty stack -/
theorem balanced_no_panic {funs : List ScopeProg} (hok : tableOk funs = true) {p : ScopeProg}
    (hp : balanced p = true) {h : Nat} (hh : 1 ≤ h) : ¬ Exec funs p h none := by
  intro hx
  have := balanced_exec hok hp hh hx
  simp at this

end MJ.Scopes
