import MJ.Proofs.LexerBasic
/-! The text side of one tokenizer round: what `tokenize_root` emits in front of a start marker is
the text minus the cuts the rules name (`leadOf_eq_cut`), and what is skipped after a tag is the
left cut. -/
namespace MJ.Lexer

theorem cut_split {t b u : List Char} (h : t = b ++ u) (l : Nat) : cut l u.length t = b.drop l := by
  subst h
  unfold cut
  by_cases hl : l ≤ b.length
  · rw [List.drop_append_of_le_length hl]
    have : (b ++ u).length - l - u.length = (b.drop l).length := by simp; omega
    rw [this, List.take_left']
    rfl
  · have h1 : (b ++ u).length - l - u.length = 0 := by simp; omega
    rw [h1, List.take_zero, List.drop_eq_nil_of_le (by omega)]

theorem cut_zero_right (l : Nat) (t : List Char) : cut l 0 t = t.drop l := by
  unfold cut
  rw [Nat.sub_zero]
  have : t.length - l = (t.drop l).length := by simp
  rw [this, List.take_length]

theorem trimEnd_drop (t : List Char) (l : Nat) : trimEnd (t.drop l) = cut l (sufCount isWs t) t := by
  obtain ⟨b, u, h⟩ := sufSplit_exists isWs t
  rw [h.sufCount, cut_split h.eq]
  unfold trimEnd
  rw [(h.drop l).rev_dropWhile, List.reverse_reverse]

theorem scanLineStart_hws_prefix {u : List Char} (r : List Char) (hu : ∀ x ∈ u, isHws x = true) :
    scanLineStart (u ++ r) = scanLineStart r := by
  induction u with
  | nil => rfl
  | cons a u ih =>
    have ha := hu a (by simp)
    simp only [List.cons_append, scanLineStart, isHws_not_nl ha, isHws_isWs ha, if_true]
    simpa using ih (fun x hx => hu x (by simp [hx]))

/-- what precedes the current text in the source: nothing (`first`) or something that ends in a
    character that is not whitespace, possibly followed by horizontal whitespace (the end of a tag) -/
def CtxOk (first : Bool) (ctx : List Char) : Prop :=
  (first = true ∧ ctx = []) ∨
    (first = false ∧ ∃ u c r, ctx = u ++ c :: r ∧ (∀ x ∈ u, isHws x = true) ∧ isWs c = false)

theorem not_nl_of_not_ws {c : Char} (h : isWs c = false) : isNl c = false := by
  cases hn : isNl c with
  | false => rfl
  | true => rw [isNl_isWs hn] at h; cases h

/-- what the line-start scans need to know: the context is as `CtxOk` says, or the text itself
    contains a character that is not a blank (so the scans never leave the text) -/
def CtxInv (first : Bool) (ctx t : List Char) : Prop :=
  CtxOk first ctx ∨ ∃ c ∈ t, isHws c = false

theorem scanLineStart_eq_atLineStart {first : Bool} {ctx : List Char} (t : List Char)
    (hc : CtxInv first ctx t) : scanLineStart (t.reverse ++ ctx) = atLineStart first t := by
  obtain ⟨b, u, h⟩ := sufSplit_exists isHws t
  unfold atLineStart
  rw [h.rev_dropWhile]
  have : t.reverse = u.reverse ++ b.reverse := by rw [h.eq, List.reverse_append]
  rw [this, List.append_assoc, scanLineStart_hws_prefix _ (by simpa using h.sat)]
  rcases h.stop with rfl | ⟨b', c, rfl, hcc⟩
  · rcases hc with hc | ⟨c, hct, hch⟩
    · rcases hc with ⟨rfl, rfl⟩ | ⟨rfl, u', c, r, rfl, hu', hw⟩
      · simp [scanLineStart]
      · rw [List.reverse_nil, List.nil_append, scanLineStart_hws_prefix _ hu']
        simp [scanLineStart, hw, not_nl_of_not_ws hw]
    · rw [h.eq, List.nil_append] at hct
      rw [h.sat c hct] at hch; cases hch
  · simp only [List.reverse_append, List.reverse_cons, List.reverse_nil, List.nil_append,
      List.cons_append, scanLineStart]
    cases hn : isNl c with
    | true => simp
    | false =>
      have : isWs c = false := by
        simp only [isHws, hn, Bool.not_false, Bool.and_true] at hcc; exact hcc
      simp [this]

def isSt (c : Char) : Bool := c = ' ' || c = '\t'

theorem isSt_isHws {c : Char} (h : isSt c = true) : isHws c = true := by
  simp only [isSt, Bool.or_eq_true, decide_eq_true_eq] at h
  rcases h with rfl | rfl <;> decide

theorem dropWhile_st_prefix {u : List Char} (r : List Char) (hu : ∀ x ∈ u, isSt x = true) :
    (u ++ r).dropWhile isSt = r.dropWhile isSt := by
  induction u with
  | nil => rfl
  | cons a u ih =>
    simp only [List.cons_append, List.dropWhile_cons, hu a (by simp), if_true]
    exact ih (fun x hx => hu x (by simp [hx]))

/-- the line-start test of `find_start_marker` (spaces and tabs only) in terms of the text -/
theorem lineStartP_eq {first : Bool} {ctx : List Char} (t : List Char) (hc : CtxInv first ctx t) :
    lineStartP (t.reverse ++ ctx) = lineStartText first t := by
  obtain ⟨b, u, h⟩ := sufSplit_exists isSt t
  have e1 : lineStartP (t.reverse ++ ctx) = (match (t.reverse ++ ctx).dropWhile isSt with
      | [] => true
      | c :: _ => isNl c) := rfl
  have e2 : lineStartText first t = (match t.reverse.dropWhile isSt with
      | [] => first
      | c :: _ => isNl c) := rfl
  rw [e1, e2, h.rev_dropWhile]
  have : t.reverse = u.reverse ++ b.reverse := by rw [h.eq, List.reverse_append]
  rw [this, List.append_assoc, dropWhile_st_prefix _ (by simpa using h.sat)]
  rcases h.stop with rfl | ⟨b', c, rfl, hcc⟩
  · rcases hc with hc | ⟨c, hct, hch⟩
    · rcases hc with ⟨rfl, rfl⟩ | ⟨rfl, u', c, r, rfl, hu', hw⟩
      · simp
      · have hst : isSt c = false := by
          cases hs : isSt c with
          | false => rfl
          | true => rw [isHws_isWs (isSt_isHws hs)] at hw; cases hw
        -- the scan over spaces and tabs stops inside the blanks (at a blank that is neither) or at `c`
        have key : ∀ (v : List Char), (∀ x ∈ v, isHws x = true) →
            (match (v ++ c :: r).dropWhile isSt with
              | [] => true
              | c :: _ => isNl c) = false := by
          intro v hv
          induction v with
          | nil => simp [List.dropWhile_cons, hst, not_nl_of_not_ws hw]
          | cons a v ih =>
            simp only [List.cons_append, List.dropWhile_cons]
            cases ha : isSt a with
            | true => simpa using ih (fun x hx => hv x (by simp [hx]))
            | false => simp [isHws_not_nl (hv a (by simp))]
        simpa using key u' hu'
    · rw [h.eq, List.nil_append] at hct
      rw [isSt_isHws (h.sat c hct)] at hch; cases hch
  · simp [List.dropWhile_cons, hcc]

theorem lstripBlock_drop_of_lineStart {first : Bool} (t : List Char) (l : Nat)
    (h : atLineStart first t = true) : lstripBlock (t.drop l) = cut l (sufCount isHws t) t := by
  obtain ⟨b, u, hs⟩ := sufSplit_exists isHws t
  rw [hs.sufCount, cut_split hs.eq]
  unfold lstripBlock
  rw [(hs.drop l).rev_dropWhile]
  cases hb : (b.drop l).reverse with
  | nil =>
    have : b.drop l = [] := by simpa using hb
    simp [this]
  | cons c r =>
    simp only []
    have hbl : b.drop l = r.reverse ++ [c] := by
      have := congrArg List.reverse hb
      simpa using this
    -- `c` is the last character of `b`
    have hb2 : b = b.take l ++ r.reverse ++ [c] := by
      have := (List.take_append_drop l b).symm
      rw [hbl] at this
      simpa [List.append_assoc] using this
    unfold atLineStart at h
    rw [hs.rev_dropWhile, hb2] at h
    simp only [List.reverse_append, List.reverse_cons, List.reverse_nil, List.nil_append,
      List.cons_append] at h
    rw [h]
    simp [hbl]

theorem shouldLstrip_eq (cfg : Cfg) {first : Bool} {ctx : List Char} (t : List Char) (hc : CtxInv first ctx t)
    (marker : Marker) (blockish : Bool) (hm : (marker != .var) = blockish)
    (hm1 : marker ≠ .lineStmt) (hm2 : marker ≠ .lineComment) :
    shouldLstrip cfg.lstrip marker (t.reverse ++ ctx) = (blockish && cfg.lstrip && atLineStart first t) := by
  unfold shouldLstrip
  rw [scanLineStart_eq_atLineStart t hc]
  have h1 : (marker == Marker.lineStmt) = false := by simpa using hm1
  have h2 : (marker == Marker.lineComment) = false := by simpa using hm2
  rw [h1, h2, hm]
  cases cfg.lstrip <;> cases blockish <;> simp

theorem leadOf_eq_cut (cfg : Cfg) {first : Bool} {ctx : List Char} (t : List Char) (hc : CtxInv first ctx t)
    (m : Mark) (marker : Marker) (blockish : Bool) (hm : (marker != .var) = blockish)
    (hm1 : marker ≠ .lineStmt) (hm2 : marker ≠ .lineComment) (l : Nat) :
    leadOf cfg m.ws marker (t.reverse ++ ctx) (t.drop l) = cut l (rightCut cfg first blockish m t) t := by
  cases m with
  | minus => simp [leadOf, Mark.ws, rightCut, trimEnd_drop]
  | plus => simp [leadOf, Mark.ws, rightCut, cut_zero_right]
  | none =>
    simp only [leadOf, Mark.ws, rightCut]
    rw [shouldLstrip_eq cfg t hc marker blockish hm hm1 hm2]
    cases hcond : (blockish && cfg.lstrip && atLineStart first t) with
    | true =>
      simp only [Bool.and_eq_true] at hcond
      simp [lstripBlock_drop_of_lineStart t l hcond.2]
    | false => simp [cut_zero_right]

/-- in front of a line statement / line comment `lstrip_blocks` applies whatever the setting -/
theorem leadOf_line_eq_cut (cfg : Cfg) {first : Bool} {ctx : List Char} (t : List Char) (hc : CtxInv first ctx t)
    (marker : Marker) (hm : marker = .lineStmt ∨ marker = .lineComment) (l : Nat) :
    leadOf cfg .dflt marker (t.reverse ++ ctx) (t.drop l) =
      cut l (rightCut { cfg with trim := true, lstrip := true } first true .none t) t := by
  have h1 : shouldLstrip cfg.lstrip marker (t.reverse ++ ctx) = atLineStart first t := by
    unfold shouldLstrip
    rw [scanLineStart_eq_atLineStart t hc]
    rcases hm with rfl | rfl <;> simp
  simp only [leadOf, rightCut, h1, Bool.true_and]
  cases ha : atLineStart first t with
  | true => simp [lstripBlock_drop_of_lineStart t l ha]
  | false => simp [cut_zero_right]

end MJ.Lexer
