import MJ.Model.SubKinds
import MJ.Proofs.SubGlue
/-!
# Helper lemmas for the C09 theorems about conversion sites, strings at the level of bytes,
repetitions, reversed views and one-shot iterators (`MJ/Model/SubKinds.lean`)
-/
namespace MJ.Sub
open MJ Chk Slice

/-! ### conversion sites -/

/-- a value `primitive_int_try_from!` has an arm for, holding the integer `x`: a boolean (`x` is
    0 or 1), an integer of any of the four representations, or an integral float below `2^63` -/
def HoldsInt {α : Type} (v : Val α) (x : Int) : Prop :=
  MJ.Gen.c09IntTryFromArms.contains v.repr = true ∧ v.payload = some x ∧ v.WF

theorem tryInt_of_holds {α : Type} (lo hi : Int) (v : Val α) (x : Int) (h : HoldsInt v x) :
    tryInt lo hi v = if lo ≤ x ∧ x ≤ hi then some x else Option.none := by
  obtain ⟨h1, h2, _⟩ := h
  simp only [tryInt, h1, h2, if_true]

theorem sliceBound_of_holds {α : Type} (v : Val α) (x : Int) (h : HoldsInt v x) : sliceBound v = .ok (clampI64 x) := by
  obtain ⟨h1, h2, wf⟩ := h
  cases v with
  | bool b => exact sliceBound_pyInt _ x (by simpa [Val.payload, pyInt] using h2) wf
  | num n =>
    cases n with
    | f64 b =>
      have hr := f64ToI64_range b x h2
      have hrow : clampRow (Val.num (.f64 b) : Val α) MJ.Gen.c09SliceBoundClamp = Option.none := rfl
      simp only [Val.payload] at h2
      unfold sliceBound
      rw [hrow]
      simp only [valI64, tryInt, h1, if_true, Val.payload, h2, hr, and_self, clampI64_id x hr]
    | i64 y => exact sliceBound_pyInt _ x (by simpa [Val.payload, pyInt] using h2) wf
    | u64 y => exact sliceBound_pyInt _ x (by simpa [Val.payload, pyInt] using h2) wf
    | i128 y => exact sliceBound_pyInt _ x (by simpa [Val.payload, pyInt] using h2) wf
    | u128 y => exact sliceBound_pyInt _ x (by simpa [Val.payload, pyInt] using h2) wf
  | _ => simp [Val.payload] at h2

/-- every conversion a site performs is a function of the integer held and the kind name -/
theorem convBy_of_holds {α : Type} (fn target : String) (v : Val α) (x : Int) (h : HoldsInt v x) :
    convBy fn target v = convSpec fn target x v.kindDisplay := by
  unfold convBy convSpec
  by_cases h1 : fn = "slice_bound"
  · simp only [h1, if_true, sliceBound_of_holds v x h]
    rfl
  · simp only [h1, if_false]
    by_cases h2 : fn = "as_i64+isize"
    · simp only [h2, if_true, valI64, tryInt_of_holds _ _ v x h]
      by_cases hr : i64Min ≤ x ∧ x ≤ i64Max
      · simp only [hr, and_self, if_true]
      · simp only [hr, if_false]
    · simp only [h2, if_false]
      by_cases h3 : fn = "as_usize"
      · simp only [h3, if_true, valUsize, tryInt_of_holds _ _ v x h]
        by_cases hr : 0 ≤ x ∧ x ≤ usizeMax
        · simp only [hr, and_self, if_true, Option.map_some]
          congr 2; omega
        · simp only [hr, if_false, Option.map_none]
      · simp only [h3, if_false]
        by_cases h4 : fn = "try_from"
        · simp only [h4, if_true]
          cases intTypeRange target with
          | none => rfl
          | some p =>
            obtain ⟨lo, hi⟩ := p
            simp only [tryInt_of_holds _ _ v x h, convErrT]
            by_cases hr : lo ≤ x ∧ x ≤ hi
            · simp only [hr, and_self, if_true]
            · simp only [hr, if_false]
        · simp only [h4, if_false]

theorem kind_num {α : Type} (n : N) : (Val.num n : Val α).kindDisplay = "number" := by
  cases n <;> (simp only [Val.kindDisplay, Val.repr]; decide)

theorem holds_bool {α : Type} (b : Bool) : HoldsInt (Val.bool b : Val α) (if b then 1 else 0) :=
  ⟨by simp only [Val.repr]; decide, rfl, trivial⟩

theorem holds_i64 {α : Type} (x : Int) (h : i64Min ≤ x ∧ x ≤ i64Max) : HoldsInt (Val.num (.i64 x) : Val α) x :=
  ⟨by simp only [Val.repr]; decide, rfl, h⟩

theorem tryInt_none {α : Type} (lo hi : Int) (v : Val α)
    (h : MJ.Gen.c09IntTryFromArms.contains v.repr = false ∨ v.payload = Option.none) : tryInt lo hi v = Option.none := by
  unfold tryInt
  rcases h with h | h
  · simp only [h]; rfl
  · simp only [h]; split <;> rfl

theorem clampRow_none_of_no_int {α : Type} (v : Val α)
    (h : MJ.Gen.c09IntTryFromArms.contains v.repr = false ∨ v.payload = Option.none) :
    clampRow v MJ.Gen.c09SliceBoundClamp = Option.none := by
  cases v with
  | num n =>
    cases n with
    | f64 b => rfl
    | i64 x =>
      rcases h with h | h
      · simp only [Val.repr] at h; exact absurd h (by decide)
      · simp [Val.payload] at h
    | u64 x =>
      rcases h with h | h
      · simp only [Val.repr] at h; exact absurd h (by decide)
      · simp [Val.payload] at h
    | i128 x =>
      rcases h with h | h
      · simp only [Val.repr] at h; exact absurd h (by decide)
      · simp [Val.payload] at h
    | u128 x =>
      rcases h with h | h
      · simp only [Val.repr] at h; exact absurd h (by decide)
      · simp [Val.payload] at h
  | str r bs => cases r <;> rfl
  | _ => rfl

/-! ### strings at the level of bytes -/

theorem charBytesAt_encode (cs : List Char) (i : Nat) (h : i < cs.length) :
    charBytesAt (encode cs) i = String.utf8EncodeChar cs[i] := by
  obtain ⟨h1, _, h3⟩ := cursor_on_boundaries cs i h
  unfold charBytesAt
  rw [h1, List.getElem?_eq_getElem h]
  simp only [Option.map_some]
  rw [h3, List.drop_eq_getElem_cons h, encode_cons, ← String.length_utf8EncodeChar]
  simp

theorem encode_pick (cs : List Char) (idxs : List Nat) (hb : ∀ i ∈ idxs, i < cs.length) :
    encode (pick cs idxs) = strSliceBytes (encode cs) idxs := by
  induction idxs with
  | nil => rfl
  | cons i t ih =>
    have hi : i < cs.length := hb i (by simp)
    have ht : ∀ k ∈ t, k < cs.length := fun k hk => hb k (by simp [hk])
    simp only [pick, List.filterMap_cons, List.getElem?_eq_getElem hi, strSliceBytes, List.flatMap_cons]
    rw [encode_cons, charBytesAt_encode cs i hi]
    congr 1
    exact ih ht

/-! ### repetitions -/

theorem repIter_eq {α : Type} (n : Nat) (xs : List α) : repIter n xs = (List.replicate n xs).flatten := by
  unfold repIter
  induction n with
  | zero => rfl
  | succ k ih =>
    rw [List.range_succ, List.flatMap_append, ih, List.replicate_succ']
    simp

theorem repIter_length {α : Type} (n : Nat) (xs : List α) : (repIter n xs).length = n * xs.length := by
  rw [repIter_eq]; simp

theorem repIter_mul {α : Type} (a b : Nat) (xs : List α) : repIter (a * b) xs = repIter b (repIter a xs) := by
  simp only [repIter_eq]
  induction b with
  | zero => simp
  | succ k ih =>
    rw [Nat.mul_succ, ← List.replicate_append_replicate, List.flatten_append, ih, List.replicate_succ']
    simp

theorem repIter_nil {α : Type} (n : Nat) : repIter n ([] : List α) = [] := by
  rw [repIter_eq]; simp

theorem repIter_zero {α : Type} (xs : List α) : repIter 0 xs = [] := rfl

/-! ### reversed views -/

/-- Python's `reversed(s)`, as the engine types it: a string stays a string, bytes stay bytes,
    every other sequence becomes a (lazy) list -/
def PySeq.reversed {α : Type} : PySeq α → PySeq α
  | .str cs => .str cs.reverse
  | .bytes bs => .bytes bs.reverse
  | .tuple xs => .list xs.reverse
  | .list xs => .list xs.reverse

/-- the items of a Python sequence as the engine hands them out one by one -/
def PySeq.items {α : Type} : PySeq α → List (Item α)
  | .str cs => cs.map Item.chr
  | .bytes bs => bs.map Item.byte
  | .tuple xs => xs.map Item.elem
  | .list xs => xs.map Item.elem

theorem pick_indices_rev {α : Type} (xs : List α) :
    pick xs (PySlice.indices xs.length none none (-1)) = xs.reverse := by
  rw [indices_rev]
  apply List.ext_getElem?
  intro j
  rw [pick_getElem? xs _ (by
    intro i hi
    simp only [List.mem_map, List.mem_range] at hi
    obtain ⟨k, hk, rfl⟩ := hi
    omega)]
  by_cases hj : j < xs.length
  · rw [List.getElem?_map, List.getElem?_range hj]
    simp only [Option.map_some, Option.bind_some]
    rw [List.getElem?_reverse hj]
  · rw [List.getElem?_eq_none (by simpa using hj), List.getElem?_eq_none (by simpa using hj)]
    rfl

/-! ### one-shot iterators -/

theorem stepBy_sublist {α : Type} (k : Nat) (l : List α) : (stepBy k l).Sublist l := by
  fun_induction stepBy k l with
  | case1 => exact List.Sublist.refl _
  | case2 x xs ih => exact List.Sublist.cons_cons x (ih.trans (List.drop_sublist _ _))

/-! ### flattening of nested chains -/

theorem itemsList_append {α : Type} (as bs : List (MTree α)) : itemsList (as ++ bs) = itemsList as ++ itemsList bs := by
  induction as with
  | nil => simp [itemsList]
  | cons a t ih => simp [itemsList, ih]

theorem sizeList_append {α : Type} (as bs : List (MTree α)) : sizeList (as ++ bs) = sizeList as + sizeList bs := by
  induction as with
  | nil => simp [sizeList]
  | cons a t ih => simp [sizeList, ih]; omega

theorem sizeList_reverse {α : Type} (as : List (MTree α)) : sizeList as.reverse = sizeList as := by
  induction as with
  | nil => rfl
  | cons a t ih => simp [sizeList_append, sizeList, ih]; omega

theorem size_pos {α : Type} (t : MTree α) : 0 < t.size := by
  cases t <;> simp [MTree.size] <;> omega

/-- the loop appends the items of the pending stack, read from its top, in iteration order -/
theorem flattenLoop_items {α : Type} : ∀ (fuel : Nat) (pending values : List (MTree α)), sizeList pending ≤ fuel →
    itemsList (flattenLoop fuel pending values) = itemsList values ++ itemsList pending.reverse ∧
    (∀ t ∈ flattenLoop fuel pending values, t ∈ values ∨ ∃ xs, t = .leaf xs) := by
  intro fuel
  induction fuel with
  | zero =>
    intro pending values h
    have : pending = [] := by
      cases pending with
      | nil => rfl
      | cons a t => have := size_pos a; simp [sizeList] at h; omega
    subst this
    exact ⟨by simp [flattenLoop, itemsList], fun t ht => Or.inl (by simpa [flattenLoop] using ht)⟩
  | succ f ih =>
    intro pending values h
    rcases List.eq_nil_or_concat pending with rfl | ⟨S, top, rfl⟩
    · exact ⟨by simp [flattenLoop, itemsList], fun t ht => Or.inl (by simpa [flattenLoop] using ht)⟩
    · rw [List.concat_eq_append] at h ⊢
      simp only [flattenLoop, List.getLast?_append, List.getLast?_singleton, Option.some_or, List.dropLast_concat]
      rw [sizeList_append] at h
      simp only [sizeList, Nat.add_zero] at h
      cases top with
      | leaf xs =>
        simp only [MTree.size] at h
        obtain ⟨h1, h2⟩ := ih S (values ++ [.leaf xs]) (by omega)
        refine ⟨?_, ?_⟩
        · rw [h1, itemsList_append, List.reverse_append]
          simp [itemsList, MTree.items, List.append_assoc]
        · intro t ht
          rcases h2 t ht with h | h
          · rcases List.mem_append.mp h with h | h
            · exact Or.inl h
            · simp at h; exact Or.inr ⟨xs, h⟩
          · exact Or.inr h
      | node ts =>
        simp only [MTree.size] at h
        obtain ⟨h1, h2⟩ := ih (S ++ ts.reverse) values (by rw [sizeList_append, sizeList_reverse]; omega)
        refine ⟨?_, h2⟩
        rw [h1, List.reverse_append, List.reverse_reverse, List.reverse_append, itemsList_append]
        simp [itemsList, MTree.items, itemsList_append]


end MJ.Sub
