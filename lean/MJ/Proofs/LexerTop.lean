import MJ.Proofs.LexerMain
/-! Rule 1 (`Tokenizer::new`) on segment lists, monotonicity of delimiter-freeness, and the
top-level statement about `lex`. -/
namespace MJ.Lexer

/-! ### the trailing line break -/

theorem dropLastIf_prefix (c : Char) (s : List Char) : ∃ z, s = dropLastIf c s ++ z := by
  unfold dropLastIf
  split
  · cases h : s.getLast? with
    | none => simp_all
    | some x =>
      have hne : s ≠ [] := by rintro rfl; simp at h
      exact ⟨[s.getLast hne], (List.dropLast_concat_getLast hne).symm⟩
  · exact ⟨[], by simp⟩

theorem stripTrailingNl_prefix (s : List Char) : ∃ z, s = stripTrailingNl s ++ z := by
  unfold stripTrailingNl
  obtain ⟨z1, h1⟩ := dropLastIf_prefix '\n' s
  obtain ⟨z2, h2⟩ := dropLastIf_prefix '\r' (dropLastIf '\n' s)
  exact ⟨z2 ++ z1, by rw [← List.append_assoc, ← h2, ← h1]⟩

theorem dropLastIf_append {c : Char} (p s : List Char) (hp : ∃ x r, p.reverse = x :: r ∧ x ≠ c) :
    dropLastIf c (p ++ s) = p ++ dropLastIf c s := by
  obtain ⟨x, r, hr, hx⟩ := hp
  have hpe : p = r.reverse ++ [x] := by
    have := congrArg List.reverse hr; simpa using this
  unfold dropLastIf
  cases s with
  | nil =>
    have : (p ++ []).getLast? = some x := by rw [hpe]; simp
    rw [this]
    simp [hx]
  | cons a s =>
    have h1 : (p ++ a :: s).getLast? = (a :: s).getLast? := by
      rw [List.getLast?_append, List.getLast?_eq_some_getLast (l := a :: s) (by simp)]; rfl
    rw [h1]
    split
    · rw [List.dropLast_append_of_ne_nil (by simp)]
    · rfl

theorem stripTrailingNl_append (p s : List Char) (hp : ∃ x r, p.reverse = x :: r ∧ isWs x = false) :
    stripTrailingNl (p ++ s) = p ++ stripTrailingNl s := by
  obtain ⟨x, r, hr, hx⟩ := hp
  have h1 : x ≠ '\n' := by rintro rfl; revert hx; decide
  have h2 : x ≠ '\r' := by rintro rfl; revert hx; decide
  unfold stripTrailingNl
  rw [dropLastIf_append p s ⟨x, r, hr, h1⟩, dropLastIf_append p _ ⟨x, r, hr, h2⟩]

/-- the source of a non-empty tail ends in its last text, preceded by something that ends in a tag -/
theorem unparseTail_last {d : Delims} (gd : Good d) (tl : List (Tag × List Char)) (hne : tl ≠ []) :
    ∃ p tlast, (∀ f : List Char → List Char, unparseTail d (mapLastText f tl) = p ++ f tlast) ∧
      unparseTail d tl = p ++ tlast ∧ ∃ x r, p.reverse = x :: r ∧ isWs x = false := by
  induction tl with
  | nil => exact absurd rfl hne
  | cons a tl ih =>
    obtain ⟨g, t⟩ := a
    cases tl with
    | nil =>
      obtain ⟨x, r, hr, hx⟩ := Tag.src_rev_head gd g
      exact ⟨g.src d, t, by intro f; simp [mapLastText, unparseTail], by simp [unparseTail], x, r, hr, hx⟩
    | cons b tl =>
      obtain ⟨p, tlast, h1, h2, x, r, hr, hx⟩ := ih (by simp)
      refine ⟨g.src d ++ (t ++ p), tlast, ?_, ?_, x, r ++ (t.reverse ++ (g.src d).reverse), ?_, hx⟩
      · intro f
        simp only [mapLastText, unparseTail] at h1 ⊢
        rw [h1 f]; simp [List.append_assoc]
      · simp only [unparseTail] at h2 ⊢
        rw [h2]; simp [List.append_assoc]
      · simp [List.reverse_append, hr]

theorem prepare_unparse (cfg : Cfg) {d : Delims} (gd : Good d) (tm : Tmpl) :
    prepare cfg (unparse d tm) = unparse d (if cfg.keep then tm else stripFinal tm) := by
  unfold prepare
  cases cfg.keep with
  | true => rfl
  | false =>
    simp only [Bool.false_eq_true, if_false]
    obtain ⟨head, tail⟩ := tm
    cases tail with
    | nil => simp [unparse, stripFinal, unparseTail]
    | cons a tl =>
      obtain ⟨p, tlast, h1, h2, hp⟩ := unparseTail_last gd (a :: tl) (by simp)
      simp only [unparse, stripFinal]
      rw [h1 stripTrailingNl, h2, ← List.append_assoc, ← List.append_assoc]
      apply stripTrailingNl_append
      obtain ⟨x, r, hr, hx⟩ := hp
      exact ⟨x, r ++ head.reverse, by simp [List.reverse_append, hr], hx⟩

/-! ### delimiter-freeness is kept when the source loses a suffix -/

theorem startsWith_mono {p x : List Char} (z : List Char) (h : startsWith p x = true) :
    startsWith p (x ++ z) = true := by
  obtain ⟨r, rfl⟩ := (startsWith_iff p x).1 h
  rw [List.append_assoc]; exact startsWith_append_self _ _

theorem startsWith_false_of_append {p x : List Char} (z : List Char) (h : startsWith p (x ++ z) = false) :
    startsWith p x = false := by
  cases hx : startsWith p x with
  | false => rfl
  | true => rw [startsWith_mono z hx] at h; cases h

theorem anyStart_false_of_append {d : Delims} {x : List Char} (z : List Char) (h : anyStart d (x ++ z) = false) :
    anyStart d x = false := by
  simp only [anyStart, Bool.or_eq_false_iff, Bool.and_eq_false_iff] at h ⊢
  obtain ⟨⟨⟨⟨h1, h2⟩, h3⟩, h4⟩, h5⟩ := h
  refine ⟨⟨⟨⟨startsWith_false_of_append z h1, startsWith_false_of_append z h2⟩,
    startsWith_false_of_append z h3⟩, ?_⟩, ?_⟩
  · rcases h4 with h4 | h4
    · exact Or.inl h4
    · exact Or.inr (startsWith_false_of_append z h4)
  · rcases h5 with h5 | h5
    · exact Or.inl h5
    · exact Or.inr (startsWith_false_of_append z h5)

theorem noStartIn_mono {d : Delims} (t f z : List Char) (h : noStartIn d t (f ++ z) = true) :
    noStartIn d t f = true := by
  induction t with
  | nil => rfl
  | cons a t ih =>
    simp only [noStartIn, Bool.and_eq_true, Bool.not_eq_true'] at h ⊢
    refine ⟨?_, ih h.2⟩
    apply anyStart_false_of_append z
    simpa [List.append_assoc] using h.1

theorem noStartIn_append {d : Delims} (a b f : List Char) :
    noStartIn d (a ++ b) f = (noStartIn d a (b ++ f) && noStartIn d b f) := by
  induction a with
  | nil => simp [noStartIn]
  | cons x a ih => simp [noStartIn, ih, List.append_assoc, Bool.and_assoc]

theorem ownLongest_mono {d : Delims} (own f z : List Char) (h : ownLongest d own (f ++ z) = true) :
    ownLongest d own f = true := by
  simp only [ownLongest, Bool.and_eq_true, Bool.or_eq_true, Bool.not_eq_true', decide_eq_true_eq] at h ⊢
  obtain ⟨⟨⟨⟨h1, h2⟩, h3⟩, h4⟩, h5⟩ := h
  refine ⟨⟨⟨⟨?_, ?_⟩, ?_⟩, ?_⟩, ?_⟩
  · rcases h1 with h | h
    · exact Or.inl (startsWith_false_of_append z h)
    · exact Or.inr h
  · rcases h2 with h | h
    · exact Or.inl (startsWith_false_of_append z h)
    · exact Or.inr h
  · rcases h3 with h | h
    · exact Or.inl (startsWith_false_of_append z h)
    · exact Or.inr h
  · rcases h4 with h | h
    · exact Or.inl h
    · exact Or.inr (startsWith_false_of_append z h)
  · rcases h5 with h | h
    · exact Or.inl h
    · exact Or.inr (startsWith_false_of_append z h)

theorem noBsIn_mono {d : Delims} (c f z : List Char) (h : noBsIn d c (f ++ z) = true) :
    noBsIn d c f = true := by
  induction c with
  | nil => rfl
  | cons a c ih =>
    simp only [noBsIn, Bool.and_eq_true, Bool.not_eq_true'] at h ⊢
    refine ⟨?_, ih h.2⟩
    apply startsWith_false_of_append z
    simpa [List.append_assoc] using h.1

theorem rawFree_mono {d : Delims} (g : Tag) (f z : List Char) (h : rawFree d g (f ++ z) = true) :
    rawFree d g f = true := by
  cases g with
  | mk kind l r =>
    cases kind with
    | raw c ri l2 tight =>
      simp only [rawFree] at h ⊢
      apply noBsIn_mono c _ z
      simpa [List.append_assoc] using h
    | var tight => rfl
    | block w tight => rfl
    | comment body => rfl

theorem noPatIn_mono (pat c f z : List Char) (h : noPatIn pat c (f ++ z) = true) :
    noPatIn pat c f = true := by
  induction c with
  | nil => rfl
  | cons a c ih =>
    simp only [noPatIn, Bool.and_eq_true, Bool.not_eq_true'] at h ⊢
    refine ⟨?_, ih h.2⟩
    apply startsWith_false_of_append z
    simpa [List.append_assoc] using h.1

theorem commentOk_mono {d : Delims} (g : Tag) (f z : List Char) (h : commentOk d g (f ++ z) = true) :
    commentOk d g f = true := by
  cases g with
  | mk kind l r =>
    cases kind with
    | comment body =>
      simp only [commentOk, Bool.and_eq_true] at h ⊢
      refine ⟨⟨?_, h.1.2⟩, h.2⟩
      apply noPatIn_mono d.ce _ _ z
      simpa [List.append_assoc] using h.1.1
    | var tight => rfl
    | block w tight => rfl
    | raw c ri l2 tight => rfl

/-- shortening the last text to a prefix keeps the template delimiter-free -/
theorem tailFree_mapLast {d : Delims} (f : List Char → List Char) (hf : ∀ s, ∃ z, s = f s ++ z)
    (tl : List (Tag × List Char)) :
    ∀ t, tailFree d t tl = true →
      tailFree d t (mapLastText f tl) = true ∧ ∃ z, unparseTail d tl = unparseTail d (mapLastText f tl) ++ z := by
  induction tl with
  | nil => intro t h; exact ⟨h, [], rfl⟩
  | cons a tl ih =>
    obtain ⟨g, t'⟩ := a
    intro t h
    cases tl with
    | nil =>
      obtain ⟨z, hz⟩ := hf t'
      simp only [tailFree, Bool.and_eq_true, mapLastText, unparseTail, List.append_nil] at h ⊢
      obtain ⟨⟨⟨⟨h1, h2⟩, h3⟩, hc⟩, h4⟩ := h
      have e1 : g.src d ++ t' = (g.src d ++ f t') ++ z := by rw [List.append_assoc, ← hz]
      rw [e1] at h1 h2
      rw [hz] at h3 hc h4
      rw [noStartIn_append] at h4
      simp only [Bool.and_eq_true, List.append_nil] at h4
      exact ⟨⟨⟨⟨⟨noStartIn_mono _ _ z h1, ownLongest_mono _ _ z h2⟩, rawFree_mono g _ z h3⟩,
        commentOk_mono g _ z hc⟩, noStartIn_mono _ [] z (by simpa using h4.1)⟩, z, e1⟩
    | cons b tl =>
      have h' : noStartIn d t (unparseTail d ((g, t') :: b :: tl)) = true ∧
          ownLongest d (g.start d) (unparseTail d ((g, t') :: b :: tl)) = true ∧
          rawFree d g (t' ++ unparseTail d (b :: tl)) = true ∧
          commentOk d g (t' ++ unparseTail d (b :: tl)) = true ∧ tailFree d t' (b :: tl) = true := by
        have := h
        rw [tailFree] at this
        simp only [Bool.and_eq_true] at this
        exact ⟨this.1.1.1.1, this.1.1.1.2, this.1.1.2, this.1.2, this.2⟩
      obtain ⟨h1, h2, h3, hc, h4⟩ := h'
      obtain ⟨ih1, z, hz⟩ := ih t' h4
      have e1 : unparseTail d ((g, t') :: b :: tl) =
          unparseTail d ((g, t') :: mapLastText f (b :: tl)) ++ z := by
        simp only [unparseTail] at hz ⊢
        rw [hz]; simp [List.append_assoc]
      have e2 : t' ++ unparseTail d (b :: tl) = (t' ++ unparseTail d (mapLastText f (b :: tl))) ++ z := by
        rw [hz]; simp [List.append_assoc]
      rw [e1] at h1 h2
      rw [e2] at h3 hc
      refine ⟨?_, z, ?_⟩
      · show tailFree d t ((g, t') :: mapLastText f (b :: tl)) = true
        rw [tailFree]
        simp only [Bool.and_eq_true]
        exact ⟨⟨⟨⟨noStartIn_mono _ _ z h1, ownLongest_mono _ _ z h2⟩, rawFree_mono g _ z h3⟩,
          commentOk_mono g _ z hc⟩, ih1⟩
      · exact e1

theorem delimFree_stripFinal {d : Delims} (tm : Tmpl) (h : delimFree d tm = true) :
    delimFree d (stripFinal tm) = true := by
  obtain ⟨head, tail⟩ := tm
  unfold delimFree at h ⊢
  cases tail with
  | nil =>
    simp only [stripFinal, tailFree] at h ⊢
    obtain ⟨z, hz⟩ := stripTrailingNl_prefix head
    rw [hz, noStartIn_append] at h
    simp only [Bool.and_eq_true, List.append_nil] at h
    exact noStartIn_mono _ [] z (by simpa using h.1)
  | cons a tl =>
    exact (tailFree_mapLast stripTrailingNl stripTrailingNl_prefix (a :: tl) head h).1

/-! ### the whole tokenizer -/

theorem lex_spec (cfg : Cfg) (vm bm : List Char) {d : Delims} (gd : Good d) (tm : Tmpl)
    (hfree : delimFree d tm = true) :
    renderRes vm bm (lex cfg d (findLL d) (unparse d tm)) = some (specRender cfg vm bm tm) := by
  unfold lex specRender
  simp only []
  rw [prepare_unparse cfg gd tm]
  generalize htm : (if cfg.keep = true then tm else stripFinal tm) = tm'
  have hfree' : delimFree d tm' = true := by
    rw [← htm]; split
    · exact hfree
    · exact delimFree_stripFinal tm hfree
  have := lexGo_spec cfg vm bm gd tm'.tail tm'.head true [] 0 false ((unparse d tm').length + 1)
    (Or.inl ⟨rfl, rfl⟩) hfree' (Nat.zero_le _) (by simp) (by simp [unparse])
  simpa [unparse] using this

end MJ.Lexer
