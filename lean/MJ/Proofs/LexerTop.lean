import MJ.Proofs.LexerMain
/-! Rule 1 (`Tokenizer::new`) on segment lists, monotonicity of delimiter-freeness, and the
top-level statement about `lex`. -/
namespace MJ.Lexer

/-! ### the trailing line break -/

theorem dropLastIf_prefix (c : Char) (s : List Char) : ∃ z, s = dropLastIf c s ++ z := by
  unfold dropLastIf
  split
  · cases h : s.getLast? with
    | none => simp_all
    | some x =>
      have hne : s ≠ [] := by rintro rfl; simp at h
      exact ⟨[s.getLast hne], (List.dropLast_concat_getLast hne).symm⟩
  · exact ⟨[], by simp⟩

theorem stripTrailingNl_prefix (s : List Char) : ∃ z, s = stripTrailingNl s ++ z := by
  unfold stripTrailingNl
  obtain ⟨z1, h1⟩ := dropLastIf_prefix '\n' s
  obtain ⟨z2, h2⟩ := dropLastIf_prefix '\r' (dropLastIf '\n' s)
  exact ⟨z2 ++ z1, by rw [← List.append_assoc, ← h2, ← h1]⟩

theorem dropLastIf_append {c : Char} (p s : List Char) (hp : ∃ x r, p.reverse = x :: r ∧ x ≠ c) :
    dropLastIf c (p ++ s) = p ++ dropLastIf c s := by
  obtain ⟨x, r, hr, hx⟩ := hp
  have hpe : p = r.reverse ++ [x] := by
    have := congrArg List.reverse hr; simpa using this
  unfold dropLastIf
  cases s with
  | nil =>
    have : (p ++ []).getLast? = some x := by rw [hpe]; simp
    rw [this]
    simp [hx]
  | cons a s =>
    have h1 : (p ++ a :: s).getLast? = (a :: s).getLast? := by
      rw [List.getLast?_append, List.getLast?_eq_some_getLast (l := a :: s) (by simp)]; rfl
    rw [h1]
    split
    · rw [List.dropLast_append_of_ne_nil (by simp)]
    · rfl

theorem stripTrailingNl_append (p s : List Char) (hp : ∃ x r, p.reverse = x :: r ∧ isNl x = false) :
    stripTrailingNl (p ++ s) = p ++ stripTrailingNl s := by
  obtain ⟨x, r, hr, hx⟩ := hp
  have h1 : x ≠ '\n' := by rintro rfl; revert hx; decide
  have h2 : x ≠ '\r' := by rintro rfl; revert hx; decide
  unfold stripTrailingNl
  rw [dropLastIf_append p s ⟨x, r, hr, h1⟩, dropLastIf_append p _ ⟨x, r, hr, h2⟩]

theorem endNotNl_rev {p : List Char} (h : endNotNl p = true) : ∃ x r, p.reverse = x :: r ∧ isNl x = false := by
  unfold endNotNl at h
  cases hr : p.reverse with
  | nil => simp [hr] at h
  | cons c r => exact ⟨c, r, rfl, by simpa [hr] using h⟩

theorem identCont_not_nl {c : Char} (h : isIdentCont c = true) : isNl c = false := by
  cases hn : isNl c with
  | false => rfl
  | true =>
    simp only [isNl, Bool.or_eq_true, decide_eq_true_eq] at hn
    rcases hn with rfl | rfl <;> revert h <;> decide

/-- a token that is not blank ends in a character that is not a line break -/
theorem tok_last_not_nl {t : Tok} (hwf : t.wf = true) (hws : t.isWs = false) :
    ∃ x r, t.src.reverse = x :: r ∧ isNl x = false := by
  cases t with
  | ws s => simp [Tok.isWs] at hws
  | ident s =>
    cases s with
    | nil => simp [Tok.wf] at hwf
    | cons c cs =>
      simp only [Tok.wf, Bool.and_eq_true, List.all_eq_true] at hwf
      have hall : ∀ x ∈ c :: cs, isIdentCont x = true := by
        intro x hx
        rcases List.mem_cons.1 hx with rfl | hx
        · exact identStart_identCont hwf.1
        · exact hwf.2 x hx
      cases hr : (c :: cs).reverse with
      | nil => simp at hr
      | cons x r =>
        exact ⟨x, r, by simp [Tok.src, hr], identCont_not_nl (hall x (by
          have : x ∈ (c :: cs).reverse := by rw [hr]; simp
          exact List.mem_reverse.1 this))⟩
  | int ds =>
    simp only [Tok.wf, Bool.and_eq_true, List.all_eq_true, List.isEmpty_eq_false_iff, Bool.not_eq_true',
      List.isEmpty_eq_false_iff] at hwf
    cases hr : ds.reverse with
    | nil =>
      have : ds = [] := by simpa using hr
      simp [this] at hwf
    | cons x r =>
      refine ⟨x, r, by simp [Tok.src, hr], identCont_not_nl (digit_identCont (hwf.1.2 x ?_))⟩
      have : x ∈ ds.reverse := by rw [hr]; simp
      simpa using this
  | str q body =>
    simp only [Tok.wf, Bool.and_eq_true, Bool.or_eq_true, decide_eq_true_eq] at hwf
    refine ⟨q, body.reverse ++ [q], by simp [Tok.src], ?_⟩
    rcases hwf.1 with rfl | rfl <;> decide
  | op c =>
    simp only [Tok.wf, Option.isSome_iff_exists] at hwf
    obtain ⟨dl, hdl⟩ := hwf
    exact ⟨c, [], rfl, isWs_false_not_nl (singleOp_not_isWs hdl)⟩
  | op2 a b =>
    simp only [Tok.wf, twoCharOp, Bool.or_eq_true, Bool.and_eq_true, decide_eq_true_eq] at hwf
    refine ⟨b, [a], rfl, ?_⟩
    rcases hwf with (((((⟨_, rfl⟩ | ⟨_, rfl⟩) | ⟨_, rfl⟩) | ⟨_, rfl⟩) | ⟨_, rfl⟩) | ⟨_, rfl⟩) <;> decide

/-- the interior of a line statement does not end in a line break -/
theorem line_interior_last (ts : List Tok) :
    ∀ (bal : Int) (fol : List Char), lineInteriorOk bal ts fol = true → ts ≠ [] →
      ∃ x r, (srcs ts).reverse = x :: r ∧ isNl x = false := by
  induction ts with
  | nil => intro _ _ _ h; exact absurd rfl h
  | cons t ts ih =>
    intro bal fol h _
    simp only [lineInteriorOk, Bool.and_eq_true] at h
    obtain ⟨⟨⟨hwf, _⟩, hws⟩, hrest⟩ := h
    cases ts with
    | nil =>
      have hnw : t.isWs = false := by
        cases hw : t.isWs with
        | false => rfl
        | true =>
          exfalso
          have hd : t.delta = 0 := by cases t <;> simp_all [Tok.isWs, Tok.delta]
          simp only [lineInteriorOk, hd, Int.add_zero, beq_iff_eq] at hrest
          simp [hw, hrest] at hws
      obtain ⟨x, r, hx, hn⟩ := tok_last_not_nl hwf hnw
      exact ⟨x, r, by simpa [srcs] using hx, hn⟩
    | cons t2 ts2 =>
      obtain ⟨x, r, hx, hn⟩ := ih _ _ hrest (by simp)
      refine ⟨x, r ++ t.src.reverse, ?_, hn⟩
      have : srcs (t :: t2 :: ts2) = t.src ++ srcs (t2 :: ts2) := rfl
      rw [this, List.reverse_append, hx]; rfl

/-- a tag does not end in a line break -/
theorem Tag.src_last_not_nl {d : Delims} (gd : Good d) (g : Tag) (z : List Char) (hok : tagOk d g z = true) :
    ∃ x r, (g.src d).reverse = x :: r ∧ isNl x = false := by
  cases hgl : g.isLine with
  | false =>
    obtain ⟨u, x, r, hx, hu, hw⟩ := Tag.src_rev_head gd g hgl
    cases u with
    | nil => exact ⟨x, r, by simpa using hx, isWs_false_not_nl hw⟩
    | cons a u => exact ⟨a, u ++ x :: r, by simpa using hx, isHws_not_nl (hu a (by simp))⟩
  | true =>
    have hown := g.own z hok
    have hml : g.marker.isLine = true := by
      cases g with | mk kind l r => cases kind <;> simp_all [Tag.marker, Tag.isLine, Marker.isLine]
    obtain ⟨x0, r0, hx0, hn0⟩ := endNotNl_rev (gd.lastNl _ hown hml)
    cases g with
    | mk kind l r =>
      cases kind with
      | lineStmt ts =>
        simp only [tagOk, Bool.and_eq_true] at hok
        cases hts : ts with
        | nil => exact ⟨x0, r0, by simpa [Tag.src, Tag.after, srcs, Tag.start] using hx0, hn0⟩
        | cons t ts' =>
          have := hok.1.2
          rw [hts] at this
          obtain ⟨x, r', hx, hn⟩ := line_interior_last (t :: ts') 0 z this (by simp)
          exact ⟨x, r' ++ (d.ls).reverse, by simp [Tag.src, Tag.after, Tag.start, List.reverse_append, hx], hn⟩
      | lineComment body =>
        simp only [tagOk, Bool.and_eq_true, List.all_eq_true, Bool.not_eq_true'] at hok
        cases hr : body.reverse with
        | nil =>
          have : body = [] := by simpa using hr
          subst this
          exact ⟨x0, r0, by simpa [Tag.src, Tag.after, Tag.start] using hx0, hn0⟩
        | cons x r' =>
          refine ⟨x, r' ++ (d.lc).reverse, by simp [Tag.src, Tag.after, Tag.start, List.reverse_append, hr], ?_⟩
          apply hok.1.1.2 x
          have : x ∈ body.reverse := by rw [hr]; simp
          simpa using this
      | var ts => simp [Tag.isLine] at hgl
      | block ts => simp [Tag.isLine] at hgl
      | comment b => simp [Tag.isLine] at hgl
      | raw c ri l2 tight => simp [Tag.isLine] at hgl

/-- the source of a non-empty tail ends in its last text, preceded by something that ends in a tag -/
theorem unparseTail_last {d : Delims} (gd : Good d) (tl : List (Tag × List Char)) (hne : tl ≠ []) :
    ∀ (first : Bool) (t0 : List Char), tailFree d first t0 tl = true →
    ∃ p tlast, (∀ f : List Char → List Char, unparseTail d (mapLastText f tl) = p ++ f tlast) ∧
      unparseTail d tl = p ++ tlast ∧ ∃ x r, p.reverse = x :: r ∧ isNl x = false := by
  induction tl with
  | nil => exact absurd rfl hne
  | cons a tl ih =>
    obtain ⟨g, t⟩ := a
    intro first t0 hfree
    have hparts : tagOk d g (t ++ unparseTail d tl) = true ∧ tailFree d false t tl = true := by
      simp only [tailFree, Bool.and_eq_true] at hfree; exact ⟨hfree.1.1.2, hfree.2⟩
    cases tl with
    | nil =>
      obtain ⟨x, r, hr, hx⟩ := Tag.src_last_not_nl gd g _ hparts.1
      exact ⟨g.src d, t, by intro f; simp [mapLastText, unparseTail], by simp [unparseTail], x, r, hr, hx⟩
    | cons b tl =>
      obtain ⟨p, tlast, h1, h2, x, r, hr, hx⟩ := ih (by simp) false t hparts.2
      refine ⟨g.src d ++ (t ++ p), tlast, ?_, ?_, x, r ++ (t.reverse ++ (g.src d).reverse), ?_, hx⟩
      · intro f
        simp only [mapLastText, unparseTail] at h1 ⊢
        rw [h1 f]; simp [List.append_assoc]
      · simp only [unparseTail] at h2 ⊢
        rw [h2]; simp [List.append_assoc]
      · simp [List.reverse_append, hr]

theorem prepare_unparse (cfg : Cfg) {d : Delims} (gd : Good d) (tm : Tmpl) (hfree : delimFree d tm = true) :
    prepare cfg (unparse d tm) = unparse d (if cfg.keep then tm else stripFinal tm) := by
  unfold prepare
  cases cfg.keep with
  | true => rfl
  | false =>
    simp only [Bool.false_eq_true, if_false]
    obtain ⟨head, tail⟩ := tm
    cases tail with
    | nil => simp [unparse, stripFinal, unparseTail]
    | cons a tl =>
      obtain ⟨p, tlast, h1, h2, hp⟩ := unparseTail_last gd (a :: tl) (by simp) true head hfree
      simp only [unparse, stripFinal]
      rw [h1 stripTrailingNl, h2, ← List.append_assoc, ← List.append_assoc]
      apply stripTrailingNl_append
      obtain ⟨x, r, hr, hx⟩ := hp
      exact ⟨x, r ++ head.reverse, by simp [List.reverse_append, hr], hx⟩

/-! ### delimiter-freeness is kept when the source loses a suffix -/

theorem startsWith_mono {p x : List Char} (z : List Char) (h : startsWith p x = true) :
    startsWith p (x ++ z) = true := by
  obtain ⟨r, rfl⟩ := (startsWith_iff p x).1 h
  rw [List.append_assoc]; exact startsWith_append_self _ _

theorem startsWith_false_of_append {p x : List Char} (z : List Char) (h : startsWith p (x ++ z) = false) :
    startsWith p x = false := by
  cases hx : startsWith p x with
  | false => rfl
  | true => rw [startsWith_mono z hx] at h; cases h

theorem anyStart_false_of_append {d : Delims} {x : List Char} (z : List Char) (h : anyStart d (x ++ z) = false) :
    anyStart d x = false := by
  simp only [anyStart, List.any_eq_false] at h ⊢
  intro mp hmp
  have := h mp hmp
  simp only [Bool.not_eq_true] at this ⊢
  exact startsWith_false_of_append z this

theorem noStartIn_mono {d : Delims} (t f z : List Char) (h : noStartIn d t (f ++ z) = true) :
    noStartIn d t f = true := by
  induction t with
  | nil => rfl
  | cons a t ih =>
    simp only [noStartIn, Bool.and_eq_true, Bool.not_eq_true'] at h ⊢
    refine ⟨?_, ih h.2⟩
    apply anyStart_false_of_append z
    simpa [List.append_assoc] using h.1

theorem noStartIn_append {d : Delims} (a b f : List Char) :
    noStartIn d (a ++ b) f = (noStartIn d a (b ++ f) && noStartIn d b f) := by
  induction a with
  | nil => simp [noStartIn]
  | cons x a ih => simp [noStartIn, ih, List.append_assoc, Bool.and_assoc]

theorem ownLongest_mono {d : Delims} (own f z : List Char) (h : ownLongest d own (f ++ z) = true) :
    ownLongest d own f = true := by
  simp only [ownLongest, List.all_eq_true, Bool.or_eq_true, Bool.not_eq_true'] at h ⊢
  intro mp hmp
  rcases h mp hmp with (h' | h') | h'
  · exact Or.inl (Or.inl (startsWith_false_of_append z h'))
  · exact Or.inl (Or.inr h')
  · exact Or.inr h'

theorem noBsIn_mono {d : Delims} (c f z : List Char) (h : noBsIn d c (f ++ z) = true) :
    noBsIn d c f = true := by
  induction c with
  | nil => rfl
  | cons a c ih =>
    simp only [noBsIn, Bool.and_eq_true, Bool.not_eq_true'] at h ⊢
    refine ⟨?_, ih h.2⟩
    apply startsWith_false_of_append z
    simpa [List.append_assoc] using h.1

theorem rawFree_mono {d : Delims} (g : Tag) (f z : List Char) (h : rawFree d g (f ++ z) = true) :
    rawFree d g f = true := by
  cases g with
  | mk kind l r =>
    cases kind with
    | raw c ri l2 tight =>
      simp only [rawFree] at h ⊢
      apply noBsIn_mono c _ z
      simpa [List.append_assoc] using h
    | var ts => rfl
    | block ts => rfl
    | comment body => rfl
    | lineStmt ts => rfl
    | lineComment body => rfl

theorem noPatIn_mono (pat c f z : List Char) (h : noPatIn pat c (f ++ z) = true) :
    noPatIn pat c f = true := by
  induction c with
  | nil => rfl
  | cons a c ih =>
    simp only [noPatIn, Bool.and_eq_true, Bool.not_eq_true'] at h ⊢
    refine ⟨?_, ih h.2⟩
    apply startsWith_false_of_append z
    simpa [List.append_assoc] using h.1

theorem dropWhile_asciiWs_append (s z : List Char) (hne : ∃ c ∈ s, isAsciiWs c = false) :
    (s ++ z).dropWhile isAsciiWs = s.dropWhile isAsciiWs ++ z := by
  induction s with
  | nil => obtain ⟨c, hc, _⟩ := hne; simp at hc
  | cons a s ih =>
    simp only [List.cons_append, List.dropWhile_cons]
    split
    · rename_i ha
      obtain ⟨c, hc, hw⟩ := hne
      rcases List.mem_cons.1 hc with rfl | hc'
      · rw [ha] at hw; cases hw
      · exact ih ⟨c, hc', hw⟩
    · rfl

theorem startsWith_dropWhile_mono (p s z : List Char) (hne : ∃ c ∈ s, isAsciiWs c = false)
    (h : startsWith p ((s ++ z).dropWhile isAsciiWs) = false) :
    startsWith p (s.dropWhile isAsciiWs) = false := by
  rw [dropWhile_asciiWs_append s z hne] at h
  exact startsWith_false_of_append z h

theorem interiorOk_mono (e : List Char) (ts : List Tok) :
    ∀ (bal : Int) (f z : List Char), f ≠ [] → interiorOk e bal ts (f ++ z) = true → interiorOk e bal ts f = true := by
  induction ts with
  | nil => intro bal f z _ h; exact h
  | cons t ts ih =>
    intro bal f z hf h
    simp only [interiorOk, Bool.and_eq_true] at h ⊢
    obtain ⟨⟨⟨h1, h2⟩, h3⟩, h4⟩ := h
    refine ⟨⟨⟨h1, ?_⟩, ?_⟩, ih _ f z hf h4⟩
    · have : (srcs ts ++ (f ++ z)).head? = (srcs ts ++ f).head? := by
        cases hs : srcs ts with
        | nil =>
          cases f with
          | nil => exact absurd rfl hf
          | cons a f => simp
        | cons a r => simp
      rw [← this]; exact h2
    · simp only [Bool.or_eq_true, Bool.not_eq_true'] at h3 ⊢
      rcases h3 with h3 | h3
      · exact Or.inl h3
      · right
        simp only [endHere, Bool.or_eq_false_iff] at h3 ⊢
        have e1 : srcs (t :: ts) ++ (f ++ z) = (srcs (t :: ts) ++ f) ++ z := by simp [List.append_assoc]
        rw [e1] at h3
        refine ⟨startsWith_false_of_append z h3.1, ?_⟩
        cases hs : srcs (t :: ts) ++ f with
        | nil => rfl
        | cons c r =>
          rw [hs] at h3
          simp only [List.cons_append] at h3
          have := h3.2
          simp only [Bool.and_eq_false_iff] at this ⊢
          rcases this with h' | h'
          · exact Or.inl h'
          · exact Or.inr (startsWith_false_of_append z h')

theorem follow_none (t : Tok) : t.follow none = true := by cases t <;> rfl

theorem head?_append_prefix (a f z : List Char) :
    (a ++ f).head? = (a ++ (f ++ z)).head? ∨ (a ++ f).head? = none := by
  cases a with
  | cons x a => left; simp
  | nil =>
    cases f with
    | nil => right; rfl
    | cons y f => left; simp

theorem lineInteriorOk_mono (ts : List Tok) :
    ∀ (bal : Int) (f z : List Char), lineInteriorOk bal ts (f ++ z) = true → lineInteriorOk bal ts f = true := by
  induction ts with
  | nil => intro bal f z h; exact h
  | cons t ts ih =>
    intro bal f z h
    simp only [lineInteriorOk, Bool.and_eq_true] at h ⊢
    obtain ⟨⟨⟨h1, h2⟩, h3⟩, h4⟩ := h
    refine ⟨⟨⟨h1, ?_⟩, h3⟩, ih _ f z h4⟩
    rcases head?_append_prefix (srcs ts) f z with he | he
    · rw [he]; exact h2
    · rw [he]; exact follow_none t

theorem lineFollow_mono (f z : List Char) (h : lineFollow (f ++ z) = true) : lineFollow f = true := by
  unfold lineFollow at h ⊢
  by_cases hall : ∀ x ∈ f, isHws x = true
  · rw [dropWhile_all hall]
  · have : ∃ x, x ∈ f ∧ isHws x = false := by
      apply Classical.byContradiction
      intro hne
      apply hall
      intro x hx
      cases hh : isHws x with
      | true => rfl
      | false => exact absurd ⟨x, hx, hh⟩ hne
    obtain ⟨x, hx, hxh⟩ := this
    -- the first non-blank character of `f` is the first one of `f ++ z`
    have key : ∀ (l : List Char), x ∈ l → (l ++ z).dropWhile isHws = l.dropWhile isHws ++ z := by
      intro l hl
      induction l with
      | nil => simp at hl
      | cons a l ih =>
        simp only [List.cons_append, List.dropWhile_cons]
        split
        · rename_i ha
          rcases List.mem_cons.1 hl with rfl | hl'
          · rw [ha] at hxh; cases hxh
          · exact ih hl'
        · rfl
    rw [key f hx] at h
    cases hd : f.dropWhile isHws with
    | nil => rfl
    | cons c r => rw [hd] at h; exact h

theorem commentFollow_mono (f z : List Char) (h : commentFollow (f ++ z) = true) : commentFollow f = true := by
  cases f with
  | nil => rfl
  | cons c r => exact h

theorem closeOk_mono (e : List Char) (he : e ≠ []) (r : Mark) (f z : List Char)
    (h : closeOk e r (f ++ z) = true) : closeOk e r f = true := by
  cases r with
  | minus => rfl
  | plus => rfl
  | none =>
    cases e with
    | nil => exact absurd rfl he
    | cons c t =>
      simp only [closeOk, bne_self_eq_false, Bool.false_or, List.cons_append, Bool.not_eq_true',
        Bool.and_eq_false_iff] at h ⊢
      rcases h with h | h
      · exact Or.inl h
      · right
        have e1 : t ++ (f ++ z) = (t ++ f) ++ z := by simp [List.append_assoc]
        rw [e1] at h
        exact startsWith_false_of_append z h

theorem tagOk_mono {d : Delims} (gd : Good d) (g : Tag) (f z : List Char) (h : tagOk d g (f ++ z) = true) :
    tagOk d g f = true := by
  cases g with
  | mk kind l r =>
    cases kind with
    | comment body =>
      simp only [tagOk, Bool.and_eq_true] at h ⊢
      refine ⟨⟨?_, h.1.2⟩, h.2⟩
      apply noPatIn_mono d.ce _ _ z
      simpa [List.append_assoc] using h.1.1
    | var ts =>
      simp only [tagOk, Bool.and_eq_true] at h ⊢
      obtain ⟨c, rr, hve, _⟩ := headOk_cons gd.ve
      refine ⟨⟨?_, h.1.2⟩, closeOk_mono d.ve (headOk_ne gd.ve) r f z h.2⟩
      apply interiorOk_mono d.ve ts 0 _ z (by simp [hve])
      simpa [List.append_assoc] using h.1.1
    | block ts =>
      simp only [tagOk, Bool.and_eq_true, Bool.not_eq_true'] at h ⊢
      obtain ⟨c, rr, hbe, hw⟩ := headOk_cons gd.be
      refine ⟨⟨⟨?_, h.1.1.2⟩, closeOk_mono d.be (headOk_ne gd.be) r f z h.1.2⟩, ?_⟩
      · apply interiorOk_mono d.be ts 0 _ z (by simp [hbe])
        simpa [List.append_assoc] using h.1.1.1
      · apply startsWith_dropWhile_mono rawName _ z ⟨c, by simp [hbe], hw⟩
        simpa [List.append_assoc] using h.2
    | raw c ri l2 tight =>
      simp only [tagOk, Bool.and_eq_true] at h ⊢
      refine ⟨?_, closeOk_mono d.be (headOk_ne gd.be) r f z h.2⟩
      apply closeOk_mono d.be (headOk_ne gd.be) ri _ z
      simpa [List.append_assoc] using h.1
    | lineStmt ts =>
      simp only [tagOk, Bool.and_eq_true] at h ⊢
      exact ⟨⟨h.1.1, lineInteriorOk_mono ts 0 f z h.1.2⟩, lineFollow_mono f z h.2⟩
    | lineComment body =>
      simp only [tagOk, Bool.and_eq_true] at h ⊢
      refine ⟨⟨h.1.1, commentFollow_mono f z h.1.2⟩, ?_⟩
      have h2 := h.2
      cases hb : body ++ f with
      | nil => rfl
      | cons c r =>
        have : body ++ (f ++ z) = c :: (r ++ z) := by rw [← List.append_assoc, hb]; rfl
        rw [this] at h2; exact h2

/-- shortening the last text to a prefix keeps the template delimiter-free -/
theorem tailFree_mapLast {d : Delims} (gd : Good d) (f : List Char → List Char) (hf : ∀ s, ∃ z, s = f s ++ z)
    (tl : List (Tag × List Char)) :
    ∀ first t, tailFree d first t tl = true →
      tailFree d first t (mapLastText f tl) = true ∧
        ∃ z, unparseTail d tl = unparseTail d (mapLastText f tl) ++ z := by
  induction tl with
  | nil => intro first t h; exact ⟨h, [], rfl⟩
  | cons a tl ih =>
    obtain ⟨g, t'⟩ := a
    intro first t h
    cases tl with
    | nil =>
      obtain ⟨z, hz⟩ := hf t'
      simp only [tailFree, Bool.and_eq_true, mapLastText, unparseTail, List.append_nil] at h ⊢
      obtain ⟨⟨⟨⟨⟨h1, h2⟩, h3⟩, hc⟩, hl⟩, h4⟩ := h
      have e1 : g.src d ++ t' = (g.src d ++ f t') ++ z := by rw [List.append_assoc, ← hz]
      rw [e1] at h1 h2
      rw [hz] at h3 hc h4
      rw [noStartIn_append] at h4
      simp only [Bool.and_eq_true, List.append_nil] at h4
      exact ⟨⟨⟨⟨⟨⟨noStartIn_mono _ _ z h1, ownLongest_mono _ _ z h2⟩, rawFree_mono g _ z h3⟩,
        tagOk_mono gd g _ z hc⟩, hl⟩, noStartIn_mono _ [] z (by simpa using h4.1)⟩, z, e1⟩
    | cons b tl =>
      have h' : noStartIn d t (unparseTail d ((g, t') :: b :: tl)) = true ∧
          ownLongest d (g.start d) (unparseTail d ((g, t') :: b :: tl)) = true ∧
          rawFree d g (t' ++ unparseTail d (b :: tl)) = true ∧
          tagOk d g (t' ++ unparseTail d (b :: tl)) = true ∧
          (g.marker != .lineStmt || lineStartText first t) = true ∧ tailFree d false t' (b :: tl) = true := by
        have := h
        rw [tailFree] at this
        simp only [Bool.and_eq_true] at this
        exact ⟨this.1.1.1.1.1, this.1.1.1.1.2, this.1.1.1.2, this.1.1.2, this.1.2, this.2⟩
      obtain ⟨h1, h2, h3, hc, hl, h4⟩ := h'
      obtain ⟨ih1, z, hz⟩ := ih false t' h4
      have e1 : unparseTail d ((g, t') :: b :: tl) =
          unparseTail d ((g, t') :: mapLastText f (b :: tl)) ++ z := by
        simp only [unparseTail] at hz ⊢
        rw [hz]; simp [List.append_assoc]
      have e2 : t' ++ unparseTail d (b :: tl) = (t' ++ unparseTail d (mapLastText f (b :: tl))) ++ z := by
        rw [hz]; simp [List.append_assoc]
      rw [e1] at h1 h2
      rw [e2] at h3 hc
      refine ⟨?_, z, ?_⟩
      · show tailFree d first t ((g, t') :: mapLastText f (b :: tl)) = true
        rw [tailFree]
        simp only [Bool.and_eq_true]
        exact ⟨⟨⟨⟨⟨noStartIn_mono _ _ z h1, ownLongest_mono _ _ z h2⟩, rawFree_mono g _ z h3⟩,
          tagOk_mono gd g _ z hc⟩, hl⟩, ih1⟩
      · exact e1

theorem delimFree_stripFinal {d : Delims} (gd : Good d) (tm : Tmpl) (h : delimFree d tm = true) :
    delimFree d (stripFinal tm) = true := by
  obtain ⟨head, tail⟩ := tm
  unfold delimFree at h ⊢
  cases tail with
  | nil =>
    simp only [stripFinal, tailFree] at h ⊢
    obtain ⟨z, hz⟩ := stripTrailingNl_prefix head
    rw [hz, noStartIn_append] at h
    simp only [Bool.and_eq_true, List.append_nil] at h
    exact noStartIn_mono _ [] z (by simpa using h.1)
  | cons a tl =>
    exact (tailFree_mapLast gd stripTrailingNl stripTrailingNl_prefix (a :: tl) true head h).1

/-! ### the whole tokenizer -/

theorem lex_spec (cfg : Cfg) (vm bm : List Char) {d : Delims} (gd : Good d) (tm : Tmpl)
    (hfree : delimFree d tm = true) :
    renderRes vm bm (lex cfg d (findLL d) (unparse d tm)) = some (specRender cfg vm bm tm) := by
  unfold lex specRender
  simp only []
  rw [prepare_unparse cfg gd tm hfree]
  generalize htm : (if cfg.keep = true then tm else stripFinal tm) = tm'
  have hfree' : delimFree d tm' = true := by
    rw [← htm]; split
    · exact hfree
    · exact delimFree_stripFinal gd tm hfree
  have := lexGo_spec cfg vm bm gd tm'.tail tm'.head true [] 0 false ((unparse d tm').length + 1)
    (fun _ => Or.inl (Or.inl ⟨rfl, rfl⟩)) hfree' (Nat.zero_le _) (by simp) (by simp [unparse])
  simpa [unparse] using this

end MJ.Lexer
