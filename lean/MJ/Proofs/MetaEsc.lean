import MJ.Model.MetaEsc
import MJ.Proofs.MetaSet
/-! Escaped macro values, host callables (C18): closure objects only grow, so every macro
value of every history still resolves the names it captured; a call in a closure frame that
resolves at least those names asks the context only for what the template's blocks ask for. -/
namespace MJ.Meta

/-! ### the closure heap: keys are never lost -/

/-- closure objects only gain keys -/
def Heap.Mono (h h' : Heap) : Prop := ∀ p ∈ h.rel, p ∈ h'.rel

theorem Heap.Mono.refl (h : Heap) : h.Mono h := fun _ hp => hp

theorem Heap.Mono.trans {a b c : Heap} (h1 : a.Mono b) (h2 : b.Mono c) : a.Mono c :=
  fun p hp => h2 p (h1 p hp)

theorem has_some_iff (h : Heap) (c : Nat) (k : String) :
    h.has (some c) k = true ↔ (c, k) ∈ h.rel := by
  simp [Heap.has]

theorem has_mono {h h' : Heap} (hm : h.Mono h') (c : Option Nat) (k : String)
    (hk : h.has c k = true) : h'.has c k = true := by
  cases c with
  | none => simp [Heap.has] at hk
  | some c =>
    rw [has_some_iff] at *
    exact hm _ hk

theorem mem_keys_of_has (h : Heap) (c : Option Nat) (k : String) (hk : h.has c k = true) :
    k ∈ h.keys c := by
  cases c with
  | none => simp [Heap.has] at hk
  | some c =>
    rw [has_some_iff] at hk
    simp only [Heap.keys, List.mem_map, List.mem_filter]
    exact ⟨(c, k), ⟨hk, by simp⟩, rfl⟩

/-- every macro value of the pool resolves its closure names through its closure object -/
def Heap.Good (h : Heap) : Prop :=
  ∀ v ∈ h.pool, ∀ x ∈ closureNames v.decl.args v.decl.defaults v.decl.body,
    h.has v.closure x = true

theorem Heap.Good.mono {h h' : Heap} (hg : h.Good) (hm : h.Mono h') (hp : h'.pool = h.pool) :
    h'.Good := by
  intro v hv x hx
  rw [hp] at hv
  exact has_mono hm _ _ (hg v hv x hx)

theorem insert_mono (h : Heap) (c : Nat) (k : String) : h.Mono (h.insert c k) :=
  fun _ hp => List.mem_cons_of_mem _ hp

theorem store_spec (h : Heap) (k : String) :
    h.Mono (h.store k) ∧ (h.store k).pool = h.pool := by
  cases hs : h.stack with
  | nil =>
    simp only [Heap.store, hs]
    exact ⟨Heap.Mono.refl h, trivial⟩
  | cons f fs =>
    cases hc : f.closure with
    | none =>
      simp only [Heap.store, hs, hc]
      exact ⟨fun _ hp => hp, trivial⟩
    | some c =>
      simp only [Heap.store, hs, hc]
      exact ⟨fun _ hp => List.mem_cons_of_mem _ hp, rfl⟩

/-- `Enclose(k)` in a context that has a frame: afterwards the top frame has a closure object
attached and the object has `k`; an attached object stays attached -/
theorem enclose_spec (h : Heap) (k : String) (hne : h.stack ≠ []) :
    h.Mono (h.enclose k) ∧ (h.enclose k).pool = h.pool ∧ (h.enclose k).stack ≠ [] ∧
    (∃ c, (h.enclose k).topClosure = some c ∧ (c, k) ∈ (h.enclose k).rel) ∧
    (∀ c, h.topClosure = some c → (h.enclose k).topClosure = some c) := by
  cases hs : h.stack with
  | nil => exact absurd hs hne
  | cons f fs =>
    cases hc : f.closure with
    | some c =>
      simp only [Heap.enclose, hs, hc]
      refine ⟨insert_mono h c k, rfl, by simp [Heap.insert, hs], ⟨c, ?_, ?_⟩, ?_⟩
      · simp [Heap.topClosure, Heap.insert, hs, hc]
      · simp [Heap.insert]
      · intro c' hc'
        simpa [Heap.topClosure, Heap.insert, hs, hc] using hc'
    | none =>
      simp only [Heap.enclose, hs, hc]
      refine ⟨fun _ hp => List.mem_cons_of_mem _ hp, trivial, by simp, ⟨h.next, ?_, ?_⟩, ?_⟩
      · simp [Heap.topClosure]
      · simp
      · intro c' hc'
        simp [Heap.topClosure, hs, hc] at hc'

theorem fold_enclose (names : List String) (h : Heap) (hne : h.stack ≠ []) :
    h.Mono (names.foldl Heap.enclose h) ∧ (names.foldl Heap.enclose h).pool = h.pool ∧
    (names.foldl Heap.enclose h).stack ≠ [] ∧
    (∀ c, h.topClosure = some c → (names.foldl Heap.enclose h).topClosure = some c) ∧
    (∀ x ∈ names, (names.foldl Heap.enclose h).has (names.foldl Heap.enclose h).topClosure x
      = true) := by
  induction names generalizing h with
  | nil => exact ⟨Heap.Mono.refl h, rfl, hne, fun _ hc => hc, fun x hx => by cases hx⟩
  | cons k rest ih =>
    obtain ⟨m1, p1, n1, ⟨c, t1, r1⟩, k1⟩ := enclose_spec h k hne
    obtain ⟨m2, p2, n2, k2, a2⟩ := ih (h.enclose k) n1
    simp only [List.foldl_cons]
    refine ⟨m1.trans m2, p2.trans p1, n2, fun c' hc' => k2 c' (k1 c' hc'), ?_⟩
    intro x hx
    rcases List.mem_cons.1 hx with rfl | hx
    · rw [k2 c t1, has_some_iff]
      exact m2 _ r1
    · exact a2 x hx

theorem declare_spec (h : Heap) (m : MacroDecl) (hg : h.Good) :
    h.Mono (h.declare m) ∧ (h.declare m).Good := by
  cases hs : h.stack with
  | nil =>
    simp only [Heap.declare, hs]
    exact ⟨Heap.Mono.refl h, hg⟩
  | cons f fs =>
    have hne : h.stack ≠ [] := by simp [hs]
    obtain ⟨m1, p1, _, _, a1⟩ := fold_enclose (closureNames m.args m.defaults m.body) h hne
    simp only [Heap.declare, hs]
    refine ⟨fun p hp => m1 p hp, ?_⟩
    intro v hv x hx
    simp only [List.mem_append, List.mem_singleton] at hv
    rcases hv with hv | rfl
    · rw [p1] at hv
      have := has_mono m1 _ _ (hg v hv x hx)
      cases hvc : v.closure with
      | none => rw [hvc] at this; simp [Heap.has] at this
      | some c => rw [hvc] at this; simpa [Heap.has] using this
    · have := a1 x hx
      cases htc : (List.foldl Heap.enclose h (closureNames m.args m.defaults m.body)).topClosure with
      | none => rw [htc] at this; simp [Heap.has] at this
      | some c => rw [htc] at this; simpa [Heap.has] using this

theorem step_spec (h : Heap) (e : Ev) (hg : h.Good) : h.Mono (h.step e) ∧ (h.step e).Good := by
  cases e with
  | pushFrame => exact ⟨fun _ hp => hp, hg⟩
  | pushLoop => exact ⟨fun _ hp => hp, hg⟩
  | popFrame => exact ⟨fun _ hp => hp, hg⟩
  | store k =>
    obtain ⟨m1, p1⟩ := store_spec h k
    exact ⟨m1, hg.mono m1 p1⟩
  | declare m => exact declare_spec h m hg
  | iterate => exact ⟨fun _ hp => hp, hg⟩
  | includeEnter =>
    simp only [Heap.step]
    cases h.stack with
    | nil => exact ⟨fun _ hp => hp, hg⟩
    | cons f fs => exact ⟨fun _ hp => hp, hg⟩
  | includeLeave =>
    simp only [Heap.step]
    split
    · exact ⟨fun _ hp => hp, hg⟩
    · exact ⟨fun _ hp => hp, hg⟩
  | enterMacro v caller =>
    simp only [Heap.step]
    split
    · exact ⟨fun _ hp => hp, hg⟩
    · exact ⟨fun _ hp => hp, hg⟩
  | leaveMacro =>
    simp only [Heap.step]
    split
    · exact ⟨fun _ hp => hp, hg⟩
    · exact ⟨fun _ hp => hp, hg⟩

theorem fold_step_good (evs : List Ev) (h : Heap) (hg : h.Good) :
    h.Mono (evs.foldl Heap.step h) ∧ (evs.foldl Heap.step h).Good := by
  induction evs generalizing h with
  | nil => exact ⟨Heap.Mono.refl h, hg⟩
  | cons e evs ih =>
    obtain ⟨m1, g1⟩ := step_spec h e hg
    obtain ⟨m2, g2⟩ := ih (h.step e) g1
    exact ⟨m1.trans m2, g2⟩

theorem good_init : ({} : Heap).Good := by
  intro v hv
  cases hv

/-- after ANY history every macro value still finds the names it captured in its closure -/
theorem run_good (evs : List Ev) : (Heap.run evs).Good :=
  (fold_step_good evs {} good_init).2

/-- … and histories only extend closure objects -/
theorem run_mono (evs more : List Ev) : (Heap.run evs).Mono (Heap.run (evs ++ more)) := by
  unfold Heap.run
  rw [List.foldl_append]
  exact (fold_step_good more _ (run_good evs)).1

theorem target_complete (c : EscCall) (m : MacroDecl) (keys : List String)
    (ht : c.target = some (m, keys)) :
    ∀ x ∈ closureNames m.args m.defaults m.body, x ∈ keys := by
  unfold EscCall.target at ht
  split at ht
  · rename_i mv hmv
    cases ht
    intro x hx
    exact mem_keys_of_has _ _ _ (run_good c.history mv (List.mem_of_getElem? hmv) x hx)
  · cases ht

/-! ### a call in a closure frame that has (at least) the captured names -/

section
variable {K : Reenter} (hK : KOK K) {P Q : String → Prop} {bt : BT}
include hK

/-- `macro_body_reads` for any frame that resolves what the closure analysis reports -/
theorem macro_body_reads_in (F : Frame) (args : List String) (defaults : List Expr)
    (body : List Stmt)
    (hF : ∀ x ∈ findMacroClosure args defaults body, bound F [[]] x = true)
    (hbt : Ctx bt P Q) (kid : List Ch) (x : String)
    (hx : x ∈ (bindArgs F [[]] args.reverse defaults.reverse).2 ++
      (execList K [] bt (bindArgs F [[]] args.reverse defaults.reverse).1 [[]] kid body).reads) :
    Q x := by
  have hinit : Inv F [[]] St.init := by
    intro y hy; simp [St.init, St.isAssigned] at hy
  have ha := sim_args args.reverse defaults.reverse Q Q hinit
  have hbody := sim_walkList body K hK Q Q [] [] bt _ _ _ kid hbt.same (by simp [RcOK])
    (ha.inv rfl)
  have hall := Sim.seq ha hbody (step_walkList body _).rep
  have hflat : (walkList (macroArgs St.init args.reverse defaults.reverse) body).nested = none :=
    (Step.trans (step_macroArgs St.init _ _) (step_walkList body _)).nn rfl
  rcases hall.unb x hx with hu | hu
  · rcases hall.reads x hx with hr | hr
    · rw [reported_none hflat] at hr
      have := hF x hr
      rw [hu] at this; cases this
    · exact hr
  · exact hu

omit hK in
theorem escFrame_bound (m : MacroDecl) (keys : List String)
    (hk : ∀ x ∈ closureNames m.args m.defaults m.body, x ∈ keys) :
    ∀ x ∈ findMacroClosure m.args m.defaults m.body, bound (escFrame m keys) [[]] x = true := by
  intro x hx
  rw [bound_iff]
  left
  unfold escFrame
  by_cases hc : x = "caller"
  · subst hc
    have : callerRef m.args m.defaults m.body = true := by simp [callerRef, hx]
    simp [this]
  · exact List.mem_append_right _ (hk x (mem_closureNames.2 ⟨hx, hc⟩))

theorem callMacroE_ok (hbt : Ctx bt P Q) (m : MacroDecl) (keys : List String)
    (hk : ∀ x ∈ closureNames m.args m.defaults m.body, x ∈ keys) (kid : List Ch) (x : String)
    (hx : x ∈ callMacroE K bt m keys kid) : Q x :=
  macro_body_reads_in hK (escFrame m keys) m.args m.defaults m.body (escFrame_bound m keys hk)
    hbt kid x hx

theorem serveE_ok (W : Nat → EscCall) (mt : List MacroDecl) (rc : RC) (G : List Ghost)
    (top : Frame) (below : List Frame) (r : Ch) (hbt : Ctx bt P Q)
    (hrc : RcOK rc G top below P) :
    ∀ x ∈ serveE W mt K rc bt top below r, P x ∧ (bound top below x = false ∨ Q x) := by
  intro x hx
  unfold serveE at hx
  split at hx
  · exact serveM_ok mt hK P Q rc G bt top below r hbt hrc x hx
  · split at hx
    · rename_i m keys ht
      have := callMacroE_ok hK hbt m keys (target_complete _ m keys ht) _ x hx
      exact ⟨hbt.qp x this, Or.inr this⟩
    · cases hx

end

/-- all requests — loop re-entries, `self.block()`, host callables, macros of the table, macro
values of any history — are accounted for, however deeply they nest -/
theorem kok_reenterE (W : Nat → EscCall) (mt : List MacroDecl) : ∀ d, KOK (reenterE W mt d)
  | 0 => fun _ _ _ _ _ _ _ _ _ _ x hx => by simp [reenterE] at hx
  | d + 1 => fun P Q rc G bt top below reqs hbt hrc x hx => by
      simp only [reenterE, List.mem_flatMap] at hx
      obtain ⟨r, _, hx⟩ := hx
      exact serveE_ok (kok_reenterE W mt d) W mt rc G top below r hbt hrc x hx

theorem template_sound_esc (W : Nat → EscCall) (t : List Stmt) (st0 : St)
    (h0 : st0.assigned = [[]]) (cs : List Ch) (d : Nat) (x : String)
    (hx : x ∈ readsE W t cs d) : (walkList st0 t).reported x :=
  template_sound_in (reenterE W (macroDeclsL t) d) (kok_reenterE W _ d) t st0 h0 [] [] cs x hx

/-! ### host callables -/

/-- the analysis of the pseudo-code of a host callable reports nothing but its names -/
theorem hostBody_out (names : List String) (st : St) :
    ∀ x ∈ (walkList st (hostBody names)).out, x ∈ st.out ∨ x ∈ names := by
  induction names generalizing st with
  | nil => intro x hx; exact Or.inl (by simpa [hostBody, walkList] using hx)
  | cons n ns ih =>
    intro x hx
    have hw : walkList st (hostBody (n :: ns)) = walkList (visitLeaf st (n, [])) (hostBody ns) := by
      simp [hostBody, walkList, walk, visitExpr, visitLeaves, nvars]
    rw [hw] at hx
    rcases ih _ x hx with h | h
    · by_cases ha : st.isAssigned n = true
      · rw [visitLeaf_pos (l := (n, [])) ha] at h
        exact Or.inl h
      · cases hn : st.nested with
        | none =>
          rw [visitLeaf_flat (l := (n, [])) ha hn, assign_out] at h
          rcases List.mem_cons.1 h with rfl | h
          · exact Or.inr (by simp)
          · exact Or.inl h
        | some nn =>
          rw [visitLeaf_nested (l := (n, [])) ha hn] at h
          exact Or.inl h
    · exact Or.inr (List.mem_cons_of_mem _ h)

/-- a name some host callable of the environment may ask for -/
def HostName (hosts : List (List String)) : String → Prop := fun x => ∃ h ∈ hosts, x ∈ h

theorem ctx_hosts (t : List Stmt) (hosts : List (List String)) :
    Ctx (blockBodiesL t ++ hosts.map hostBody)
      (fun x => BlockFree t x ∨ HostName hosts x) (fun x => BlockFree t x ∨ HostName hosts x) := by
  refine ⟨fun _ h => h, ?_⟩
  intro body hb x hx
  rcases List.mem_append.1 hb with hb | hb
  · exact Or.inl ⟨body, hb, hx⟩
  · obtain ⟨names, hn, rfl⟩ := List.mem_map.1 hb
    rcases hostBody_out names St.init x hx with h | h
    · simp [St.init] at h
    · exact Or.inr ⟨names, hn, h⟩

/-- with host callables: every look-up is reported or is a name a host callable asks for -/
theorem template_sound_hosts (hosts : List (List String)) (W : Nat → EscCall) (t : List Stmt)
    (st0 : St) (h0 : st0.assigned = [[]]) (cs : List Ch) (d : Nat) (x : String)
    (hx : x ∈ readsH hosts W t cs d) : (walkList st0 t).reported x ∨ HostName hosts x := by
  have hinit : Inv [] [] st0 := by
    intro y hy; simp [St.isAssigned, h0] at hy
  have hsim := sim_walkList t (reenterE W (macroDeclsL t) d) (kok_reenterE W _ d) _ _ [] []
    (blockBodiesL t ++ hosts.map hostBody) st0 [] [] cs (ctx_hosts t hosts) (by simp [RcOK]) hinit
  rcases hsim.reads x hx with h | ⟨body, hb, h⟩ | h
  · exact Or.inl h
  · exact Or.inl (blocksL_reported t st0 body hb x h)
  · exact Or.inr h

end MJ.Meta
