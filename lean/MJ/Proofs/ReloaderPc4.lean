import MJ.Proofs.ReloaderInv
/-! `Inv` is preserved by the mutex holder's steps, part 4 of 5 (split for parallel builds) -/
namespace MJ.Reloader
variable {σ σ' : State} {c : Active}

theorem inv_pc_innerSet {s : Nat} {rest : List COp} (h : Inv σ) (hc : σ.cur = some c)
    (hpc : c.pc = .innerSet s rest) (hs : stepActive σ c = some σ') : Inv σ' := by inv_pc_tac
theorem inv_pc_created (h : Inv σ) (hc : σ.cur = some c) (hpc : c.pc = .created)
    (hs : stepActive σ c = some σ') : Inv σ' := by inv_pc_tac
theorem inv_pc_cleared (h : Inv σ) (hc : σ.cur = some c) (hpc : c.pc = .cleared)
    (hs : stepActive σ c = some σ') : Inv σ' := by inv_pc_tac

end MJ.Reloader
