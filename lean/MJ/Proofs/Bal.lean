import MJ.Model.Bal
/-!
# Soundness of the certificate checker (helper lemmas for C05)

`Rel cert G c e fs k m`: the abstract state `(G, c, e)` that the certificate assigns to the current
pc describes the machine state `(fs, k, m)`.  In the outermost activation the two coincide.  In a
recursive activation of the loop at `t` (entered through `loop(...)` from a call site that returns
to `rpc`), the machine state is the part of the abstract state above the entry state of the loop,
stacked on the machine state of the suspended caller.
-/
namespace MJ.Bal

inductive Rel (cert : Cert) : List FrameKind → Nat → Nat → List RFrame → Nat → Nat → Prop where
  | nil (c e : Nat) : Rel cert [] c e [] c e
  | withF {G c e fs k m} : Rel cert G c e fs k m →
      Rel cert (.withF :: G) c e (.withF :: fs) k m
  | plain {G c e fs k m} (id : Nat) (v r : Bool) : Rel cert G c e fs k m →
      Rel cert (.loopF id v r :: G) c e (.loopF v (recOf id r) none :: fs) k m
  | recur {G c e fs k m} (t : Nat) (v : Bool) (rpc : Nat) (cap : Bool) (B0 B : AbsState) :
      look cert t = some B0 → B0.frames = G → B0.caps ≤ c → B0.escs ≤ e →
      look cert rpc = some B → Rel cert B.frames B.caps B.escs fs k m →
      Rel cert (.loopF t v true :: G) c e (.loopF v (some t) (some (rpc, cap)) :: fs)
        ((c - B0.caps) + k + (if cap then 1 else 0)) ((e - B0.escs) + m)

/-- the invariant: the certificate describes the machine state -/
def Inv (cert : Cert) (s : VmState) : Prop :=
  ∃ A, look cert s.pc = some A ∧ Rel cert A.frames A.caps A.escs s.frames s.caps s.escs

theorem ws_tail {code : Code} {cert : Cert} {f : FrameKind} {G : List FrameKind} {c e : Nat}
    (h : wsFrames code cert (f :: G) c e = true) : wsFrames code cert G c e = true := by
  cases f with
  | withF => simpa [wsFrames] using h
  | loopF id v r =>
    cases r
    · simpa [wsFrames] using h
    · simp only [wsFrames, Bool.and_eq_true] at h
      exact h.2

theorem Rel.caps_up {cert G c e fs k m} (h : Rel cert G c e fs k m) :
    Rel cert G (c + 1) e fs (k + 1) m := by
  induction h with
  | nil c e => exact .nil _ _
  | withF _ ih => exact .withF ih
  | plain id v r _ ih => exact .plain id v r ih
  | @recur G c e fs k m t v rpc cap B0 B h1 h2 h3 h4 h5 h6 _ =>
    have : (c + 1 - B0.caps) + k + (if cap then 1 else 0) = (c - B0.caps) + k + (if cap then 1 else 0) + 1 := by
      omega
    rw [← this]
    exact .recur t v rpc cap B0 B h1 h2 (by omega) h4 h5 h6

theorem Rel.escs_up {cert G c e fs k m} (h : Rel cert G c e fs k m) :
    Rel cert G c (e + 1) fs k (m + 1) := by
  induction h with
  | nil c e => exact .nil _ _
  | withF _ ih => exact .withF ih
  | plain id v r _ ih => exact .plain id v r ih
  | @recur G c e fs k m t v rpc cap B0 B h1 h2 h3 h4 h5 h6 _ =>
    have : (e + 1 - B0.escs) + m = (e - B0.escs) + m + 1 := by omega
    rw [← this]
    exact .recur t v rpc cap B0 B h1 h2 h3 (by omega) h5 h6

theorem Rel.caps_down {cert code G c' e fs k m} (h : Rel cert G c' e fs k m) :
    ∀ c, c' = c + 1 → wsFrames code cert G c e = true →
      ∃ k', k = k' + 1 ∧ Rel cert G c e fs k' m := by
  induction h with
  | nil c0 e =>
    intro c hc _; subst hc; exact ⟨c, rfl, .nil _ _⟩
  | withF _ ih =>
    intro c hc hws
    simp only [wsFrames] at hws
    obtain ⟨k', hk, hr⟩ := ih c hc hws
    exact ⟨k', hk, .withF hr⟩
  | plain id v r _ ih =>
    intro c hc hws
    obtain ⟨k', hk, hr⟩ := ih c hc (ws_tail hws)
    exact ⟨k', hk, .plain id v r hr⟩
  | @recur G c0 e fs k m t v rpc cap B0 B h1 h2 h3 h4 h5 h6 _ =>
    intro c hc hws
    subst hc
    simp only [wsFrames, h1, Bool.and_eq_true, decide_eq_true_eq] at hws
    have hle : B0.caps ≤ c := hws.1.1.1.2
    refine ⟨(c - B0.caps) + k + (if cap then 1 else 0), by omega, ?_⟩
    exact .recur t v rpc cap B0 B h1 h2 hle h4 h5 h6

theorem Rel.escs_down {cert code G c e' fs k m} (h : Rel cert G c e' fs k m) :
    ∀ e, e' = e + 1 → wsFrames code cert G c e = true →
      ∃ m', m = m' + 1 ∧ Rel cert G c e fs k m' := by
  induction h with
  | nil c e0 =>
    intro e he _; subst he; exact ⟨e, rfl, .nil _ _⟩
  | withF _ ih =>
    intro e he hws
    simp only [wsFrames] at hws
    obtain ⟨m', hm, hr⟩ := ih e he hws
    exact ⟨m', hm, .withF hr⟩
  | plain id v r _ ih =>
    intro e he hws
    obtain ⟨m', hm, hr⟩ := ih e he (ws_tail hws)
    exact ⟨m', hm, .plain id v r hr⟩
  | @recur G c e0 fs k m t v rpc cap B0 B h1 h2 h3 h4 h5 h6 _ =>
    intro e he hws
    subst he
    simp only [wsFrames, h1, Bool.and_eq_true, decide_eq_true_eq] at hws
    have hle : B0.escs ≤ e := hws.1.1.2
    refine ⟨(e - B0.escs) + m, by omega, ?_⟩
    exact .recur t v rpc cap B0 B h1 h2 h3 hle h5 h6

/-- the innermost loops agree -/
theorem Rel.innermost {cert G c e fs k m} (h : Rel cert G c e fs k m) :
    (absInnermost G = none → innermostLoop fs = none) ∧
    (absInnermost G = some false → innermostLoop fs = some none) ∧
    (absInnermost G = some true → ∃ t, innermostLoop fs = some (some t)) := by
  induction h with
  | nil c e => simp [absInnermost, innermostLoop]
  | withF _ ih => simpa [absInnermost, innermostLoop] using ih
  | plain id v r _ _ => cases r <;> simp [absInnermost, innermostLoop, recOf]
  | recur t v rpc cap B0 B _ _ _ _ _ _ _ => simp [absInnermost, innermostLoop]


/-- what `checkCert` guarantees at a certified pc -/
structure PcOk (code : Code) (cert : Cert) (pc : Nat) (A : AbsState) : Prop where
  ws : wsFrames code cert A.frames A.caps A.escs = true
  atEnd : code[pc]? = none → A = AbsState.init
  edge : ∀ i, code[pc]? = some i → ∃ es, edges cert pc i A = some es ∧ ∀ x ∈ es, look cert x.1 = some x.2

theorem look_lt {cert : Cert} {pc : Nat} {A : AbsState} (h : look cert pc = some A) : pc < cert.size := by
  unfold look at h
  cases hc : cert[pc]? with
  | none => simp [hc] at h
  | some _ =>
    have := (Array.getElem?_eq_some_iff.mp hc).1
    exact this

theorem pcOk_of_check {code : Code} {cert : Cert} (hc : checkCert code cert = true)
    {pc : Nat} {A : AbsState} (h : look cert pc = some A) : PcOk code cert pc A := by
  unfold checkCert at hc
  rw [Bool.and_eq_true] at hc
  have h2 := hc.2
  rw [List.all_eq_true] at h2
  have hp := h2 pc (List.mem_range.mpr (look_lt h))
  unfold checkPc at hp
  rw [h] at hp
  simp only [Bool.and_eq_true] at hp
  refine ⟨hp.1, ?_, ?_⟩
  · intro hn
    have := hp.2
    rw [hn] at this
    simpa using this
  · intro i hi
    have := hp.2
    rw [hi] at this
    dsimp only at this
    cases he : edges cert pc i A with
    | none => rw [he] at this; simp at this
    | some es =>
      rw [he] at this
      refine ⟨es, rfl, ?_⟩
      rw [List.all_eq_true] at this
      intro x hx
      have := this x hx
      simpa using this

theorem entry_of_check {code : Code} {cert : Cert} (hc : checkCert code cert = true)
    {e : Nat} (he : e ∈ entries code) : look cert e = some AbsState.init := by
  unfold checkCert at hc
  rw [Bool.and_eq_true] at hc
  have h1 := hc.1
  rw [List.all_eq_true] at h1
  simpa using h1 e he

/-- every live recursive loop has a certified `PushLoop` -/
theorem Rel.live {code : Code} {cert : Cert}
    (hall : ∀ pc A, look cert pc = some A → wsFrames code cert A.frames A.caps A.escs = true)
    {G c e fs k m} (h : Rel cert G c e fs k m) :
    wsFrames code cert G c e = true →
    ∀ t ∈ liveTargets fs, ∃ B0 v, look cert t = some B0 ∧ code[t]? = some (.pushLoop v true) := by
  induction h with
  | nil c e => intro _ t ht; simp [liveTargets] at ht
  | withF _ ih =>
    intro hws t ht
    simp only [liveTargets] at ht
    exact ih (ws_tail hws) t ht
  | @plain G c e fs k m id v r _ ih =>
    intro hws t ht
    cases r with
    | false =>
      have ht' : t ∈ liveTargets fs := by simpa [recOf, liveTargets] using ht
      exact ih (ws_tail hws) t ht'
    | true =>
      simp only [recOf, liveTargets, if_true, List.mem_cons] at ht
      rcases ht with rfl | ht
      · simp only [wsFrames, Bool.and_eq_true, decide_eq_true_eq] at hws
        cases hl : look cert t with
        | none => rw [hl] at hws; simp at hws
        | some B0 => exact ⟨B0, v, rfl, hws.1.2⟩
      · exact ih (ws_tail hws) t ht
  | @recur G c e fs k m t0 v rpc cap B0 B h1 h2 h3 h4 h5 h6 ih =>
    intro hws t ht
    simp only [liveTargets, List.mem_cons] at ht
    rcases ht with rfl | ht
    · simp only [wsFrames, Bool.and_eq_true, decide_eq_true_eq] at hws
      exact ⟨B0, v, h1, hws.1.2⟩
    · exact ih (hall rpc B h5) t ht

/-- entering a recursive activation establishes the invariant -/
theorem recurse_inv {code : Code} {cert : Cert} (hc : checkCert code cert = true)
    {s : VmState} {A B0 : AbsState} {t : Nat} {v : Bool} (cap : Bool)
    (hret : look cert (s.pc + 1) = some A)
    (hrel : Rel cert A.frames A.caps A.escs s.frames s.caps s.escs)
    (ht : look cert t = some B0) (hcode : code[t]? = some (.pushLoop v true)) :
    ∃ s', recurseTo code s t cap = some s' ∧ Inv cert s' := by
  have hok := pcOk_of_check hc ht
  obtain ⟨es, hes, hall⟩ := hok.edge _ hcode
  simp only [edges, Option.some.injEq] at hes
  subst hes
  have hnext := hall (t + 1, { B0 with frames := .loopF t v true :: B0.frames }) (by simp)
  simp only at hnext
  have hrec : recurseTo code s t cap = some
      { pc := t + 1, frames := .loopF v (some t) (some (s.pc + 1, cap)) :: s.frames,
        caps := if cap = true then s.caps + 1 else s.caps, escs := s.escs } := by
    simp [recurseTo, hcode, recOf]
  refine ⟨_, hrec, ?_⟩
  refine ⟨_, hnext, ?_⟩
  have key := Rel.recur (cert := cert) (c := B0.caps) (e := B0.escs) t v (s.pc + 1) cap B0 A ht rfl
    (Nat.le_refl _) (Nat.le_refl _) hret hrel
  have e1 : (B0.caps - B0.caps) + s.caps + (if cap = true then 1 else 0) = (if cap = true then s.caps + 1 else s.caps) := by
    cases cap <;> simp
  have e2 : (B0.escs - B0.escs) + s.escs = s.escs := by omega
  rw [e1, e2] at key
  exact key

theorem Rel.top_loop {cert : Cert} {id : Nat} {v r : Bool} {G : List FrameKind} {c e : Nat}
    {fs : List RFrame} {k m : Nat} (h : Rel cert (.loopF id v r :: G) c e fs k m) :
    ∃ v' r' ret fs', fs = .loopF v' r' ret :: fs' := by
  cases h with
  | plain _ _ _ _ => exact ⟨_, _, _, _, rfl⟩
  | recur _ _ _ _ _ _ _ _ _ _ _ _ => exact ⟨_, _, _, _, rfl⟩

theorem innermost_live {fs : List RFrame} {t : Nat} (h : innermostLoop fs = some (some t)) :
    t ∈ liveTargets fs := by
  induction fs with
  | nil => simp [innermostLoop] at h
  | cons f fs ih =>
    cases f with
    | withF => simpa [innermostLoop, liveTargets] using ih (by simpa [innermostLoop] using h)
    | loopF v r ret =>
      simp only [innermostLoop, Option.some.injEq] at h
      subst h
      simp [liveTargets]

theorem allSome_of {α β : Type} (f : α → Option β) (P : β → Prop) :
    ∀ ts : List α, (∀ t ∈ ts, ∃ b, f t = some b ∧ P b) →
      ∃ l, allSome (ts.map f) = some l ∧ ∀ x ∈ l, P x := by
  intro ts
  induction ts with
  | nil => intro _; exact ⟨[], rfl, by simp⟩
  | cons t ts ih =>
    intro h
    obtain ⟨b, hb, hP⟩ := h t (by simp)
    obtain ⟨l, hl, hPl⟩ := ih (fun t' ht' => h t' (by simp [ht']))
    refine ⟨b :: l, by simp [allSome, hb, hl], ?_⟩
    intro x hx
    rcases List.mem_cons.mp hx with rfl | hx
    · exact hP
    · exact hPl x hx

/-- the three facts of one step, from a computed successor list -/
theorem sound_of_next {code : Code} {cert : Cert} {s : VmState} {l : List VmState}
    (h : step code s = .next l) (hl : ∀ t ∈ l, Inv cert t) :
    step code s ≠ .stuck ∧
    (step code s = .exit → s.frames = [] ∧ s.caps = 0 ∧ s.escs = 0) ∧
    (∀ l', step code s = .next l' → ∀ t ∈ l', Inv cert t) := by
  refine ⟨by rw [h]; simp, by rw [h]; simp, ?_⟩
  intro l' h'
  rw [h] at h'
  cases h'
  exact hl

/-- One step from a state described by an accepted certificate: not stuck, exits carry the entry
state, successors are described by the certificate again. -/
theorem step_sound {code : Code} {cert : Cert} (hc : checkCert code cert = true)
    (s : VmState) (hinv : Inv cert s) :
    step code s ≠ .stuck ∧
    (step code s = .exit → s.frames = [] ∧ s.caps = 0 ∧ s.escs = 0) ∧
    (∀ l, step code s = .next l → ∀ t ∈ l, Inv cert t) := by
  obtain ⟨pc, fs, k, m⟩ := s
  obtain ⟨⟨G, c, e⟩, hA, hrel⟩ := hinv
  simp only at hA hrel
  have hok := pcOk_of_check hc hA
  have hall : ∀ pc A, look cert pc = some A → wsFrames code cert A.frames A.caps A.escs = true :=
    fun pc A h => (pcOk_of_check hc h).ws
  cases hi : code[pc]? with
  | none =>
    have hinit := hok.atEnd hi
    simp only [AbsState.init, AbsState.mk.injEq] at hinit
    obtain ⟨rfl, rfl, rfl⟩ := hinit
    cases hrel
    simp [step, hi]
  | some i =>
    obtain ⟨es, hes, hedge⟩ := hok.edge i hi
    cases i with
    | other =>
      simp only [edges, Option.some.injEq] at hes; subst hes
      apply sound_of_next (l := [⟨pc + 1, fs, k, m⟩]) (by simp [step, hi, VmState.fall])
      intro t ht; simp only [List.mem_singleton] at ht; subst ht
      exact ⟨_, hedge _ (List.Mem.head _), hrel⟩
    | buildMacro o =>
      simp only [edges, Option.some.injEq] at hes; subst hes
      apply sound_of_next (l := [⟨pc + 1, fs, k, m⟩]) (by simp [step, hi, VmState.fall])
      intro t ht; simp only [List.mem_singleton] at ht; subst ht
      exact ⟨_, hedge _ (List.Mem.head _), hrel⟩
    | pushWith =>
      simp only [edges, Option.some.injEq] at hes; subst hes
      apply sound_of_next (l := [⟨pc + 1, .withF :: fs, k, m⟩]) (by simp [step, hi, VmState.fall])
      intro t ht; simp only [List.mem_singleton] at ht; subst ht
      exact ⟨_, hedge _ (List.Mem.head _), .withF hrel⟩
    | popFrame =>
      cases G with
      | nil => simp [edges] at hes
      | cons g G' =>
        cases g with
        | loopF id v r => simp [edges] at hes
        | withF =>
          simp only [edges, Option.some.injEq] at hes; subst hes
          cases hrel with
          | withF hrel' =>
            rename_i fs'
            apply sound_of_next (l := [⟨pc + 1, fs', k, m⟩]) (by simp [step, hi, VmState.fall])
            intro t ht; simp only [List.mem_singleton] at ht; subst ht
            exact ⟨_, hedge _ (List.Mem.head _), hrel'⟩
    | pushLoop v r =>
      simp only [edges, Option.some.injEq] at hes; subst hes
      apply sound_of_next (l := [⟨pc + 1, .loopF v (recOf pc r) none :: fs, k, m⟩])
        (by simp [step, hi, VmState.fall])
      intro t ht; simp only [List.mem_singleton] at ht; subst ht
      exact ⟨_, hedge _ (List.Mem.head _), .plain pc v r hrel⟩
    | iterate tgt =>
      cases G with
      | nil => simp [edges] at hes
      | cons g G' =>
        cases g with
        | withF => simp [edges] at hes
        | loopF id v r =>
          simp only [edges, Option.some.injEq] at hes; subst hes
          have h1 := hedge _ (List.Mem.head _)
          have h2 := hedge _ (List.Mem.tail _ (List.Mem.head _))
          dsimp only at h1 h2
          obtain ⟨v', r', ret, fs', rfl⟩ := hrel.top_loop
          apply sound_of_next (l := [⟨pc + 1, .loopF v' r' ret :: fs', k, m⟩, ⟨tgt, .loopF v' r' ret :: fs', k, m⟩])
            (by simp [step, hi, VmState.fall, VmState.goto])
          intro t ht
          simp only [List.mem_cons, List.not_mem_nil, or_false] at ht
          rcases ht with rfl | rfl
          · exact ⟨_, h1, hrel⟩
          · exact ⟨_, h2, hrel⟩
    | pushDidNotIterate =>
      cases G with
      | nil => simp [edges] at hes
      | cons g G' =>
        cases g with
        | withF => simp [edges] at hes
        | loopF id v r =>
          simp only [edges, Option.some.injEq] at hes; subst hes
          have h1 := hedge _ (List.Mem.head _)
          dsimp only at h1
          obtain ⟨v', r', ret, fs', rfl⟩ := hrel.top_loop
          apply sound_of_next (l := [⟨pc + 1, .loopF v' r' ret :: fs', k, m⟩])
            (by simp [step, hi, VmState.fall])
          intro t ht; simp only [List.mem_singleton] at ht; subst ht
          exact ⟨_, h1, hrel⟩
    | popLoopFrame =>
      cases G with
      | nil => simp [edges] at hes
      | cons g G' =>
        cases g with
        | withF => simp [edges] at hes
        | loopF id v r =>
          simp only [edges] at hes
          split at hes
          · simp at hes
          · rename_i hcond
            simp only [Option.some.injEq] at hes; subst hes
            have h1 := hedge _ (List.Mem.head _)
            dsimp only at h1
            cases hrel with
            | @plain _ _ _ fs' _ _ _ _ _ hrel' =>
              apply sound_of_next (l := [⟨pc + 1, fs', k, m⟩]) (by simp [step, hi, VmState.fall])
              intro t ht; simp only [List.mem_singleton] at ht; subst ht
              exact ⟨_, h1, hrel'⟩
            | @recur _ _ _ fs' k0 m0 _ _ rpc cap B0 B a1 a2 a3 a4 a5 a6 =>
              have hB0 : look cert id = some { frames := G', caps := c, escs := e } :=
                Decidable.byContradiction (fun hne => hcond ⟨rfl, hne⟩)
              rw [a1] at hB0
              simp only [Option.some.injEq] at hB0
              subst hB0
              cases cap with
              | false =>
                apply sound_of_next (l := [⟨rpc, fs', k0, m0⟩]) (by simp [step, hi])
                intro t ht; simp only [List.mem_singleton] at ht; subst ht
                exact ⟨B, a5, a6⟩
              | true =>
                apply sound_of_next (l := [⟨rpc, fs', k0, m0⟩]) (by simp [step, hi])
                intro t ht; simp only [List.mem_singleton] at ht; subst ht
                exact ⟨B, a5, a6⟩
    | beginCapture =>
      simp only [edges, Option.some.injEq] at hes; subst hes
      apply sound_of_next (l := [⟨pc + 1, fs, k + 1, m⟩]) (by simp [step, hi, VmState.fall])
      intro t ht; simp only [List.mem_singleton] at ht; subst ht
      exact ⟨_, hedge _ (List.Mem.head _), hrel.caps_up⟩
    | endCapture =>
      simp only [edges] at hes
      split at hes
      · simp at hes
      · rename_i hc0
        simp only [Option.some.injEq] at hes; subst hes
        have h1 := hedge _ (List.Mem.head _)
        dsimp only at h1
        have hws := hall _ _ h1
        simp only at hws h1
        obtain ⟨k', hk, hr⟩ := hrel.caps_down (code := code) (c - 1) (by omega) hws
        subst hk
        apply sound_of_next (l := [⟨pc + 1, fs, k', m⟩]) (by simp [step, hi, VmState.fall])
        intro t ht; simp only [List.mem_singleton] at ht; subst ht
        exact ⟨_, h1, hr⟩
    | pushAutoEscape =>
      simp only [edges, Option.some.injEq] at hes; subst hes
      apply sound_of_next (l := [⟨pc + 1, fs, k, m + 1⟩]) (by simp [step, hi, VmState.fall])
      intro t ht; simp only [List.mem_singleton] at ht; subst ht
      exact ⟨_, hedge _ (List.Mem.head _), hrel.escs_up⟩
    | popAutoEscape =>
      simp only [edges] at hes
      split at hes
      · simp at hes
      · rename_i he0
        simp only [Option.some.injEq] at hes; subst hes
        have h1 := hedge _ (List.Mem.head _)
        dsimp only at h1
        have hws := hall _ _ h1
        simp only at hws h1
        obtain ⟨m', hm, hr⟩ := hrel.escs_down (code := code) (e - 1) (by omega) hws
        subst hm
        apply sound_of_next (l := [⟨pc + 1, fs, k, m'⟩]) (by simp [step, hi, VmState.fall])
        intro t ht; simp only [List.mem_singleton] at ht; subst ht
        exact ⟨_, h1, hr⟩
    | jump tgt =>
      simp only [edges, Option.some.injEq] at hes; subst hes
      apply sound_of_next (l := [⟨tgt, fs, k, m⟩]) (by simp [step, hi, VmState.goto])
      intro t ht; simp only [List.mem_singleton] at ht; subst ht
      exact ⟨_, hedge _ (List.Mem.head _), hrel⟩
    | jumpIfFalse tgt =>
      simp only [edges, Option.some.injEq] at hes; subst hes
      apply sound_of_next (l := [⟨pc + 1, fs, k, m⟩, ⟨tgt, fs, k, m⟩])
        (by simp [step, hi, VmState.fall, VmState.goto])
      intro t ht
      simp only [List.mem_cons, List.not_mem_nil, or_false] at ht
      rcases ht with rfl | rfl
      · exact ⟨_, hedge _ (List.Mem.head _), hrel⟩
      · exact ⟨_, hedge _ (List.Mem.tail _ (List.Mem.head _)), hrel⟩
    | jumpIfFalseOrPop tgt =>
      simp only [edges, Option.some.injEq] at hes; subst hes
      apply sound_of_next (l := [⟨pc + 1, fs, k, m⟩, ⟨tgt, fs, k, m⟩])
        (by simp [step, hi, VmState.fall, VmState.goto])
      intro t ht
      simp only [List.mem_cons, List.not_mem_nil, or_false] at ht
      rcases ht with rfl | rfl
      · exact ⟨_, hedge _ (List.Mem.head _), hrel⟩
      · exact ⟨_, hedge _ (List.Mem.tail _ (List.Mem.head _)), hrel⟩
    | jumpIfTrueOrPop tgt =>
      simp only [edges, Option.some.injEq] at hes; subst hes
      apply sound_of_next (l := [⟨pc + 1, fs, k, m⟩, ⟨tgt, fs, k, m⟩])
        (by simp [step, hi, VmState.fall, VmState.goto])
      intro t ht
      simp only [List.mem_cons, List.not_mem_nil, or_false] at ht
      rcases ht with rfl | rfl
      · exact ⟨_, hedge _ (List.Mem.head _), hrel⟩
      · exact ⟨_, hedge _ (List.Mem.tail _ (List.Mem.head _)), hrel⟩
    | fastRecurse =>
      have hinn := hrel.innermost
      cases ha : absInnermost G with
      | none =>
        apply sound_of_next (l := []) (by simp [step, hi, hinn.1 ha])
        intro t ht; simp at ht
      | some r =>
        cases r with
        | false =>
          apply sound_of_next (l := []) (by simp [step, hi, hinn.2.1 ha])
          intro t ht; simp at ht
        | true =>
          simp only [edges, ha, Option.some.injEq] at hes; subst hes
          have hret := hedge _ (List.Mem.head _)
          obtain ⟨t0, ht0⟩ := hinn.2.2 ha
          obtain ⟨B0, v, hB0, hcode⟩ := hrel.live hall hok.ws t0 (innermost_live ht0)
          obtain ⟨s', hs', hinv'⟩ := recurse_inv hc (s := ⟨pc, fs, k, m⟩) false hret hrel hB0 hcode
          apply sound_of_next (l := [s']) (by simp [step, hi, ht0, hs'])
          intro t ht; simp only [List.mem_singleton] at ht; subst ht
          exact hinv'
    | callFunction =>
      simp only [edges, Option.some.injEq] at hes; subst hes
      have hret := hedge _ (List.Mem.head _)
      have hlive := hrel.live hall hok.ws
      have hP : ∀ t ∈ liveTargets fs,
          ∃ b, (fun t => recurseTo code ⟨pc, fs, k, m⟩ t true) t = some b ∧ Inv cert b := by
        intro t ht
        obtain ⟨B0, v, hB0, hcode⟩ := hlive t ht
        exact recurse_inv hc (s := ⟨pc, fs, k, m⟩) true hret hrel hB0 hcode
      obtain ⟨l, hl, hPl⟩ := allSome_of (fun t => recurseTo code ⟨pc, fs, k, m⟩ t true) (Inv cert)
        (liveTargets fs) hP
      apply sound_of_next (l := ⟨pc + 1, fs, k, m⟩ :: l) (by simp [step, hi, hl, VmState.fall])
      intro t ht
      rcases List.mem_cons.mp ht with rfl | ht
      · exact ⟨_, hret, hrel⟩
      · exact hPl t ht
    | ret =>
      simp only [edges] at hes
      split at hes
      · rename_i hinit
        simp only [AbsState.init, AbsState.mk.injEq] at hinit
        obtain ⟨rfl, rfl, rfl⟩ := hinit
        cases hrel
        simp [step, hi]
      · simp at hes

/-- the invariant holds in every reachable state -/
theorem reach_inv {code : Code} {cert : Cert} (hc : checkCert code cert = true)
    {s t : VmState} (hs : Inv cert s) (h : Reach code s t) : Inv cert t := by
  induction h with
  | refl => exact hs
  | tail _ hstep hmem ih => exact (step_sound hc _ ih).2.2 _ hstep _ hmem

theorem init_inv {code : Code} {cert : Cert} (hc : checkCert code cert = true)
    {e : Nat} (he : e ∈ entries code) : Inv cert (initAt e) :=
  ⟨AbsState.init, entry_of_check hc he, .nil 0 0⟩

/-- the frame a certificate frame stands for in the outermost activation -/
def toR : FrameKind → RFrame
  | .withF => .withF
  | .loopF id v r => .loopF v (recOf id r) none

/-- no frame carries a recursion return address: the state belongs to the outermost activation -/
def noReturn : List RFrame → Bool
  | [] => true
  | .withF :: fs => noReturn fs
  | .loopF _ _ none :: fs => noReturn fs
  | .loopF _ _ (some _) :: _ => false

/-- in the outermost activation the machine state *is* the certified state -/
theorem Rel.outermost {cert : Cert} {G c e fs k m} (h : Rel cert G c e fs k m)
    (hn : noReturn fs = true) : fs = G.map toR ∧ k = c ∧ m = e := by
  induction h with
  | nil c e => exact ⟨rfl, rfl, rfl⟩
  | withF _ ih =>
    simp only [noReturn] at hn
    obtain ⟨h1, h2, h3⟩ := ih hn
    exact ⟨by simp [toR, h1], h2, h3⟩
  | plain id v r _ ih =>
    simp only [noReturn] at hn
    obtain ⟨h1, h2, h3⟩ := ih hn
    exact ⟨by simp [toR, h1], h2, h3⟩
  | recur t v rpc cap B0 B _ _ _ _ _ _ _ => simp [noReturn] at hn

end MJ.Bal
