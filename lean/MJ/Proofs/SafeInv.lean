import MJ.Proofs.Safe
/-! C02: the invariant is preserved by every operator/filter model and by every machine step. -/
namespace MJ.Safe

/-! ### case maps of the model create no metacharacter -/

theorem validChar_small {n : Nat} (h : n < 55296) : n.isValidChar := Or.inl h

theorem upperC_reflecting : MetaReflecting upperC := by
  intro c d hd hm
  unfold upperC at hd
  split at hd
  · simp only [List.mem_singleton] at hd; subst hd
    rw [isMeta_ofNat_false _ (by omega) (validChar_small (by omega))] at hm; cases hm
  · split at hd
    · simp only [List.mem_singleton] at hd; subst hd
      rw [isMeta_ofNat_false _ (by omega) (validChar_small (by omega))] at hm; cases hm
    · split at hd
      · have : d = 'S' := by simpa using hd
        subst this; cases hm
      · simp only [List.mem_singleton] at hd; subst hd; exact hm

theorem lowerC_reflecting : MetaReflecting lowerC := by
  intro c d hd hm
  unfold lowerC at hd
  split at hd
  · simp only [List.mem_singleton] at hd; subst hd
    rw [isMeta_ofNat_false _ (by omega) (validChar_small (by omega))] at hm; cases hm
  · split at hd
    · simp only [List.mem_singleton] at hd; subst hd
      rw [isMeta_ofNat_false _ (by omega) (validChar_small (by omega))] at hm; cases hm
    · simp only [List.mem_singleton] at hd; subst hd; exact hm

theorem clean_capitalizeStr {s : TStr} (hs : Clean s) : Clean (capitalizeStr s) := by
  unfold capitalizeStr
  split
  · exact Clean.nil
  · rename_i c rest
    apply Clean.append
    · exact clean_mapChars upperC_reflecting (hs.mono fun ch h => by
        simp only [List.mem_singleton] at h; subst h; exact List.mem_cons_self)
    · exact clean_mapChars lowerC_reflecting (hs.mono fun ch h => List.mem_cons_of_mem _ h)

/-! ### `Inv` of containers -/

theorem invL_iff {xs : List V} : V.InvL xs ↔ ∀ x ∈ xs, x.Inv := by
  induction xs with
  | nil => simp [V.InvL]
  | cons x xs ih => simp [V.InvL, ih]

theorem inv_seq {xs : List V} : (V.seq xs).Inv ↔ ∀ x ∈ xs, x.Inv := by
  simp only [V.Inv]; exact invL_iff

theorem inv_str_false (s : TStr) : (V.str s false).Inv := by simp [V.Inv]
theorem inv_str_true {s : TStr} (h : Clean s) : (V.str s true).Inv := by simp [V.Inv]; exact h
theorem inv_str {s : TStr} {b : Bool} (h : b = true → Clean s) : (V.str s b).Inv := by simpa [V.Inv] using h
theorem clean_of_inv {s : TStr} (h : (V.str s true).Inv) : Clean s := by simpa [V.Inv] using h
theorem inv_int (n : Int) : (V.int n).Inv := by simp [V.Inv]
theorem inv_undef : V.undef.Inv := by simp [V.Inv]
theorem inv_none : V.none.Inv := by simp [V.Inv]
theorem inv_bool (b : Bool) : (V.bool b).Inv := by simp [V.Inv]

/-! ### what the engine writes in Html mode is clean -/

theorem inv_bytes (bs : List Nat) : (V.bytes bs).Inv := by simp [V.Inv]
theorem inv_obj (t : TStr) : (V.obj t).Inv := by simp [V.Inv]

/-- whatever the kind of the value: in Html mode the escaping dispatch writes no metacharacter
    (strings and bytes through the escaper, containers and objects through the escaper applied to
    their text, numbers / booleans / none / undefined have no metacharacter in their text) -/
theorem writeHtml_noMeta_nonstr (v : V) : NoMeta (writeHtml v) := by
  cases v with
  | str s safe => exact escapeStr_noMeta s
  | seq xs => exact htmlEscape_noMeta _
  | map kvs => exact htmlEscape_noMeta _
  | bytes bs =>
    simp only [writeHtml]
    split
    · exact escapeStr_noMeta _
    · exact htmlEscape_noMeta _
  | float cs =>
    apply ofDataL_noMeta
    intro c hc
    have := (List.mem_filter.mp hc).2
    cases h : isMeta c <;> simp [h] at this ⊢
  | obj t => exact htmlEscape_noMeta _
  | int n => exact ofDataL_noMeta (intChars_noMeta n)
  | bool b =>
    cases b
    · exact ofData_noMeta (by decide)
    · exact ofData_noMeta (by decide)
  | none => exact ofData_noMeta (by decide)
  | undef => exact NoMeta.nil

/-- `write_escaped` in Html mode writes no metacharacter that came from data -/
theorem writeEscaped_html_clean {v : V} (hv : v.Inv) : Clean (writeEscaped .html v) := by
  unfold writeEscaped
  split
  · exact clean_of_inv hv
  · exact (writeHtml_noMeta_nonstr v).clean

theorem escapeWrite_html_noMeta (v : V) : NoMeta (escapeWrite .html v) := writeHtml_noMeta_nonstr v

theorem strIn_format_clean {v : V} (hv : v.Inv) : Clean ((StrIn.ofV v).format .html) := by
  unfold StrIn.format
  split
  · rename_i hsafe
    cases v with
    | str s safe =>
      simp only [StrIn.ofV] at hsafe ⊢
      subst hsafe; exact clean_of_inv hv
    | _ => simp [StrIn.ofV] at hsafe
  · exact (escapeWrite_html_noMeta _).clean

/-! ### operators and filters preserve the invariant -/

/-- `g` maps arguments satisfying the invariant to a result satisfying it -/
def InvPreserving (g : Fn) : Prop := ∀ args r, (∀ a ∈ args, a.Inv) → g args = some r → r.Inv

/-- a string function that adds no data-tainted metacharacter -/
def Reflects (g : TStr → TStr) : Prop := ∀ s, Clean s → Clean (g s)

/-- every piece consists of characters of the input -/
def SubPieces (g : TStr → List TStr) : Prop := ∀ s, ∀ p ∈ g s, ∀ ch ∈ p, ch ∈ s

mutual
/-- the `Safe` string leaves of a value -/
def V.safeLeaves : V → List TStr
  | .str s true => [s]
  | .seq xs => V.safeLeavesL xs
  | .map kvs => V.safeLeavesM kvs
  | _ => []
def V.safeLeavesL : List V → List TStr
  | [] => []
  | x :: xs => x.safeLeaves ++ V.safeLeavesL xs
def V.safeLeavesM : List (String × V) → List TStr
  | [] => []
  | (_, v) :: kvs => v.safeLeaves ++ V.safeLeavesM kvs
end

theorem mem_safeLeavesL {xs : List V} {l : TStr} : l ∈ V.safeLeavesL xs ↔ ∃ x ∈ xs, l ∈ x.safeLeaves := by
  induction xs with
  | nil => simp [V.safeLeavesL]
  | cons x xs ih => simp [V.safeLeavesL, ih]

mutual
theorem inv_iff_leaves : ∀ v : V, v.Inv ↔ ∀ l ∈ v.safeLeaves, Clean l
  | .str s true => by simp [V.Inv, V.safeLeaves]
  | .str s false => by simp [V.Inv, V.safeLeaves]
  | .int _ => by simp [V.Inv, V.safeLeaves]
  | .bool _ => by simp [V.Inv, V.safeLeaves]
  | .none => by simp [V.Inv, V.safeLeaves]
  | .undef => by simp [V.Inv, V.safeLeaves]
  | .bytes _ => by simp [V.Inv, V.safeLeaves]
  | .float _ => by simp [V.Inv, V.safeLeaves]
  | .obj _ => by simp [V.Inv, V.safeLeaves]
  | .seq xs => by simp only [V.Inv, V.safeLeaves]; exact invL_iff_leaves xs
  | .map kvs => by simp only [V.Inv, V.safeLeaves]; exact invM_iff_leaves kvs
theorem invM_iff_leaves : ∀ kvs : List (String × V), V.InvM kvs ↔ ∀ l ∈ V.safeLeavesM kvs, Clean l
  | [] => by simp [V.InvM, V.safeLeavesM]
  | (k, v) :: kvs => by
    simp only [V.InvM, V.safeLeavesM, List.mem_append]
    rw [inv_iff_leaves v, invM_iff_leaves kvs]
    constructor
    · rintro ⟨h1, h2⟩ l (h | h)
      · exact h1 l h
      · exact h2 l h
    · intro h; exact ⟨fun l hl => h l (Or.inl hl), fun l hl => h l (Or.inr hl)⟩
theorem invL_iff_leaves : ∀ xs : List V, V.InvL xs ↔ ∀ l ∈ V.safeLeavesL xs, Clean l
  | [] => by simp [V.InvL, V.safeLeavesL]
  | x :: xs => by
    simp only [V.InvL, V.safeLeavesL, List.mem_append]
    rw [inv_iff_leaves x, invL_iff_leaves xs]
    constructor
    · rintro ⟨h1, h2⟩ l (h | h)
      · exact h1 l h
      · exact h2 l h
    · intro h; exact ⟨fun l hl => h l (Or.inl hl), fun l hl => h l (Or.inr hl)⟩
end

/-- class `forward`: every `Safe` leaf of the result is a `Safe` leaf of an argument (the filter
    returns arguments, parts of containers, or containers of them; anything else it creates is
    unmarked) -/
def Forwards (g : Fn) : Prop := ∀ args r, g args = some r → ∀ l ∈ r.safeLeaves, l ∈ V.safeLeavesL args

mutual
/-- all string leaves of a value with their bits -/
def V.strLeaves : V → List (TStr × Bool)
  | .str s b => [(s, b)]
  | .seq xs => V.strLeavesL xs
  | .map kvs => V.strLeavesM kvs
  | _ => []
def V.strLeavesL : List V → List (TStr × Bool)
  | [] => []
  | x :: xs => x.strLeaves ++ V.strLeavesL xs
def V.strLeavesM : List (String × V) → List (TStr × Bool)
  | [] => []
  | (_, v) :: kvs => v.strLeaves ++ V.strLeavesM kvs
end

mutual
theorem safeLeaves_iff : ∀ (v : V) (l : TStr), l ∈ v.safeLeaves ↔ (l, true) ∈ v.strLeaves
  | .str s true, l => by simp [V.safeLeaves, V.strLeaves]
  | .str s false, l => by simp [V.safeLeaves, V.strLeaves]
  | .int _, l => by simp [V.safeLeaves, V.strLeaves]
  | .bool _, l => by simp [V.safeLeaves, V.strLeaves]
  | .none, l => by simp [V.safeLeaves, V.strLeaves]
  | .undef, l => by simp [V.safeLeaves, V.strLeaves]
  | .bytes _, l => by simp [V.safeLeaves, V.strLeaves]
  | .float _, l => by simp [V.safeLeaves, V.strLeaves]
  | .obj _, l => by simp [V.safeLeaves, V.strLeaves]
  | .seq xs, l => by simp only [V.safeLeaves, V.strLeaves]; exact safeLeavesL_iff xs l
  | .map kvs, l => by simp only [V.safeLeaves, V.strLeaves]; exact safeLeavesM_iff kvs l
theorem safeLeavesL_iff : ∀ (xs : List V) (l : TStr), l ∈ V.safeLeavesL xs ↔ (l, true) ∈ V.strLeavesL xs
  | [], l => by simp [V.safeLeavesL, V.strLeavesL]
  | x :: xs, l => by
    simp only [V.safeLeavesL, V.strLeavesL, List.mem_append]
    rw [safeLeaves_iff x l, safeLeavesL_iff xs l]
theorem safeLeavesM_iff : ∀ (kvs : List (String × V)) (l : TStr), l ∈ V.safeLeavesM kvs ↔ (l, true) ∈ V.strLeavesM kvs
  | [], l => by simp [V.safeLeavesM, V.strLeavesM]
  | (k, v) :: kvs, l => by
    simp only [V.safeLeavesM, V.strLeavesM, List.mem_append]
    rw [safeLeaves_iff v l, safeLeavesM_iff kvs l]
end

/-- class `select`: every string leaf of the result — text **and** bit — is a string leaf of an
    argument: the filter only selects, reorders or regroups what it was given -/
def Selects (g : Fn) : Prop := ∀ args r, g args = some r → ∀ l ∈ r.strLeaves, l ∈ V.strLeavesL args

theorem selects_forwards {g : Fn} (h : Selects g) : Forwards g := by
  intro args r hr l hl
  exact (safeLeavesL_iff args l).mpr (h args r hr (l, true) ((safeLeaves_iff r l).mp hl))

/-- class `normal`: the result has no `Safe` leaf at all -/
def NormalOut (g : Fn) : Prop := ∀ args r, g args = some r → r.safeLeaves = []

theorem forwards_inv {g : Fn} (h : Forwards g) : InvPreserving g := by
  intro args r hargs hr
  rw [inv_iff_leaves]
  intro l hl
  obtain ⟨x, hx, hlx⟩ := mem_safeLeavesL.mp (h args r hr l hl)
  exact (inv_iff_leaves x).mp (hargs x hx) l hlx

theorem normalOut_forwards {g : Fn} (h : NormalOut g) : Forwards g := by
  intro args r hr l hl; rw [h args r hr] at hl; cases hl

theorem normalOut_inv {g : Fn} (h : NormalOut g) : InvPreserving g := forwards_inv (normalOut_forwards h)

theorem normalF_normalOut (g : List V → TStr) : NormalOut (normalF g) := by
  intro args r hr; simp only [normalF, Option.some.injEq] at hr; subst hr; simp [V.safeLeaves]

theorem concatF_inv : InvPreserving concatF := by
  intro args r _ hr
  unfold concatF at hr
  split at hr
  · cases hr; exact inv_str_false _
  · cases hr

theorem addF_inv : InvPreserving addF := by
  intro args r _ hr
  unfold addF at hr
  split at hr
  · cases hr; exact inv_str_false _
  · cases hr

theorem repeatF_inv (n : Nat) : InvPreserving (repeatF n) := by
  intro args r _ hr
  unfold repeatF at hr
  split at hr
  · cases hr; exact inv_str_false _
  · cases hr

theorem sliceF_inv (a b : Nat) : InvPreserving (sliceF a b) := by
  intro args r hargs hr
  unfold sliceF at hr
  split at hr
  · cases hr; exact inv_str_false _
  · rename_i xs
    cases hr
    have := inv_seq.mp (hargs (.seq xs) (by simp))
    exact inv_seq.mpr fun x hx => this x (List.mem_of_mem_drop (List.mem_of_mem_take hx))
  · cases hr; exact inv_bytes _
  · cases hr; exact inv_seq.mpr (by intro x hx; cases hx)
  · cases hr; exact inv_seq.mpr (by intro x hx; cases hx)
  · cases hr

theorem elemF_inv (k : Nat) : InvPreserving (elemF k) := by
  intro args r hargs hr
  unfold elemF at hr
  split at hr
  · cases hr
    split
    · exact inv_str_false _
    · exact inv_undef
  · rename_i xs
    cases hr
    have := inv_seq.mp (hargs (.seq xs) (by simp))
    cases hk : xs[k]? with
    | none => simp only [Option.getD_none]; exact inv_undef
    | some x => simp only [Option.getD_some]; exact this x (List.mem_of_getElem? hk)
  · cases hr

theorem charsF_inv : InvPreserving charsF := by
  intro args r hargs hr
  unfold charsF at hr
  split at hr
  · cases hr
    apply inv_seq.mpr
    intro x hx
    simp only [List.mem_map] at hx
    obtain ⟨c, _, rfl⟩ := hx
    exact inv_str_false _
  · rename_i xs; cases hr; exact hargs (.seq xs) (by simp)
  · cases hr
    apply inv_seq.mpr
    intro x hx
    simp only [List.mem_map] at hx
    obtain ⟨c, _, rfl⟩ := hx
    exact inv_str_false _
  · cases hr; exact inv_seq.mpr (by intro x hx; cases hx)
  · cases hr; exact inv_seq.mpr (by intro x hx; cases hx)
  · cases hr

theorem invM_iff {kvs : List (String × V)} : V.InvM kvs ↔ ∀ kv ∈ kvs, kv.2.Inv := by
  induction kvs with
  | nil => simp [V.InvM]
  | cons kv kvs ih => obtain ⟨k, v⟩ := kv; simp [V.InvM, ih]

theorem inv_map {kvs : List (String × V)} : (V.map kvs).Inv ↔ ∀ kv ∈ kvs, kv.2.Inv := by
  simp only [V.Inv]; exact invM_iff

theorem lookup_mem_pair {kvs : List (String × V)} {k : String} {v : V} (h : kvs.lookup k = some v) :
    (k, v) ∈ kvs ∨ ∃ k', (k', v) ∈ kvs := by
  induction kvs with
  | nil => simp [List.lookup] at h
  | cons p ps ih =>
    obtain ⟨a, b⟩ := p
    simp only [List.lookup] at h
    split at h
    · cases h; exact Or.inr ⟨a, List.mem_cons_self⟩
    · rcases ih h with h | ⟨k', h⟩
      · exact Or.inl (List.mem_cons_of_mem _ h)
      · exact Or.inr ⟨k', List.mem_cons_of_mem _ h⟩

theorem attrF_inv (key : String) : InvPreserving (attrF key) := by
  intro args r hargs hr
  unfold attrF at hr
  split at hr
  · rename_i kvs
    cases hr
    have hm := inv_map.mp (hargs (.map kvs) (by simp))
    cases hl : kvs.lookup key with
    | none => exact inv_undef
    | some v =>
      simp only [Option.getD_some]
      rcases lookup_mem_pair hl with h | ⟨k', h⟩
      · exact hm _ h
      · exact hm _ h
  · cases hr
  · cases hr; exact inv_undef
  · cases hr

theorem itemsF_inv : InvPreserving itemsF := by
  intro args r hargs hr
  unfold itemsF at hr
  split at hr
  · rename_i kvs
    cases hr
    have hm := inv_map.mp (hargs (.map kvs) (by simp))
    apply inv_seq.mpr
    intro x hx
    simp only [List.mem_map] at hx
    obtain ⟨kv, hkv, rfl⟩ := hx
    apply inv_seq.mpr
    intro y hy
    simp only [List.mem_cons, List.not_mem_nil, or_false] at hy
    rcases hy with rfl | rfl
    · exact inv_str_false _
    · exact hm kv hkv
  · cases hr

theorem strStripF_inv (side : Nat) : InvPreserving (strStripF side) := by
  intro args r _ hr
  unfold strStripF at hr
  split at hr <;> first | (cases hr; exact inv_str_false _) | cases hr

theorem strMapF_inv (g : TStr → TStr) : InvPreserving (strMapF g) := by
  intro args r _ hr
  unfold strMapF at hr
  split at hr <;> first | (cases hr; exact inv_str_false _) | cases hr

theorem strReplaceF_inv : InvPreserving strReplaceF := by
  intro args r _ hr
  unfold strReplaceF at hr
  split at hr <;> first | (cases hr; exact inv_str_false _) | cases hr

theorem strJoinF_inv : InvPreserving strJoinF := by
  intro args r _ hr
  unfold strJoinF at hr
  split at hr
  · simp only [Option.map_eq_some_iff] at hr
    obtain ⟨items, _, rfl⟩ := hr
    exact inv_str_false _
  · cases hr

theorem strSplitlinesF_inv : InvPreserving strSplitlinesF := by
  intro args r _ hr
  unfold strSplitlinesF at hr
  split at hr
  · cases hr
    apply inv_seq.mpr
    intro x hx
    simp only [List.mem_map] at hx
    obtain ⟨l, _, rfl⟩ := hx
    exact inv_str_false _
  · cases hr

theorem dictValuesF_inv : InvPreserving dictValuesF := by
  intro args r hargs hr
  unfold dictValuesF at hr
  split at hr
  · rename_i kvs
    cases hr
    have hm := inv_map.mp (hargs (.map kvs) (by simp))
    apply inv_seq.mpr
    intro x hx
    simp only [List.mem_map] at hx
    obtain ⟨kv, hkv, rfl⟩ := hx
    exact hm kv hkv
  · cases hr

theorem lookup_getD_inv {kvs : List (String × V)} {k : String} {d : V} (hm : ∀ kv ∈ kvs, kv.2.Inv) (hd : d.Inv) :
    ((kvs.lookup k).getD d).Inv := by
  cases hl : kvs.lookup k with
  | none => exact hd
  | some v =>
    simp only [Option.getD_some]
    rcases lookup_mem_pair hl with h | ⟨k', h⟩
    · exact hm _ h
    · exact hm _ h

theorem dictGetF_inv : InvPreserving dictGetF := by
  intro args r hargs hr
  unfold dictGetF at hr
  split at hr
  · rename_i kvs k _
    cases hr
    exact lookup_getD_inv (inv_map.mp (hargs (.map kvs) (by simp))) inv_none
  · rename_i kvs k _ d
    cases hr
    have hd : (optArg d).Inv := by
      have := hargs d (by simp)
      cases d <;> simp only [optArg] <;> first | exact this | exact inv_none
    exact lookup_getD_inv (inv_map.mp (hargs (.map kvs) (by simp))) hd
  · cases hr

/-! ### filters that select / reorder input elements -/

theorem mem_insertBy {cs : Bool} {x y : V} : ∀ {l : List V}, y ∈ insertBy cs x l → y = x ∨ y ∈ l := by
  intro l
  induction l with
  | nil => intro h; simp only [insertBy, List.mem_singleton] at h; exact Or.inl h
  | cons z zs ih =>
    intro h
    simp only [insertBy] at h
    split at h
    · rcases List.mem_cons.mp h with rfl | h
      · exact Or.inr List.mem_cons_self
      · rcases ih h with h | h
        · exact Or.inl h
        · exact Or.inr (List.mem_cons_of_mem _ h)
    · rcases List.mem_cons.mp h with rfl | h
      · exact Or.inl rfl
      · exact Or.inr h

theorem mem_sortVs {cs : Bool} {y : V} : ∀ {xs : List V}, y ∈ sortVs cs xs → y ∈ xs := by
  intro xs
  induction xs with
  | nil => intro h; simp [sortVs] at h
  | cons x xs ih =>
    intro h
    simp only [sortVs, List.foldr_cons] at h
    rcases mem_insertBy h with rfl | h
    · exact List.mem_cons_self
    · exact List.mem_cons_of_mem _ (ih h)

theorem sortF_inv (cs rev : Bool) : InvPreserving (sortF cs rev) := by
  intro args r hargs hr
  unfold sortF at hr
  split at hr
  · rename_i xs
    split at hr
    · cases hr
      have := inv_seq.mp (hargs (.seq xs) (by simp))
      apply inv_seq.mpr
      intro y hy
      split at hy
      · exact this y (List.mem_reverse.mp (mem_sortVs (List.mem_reverse.mp hy)))
      · exact this y (mem_sortVs hy)
    · cases hr
  · cases hr

theorem minVs_mem : ∀ {xs : List V} {m : V}, minVs xs = some m → m ∈ xs := by
  intro xs
  induction xs with
  | nil => intro m h; simp [minVs] at h
  | cons x xs ih =>
    intro m h
    simp only [minVs] at h
    split at h
    · cases h; exact List.mem_cons_self
    · rename_i m0 hm0
      split at h
      · cases h; exact List.mem_cons_of_mem _ (ih hm0)
      · cases h; exact List.mem_cons_self

theorem maxVs_mem : ∀ {xs : List V} {m : V}, maxVs xs = some m → m ∈ xs := by
  intro xs
  induction xs with
  | nil => intro m h; simp [maxVs] at h
  | cons x xs ih =>
    intro m h
    simp only [maxVs] at h
    split at h
    · cases h; exact List.mem_cons_self
    · rename_i m0 hm0
      split at h
      · cases h; exact List.mem_cons_self
      · cases h; exact List.mem_cons_of_mem _ (ih hm0)

theorem minF_inv : InvPreserving minF := by
  intro args r hargs hr
  unfold minF at hr
  split at hr
  · rename_i xs
    split at hr
    · cases hr
      have := inv_seq.mp (hargs (.seq xs) (by simp))
      cases hm : minVs xs with
      | none => exact inv_undef
      | some m => exact this m (minVs_mem hm)
    · cases hr
  · cases hr

theorem maxF_inv : InvPreserving maxF := by
  intro args r hargs hr
  unfold maxF at hr
  split at hr
  · rename_i xs
    split at hr
    · cases hr
      have := inv_seq.mp (hargs (.seq xs) (by simp))
      cases hm : maxVs xs with
      | none => exact inv_undef
      | some m => exact this m (maxVs_mem hm)
    · cases hr
  · cases hr

theorem selectF_inv (inv : Bool) : InvPreserving (selectF inv) := by
  intro args r hargs hr
  unfold selectF at hr
  split at hr
  · rename_i xs
    cases hr
    have := inv_seq.mp (hargs (.seq xs) (by simp))
    exact inv_seq.mpr fun y hy => this y (List.mem_filter.mp hy).1
  · cases hr

theorem mem_chunks {n : Nat} {y : V} : ∀ (fuel : Nat) (xs c : List V), c ∈ chunks fuel n xs → y ∈ c → y ∈ xs := by
  intro fuel
  induction fuel with
  | zero => intro xs c h; simp [chunks] at h
  | succ fuel ih =>
    intro xs c h hy
    simp only [chunks] at h
    split at h
    · cases h
    · rcases List.mem_cons.mp h with rfl | h
      · exact List.mem_of_mem_take hy
      · exact List.mem_of_mem_drop (ih _ c h hy)

theorem batchF_inv (n : Nat) : InvPreserving (batchF n) := by
  have go : ∀ (xs : List V) (fill : Option V) (r : V), (∀ x ∈ xs, x.Inv) → (∀ f, fill = some f → f.Inv) →
      (if n = 0 then Option.none else
        let cs := chunks xs.length n xs
        let cs := match fill, cs.reverse with
          | some f, last :: rest => (((last ++ List.replicate (n - last.length) f) :: rest).reverse)
          | _, _ => cs
        some (V.seq (cs.map V.seq))) = some r → r.Inv := by
    intro xs fill r hx hf hr
    split at hr
    · cases hr
    · simp only [Option.some.injEq] at hr
      subst hr
      apply inv_seq.mpr
      intro c hc
      simp only [List.mem_map] at hc
      obtain ⟨c0, hc0, rfl⟩ := hc
      apply inv_seq.mpr
      intro y hy
      split at hc0
      · rename_i f last rest hrev
        have hsub : ∀ q, q ∈ last :: rest → q ∈ chunks xs.length n xs := by
          intro q hq
          have : q ∈ (chunks xs.length n xs).reverse := by rw [hrev]; exact hq
          exact List.mem_reverse.mp this
        rcases List.mem_cons.mp (List.mem_reverse.mp hc0) with rfl | hc0
        · rcases List.mem_append.mp hy with hy | hy
          · exact hx y (mem_chunks _ _ _ (hsub _ List.mem_cons_self) hy)
          · rw [List.mem_replicate] at hy; rw [hy.2]; exact hf f rfl
        · exact hx y (mem_chunks _ _ _ (hsub _ (List.mem_cons_of_mem _ hc0)) hy)
      · exact hx y (mem_chunks _ _ _ hc0 hy)
  intro args r hargs hr
  unfold batchF at hr
  simp only at hr
  split at hr
  · rename_i xs
    exact go xs Option.none r (inv_seq.mp (hargs (.seq xs) (by simp))) (by intro f h; cases h) hr
  · rename_i xs
    exact go xs Option.none r (inv_seq.mp (hargs (.seq xs) (by simp))) (by intro f h; cases h) hr
  · rename_i xs
    exact go xs Option.none r (inv_seq.mp (hargs (.seq xs) (by simp))) (by intro f h; cases h) hr
  · rename_i xs f _ _
    exact go xs (some f) r (inv_seq.mp (hargs (.seq xs) (by simp))) (by intro f' h; cases h; exact hargs f (by simp)) hr
  · cases hr

theorem mem_uniqGo {y : V} : ∀ (xs : List V) (seen : List (List Nat)), y ∈ uniqGo seen xs → y ∈ xs := by
  intro xs
  induction xs with
  | nil => intro seen h; simp [uniqGo] at h
  | cons x xs ih =>
    intro seen h
    simp only [uniqGo] at h
    split at h
    · exact List.mem_cons_of_mem _ (ih _ h)
    · rcases List.mem_cons.mp h with rfl | h
      · exact List.mem_cons_self
      · exact List.mem_cons_of_mem _ (ih _ h)

theorem uniqueF_inv : InvPreserving uniqueF := by
  intro args r hargs hr
  unfold uniqueF at hr
  split at hr
  · rename_i xs
    split at hr
    · cases hr
      have := inv_seq.mp (hargs (.seq xs) (by simp))
      exact inv_seq.mpr fun y hy => this y (mem_uniqGo _ _ hy)
    · cases hr
  · cases hr

theorem attrArgF_inv : InvPreserving attrArgF := by
  intro args r hargs hr
  unfold attrArgF at hr
  split at hr
  · rename_i v k _
    exact attrF_inv _ [v] r (by intro a ha; simp at ha; subst ha; exact hargs _ (by simp)) hr
  · cases hr

theorem escapeF_inv : InvPreserving (escapeF .html) := by
  intro args r hargs hr
  unfold escapeF at hr
  split at hr
  · rename_i s; cases hr; exact hargs (.str s true) (by simp)
  · cases hr; exact inv_str_true (escapeWrite_html_noMeta _).clean
  · cases hr

theorem preserveF_inv {g : TStr → TStr} (hg : Reflects g) : InvPreserving (preserveF g) := by
  intro args r hargs hr
  unfold preserveF at hr
  split at hr
  · rename_i v rest
    cases hr
    have hv := hargs v (by simp)
    cases v with
    | str s safe =>
      simp only [StrIn.ofV, StrIn.preserve]
      apply inv_str; intro hs; subst hs; exact hg s (clean_of_inv hv)
    | _ => simp only [StrIn.ofV, StrIn.preserve]; exact inv_str_false _
  · cases hr

theorem reverseF_inv : InvPreserving reverseF := by
  intro args r hargs hr
  unfold reverseF at hr
  split at hr
  · rename_i s safe
    cases hr
    have hv := hargs (.str s safe) (by simp)
    apply inv_str; intro hs; subst hs
    exact (clean_of_inv hv).mono fun ch h => List.mem_reverse.mp h
  · rename_i xs
    cases hr
    have := inv_seq.mp (hargs (.seq xs) (by simp))
    exact inv_seq.mpr fun x hx => this x (List.mem_reverse.mp hx)
  · cases hr; exact inv_bytes _
  · cases hr; exact inv_undef
  · cases hr; exact inv_none
  · cases hr

theorem piecesF_inv {g : TStr → List TStr} (hg : SubPieces g) : InvPreserving (piecesF g) := by
  intro args r hargs hr
  unfold piecesF at hr
  split at hr
  · rename_i s safe rest
    cases hr
    have hv := hargs (.str s safe) (by simp)
    apply inv_seq.mpr
    intro x hx
    simp only [List.mem_map] at hx
    obtain ⟨p, hp, rfl⟩ := hx
    apply inv_str; intro hs; subst hs
    exact (clean_of_inv hv).mono (hg s p hp)
  · cases hr

theorem firstF_inv : InvPreserving firstF := by
  intro args r hargs hr
  unfold firstF at hr
  split at hr
  · cases hr
    split
    · exact inv_str_false _
    · exact inv_undef
  · rename_i xs
    cases hr
    have := inv_seq.mp (hargs (.seq xs) (by simp))
    cases xs with
    | nil => exact inv_undef
    | cons x xs => exact this x (by simp)
  · cases hr

theorem lastF_inv : InvPreserving lastF := by
  intro args r hargs hr
  unfold lastF at hr
  split at hr
  · rename_i s safe
    cases hr
    have hv := hargs (.str s safe) (by simp)
    split
    · rename_i c hc
      apply inv_str; intro hs; subst hs
      apply (clean_of_inv hv).mono
      intro ch h
      simp only [List.mem_singleton] at h; subst h
      exact List.mem_of_getLast? hc
    · exact inv_undef
  · rename_i xs
    cases hr
    have := inv_seq.mp (hargs (.seq xs) (by simp))
    cases hl : xs.getLast? with
    | none => exact inv_undef
    | some x => exact this x (List.mem_of_getLast? hl)
  · cases hr

theorem defaultF_inv (lax : Bool) : InvPreserving (defaultF lax) := by
  intro args r hargs hr
  unfold defaultF at hr
  split at hr
  · rename_i v
    cases hr
    have hv := hargs v (by simp)
    split
    · exact inv_str_false _
    · split
      · exact inv_str_false _
      · exact hv
  · rename_i v d
    cases hr
    have hv := hargs v (by simp)
    have hd := hargs d (by simp)
    split
    · exact hd
    · split
      · exact hd
      · exact hv
  · cases hr

theorem stringF_inv : InvPreserving stringF := by
  intro args r hargs hr
  unfold stringF at hr
  split at hr
  · rename_i s safe; cases hr; exact hargs (.str s safe) (by simp)
  · cases hr; exact inv_str_false _
  · cases hr

theorem lengthF_inv : InvPreserving lengthF := by
  intro args r _ hr
  unfold lengthF at hr
  split at hr <;> cases hr <;> exact inv_int _

theorem replaceF_inv : InvPreserving (replaceF .html) := by
  intro args r hargs hr
  unfold replaceF at hr
  split at hr
  · rename_i v f t
    simp only at hr
    split at hr
    · cases hr
      apply inv_str_true
      have h1 : Clean ((StrIn.ofV v).format .html) := strIn_format_clean (hargs v (by simp))
      have h2 : Clean ((StrIn.ofV t).format .html) := strIn_format_clean (hargs t (by simp))
      exact Clean.of_mem2 h1 h2 fun ch h => mem_replaceAll h
    · cases hr; exact inv_str_false _
  · cases hr

theorem stateFormat_html_clean {v : V} (hv : v.Inv) : Clean (stateFormat .html v) :=
  writeEscaped_html_clean hv

theorem isSafeV_display_clean {v : V} (hv : v.Inv) (h : isSafeV v = true) : Clean v.display := by
  cases v with
  | str s safe =>
    cases safe with
    | true => exact clean_of_inv hv
    | false => simp [isSafeV] at h
  | _ => simp [isSafeV] at h

theorem joinSafe_clean {items : List V} {joiner : TStr} (hi : ∀ x ∈ items, x.Inv) (hj : Clean joiner) :
    Clean (joinSafe .html items joiner) := by
  have item : ∀ x, x.Inv → Clean (if isSafeV x then x.display else stateFormat .html x) := by
    intro x hx
    split
    · exact isSafeV_display_clean hx (by assumption)
    · exact stateFormat_html_clean hx
  induction items with
  | nil => exact Clean.nil
  | cons x rest ih =>
    cases rest with
    | nil => exact item x (hi x (by simp))
    | cons y rest =>
      simp only [joinSafe]
      exact ((item x (hi x (by simp))).append hj).append (ih fun z hz => hi z (List.mem_cons_of_mem _ hz))

theorem iterItems_inv {v : V} {items : List V} (hv : v.Inv) (h : iterItems v = some items) :
    ∀ x ∈ items, x.Inv := by
  cases v with
  | seq xs => simp only [iterItems, Option.some.injEq] at h; subst h; exact inv_seq.mp hv
  | str s safe =>
    simp only [iterItems, Option.some.injEq] at h; subst h
    intro x hx
    simp only [List.mem_map] at hx
    obtain ⟨c, _, rfl⟩ := hx
    exact inv_str_false _
  | map kvs =>
    simp only [iterItems, Option.some.injEq] at h; subst h
    intro x hx
    simp only [List.mem_map] at hx
    obtain ⟨c, _, rfl⟩ := hx
    exact inv_str_false _
  | undef => simp only [iterItems, Option.some.injEq] at h; subst h; intro x hx; cases hx
  | none => simp only [iterItems, Option.some.injEq] at h; subst h; intro x hx; cases hx
  | _ => simp [iterItems] at h

theorem joinGo_inv {v : V} {j : Option StrIn} {r : V} (hv : v.Inv)
    (hj : joinerSafe j = true → Clean (joinerStr j))
    (hjf : Clean (joinerFmt .html j))
    (hr : joinGo .html v j = some r) : r.Inv := by
  unfold joinGo at hr
  split at hr
  · cases hr
  · rename_i items hit
    have hitems := iterItems_inv hv hit
    split at hr
    · cases hr; exact inv_str_false _
    · split at hr
      · rename_i hs
        cases hr
        exact inv_str_true (joinSafe_clean hitems (hj hs))
      · split at hr
        · cases hr
          exact inv_str_true (joinSafe_clean hitems hjf)
        · cases hr; exact inv_str_false _

theorem strIn_safe_clean {v : V} (hv : v.Inv) (h : (StrIn.ofV v).safe = true) : Clean (StrIn.ofV v).s := by
  cases v with
  | str s safe => simp only [StrIn.ofV] at h ⊢; subst h; exact clean_of_inv hv
  | _ => simp [StrIn.ofV] at h

theorem joinF_inv : InvPreserving (joinF .html) := by
  intro args r hargs hr
  unfold joinF at hr
  split at hr
  · rename_i v
    exact joinGo_inv (j := Option.none) (hargs v (by simp)) (by intro h; cases h) Clean.nil hr
  · rename_i v
    exact joinGo_inv (j := Option.none) (hargs v (by simp)) (by intro h; cases h) Clean.nil hr
  · rename_i v
    exact joinGo_inv (j := Option.none) (hargs v (by simp)) (by intro h; cases h) Clean.nil hr
  · rename_i v j _ _
    have hjv := hargs j (by simp)
    exact joinGo_inv (j := some (StrIn.ofV j)) (hargs v (by simp)) (fun hs => strIn_safe_clean hjv hs) (strIn_format_clean hjv) hr
  · cases hr


/-! ### `format` -/

/-- what may be handed to `FormatSpec::format` when the result is marked safe -/
def FmtOK : V → Prop
  | .int _ => True
  | .bool _ => True
  | v => Clean v.display

theorem pad_clean {sp : Spec} {t : TStr} (h : Clean t) : Clean (pad sp t) := by
  unfold pad; split
  · exact h.append (Clean.spaces _)
  · exact (Clean.spaces _).append h

theorem fmtStr_clean {sp : Spec} {d t : TStr} (hd : Clean d) (h : fmtStr sp d = some t) : Clean t := by
  unfold fmtStr at h
  split at h
  · cases h
    apply pad_clean
    split
    · exact hd.mono fun ch h => List.mem_of_mem_take h
    · exact hd
  · cases h

theorem fmtValue_clean {sp : Spec} {v : V} {t : TStr} (hv : FmtOK v) (h : fmtValue sp v = some t) : Clean t := by
  cases v with
  | int n =>
    simp only [fmtValue] at h
    split at h
    · cases h
    · cases h; exact pad_clean (ofDataL_noMeta (intChars_noMeta _)).clean
  | bool b =>
    simp only [fmtValue] at h
    split at h
    · cases h
      cases b
      · exact pad_clean (ofData_noMeta (by decide)).clean
      · exact pad_clean (ofData_noMeta (by decide)).clean
    · cases h
  | str s safe => exact fmtStr_clean hv h
  | none => exact fmtStr_clean hv h
  | undef => exact fmtStr_clean hv h
  | seq xs => exact fmtStr_clean hv h
  | map kvs => exact fmtStr_clean hv h
  | bytes bs => exact fmtStr_clean hv h
  | float cs => exact fmtStr_clean hv h
  | obj t => exact fmtStr_clean hv h

theorem mem_dropFlag {s : TStr} {ch : TChar} (h : ch ∈ (dropFlag s).2) : ch ∈ s := by
  unfold dropFlag at h
  split at h
  · split at h
    · exact List.mem_cons_of_mem _ h
    · exact h
  · exact h

theorem mem_parsePrec {s : TStr} {ch : TChar} (h : ch ∈ (parsePrec s).2) : ch ∈ s := by
  unfold parsePrec at h
  split at h
  · split at h
    · exact List.mem_cons_of_mem _ (mem_dropWhile h)
    · exact h
  · exact h

theorem parseSpec_rest {s rest : TStr} {sp : Spec} (h : parseSpec s = some (sp, rest)) :
    ∀ ch ∈ rest, ch ∈ s := by
  intro ch hc
  unfold parseSpec at h
  simp only at h
  split at h
  · rename_i c r heq
    split at h
    · simp only [Option.some.injEq, Prod.mk.injEq] at h
      obtain ⟨_, rfl⟩ := h
      have : ch ∈ (parsePrec ((dropFlag s).2.dropWhile isDig)).2 := by
        rw [heq]; exact List.mem_cons_of_mem _ hc
      exact mem_dropFlag (mem_dropWhile (mem_parsePrec this))
    · cases h
  · cases h

theorem printfGo_clean {tr : V → Char → Option V}
    (htr : ∀ a ty a', tr a ty = some a' → a.Inv → FmtOK a') :
    ∀ (fuel : Nat) (f : TStr) (args : List V) (r : TStr), Clean f → (∀ a ∈ args, a.Inv) →
      printfGo tr fuel f args = some r → Clean r := by
  intro fuel
  induction fuel with
  | zero => intro f args r _ _ h; simp [printfGo] at h
  | succ fuel ih =>
    intro f args r hf hargs h
    cases f with
    | nil => simp only [printfGo, Option.some.injEq] at h; subst h; exact Clean.nil
    | cons c rest =>
      have hc : c.t = .data → isMeta c.c = false := hf c List.mem_cons_self
      have hrest : Clean rest := hf.mono fun ch h => List.mem_cons_of_mem _ h
      simp only [printfGo] at h
      split at h
      · split at h
        · rename_i d rest'
          have hrest' : Clean rest' := hrest.mono fun ch h => List.mem_cons_of_mem _ h
          split at h
          · simp only [Option.map_eq_some_iff] at h
            obtain ⟨t, ht, rfl⟩ := h
            exact Clean.cons hc (ih rest' args t hrest' hargs ht)
          · split at h
            · cases h
            · rename_i sp rest'' hps
              split at h
              · cases h
              · rename_i a args'
                split at h
                · cases h
                · rename_i a' hta
                  split at h
                  · cases h
                  · rename_i t hfv
                    simp only [Option.map_eq_some_iff] at h
                    obtain ⟨t2, ht2, rfl⟩ := h
                    have ht : Clean t := fmtValue_clean (htr a sp.ty a' hta (hargs a List.mem_cons_self)) hfv
                    have hr'' : Clean rest'' := by
                      -- the rest after the spec is a suffix of the format string
                      apply hrest.mono
                      intro ch hch
                      exact parseSpec_rest hps ch hch
                    exact ht.append (ih rest'' args' t2 hr'' (fun x hx => hargs x (List.mem_cons_of_mem _ hx)) ht2)
        · cases h
      · simp only [Option.map_eq_some_iff] at h
        obtain ⟨t, ht, rfl⟩ := h
        exact Clean.cons hc (ih rest args t hrest hargs ht)

theorem formatF_inv : InvPreserving (formatF .html) := by
  intro args r hargs hr
  unfold formatF at hr
  split at hr
  · rename_i f safe rest
    split at hr
    · rename_i hs
      subst hs
      simp only [Option.map_eq_some_iff] at hr
      obtain ⟨t, ht, rfl⟩ := hr
      apply inv_str_true
      refine printfGo_clean ?_ _ f rest t (clean_of_inv (hargs _ List.mem_cons_self))
        (fun a ha => hargs a (List.mem_cons_of_mem _ ha)) ht
      intro a ty a' h ha
      split at h
      · cases h
      · split at h
        · rename_i hsc
          cases h
          cases a with
          | int n => trivial
          | bool b => trivial
          | str s safe =>
            cases safe with
            | true => exact clean_of_inv ha
            | false => simp [isSafeV, isScalar] at hsc
          | none => simp [isSafeV, isScalar] at hsc
          | undef => simp [isSafeV, isScalar] at hsc
          | seq xs => simp [isSafeV, isScalar] at hsc
          | map kvs => simp [isSafeV, isScalar] at hsc
          | bytes bs => simp [isSafeV, isScalar] at hsc
          | float cs => simp [isSafeV, isScalar] at hsc
          | obj t => simp [isSafeV, isScalar] at hsc
        · cases h
          exact (escapeWrite_html_noMeta _).clean
    · simp only [Option.map_eq_some_iff] at hr
      obtain ⟨t, _, rfl⟩ := hr
      exact inv_str_false _
  · cases hr

/-! ### contrib `truncate` -/

theorem truncateF_inv (length leeway : Nat) (kw : Bool) : InvPreserving (truncateF .html length leeway kw) := by
  intro args r hargs hr
  unfold truncateF at hr
  split at hr
  · rename_i v e
    split at hr
    · cases hr; exact inv_str_false _
    · cases hr; exact inv_str_false _
    · rename_i s vsafe es esafe
      have hv := hargs (.str s vsafe) (by simp)
      have he := hargs (.str es esafe) (by simp)
      split at hr
      · cases hr
      · split at hr
        · cases hr; exact hv
        · simp only at hr
          split at hr
          · cases hr
            apply inv_str_true
            have hcut : ∀ ch, ch ∈ (if kw = true then s.take (length - es.length)
                else match ((s.take (length - es.length)).reverse.dropWhile (fun c => c.c != ' ')) with
                  | _ :: r => r.reverse
                  | [] => s.take (length - es.length)) → ch ∈ s := by
              intro ch h
              split at h
              · exact List.mem_of_mem_take h
              · split at h
                · rename_i x r hx
                  have : ch ∈ (List.take (length - es.length) s).reverse.dropWhile (fun c => c.c != ' ') := by
                    rw [hx]; exact List.mem_cons_of_mem _ (List.mem_reverse.mp h)
                  exact List.mem_of_mem_take (List.mem_reverse.mp (mem_dropWhile this))
                · exact List.mem_of_mem_take h
            apply Clean.append
            · split
              · rename_i hvs; subst hvs
                exact (clean_of_inv hv).mono hcut
              · exact (escapeWrite_html_noMeta _).clean
            · split
              · rename_i hes; subst hes
                exact clean_of_inv he
              · exact (escapeWrite_html_noMeta _).clean
          · cases hr; exact inv_str_false _
    · cases hr
  · cases hr

/-! ### `map(filter)` and argument lookup -/

theorem mapM_all {α β : Type} {f : α → Option β} {P : β → Prop} :
    ∀ {l : List α} {r : List β}, l.mapM f = some r → (∀ a ∈ l, ∀ b, f a = some b → P b) → ∀ b ∈ r, P b := by
  intro l
  induction l with
  | nil => intro r h _ b hb; simp at h; subst h; cases hb
  | cons a l ih =>
    intro r h hp b hb
    simp only [List.mapM_cons, Option.bind_eq_bind, Option.bind_eq_some_iff] at h
    obtain ⟨b0, hb0, bs, hbs, hr⟩ := h
    simp only [Option.pure_def, Option.some.injEq] at hr
    subst hr
    rcases List.mem_cons.mp hb with rfl | hb
    · exact hp a List.mem_cons_self _ hb0
    · exact ih hbs (fun a' ha' => hp a' (List.mem_cons_of_mem _ ha')) b hb

theorem mapF_inv {g : Fn} (hg : InvPreserving g) : InvPreserving (mapF g) := by
  intro args r hargs hr
  unfold mapF at hr
  split at hr
  · rename_i v extra
    split at hr
    · cases hr
    · rename_i items hit
      simp only [Option.map_eq_some_iff] at hr
      obtain ⟨rs, hrs, rfl⟩ := hr
      have hitems := iterItems_inv (hargs v List.mem_cons_self) hit
      apply inv_seq.mpr
      refine mapM_all (P := V.Inv) hrs ?_
      intro it hit' b hb
      apply hg _ _ _ hb
      intro a ha
      rcases List.mem_cons.mp ha with rfl | ha
      · exact hitems _ hit'
      · exact hargs a (List.mem_cons_of_mem _ ha)
  · cases hr

/-! ### concrete string functions of the classes -/

theorem reflects_mapChars {f : Char → List Char} (hf : MetaReflecting f) : Reflects (mapChars f) :=
  fun _ hs => clean_mapChars hf hs

theorem reflects_capitalize : Reflects capitalizeStr := fun _ hs => clean_capitalizeStr hs

theorem reflects_trimBy (p : Char → Bool) : Reflects (trimBy p) :=
  fun _ hs => hs.mono fun _ h => mem_trimBy h

theorem reflects_indent (w : Nat) (first blank : Bool) : Reflects (fun s => indentStr s w first blank) :=
  fun _ hs => clean_indentStr w first blank hs

/-- any function returning a sub-multiset of its input -/
theorem reflects_of_sub {g : TStr → TStr} (h : ∀ s, ∀ ch ∈ g s, ch ∈ s) : Reflects g :=
  fun s hs => hs.mono (h s)

theorem subPieces_split (sep : TStr) (left : Nat) : SubPieces (fun s => splitGo sep left 0 [] s) := by
  intro s p hp ch hc
  rcases mem_splitGo (sep := sep) s [] left 0 p hp hc with h | h
  · cases h
  · exact h

theorem subPieces_splitWs : SubPieces (splitWsGo []) := by
  intro s p hp ch hc
  rcases mem_splitWsGo s [] p hp hc with h | h
  · cases h
  · exact h

theorem subPieces_lines : SubPieces linesOf := fun _ _ hp _ hc => mem_linesOf hp hc

theorem trimF_inv : InvPreserving trimF := by
  intro args r hargs hr
  unfold trimF at hr
  split at hr
  · exact preserveF_inv (reflects_trimBy _) _ r (by intro a ha; exact hargs a (by simpa using ha)) hr
  · exact preserveF_inv (reflects_trimBy _) _ r (by intro a ha; simp at ha; subst ha; exact hargs _ (by simp)) hr
  · exact preserveF_inv (reflects_trimBy _) _ r (by intro a ha; simp at ha; subst ha; exact hargs _ (by simp)) hr
  · exact preserveF_inv (reflects_trimBy _) _ r (by intro a ha; simp at ha; subst ha; exact hargs _ (by simp)) hr
  · cases hr

theorem splitF_inv (left : Nat) : InvPreserving (splitF left) := by
  intro args r hargs hr
  unfold splitF at hr
  split at hr
  · exact piecesF_inv subPieces_splitWs _ r (by intro a ha; exact hargs a (by simpa using ha)) hr
  · exact piecesF_inv subPieces_splitWs _ r (by intro a ha; simp at ha; subst ha; exact hargs _ (by simp)) hr
  · exact piecesF_inv subPieces_splitWs _ r (by intro a ha; simp at ha; subst ha; exact hargs _ (by simp)) hr
  · simp only at hr
    split at hr
    · cases hr
    · exact piecesF_inv (subPieces_split _ _) _ r (by intro a ha; simp at ha; subst ha; exact hargs _ (by simp)) hr
  · cases hr

theorem randomF_inv (k : Nat) : InvPreserving (randomF k) := by
  intro args r hargs hr
  unfold randomF at hr
  split at hr
  · rename_i s safe
    cases hr
    split
    · rename_i c hc
      have hs := hargs (.str s safe) (by simp)
      refine inv_str fun hsafe => ?_
      subst hsafe
      have hcl := clean_of_inv hs
      intro ch hch
      simp only [List.mem_singleton] at hch
      subst hch
      exact hcl ch (List.mem_of_getElem? hc)
    · exact inv_undef
  · rename_i xs
    cases hr
    have hx := inv_seq.mp (hargs (.seq xs) (by simp))
    cases h : xs[k]? with
    | none => simpa using inv_undef
    | some v => simpa using hx v (List.mem_of_getElem? h)
  · cases hr

theorem lipsumF_inv (html : Bool) (cps : List Nat) : InvPreserving (lipsumF html cps) := by
  intro args r _ hr
  simp only [lipsumF, Option.some.injEq] at hr
  subst hr
  exact inv_str fun _ => Clean.ofTmpl _

/-! ### the machine -/

def StInv (st : St) : Prop := (∀ v ∈ st.pool, v.Inv) ∧ (∀ b ∈ st.caps, Clean b) ∧ Clean st.outR

theorem stInv_init : StInv ({} : St) :=
  ⟨fun v hv => by simp [Array.mem_def] at hv, fun b hb => (by cases hb), Clean.nil⟩

theorem Clean.reverse {s : TStr} (h : Clean s) : Clean s.reverse := h.mono fun _ hm => List.mem_reverse.mp hm

theorem StInv.out_clean {st : St} (h : StInv st) : Clean st.out := h.2.2.reverse

theorem pool_mem {st : St} {i : Nat} {v : V} (h : st.pool[i]? = some v) : v ∈ st.pool := by
  rw [Array.getElem?_eq_some_iff] at h
  obtain ⟨hi, rfl⟩ := h
  exact Array.getElem_mem hi

theorem StInv.write {st : St} {s : TStr} (h : StInv st) (hs : Clean s) : StInv (st.write s) := by
  obtain ⟨hp, hc, ho⟩ := h
  unfold St.write
  split
  · exact ⟨hp, hc, hs.reverse.append ho⟩
  · rename_i b r heq
    refine ⟨hp, ?_, ho⟩
    intro x hx
    rw [heq] at hc
    rcases List.mem_cons.mp hx with rfl | hx
    · exact hs.reverse.append (hc b List.mem_cons_self)
    · exact hc x (List.mem_cons_of_mem _ hx)

theorem StInv.push {st : St} {v : V} (h : StInv st) (hv : v.Inv) : StInv (st.push v) := by
  obtain ⟨hp, hc, ho⟩ := h
  refine ⟨?_, hc, ho⟩
  intro x hx
  simp only [St.push_eq, Array.mem_push] at hx
  rcases hx with hx | rfl
  · exact hp x hx
  · exact hv

theorem args_inv {st : St} {is : List Nat} {xs : List V} (h : StInv st) (ha : st.args is = some xs) :
    ∀ x ∈ xs, x.Inv := by
  unfold St.args at ha
  refine mapM_all (P := V.Inv) ha ?_
  intro i _ b hb
  exact h.1 b (pool_mem hb)

theorem insertKV_inv {k : String} {v : V} (hv : v.Inv) :
    ∀ (l : List (String × V)), (∀ kv ∈ l, kv.2.Inv) → ∀ kv ∈ insertKV k v l, kv.2.Inv := by
  intro l
  induction l with
  | nil => intro _ kv h; simp only [insertKV, List.mem_singleton] at h; subst h; exact hv
  | cons p ps ih =>
    obtain ⟨k', v'⟩ := p
    intro hl kv h
    simp only [insertKV] at h
    split at h
    · rcases List.mem_cons.mp h with rfl | h
      · exact hv
      · exact hl kv h
    · split at h
      · rcases List.mem_cons.mp h with rfl | h
        · exact hv
        · exact hl kv (List.mem_cons_of_mem _ h)
      · rcases List.mem_cons.mp h with rfl | h
        · exact hl _ List.mem_cons_self
        · exact ih (fun x hx => hl x (List.mem_cons_of_mem _ hx)) kv h

theorem foldl_insertKV_inv : ∀ (kvs acc : List (String × V)), (∀ kv ∈ kvs, kv.2.Inv) → (∀ kv ∈ acc, kv.2.Inv) →
    ∀ kv ∈ kvs.foldl (fun acc kv => insertKV kv.1 kv.2 acc) acc, kv.2.Inv := by
  intro kvs
  induction kvs with
  | nil => intro acc _ ha; simpa using ha
  | cons p ps ih =>
    intro acc hk ha
    simp only [List.foldl_cons]
    exact ih _ (fun x hx => hk x (List.mem_cons_of_mem _ hx)) (insertKV_inv (hk p List.mem_cons_self) acc ha)

/-- a step of the safe-marking-free fragment while HTML auto-escaping is in effect -/
def StepOk : Step → Prop
  | .emit m _ => m = .html
  | .apply g _ => InvPreserving g
  | .value v => v.Inv
  | _ => True


/-- each primitive step of the fragment maps a state satisfying the invariant (all registers `Inv`,
    every capture buffer and the output free of data-tainted metacharacters) to such a state -/
theorem step_preserves_inv (s : Step) (st st' : St) (hok : StepOk s) (h : StInv st)
    (hr : s.run st = some st') : StInv st' := by
  cases s with
  | data x => simp only [Step.run, Option.some.injEq] at hr; subst hr; exact h.push (inv_str_false _)
  | int n => simp only [Step.run, Option.some.injEq] at hr; subst hr; exact h.push (inv_int n)
  | bool b => simp only [Step.run, Option.some.injEq] at hr; subst hr; exact h.push (inv_bool b)
  | none => simp only [Step.run, Option.some.injEq] at hr; subst hr; exact h.push inv_none
  | undef => simp only [Step.run, Option.some.injEq] at hr; subst hr; exact h.push inv_undef
  | mkSeq is =>
    simp only [Step.run, Option.map_eq_some_iff] at hr
    obtain ⟨xs, hxs, rfl⟩ := hr
    exact h.push (inv_seq.mpr (args_inv h hxs))
  | mkMap kis =>
    simp only [Step.run, Option.map_eq_some_iff] at hr
    obtain ⟨kvs, hkvs, rfl⟩ := hr
    refine h.push (inv_map.mpr ?_)
    have hall : ∀ kv ∈ kvs, kv.2.Inv := by
      unfold St.kvArgs at hkvs
      refine mapM_all (P := fun kv : String × V => kv.2.Inv) hkvs ?_
      intro ki _ b hb
      simp only [Option.map_eq_some_iff] at hb
      obtain ⟨v, hv, rfl⟩ := hb
      exact h.1 v (pool_mem hv)
    exact foldl_insertKV_inv kvs [] hall (by intro kv hkv; cases hkv)
  | value v => simp only [Step.run, Option.some.injEq] at hr; subst hr; exact h.push hok
  | raw x => simp only [Step.run, Option.some.injEq] at hr; subst hr; exact h.write (Clean.ofTmpl x)
  | emit m i =>
    simp only [StepOk] at hok; subst hok
    simp only [Step.run, Option.map_eq_some_iff] at hr
    obtain ⟨v, hv, rfl⟩ := hr
    exact h.write (writeEscaped_html_clean (h.1 v (pool_mem hv)))
  | beginCapture =>
    simp only [Step.run, Option.some.injEq] at hr; subst hr
    refine ⟨h.1, ?_, h.2.2⟩
    intro b hb
    rcases List.mem_cons.mp hb with rfl | hb
    · exact Clean.nil
    · exact h.2.1 b hb
  | endCapture m =>
    simp only [Step.run] at hr
    split at hr
    · rename_i buf rest heq
      cases hr
      have hc := h.2.1
      rw [heq] at hc
      have base : StInv { st with caps := rest } :=
        ⟨h.1, fun b hb => hc b (List.mem_cons_of_mem _ hb), h.2.2⟩
      exact base.push (inv_str fun _ => (hc buf List.mem_cons_self).reverse)
    · cases hr
  | macroReturn m =>
    simp only [Step.run] at hr
    split at hr
    · rename_i buf rest heq
      cases hr
      have hc := h.2.1
      rw [heq] at hc
      have base : StInv { st with caps := rest } :=
        ⟨h.1, fun b hb => hc b (List.mem_cons_of_mem _ hb), h.2.2⟩
      exact base.push (inv_str fun _ => (hc buf List.mem_cons_self).reverse)
    · cases hr
  | apply g is =>
    simp only [Step.run] at hr
    split at hr
    · cases hr
    · rename_i xs hxs
      simp only [Option.map_eq_some_iff] at hr
      obtain ⟨r, hg, rfl⟩ := hr
      exact h.push (hok xs r (args_inv h hxs) hg)

theorem run_preserves_inv : ∀ (steps : List Step) (st st' : St), (∀ s ∈ steps, StepOk s) → StInv st →
    run steps st = some st' → StInv st'
  | [], st, st', _, h, hr => by simp only [run, Option.some.injEq] at hr; subst hr; exact h
  | s :: rest, st, st', hok, h, hr => by
    simp only [run] at hr
    split at hr
    · cases hr
    · rename_i st1 h1
      exact run_preserves_inv rest st1 st' (fun x hx => hok x (List.mem_cons_of_mem _ hx))
        (step_preserves_inv s st st1 (hok s List.mem_cons_self) h h1) hr


/-- every operator and filter model the driver can run in Html mode and that belongs to the
    fragment preserves the invariant (so `StepOk (.apply g _)` holds for it) -/
theorem named_models_preserve_inv (name : String) (ps : List Nat) (g : Fn)
    (h : lookupBase name .html ps = some (g, true)) : InvPreserving g := by
  unfold lookupBase at h
  split at h <;> first
    | (cases h; exact concatF_inv)
    | (cases h; exact addF_inv)
    | (cases h; exact repeatF_inv _)
    | (cases h; exact sliceF_inv _ _)
    | (cases h; exact elemF_inv _)
    | (cases h; exact charsF_inv)
    | (cases h; exact escapeF_inv)
    | (cases h; exact preserveF_inv (reflects_mapChars upperC_reflecting))
    | (cases h; exact preserveF_inv (reflects_mapChars lowerC_reflecting))
    | (cases h; exact preserveF_inv reflects_capitalize)
    | (cases h; exact normalOut_inv (normalF_normalOut _))
    | (cases h; exact trimF_inv)
    | (cases h; exact reverseF_inv)
    | (cases h; exact preserveF_inv (reflects_indent _ _ _))
    | (cases h; exact replaceF_inv)
    | (cases h; exact joinF_inv)
    | (cases h; exact formatF_inv)
    | (cases h; exact truncateF_inv _ _ _)
    | (cases h; exact splitF_inv _)
    | (cases h; exact piecesF_inv subPieces_lines)
    | (cases h; exact firstF_inv)
    | (cases h; exact lastF_inv)
    | (cases h; exact defaultF_inv _)
    | (cases h; exact stringF_inv)
    | (cases h; exact lengthF_inv)
    | (cases h; exact itemsF_inv)
    | (cases h; exact sortF_inv _ _)
    | (cases h; exact minF_inv)
    | (cases h; exact maxF_inv)
    | (cases h; exact selectF_inv _)
    | (cases h; exact batchF_inv _)
    | (cases h; exact uniqueF_inv)
    | (cases h; exact attrArgF_inv)
    | (cases h; exact strMapF_inv _)
    | (cases h; exact strStripF_inv _)
    | (cases h; exact strReplaceF_inv)
    | (cases h; exact strJoinF_inv)
    | (cases h; exact strSplitlinesF_inv)
    | (cases h; exact dictValuesF_inv)
    | (cases h; exact dictGetF_inv)
    | (cases h; exact randomF_inv _)
    | (cases h; exact lipsumF_inv _ _)
    | (cases h)


/-! ### mode `None` (`Expression::eval`, templates whose name selects no escaping, `autoescape false`):
the safety-aware filters take their plain branch, `escape`/`format`/`truncate` fall back to Html -/

theorem escapeF_none : escapeF .none = escapeF .html := by
  funext args; unfold escapeF; rfl
theorem formatF_none : formatF .none = formatF .html := by
  funext args; unfold formatF; rfl
theorem truncateF_none (a b : Nat) (c : Bool) : truncateF .none a b c = truncateF .html a b c := by
  funext args; unfold truncateF; rfl

theorem replaceF_none_inv : InvPreserving (replaceF .none) := by
  intro args r _ hr
  unfold replaceF at hr
  split at hr
  · simp at hr
    subst hr
    exact inv_str_false _
  · cases hr

theorem joinF_none_inv : InvPreserving (joinF .none) := by
  intro args r _ hr
  have key : ∀ v j r, joinGo .none v j = some r → r.Inv := by
    intro v j r h
    unfold joinGo at h
    split at h
    · cases h
    · simp at h
      subst h
      exact inv_str_false _
  unfold joinF at hr
  split at hr <;> first | exact key _ _ _ hr | cases hr

theorem named_models_preserve_inv_none (name : String) (ps : List Nat) (g : Fn)
    (h : lookupBase name .none ps = some (g, true)) : InvPreserving g := by
  unfold lookupBase at h
  rw [escapeF_none, formatF_none, truncateF_none] at h
  split at h <;> first
    | (cases h; exact concatF_inv)
    | (cases h; exact addF_inv)
    | (cases h; exact repeatF_inv _)
    | (cases h; exact sliceF_inv _ _)
    | (cases h; exact elemF_inv _)
    | (cases h; exact charsF_inv)
    | (cases h; exact escapeF_inv)
    | (cases h; exact preserveF_inv (reflects_mapChars upperC_reflecting))
    | (cases h; exact preserveF_inv (reflects_mapChars lowerC_reflecting))
    | (cases h; exact preserveF_inv reflects_capitalize)
    | (cases h; exact normalOut_inv (normalF_normalOut _))
    | (cases h; exact trimF_inv)
    | (cases h; exact reverseF_inv)
    | (cases h; exact preserveF_inv (reflects_indent _ _ _))
    | (cases h; exact replaceF_none_inv)
    | (cases h; exact joinF_none_inv)
    | (cases h; exact formatF_inv)
    | (cases h; exact truncateF_inv _ _ _)
    | (cases h; exact splitF_inv _)
    | (cases h; exact piecesF_inv subPieces_lines)
    | (cases h; exact firstF_inv)
    | (cases h; exact lastF_inv)
    | (cases h; exact defaultF_inv _)
    | (cases h; exact stringF_inv)
    | (cases h; exact lengthF_inv)
    | (cases h; exact itemsF_inv)
    | (cases h; exact sortF_inv _ _)
    | (cases h; exact minF_inv)
    | (cases h; exact maxF_inv)
    | (cases h; exact selectF_inv _)
    | (cases h; exact batchF_inv _)
    | (cases h; exact uniqueF_inv)
    | (cases h; exact attrArgF_inv)
    | (cases h; exact strMapF_inv _)
    | (cases h; exact strStripF_inv _)
    | (cases h; exact strReplaceF_inv)
    | (cases h; exact strJoinF_inv)
    | (cases h; exact strSplitlinesF_inv)
    | (cases h; exact dictValuesF_inv)
    | (cases h; exact dictGetF_inv)
    | (cases h; exact randomF_inv _)
    | (cases h; exact lipsumF_inv _ _)
    | (cases h)

/-- … and so does `map` with any such filter -/
theorem named_models_preserve_inv_map (name : String) (ps : List Nat) (g : Fn)
    (h : lookupF name .html ps = some (g, true)) : InvPreserving g := by
  unfold lookupF at h
  split at h
  · simp only [Option.map_eq_some_iff] at h
    obtain ⟨⟨g0, ok⟩, h0, h1⟩ := h
    simp only [Prod.mk.injEq] at h1
    obtain ⟨rfl, rfl⟩ := h1
    exact mapF_inv (named_models_preserve_inv _ ps g0 h0)
  · exact named_models_preserve_inv name ps g h


/-- the named models preserve the invariant in every mode but Json -/
theorem named_models_preserve_inv_mode (m : Mode) (hm : m ≠ .json) (name : String) (ps : List Nat) (g : Fn)
    (h : lookupF name m ps = some (g, true)) : InvPreserving g := by
  have base : ∀ n g0, lookupBase n m ps = some (g0, true) → InvPreserving g0 := by
    intro n g0 h0
    cases m with
    | html => exact named_models_preserve_inv n ps g0 h0
    | none => exact named_models_preserve_inv_none n ps g0 h0
    | json => exact absurd rfl hm
  unfold lookupF at h
  split at h
  · simp only [Option.map_eq_some_iff] at h
    obtain ⟨⟨g0, ok⟩, h0, h1⟩ := h
    simp only [Prod.mk.injEq] at h1
    obtain ⟨rfl, rfl⟩ := h1
    exact mapF_inv (base _ g0 h0)
  · exact base name g h

end MJ.Safe
