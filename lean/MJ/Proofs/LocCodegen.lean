import MJ.Proofs.LocTables
/-!
Helper lemmas for C14, part 5: the code generator's line / span-stack bookkeeping.
-/
namespace MJ.Loc
open MJ

/-- the `Instructions`-level add that `CodeGenerator::add` performs in a given state -/
def addOf (line : Nat) (stack : List Span) : Add :=
  match stack with
  | sp :: _ => if sp.startLine = line then .withSpan sp else .withLine line
  | [] => .withLine line

/-- the sequence of `Instructions`-level adds a script performs from a given line and span stack -/
def cgAdds : Nat → List Span → List CgOp → List Add
  | _, _, [] => []
  | _, st, .setLine l :: ops => cgAdds l st ops
  | _, st, .pushSpan sp :: ops => cgAdds sp.startLine (sp :: st) ops
  | l, st, .popSpan :: ops => cgAdds l st.tail ops
  | l, st, .add :: ops => addOf l st :: cgAdds l st ops
  | l, st, .addWithSpan sp :: ops => .withSpan sp :: cgAdds l st ops

/-- the line in force after a script: the one set by its last `set_line` / `push_span` -/
def lineAfter : List CgOp → Nat → Nat
  | [], l => l
  | .setLine l :: ops, _ => lineAfter ops l
  | .pushSpan sp :: ops, _ => lineAfter ops sp.startLine
  | _ :: ops, l => lineAfter ops l

/-- scripts whose `push_span` / `pop_span` calls are properly nested -/
inductive Balanced : List CgOp → Prop where
  | nil : Balanced []
  | setLine (l : Nat) {ops : List CgOp} : Balanced ops → Balanced (.setLine l :: ops)
  | add {ops : List CgOp} : Balanced ops → Balanced (.add :: ops)
  | addWithSpan (sp : Span) {ops : List CgOp} : Balanced ops → Balanced (.addWithSpan sp :: ops)
  | nest (sp : Span) {inner rest : List CgOp} : Balanced inner → Balanced rest →
      Balanced (.pushSpan sp :: inner ++ .popSpan :: rest)

theorem Cg.add_eq (c : Cg) : c.add = { c with instrs := c.instrs.apply (addOf c.currentLine c.spanStack) } := by
  unfold Cg.add addOf
  cases c.spanStack with
  | nil => rfl
  | cons sp st => simp only []; split <;> rfl

theorem cgRun_append (a b : List CgOp) (c : Cg) : cgRun (a ++ b) c = cgRun b (cgRun a c) := by
  simp [cgRun, List.foldl_append]

theorem cgRun_fields (ops : List CgOp) :
    ∀ c : Cg, (cgRun ops c).currentLine = lineAfter ops c.currentLine ∧
      (cgRun ops c).instrs = (cgAdds c.currentLine c.spanStack ops).foldl Instrs.apply c.instrs := by
  induction ops with
  | nil => intro c; simp [cgRun, lineAfter, cgAdds]
  | cons op ops ih =>
    intro c
    have hstep : cgRun (op :: ops) c = cgRun ops (c.step op) := rfl
    rw [hstep]
    obtain ⟨h1, h2⟩ := ih (c.step op)
    rw [h1, h2]
    cases op with
    | setLine l => simp [Cg.step, lineAfter, cgAdds]
    | pushSpan sp => simp [Cg.step, lineAfter, cgAdds]
    | popSpan => simp [Cg.step, lineAfter, cgAdds]
    | add => simp [Cg.step, Cg.add_eq, lineAfter, cgAdds]
    | addWithSpan sp => simp [Cg.step, lineAfter, cgAdds, Instrs.apply]

theorem cgRun_stack_balanced (ops : List CgOp) (h : Balanced ops) :
    ∀ c : Cg, (cgRun ops c).spanStack = c.spanStack := by
  induction h with
  | nil => intro c; rfl
  | setLine l _ ih => intro c; exact ih (c.step (.setLine l))
  | add _ ih =>
    intro c
    have : (c.step .add).spanStack = c.spanStack := by simp [Cg.step, Cg.add_eq]
    rw [← this]; exact ih (c.step .add)
  | addWithSpan sp _ ih => intro c; exact ih (c.step (.addWithSpan sp))
  | nest sp _ _ ih1 ih2 =>
    intro c
    have e : ∀ (inner rest : List CgOp), cgRun (CgOp.pushSpan sp :: inner ++ CgOp.popSpan :: rest) c =
        cgRun rest ((cgRun inner (c.step (.pushSpan sp))).step .popSpan) := by
      intro inner rest
      show cgRun (inner ++ CgOp.popSpan :: rest) (c.step (.pushSpan sp)) = _
      rw [cgRun_append]; rfl
    rw [e, ih2]
    simp only [Cg.step]
    rw [ih1]
    rfl

theorem cgAdds_length_le (ops : List CgOp) : ∀ l st, (cgAdds l st ops).length ≤ ops.length := by
  induction ops with
  | nil => intro l st; simp [cgAdds]
  | cons op ops ih =>
    intro l st
    cases op <;> simp only [cgAdds, List.length_cons] <;> first | exact Nat.le_succ_of_le (ih _ _) | exact Nat.succ_le_succ (ih _ _)

theorem cgRun_new_instrs (ops : List CgOp) : (cgRun ops Cg.new).instrs = addAll (cgAdds 0 [] ops) := by
  rw [(cgRun_fields ops Cg.new).2]; rfl

end MJ.Loc
