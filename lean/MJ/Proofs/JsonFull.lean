import MJ.Proofs.JsonDoc
/-! From the model's writer to the post-processed writer, number tokens of integers, and the
whole-document parse-back theorems (C16). -/
namespace MJ.Json
open MJ.Serde

/-! ### the post-processing leaves everything but string contents alone -/

/-- no replacement rule for this character -/
def Plain (t : List (Char × List Char)) (c : Char) : Prop := ∀ p ∈ t, p.1 ≠ c

def structChars : List Char :=
  ['[', ']', '{', '}', ',', ':', '"', 'n', 'u', 'l', 't', 'r', 'e', 'f', 'a', 's']

/-- the table has no rule for structural characters, whitespace and number characters -/
def StructOK (t : List (Char × List Char)) : Prop :=
  ∀ c, (c ∈ structChars ∨ isWs c = true ∨ isNumChar c = true) → Plain t c

theorem structOK_nil : StructOK [] := by intro c _ p hp; simp at hp

theorem postT_fixed (t : List (Char × List Char)) (s : List Char) (h : ∀ c ∈ s, Plain t c) : postT t s = s := by
  induction s with
  | nil => rfl
  | cons c cs ih =>
    have hc : replOf c t = [c] := replOf_not_key c t (h c (by simp))
    have := ih (fun x hx => h x (by simp [hx]))
    simp only [postT, List.flatMap_cons] at this ⊢
    rw [hc, this]
    rfl

theorem postT_cons (t : List (Char × List Char)) (c : Char) (s : List Char) (h : Plain t c) :
    postT t (c :: s) = c :: postT t s := by
  have hc : replOf c t = [c] := replOf_not_key c t h
  simp only [postT, List.flatMap_cons, hc]
  rfl

theorem postT_ws (t : List (Char × List Char)) (ht : StructOK t) (ws : List Char) (h : AllWs ws) : postT t ws = ws :=
  postT_fixed t ws (fun c hc => ht c (Or.inr (Or.inl (h c hc))))

theorem postT_sep (t : List (Char × List Char)) (ht : StructOK t) (c : Char) (hc : c ∈ structChars)
    (ws : List Char) (h : AllWs ws) : postT t (c :: ws) = c :: ws := by
  rw [postT_cons t c ws (ht c (Or.inl hc)), postT_ws t ht ws h]

theorem postT_before (t : List (Char × List Char)) (ht : StructOK t) (st : Style) (lvl : Nat) (first arr : Bool) :
    postT t (st.before lvl first arr) = st.before lvl first arr := by
  cases first with
  | true => exact postT_ws t ht _ (before_first st lvl arr)
  | false =>
    obtain ⟨ws, h1, h2⟩ := before_next st lvl arr
    rw [h1]
    exact postT_sep t ht ',' (by decide) ws h2

theorem postT_keySep (t : List (Char × List Char)) (ht : StructOK t) (st : Style) : postT t st.keySep = st.keySep := by
  obtain ⟨ws, h1, h2⟩ := keySep_spec st
  rw [h1]
  exact postT_sep t ht ':' (by decide) ws h2

theorem postT_close (t : List (Char × List Char)) (ht : StructOK t) (st : Style) (lvl : Nat) :
    postT t (st.close lvl) = st.close lvl := postT_ws t ht _ (close_ws st lvl)

theorem postT_writeStr (t : List (Char × List Char)) (ht : StructOK t) (s : List Char) :
    postT t (writeStr s) = writeStrP t s := by
  have hq : Plain t '"' := ht '"' (Or.inl (by decide))
  simp only [writeStr, writeStrP]
  rw [postT_cons t '"' _ hq, postT_append, postT_cons t '"' [] hq]
  rfl

theorem postT_lit (t : List (Char × List Char)) (ht : StructOK t) (s : List Char) (h : ∀ c ∈ s, c ∈ structChars) :
    postT t s = s := postT_fixed t s (fun c hc => ht c (Or.inl (h c hc)))

mutual
theorem postT_writeAt : ∀ (j : J) (t : List (Char × List Char)) (st : Style) (lvl : Nat),
    StructOK t → NumOK j → postT t (writeAt st lvl j) = writeAtP t st lvl j
  | .null, t, st, lvl, ht, _ => by
    simp only [writeAt, writeAtP]
    exact postT_lit t ht _ (by decide)
  | .bool b, t, st, lvl, ht, _ => by
    cases b <;> simp only [writeAt, writeAtP] <;> exact postT_lit t ht _ (by decide)
  | .num tok, t, st, lvl, ht, hj => by
    simp only [NumOK, tokOK] at hj
    simp only [writeAt, writeAtP]
    exact postT_fixed t tok (fun c hc => ht c (Or.inr (Or.inr (hj.2.1 c hc))))
  | .str s, t, st, lvl, ht, _ => by
    simp only [writeAt, writeAtP]
    exact postT_writeStr t ht s
  | .arr [], t, st, lvl, ht, _ => by
    simp only [writeAt, writeAtP]
    exact postT_lit t ht _ (by decide)
  | .arr (x :: xs), t, st, lvl, ht, hj => by
    simp only [NumOK, NumOKList] at hj
    simp only [writeAt, writeAtP, writeElems]
    rw [postT_cons t '[' _ (ht '[' (Or.inl (by decide)))]
    simp only [postT_append, List.append_assoc]
    rw [postT_before t ht, postT_writeAt x t st (lvl + 1) ht hj.1, postT_writeElems xs t st (lvl + 1) ht hj.2,
      postT_close t ht, postT_lit t ht [']'] (by decide)]
  | .obj [], t, st, lvl, ht, _ => by
    simp only [writeAt, writeAtP]
    exact postT_lit t ht _ (by decide)
  | .obj ((k, v) :: ms), t, st, lvl, ht, hj => by
    simp only [NumOK, NumOKMembers] at hj
    simp only [writeAt, writeAtP, writeMembers]
    rw [postT_cons t '{' _ (ht '{' (Or.inl (by decide)))]
    simp only [postT_append, List.append_assoc]
    rw [postT_before t ht, postT_writeStr t ht, postT_keySep t ht, postT_writeAt v t st (lvl + 1) ht hj.1,
      postT_writeMembers ms t st (lvl + 1) ht hj.2, postT_close t ht, postT_lit t ht ['}'] (by decide)]
theorem postT_writeElems : ∀ (xs : List J) (t : List (Char × List Char)) (st : Style) (lvl : Nat),
    StructOK t → NumOKList xs → postT t (writeElems st lvl false xs) = restElemsP t st lvl xs
  | [], t, st, lvl, _, _ => by simp [writeElems, restElemsP, postT]
  | x :: xs, t, st, lvl, ht, hj => by
    simp only [NumOKList] at hj
    simp only [writeElems, restElemsP, postT_append, List.append_assoc]
    rw [postT_before t ht, postT_writeAt x t st lvl ht hj.1, postT_writeElems xs t st lvl ht hj.2]
theorem postT_writeMembers : ∀ (ms : List (List Char × J)) (t : List (Char × List Char)) (st : Style) (lvl : Nat),
    StructOK t → NumOKMembers ms → postT t (writeMembers st lvl false ms) = restMembersP t st lvl ms
  | [], t, st, lvl, _, _ => by simp [writeMembers, restMembersP, postT]
  | (k, v) :: ms, t, st, lvl, ht, hj => by
    simp only [NumOKMembers] at hj
    simp only [writeMembers, restMembersP, postT_append, List.append_assoc]
    rw [postT_before t ht, postT_writeStr t ht, postT_keySep t ht, postT_writeAt v t st lvl ht hj.1,
      postT_writeMembers ms t st lvl ht hj.2]
end

/-- a written and post-processed document reads back as the value -/
theorem parseJ_postT_writeJ (t : List (Char × List Char)) (ht : TableOK t) (hs : StructOK t) (st : Style) (j : J)
    (hj : NumOK j) : parseJ (postT t (writeJ st j)) = some j := by
  unfold writeJ
  rw [postT_writeAt j t st 0 hs hj]
  unfold parseJ
  have := pv j t st 0 [] [] ((writeAtP t st 0 j).length + 1) ht hj (by simp [StopOK]) allWs_nil (by omega)
  simp only [List.nil_append, List.append_nil] at this
  rw [this]
  simp [skipWs]

/-! ### integer tokens -/

theorem digitChar_isDigit : ∀ k, k < 10 → isDigit (Char.ofNat (48 + k)) = true := by decide
theorem digitChar_zero : ∀ k, k < 10 → (Char.ofNat (48 + k) = '0' ↔ k = 0) := by decide

theorem digitChar_spec (n : Nat) : isDigit (digitChar n) = true ∧ (digitChar n = '0' ↔ n % 10 = 0) := by
  unfold digitChar
  exact ⟨digitChar_isDigit _ (Nat.mod_lt _ (by decide)), digitChar_zero _ (Nat.mod_lt _ (by decide))⟩

theorem natDigits_spec (n : Nat) :
    (∀ c ∈ natDigits n, isDigit c = true) ∧
    ∃ d ds, natDigits n = d :: ds ∧ (n = 0 → ds = []) ∧ (0 < n → d ≠ '0') := by
  induction n using Nat.strongRecOn with
  | _ n ih =>
    rw [natDigits]
    by_cases h : n < 10
    · simp only [h, dite_true]
      refine ⟨by intro c hc; simp at hc; rw [hc]; exact (digitChar_spec n).1, digitChar n, [], rfl, fun _ => rfl, ?_⟩
      intro hpos heq
      have := (digitChar_spec n).2.mp heq
      omega
    · simp only [h, dite_false]
      obtain ⟨hall, d, ds, hd, _, hnz⟩ := ih (n / 10) (by omega)
      refine ⟨?_, d, ds ++ [digitChar n], by rw [hd]; rfl, by intro h0; omega, ?_⟩
      · intro c hc
        simp only [List.mem_append, List.mem_singleton] at hc
        rcases hc with hc | hc
        · exact hall c hc
        · rw [hc]; exact (digitChar_spec n).1
      · intro _
        exact hnz (by omega)

theorem spanDigits_all (ds : List Char) (h : ∀ c ∈ ds, isDigit c = true) : spanDigits ds = (ds, []) := by
  induction ds with
  | nil => rfl
  | cons c cs ih =>
    have hc := h c (by simp)
    simp [spanDigits, hc, ih (fun x hx => h x (by simp [hx]))]

theorem validNum_natDigits (n : Nat) : validNum (natDigits n) = true := by
  obtain ⟨hall, d, ds, hd, hz, hnz⟩ := natDigits_spec n
  have hdd : isDigit d = true := hall d (by rw [hd]; simp)
  have hminus : d ≠ '-' := by intro e; subst e; simp [isDigit] at hdd
  rw [hd]
  simp only [validNum, hminus, if_false]
  by_cases h0 : d = '0'
  · have : n = 0 := by
      apply Classical.byContradiction
      intro hne
      exact hnz (by omega) h0
    simp [h0, hz this, validFracExp, validBody]
  · have hds : ∀ c ∈ ds, isDigit c = true := fun c hc => hall c (by rw [hd]; simp [hc])
    simp [h0, hdd, spanDigits_all ds hds, validFracExp, validBody]

theorem tokOK_natDigits (n : Nat) : tokOK (natDigits n) := by
  obtain ⟨hall, d, ds, hd, _, _⟩ := natDigits_spec n
  refine ⟨validNum_natDigits n, ?_, by rw [hd]; simp⟩
  intro c hc
  simp [isNumChar, hall c hc]

theorem tokOK_intDigits (i : Int) : tokOK (intDigits i) := by
  unfold intDigits
  split
  · obtain ⟨hv, hall, _⟩ := tokOK_natDigits i.natAbs
    refine ⟨?_, ?_, by simp⟩
    · obtain ⟨hd, d, ds, hdd, _, _⟩ := natDigits_spec i.natAbs
      have hdig : isDigit d = true := hd d (by rw [hdd]; simp)
      have hminus : d ≠ '-' := by intro e; subst e; simp [isDigit] at hdig
      rw [hdd] at hv ⊢
      simpa [validNum, hminus] using hv
    · intro c hc
      simp only [List.mem_cons] at hc
      rcases hc with rfl | hc
      · decide
      · exact hall c hc
  · exact tokOK_natDigits i.natAbs

/-! ### the image of a value has well-formed number tokens -/

mutual
/-- every finite float inside the value satisfies `p` -/
def floatsAll (p : Nat → Bool) : V → Bool
  | .f64 b => !f64Finite b || p b
  | .seq _ xs => floatsAllList p xs
  | .map kvs => floatsAllPairs p kvs
  | _ => true
def floatsAllList (p : Nat → Bool) : List V → Bool
  | [] => true
  | x :: xs => floatsAll p x && floatsAllList p xs
def floatsAllPairs (p : Nat → Bool) : List (V × V) → Bool
  | [] => true
  | (k, v) :: rest => floatsAll p k && floatsAll p v && floatsAllPairs p rest
end

/-- no finite float anywhere in the value (non-finite ones are `null` / refused) -/
def floatFreeV (v : V) : Bool := floatsAll (fun _ => false) v

theorem numOK_bytes (b : List Nat) : NumOKList (b.map fun n => J.num (natDigits n)) := by
  induction b with
  | nil => simp [NumOKList]
  | cons n ns ih => simp only [List.map_cons, NumOKList, NumOK]; exact ⟨tokOK_natDigits n, ih⟩

theorem join2_ok {α β γ : Type} (f : α → β → γ) (a : JR α) (b : JR β) (c : γ) (h : JR.join2 f a b = .ok c) :
    ∃ x y, a = .ok x ∧ b = .ok y ∧ c = f x y := by
  cases a <;> cases b <;> simp [JR.join2] at h
  exact ⟨_, _, rfl, rfl, h.symm⟩

mutual
theorem jsonOf_numOK : ∀ (v : V) (p : Nat → Bool) (j : J),
    (∀ b, p b = true → f64Finite b = true → tokOK (f64Text b)) → floatsAll p v = true → jsonOf v = .ok j → NumOK j
  | .undefined, p, j, _, _, h => by simp [jsonOf] at h; subst h; simp [NumOK]
  | .none, p, j, _, _, h => by simp [jsonOf] at h; subst h; simp [NumOK]
  | .invalid, p, j, _, _, h => by simp [jsonOf] at h; subst h; simp [NumOK]
  | .bool b, p, j, _, _, h => by simp [jsonOf] at h; subst h; simp [NumOK]
  | .int u i, p, j, _, _, h => by simp [jsonOf] at h; subst h; simp only [NumOK]; exact tokOK_intDigits i
  | .f64 b, p, j, hp, hf, h => by
    simp only [jsonOf] at h
    by_cases hfin : f64Finite b = true
    · simp only [hfin, if_true] at h
      simp at h; subst h
      simp only [NumOK]
      simp only [floatsAll, hfin, Bool.not_true, Bool.false_or] at hf
      exact hp b hf hfin
    · simp only [hfin, if_false] at h
      simp at h; subst h; simp [NumOK]
  | .str s safe, p, j, _, _, h => by simp [jsonOf] at h; subst h; simp [NumOK]
  | .bytes b, p, j, _, _, h => by
    simp [jsonOf] at h; subst h
    simp only [NumOK]
    exact numOK_bytes b
  | .seq t xs, p, j, hp, hf, h => by
    simp only [jsonOf] at h
    simp only [floatsAll] at hf
    cases hx : jsonOfList xs with
    | ok js =>
      rw [hx] at h; simp at h; subst h
      simp only [NumOK]
      exact jsonOfList_numOK xs p js hp hf hx
    | refuse => rw [hx] at h; simp at h
    | unmodelled => rw [hx] at h; simp at h
  | .map kvs, p, j, hp, hf, h => by
    simp only [jsonOf] at h
    simp only [floatsAll] at hf
    cases hx : jsonOfPairs kvs with
    | ok js =>
      rw [hx] at h; simp at h; subst h
      simp only [NumOK]
      exact jsonOfPairs_numOK kvs p js hp hf hx
    | refuse => rw [hx] at h; simp at h
    | unmodelled => rw [hx] at h; simp at h
  | .obj i, p, j, _, _, h => by simp [jsonOf] at h
theorem jsonOfList_numOK : ∀ (xs : List V) (p : Nat → Bool) (js : List J),
    (∀ b, p b = true → f64Finite b = true → tokOK (f64Text b)) → floatsAllList p xs = true →
    jsonOfList xs = .ok js → NumOKList js
  | [], p, js, _, _, h => by simp [jsonOfList] at h; subst h; simp [NumOKList]
  | x :: xs, p, js, hp, hf, h => by
    simp only [jsonOfList] at h
    simp only [floatsAllList, Bool.and_eq_true] at hf
    obtain ⟨a, b, ha, hb, hc⟩ := join2_ok _ _ _ _ h
    subst hc
    simp only [NumOKList]
    exact ⟨jsonOf_numOK x p a hp hf.1 ha, jsonOfList_numOK xs p b hp hf.2 hb⟩
theorem jsonOfPairs_numOK : ∀ (kvs : List (V × V)) (p : Nat → Bool) (js : List (List Char × J)),
    (∀ b, p b = true → f64Finite b = true → tokOK (f64Text b)) → floatsAllPairs p kvs = true →
    jsonOfPairs kvs = .ok js → NumOKMembers js
  | [], p, js, _, _, h => by simp [jsonOfPairs] at h; subst h; simp [NumOKMembers]
  | (k, v) :: rest, p, js, hp, hf, h => by
    simp only [jsonOfPairs] at h
    simp only [floatsAllPairs, Bool.and_eq_true] at hf
    obtain ⟨a, b, ha, hb, hc⟩ := join2_ok _ _ _ _ h
    obtain ⟨ks, jv, _, hjv, hkv⟩ := join2_ok _ _ _ _ ha
    subst hc; subst hkv
    simp only [NumOKMembers]
    exact ⟨jsonOf_numOK v p jv hp hf.1.2 hjv, jsonOfPairs_numOK rest p b hp hf.2 hb⟩
end

mutual
theorem floatsAll_true : ∀ (v : V), floatsAll (fun _ => true) v = true
  | .seq _ xs => by simp only [floatsAll]; exact floatsAllList_true xs
  | .map kvs => by simp only [floatsAll]; exact floatsAllPairs_true kvs
  | .f64 b => by simp [floatsAll]
  | .undefined => rfl
  | .none => rfl
  | .bool _ => rfl
  | .int _ _ => rfl
  | .str _ _ => rfl
  | .bytes _ => rfl
  | .obj _ => rfl
  | .invalid => rfl
theorem floatsAllList_true : ∀ (xs : List V), floatsAllList (fun _ => true) xs = true
  | [] => rfl
  | x :: xs => by simp only [floatsAllList, floatsAll_true x, floatsAllList_true xs]; rfl
theorem floatsAllPairs_true : ∀ (kvs : List (V × V)), floatsAllPairs (fun _ => true) kvs = true
  | [] => rfl
  | (k, v) :: rest => by
    simp only [floatsAllPairs, floatsAll_true k, floatsAll_true v, floatsAllPairs_true rest]; rfl
end

/-! ### the `tojson` table -/

theorem tojson_keys : ∀ p ∈ MJ.Gen.tojsonReplacements, p.1 ∈ forbidden := by decide

theorem structOK_tojson : StructOK MJ.Gen.tojsonReplacements := by
  intro c hc p hp heq
  have hk := tojson_keys p hp
  rw [heq] at hk
  simp only [forbidden, List.mem_cons, List.not_mem_nil, or_false] at hk
  rcases hc with hc | hc | hc
  · rcases hk with rfl | rfl | rfl | rfl <;> simp [structChars] at hc
  · rcases hk with rfl | rfl | rfl | rfl <;> simp [isWs] at hc
  · rcases hk with rfl | rfl | rfl | rfl <;> simp [isNumChar, isDigit] at hc

end MJ.Json
