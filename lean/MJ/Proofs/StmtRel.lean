import MJ.Proofs.ExprSim
import MJ.Proofs.EvalFrame
/-!
# Statements without back-patching (C03 stage 3)

`relStmt` / `relBlock`: the code of a statement of the fragment with resolved jump targets;
`cStmt_eq_rel`: the back-patching generator of `MJ.Compile` produces exactly this code.
Fragment: text, emit, `set x = e`, `if`/`elif`/`else`, `with x = e, …`, `for x in e` (no filter, no
`else`, no loop controls).
-/
namespace MJ.Compile
open MJ.Eval

/-- `with` bindings of the fragment -/
def simpleBinds : List (Target × Expr) → Bool
  | [] => true
  | (_, e) :: rest => simpleExpr e && simpleBinds rest

/-- block filters of the fragment: positional arguments over simple expressions -/
def simpleFilters : List FilterApp → Bool
  | [] => true
  | (_, args) :: rest => simpleArgs args && simpleFilters rest

mutual
  /-- the stage-3 statement fragment: text, `{{ e }}`, `set` (incl. unpacking), set-blocks and
  filter-blocks, `if` / `elif` / `else`, `with`, `for … if … else` with unpacking and loop filter (no
  `break` / `continue`) -/
  def simpleStmt : Stmt → Bool
    | .text _ => true
    | .emit e => simpleExpr e
    | .set _ e => simpleExpr e
    | .ifS c t f => simpleExpr c && simpleBlock t && simpleBlock f
    | .withS binds body => simpleBinds binds && simpleBlock body
    | .forS _ iter flt body els =>
      simpleExpr iter && (match flt with | some c => simpleExpr c | none => true) && simpleBlock body && simpleBlock els
    | .setBlock _ filters body => simpleFilters filters && simpleBlock body
    | .filterBlock filters body => simpleFilters filters && simpleBlock body
    | _ => false
  def simpleBlock : List Stmt → Bool
    | [] => true
    | s :: rest => simpleStmt s && simpleBlock rest
end

mutual
  /-- `compile_assignment` without generator state -/
  def relTarget : Target → List Instr
    | .var x => [.storeLocal x]
    | .tuple ts => .unpackList ts.length :: relTargets ts
  def relTargets : List Target → List Instr
    | [] => []
    | t :: ts => relTarget t ++ relTargets ts
end

def relBinds : List (Target × Expr) → Nat → Aux → List Instr × Aux
  | [], _, a => ([], a)
  | (t, e) :: rest, base, a =>
    let re := relExpr e base a
    let rr := relBinds rest (base + re.1.length + (relTarget t).length) re.2
    (re.1 ++ relTarget t ++ rr.1, rr.2)

def relFilters : List FilterApp → Nat → Aux → List Instr × Aux
  | [], _, a => ([], a)
  | (name, args) :: rest, base, a =>
    let ra := relArgs args base a
    let rr := relFilters rest (base + ra.1.length + 1) (ra.2.filterId name).2
    (ra.1 ++ [.applyFilter name (1 + args.length) (ra.2.filterId name).1] ++ rr.1, rr.2)

/-- the code in front of `PushLoop 1` of a `for`: the iterable, or — with a loop filter — the
first loop that collects the items which pass the filter into a list -/
def relForIter (t : Target) (iter : Expr) (flt : Option Expr) (base : Nat) (a : Aux) : List Instr × Aux :=
  match flt with
  | none => relExpr iter base a
  | some c =>
    let ri := relExpr iter (base + 1) a
    let it1 := base + 1 + ri.1.length + 1
    let rc := relExpr c (base + 1 + ri.1.length + 3 + (relTarget t).length) ri.2
    let p := base + 1 + ri.1.length + 3 + (relTarget t).length + rc.1.length
    ([.loadConst (.int 0)] ++ ri.1 ++ [.pushLoop 0, .iterate (p + 7), .dupTop] ++ relTarget t ++ rc.1 ++
      [.jumpIfFalse (p + 5), .swap, .loadConst (.int 1), .add, .jump (p + 6), .discardTop, .jump it1,
       .popLoopFrame, .buildList none], rc.2)

mutual
  def relStmt : Stmt → Nat → Aux → List Instr × Aux
    | .text t, _, a => ([.emitRaw t], a)
    | .emit e, base, a => ((relExpr e base a).1 ++ [.emit], (relExpr e base a).2)
    | .set t e, base, a => ((relExpr e base a).1 ++ relTarget t, (relExpr e base a).2)
    | .ifS c t [], base, a =>
      let rc := relExpr c base a
      let rt := relBlock t (base + rc.1.length + 1) rc.2
      (rc.1 ++ [.jumpIfFalse (base + rc.1.length + 1 + rt.1.length)] ++ rt.1, rt.2)
    | .ifS c t (f :: fs), base, a =>
      let rc := relExpr c base a
      let rt := relBlock t (base + rc.1.length + 1) rc.2
      let fb := base + rc.1.length + 1 + rt.1.length + 1
      let rf := relBlock (f :: fs) fb rt.2
      (rc.1 ++ [.jumpIfFalse fb] ++ rt.1 ++ [.jump (fb + rf.1.length)] ++ rf.1, rf.2)
    | .withS binds body, base, a =>
      let rb := relBinds binds (base + 1) a
      let rr := relBlock body (base + 1 + rb.1.length) rb.2
      ([.pushWith] ++ rb.1 ++ rr.1 ++ [.popFrame], rr.2)
    | .forS t iter flt body [], base, a =>
      let ri := relForIter t iter flt base a
      let bb := base + ri.1.length + 2 + (relTarget t).length
      let rb := relBlock body bb ri.2
      (ri.1 ++ [.pushLoop 1, .iterate (bb + rb.1.length + 1)] ++ relTarget t ++ rb.1 ++
        [.jump (base + ri.1.length + 1), .popLoopFrame], rb.2)
    | .forS t iter flt body (e0 :: es), base, a =>
      let ri := relForIter t iter flt base a
      let bb := base + ri.1.length + 2 + (relTarget t).length
      let rb := relBlock body bb ri.2
      let eb := bb + rb.1.length + 4
      let re := relBlock (e0 :: es) eb rb.2
      (ri.1 ++ [.pushLoop 1, .iterate (bb + rb.1.length + 1)] ++ relTarget t ++ rb.1 ++
        [.jump (base + ri.1.length + 1), .pushDidNotIterate, .popLoopFrame, .jumpIfFalse (eb + re.1.length)] ++ re.1, re.2)
    | .setBlock x filters body, base, a =>
      let rb := relBlock body (base + 1) a
      let rf := relFilters filters (base + 1 + rb.1.length + 1) rb.2
      ([.beginCapture] ++ rb.1 ++ [.endCapture] ++ rf.1 ++ [.storeLocal x], rf.2)
    | .filterBlock filters body, base, a =>
      let rb := relBlock body (base + 1) a
      let rf := relFilters filters (base + 1 + rb.1.length + 1) rb.2
      ([.beginCapture] ++ rb.1 ++ [.endCapture] ++ rf.1 ++ [.emit], rf.2)
    | _, _, a => ([], a.markOof)
  def relBlock : List Stmt → Nat → Aux → List Instr × Aux
    | [], _, a => ([], a)
    | s :: rest, base, a =>
      let rs := relStmt s base a
      let rr := relBlock rest (base + rs.1.length) rs.2
      (rs.1 ++ rr.1, rr.2)
end

theorem endIf_noelse (A : List Instr) (P : List Pending) (a : Aux) (C : List Instr × Aux) (n : Nat)
    (hn : n = A.length) :
    (({ code := A ++ Instr.jumpIfFalse unpatched :: [], pending := .branch n :: P, aux := a } : CG).extend C).endIf =
      { code := A ++ Instr.jumpIfFalse (A.length + 1 + C.1.length) :: C.1, pending := P, aux := C.2 } := by
  subst hn
  simp only [CG.endIf, CG.endCondition, CG.extend, CG.next]
  rw [patch_jif _ A C.1 _ unpatched _ (by simp) rfl]
  simp [Nat.add_assoc]; omega

theorem if_block_noelse (g : CG) (Cc Ct : List Instr × Aux) :
    ((g.extend Cc).startIf.extend Ct).endIf =
      g.extend (Cc.1 ++ [Instr.jumpIfFalse (g.next + Cc.1.length + 1 + Ct.1.length)] ++ Ct.1, Ct.2) := by
  rw [startIf_extend, endIf_noelse _ _ _ _ _ (by simp [CG.next])]
  simp [CG.extend, CG.next, Nat.add_assoc]

theorem patch_iterate (g : CG) (A B : List Instr) (n u t : Nat) (hc : g.code = A ++ .iterate u :: B)
    (hn : n = A.length) : g.patch n t = { g with code := A ++ .iterate t :: B } := by
  simp [CG.patch, hc, getElem?_mid A B _ n hn, set_mid A B _ _ n hn]

/-- a `for` loop without filter / else / loop controls around code chunks `Ci` (iterable) and `Cb`
(target + body) -/
theorem for_block (g : CG) (Ci Cb : List Instr × Aux) :
    (((g.extend Ci).startForLoop true).extend Cb).endForLoop false =
      g.extend (Ci.1 ++ [Instr.pushLoop 1, Instr.iterate (g.next + Ci.1.length + 2 + Cb.1.length + 1)] ++ Cb.1 ++
        [Instr.jump (g.next + Ci.1.length + 1), Instr.popLoopFrame], Cb.2) := by
  simp only [CG.startForLoop, CG.endForLoop, CG.extend, CG.add, CG.next, CG.patchAll, List.nil_append,
    List.foldl, if_true, Bool.false_eq_true, if_false]
  rw [patch_iterate _ (g.code ++ Ci.1 ++ [Instr.pushLoop 1]) (Cb.1 ++ [Instr.jump (g.code ++ Ci.1 ++ [Instr.pushLoop 1]).length] ++ [Instr.popLoopFrame])
    _ unpatched _ (by simp) (by simp)]
  simp [Nat.add_assoc]; omega


/-- `for_block` for a loop without the `loop` variable (the filter pre-pass) -/
theorem for_block_novar (g : CG) (Ci Cb : List Instr × Aux) :
    (((g.extend Ci).startForLoop false).extend Cb).endForLoop false =
      g.extend (Ci.1 ++ [Instr.pushLoop 0, Instr.iterate (g.next + Ci.1.length + 2 + Cb.1.length + 1)] ++ Cb.1 ++
        [Instr.jump (g.next + Ci.1.length + 1), Instr.popLoopFrame], Cb.2) := by
  simp only [CG.startForLoop, CG.endForLoop, CG.extend, CG.add, CG.next, CG.patchAll, List.nil_append,
    List.foldl, if_true, Bool.false_eq_true, if_false]
  rw [patch_iterate _ (g.code ++ Ci.1 ++ [Instr.pushLoop 0]) (Cb.1 ++ [Instr.jump (g.code ++ Ci.1 ++ [Instr.pushLoop 0]).length] ++ [Instr.popLoopFrame])
    _ unpatched _ (by simp) (by simp)]
  simp [Nat.add_assoc]; omega

/-- the filter pre-pass of a `for … if cond` loop around the chunks `Ci` (iterable) and `Cx`
(`DupTop`, target, condition) -/
theorem filter_block (g : CG) (Ci Cx : List Instr × Aux) :
    (((((((((g.add (.loadConst (.int 0))).extend Ci).startForLoop false).extend Cx).startIf.add .swap).add
        (.loadConst (.int 1))).add .add).startElse.add .discardTop).endIf.endForLoop false).add (.buildList none) =
      g.extend ([Instr.loadConst (.int 0)] ++ Ci.1 ++
        [Instr.pushLoop 0, Instr.iterate (g.next + 1 + Ci.1.length + 2 + Cx.1.length + 7)] ++ Cx.1 ++
        [Instr.jumpIfFalse (g.next + 1 + Ci.1.length + 2 + Cx.1.length + 5), Instr.swap, Instr.loadConst (.int 1),
         Instr.add, Instr.jump (g.next + 1 + Ci.1.length + 2 + Cx.1.length + 6), Instr.discardTop,
         Instr.jump (g.next + 1 + Ci.1.length + 1), Instr.popLoopFrame, Instr.buildList none], Cx.2) := by
  have e1 : ∀ (h : CG), ((h.add .swap).add (.loadConst (.int 1))).add .add =
      h.extend ([Instr.swap, Instr.loadConst (.int 1), Instr.add], h.aux) := by
    intro h; simp [CG.add, CG.extend]
  rw [e1, CG.add_eq_extend _ .discardTop, if_block, CG.add_eq_extend g, CG.extend_extend]
  simp only [aux_startIf_ext, aux_startElse_ext]
  rw [for_block_novar, CG.add_eq_extend, CG.extend_extend]
  simp [CG.extend, CG.next, CG.startForLoop, CG.add, Nat.add_assoc]; omega

mutual
theorem cTarget_eq_rel : ∀ (t : Target) (g : CG), cTarget t g = g.extend (relTarget t, g.aux)
  | .var x, g => by simp [cTarget, relTarget, CG.add_eq_extend]
  | .tuple ts, g => by
    simp only [cTarget, relTarget]
    rw [cTargets_eq_rel ts, CG.add_eq_extend, CG.extend_extend]
    simp
theorem cTargets_eq_rel : ∀ (ts : List Target) (g : CG), cTargets ts g = g.extend (relTargets ts, g.aux)
  | [], g => by simp [cTargets, relTargets, CG.extend]
  | t :: ts, g => by
    simp only [cTargets, relTargets]
    rw [cTarget_eq_rel t g, cTargets_eq_rel ts, CG.extend_extend]
    simp
end

theorem cBinds_eq_rel : ∀ (binds : List (Target × Expr)) (g : CG), simpleBinds binds = true →
    cBinds binds g = g.extend (relBinds binds g.next g.aux)
  | [], g, _ => by simp [cBinds, relBinds, CG.extend]
  | (t, e) :: rest, g, h => by
    have hs : simpleExpr e = true ∧ simpleBinds rest = true := by simpa [simpleBinds] using h
    simp only [cBinds, relBinds]
    rw [cExpr_eq_rel e g hs.1, cTarget_eq_rel, CG.extend_extend, cBinds_eq_rel rest _ hs.2]
    simp [CG.extend_extend, Nat.add_assoc]

theorem cFilters_eq_rel : ∀ (fs : List FilterApp) (g : CG), simpleFilters fs = true →
    cFilters fs g = g.extend (relFilters fs g.next g.aux)
  | [], g, _ => by simp [cFilters, relFilters, CG.extend]
  | (name, args) :: rest, g, h => by
    have hs : simpleArgs args = true ∧ simpleFilters rest = true := by simpa [simpleFilters] using h
    simp only [cFilters, relFilters]
    rw [cArgs_eq_rel args g hs.1]
    have e1 : ((g.extend (relArgs args g.next g.aux)).filterId name).2.add
          (Instr.applyFilter name (1 + args.length) ((g.extend (relArgs args g.next g.aux)).filterId name).1) =
        g.extend ((relArgs args g.next g.aux).1 ++
          [Instr.applyFilter name (1 + args.length) ((relArgs args g.next g.aux).2.filterId name).1],
          ((relArgs args g.next g.aux).2.filterId name).2) := by
      simp [CG.filterId, CG.extend, CG.add]
    rw [e1, cFilters_eq_rel rest _ hs.2]
    simp [CG.extend_extend, Nat.add_assoc]

theorem scope_block (g : CG) (k : ScopeKind) (C : List Instr × Aux) :
    ((g.startScope k).extend C).endScope = g.extend C := by
  simp [CG.startScope, CG.endScope, CG.extend]

@[simp] theorem next_startScope (g : CG) (k : ScopeKind) : (g.startScope k).next = g.next := rfl
@[simp] theorem aux_startScope (g : CG) (k : ScopeKind) : (g.startScope k).aux = g.aux := rfl
@[simp] theorem next_add (g : CG) (i : Instr) : (g.add i).next = g.next + 1 := by simp [CG.add, CG.next]
@[simp] theorem aux_add (g : CG) (i : Instr) : (g.add i).aux = g.aux := rfl
@[simp] theorem next_startFor_ext (g : CG) (C : List Instr × Aux) (b : Bool) :
    ((g.extend C).startForLoop b).next = g.next + C.1.length + 2 := by
  simp [CG.startForLoop, CG.extend, CG.add, CG.next, Nat.add_assoc]
@[simp] theorem aux_startFor_ext (g : CG) (C : List Instr × Aux) (b : Bool) :
    ((g.extend C).startForLoop b).aux = C.2 := by
  simp [CG.startForLoop, CG.extend, CG.add]

theorem endFor_else_eq (g : CG) (Ci Cb : List Instr × Aux) :
    (((g.extend Ci).startForLoop true).extend Cb).endForLoop true =
      g.extend (Ci.1 ++ [Instr.pushLoop 1, Instr.iterate (g.next + Ci.1.length + 2 + Cb.1.length + 1)] ++ Cb.1 ++
        [Instr.jump (g.next + Ci.1.length + 1), Instr.pushDidNotIterate, Instr.popLoopFrame], Cb.2) := by
  simp only [CG.startForLoop, CG.endForLoop, CG.extend, CG.add, CG.next, CG.patchAll, List.nil_append,
    List.foldl, if_true]
  rw [patch_iterate _ (g.code ++ Ci.1 ++ [Instr.pushLoop 1])
    (Cb.1 ++ [Instr.jump (g.code ++ Ci.1 ++ [Instr.pushLoop 1]).length] ++ [Instr.pushDidNotIterate] ++ [Instr.popLoopFrame])
    _ unpatched _ (by simp) (by simp)]
  simp [Nat.add_assoc]; omega

theorem next_forElse_startIf (g : CG) (Ci Cb : List Instr × Aux) :
    ((((g.extend Ci).startForLoop true).extend Cb).endForLoop true).startIf.next =
      g.next + Ci.1.length + 2 + Cb.1.length + 4 := by
  rw [endFor_else_eq, next_startIf_ext]; simp; omega
theorem aux_forElse_startIf (g : CG) (Ci Cb : List Instr × Aux) :
    ((((g.extend Ci).startForLoop true).extend Cb).endForLoop true).startIf.aux = Cb.2 := by
  rw [endFor_else_eq, aux_startIf_ext]

/-- a `for` loop with an `else` branch: `Ci` iterable, `Cb` target + body, `Ce` else body -/
theorem for_else_block (g : CG) (Ci Cb Ce : List Instr × Aux) :
    ((((((g.extend Ci).startForLoop true).extend Cb).endForLoop true).startIf).extend Ce).endIf =
      g.extend (Ci.1 ++ [Instr.pushLoop 1, Instr.iterate (g.next + Ci.1.length + 2 + Cb.1.length + 1)] ++ Cb.1 ++
        [Instr.jump (g.next + Ci.1.length + 1), Instr.pushDidNotIterate, Instr.popLoopFrame,
         Instr.jumpIfFalse (g.next + Ci.1.length + 2 + Cb.1.length + 4 + Ce.1.length)] ++ Ce.1, Ce.2) := by
  rw [endFor_else_eq, if_block_noelse]
  simp [CG.extend, CG.next, Nat.add_assoc]; omega

theorem filter_prefix_eq (t : Target) (iter c : Expr) (g : CG) (hi : simpleExpr iter = true)
    (hc : simpleExpr c = true) :
    (((((((cExpr c (cTarget t (((cExpr iter (g.add (.loadConst (.int 0)))).startForLoop false).add .dupTop))).startIf.add
        .swap).add (.loadConst (.int 1))).add .add).startElse.add .discardTop).endIf.endForLoop false).add
        (.buildList none)) = g.extend (relForIter t iter (some c) g.next g.aux) := by
  rw [cExpr_eq_rel iter _ hi, CG.add_eq_extend _ .dupTop, cTarget_eq_rel, cExpr_eq_rel c _ hc,
    CG.extend_extend, CG.extend_extend, filter_block]
  simp [relForIter, CG.extend, CG.next, CG.startForLoop, CG.add, Nat.add_assoc]
  have hb : g.code.length + ((relExpr iter (g.code.length + 1) g.aux).fst.length + ((relTarget t).length + 4)) =
      g.code.length + (1 + ((relExpr iter (g.code.length + 1) g.aux).fst.length + (3 + (relTarget t).length))) := by
    omega
  rw [hb]
  simp
  omega

mutual
theorem cStmt_eq_rel : ∀ (st : Stmt) (g : CG), simpleStmt st = true →
    cStmt st g = g.extend (relStmt st g.next g.aux)
  | .text t, g, _ => by simp [cStmt, relStmt, CG.add_eq_extend]
  | .emit e, g, h => by
    have hs : simpleExpr e = true := by simpa [simpleStmt] using h
    simp [cStmt, relStmt, cExpr_eq_rel e g hs]
  | .set t e, g, h => by
    have hs : simpleExpr e = true := by simpa [simpleStmt] using h
    simp [cStmt, relStmt, cExpr_eq_rel e g hs, cTarget_eq_rel, CG.extend_extend]
  | .ifS c t [], g, h => by
    have hs : simpleExpr c = true ∧ simpleBlock t = true := by simpa [simpleStmt, simpleBlock] using h
    simp only [cStmt, relStmt]
    rw [cExpr_eq_rel c g hs.1, cBlock_eq_rel t _ hs.2, if_block_noelse]
    simp [Nat.add_assoc]
  | .ifS c t (f :: fs), g, h => by
    have hs : (simpleExpr c = true ∧ simpleBlock t = true) ∧ simpleBlock (f :: fs) = true := by
      simpa [simpleStmt] using h
    simp only [cStmt, relStmt]
    rw [cExpr_eq_rel c g hs.1.1, cBlock_eq_rel t _ hs.1.2, cBlock_eq_rel (f :: fs) _ hs.2, if_block]
    simp [Nat.add_assoc]
  | .withS binds body, g, h => by
    have hs : simpleBinds binds = true ∧ simpleBlock body = true := by simpa [simpleStmt] using h
    simp only [cStmt, relStmt]
    rw [cBinds_eq_rel binds _ hs.1, cBlock_eq_rel body _ hs.2]
    simp [CG.startScope, CG.endScope, CG.extend, CG.add, CG.next, Nat.add_assoc, Nat.add_comm]
  | .forS t iter none body [], g, h => by
    have hs : simpleExpr iter = true ∧ simpleBlock body = true := by
      simpa [simpleStmt, simpleBlock] using h
    simp only [cStmt, relStmt, relForIter]
    rw [cExpr_eq_rel iter g hs.1, cTarget_eq_rel, cBlock_eq_rel body _ hs.2, CG.extend_extend, for_block]
    simp [Nat.add_assoc]
  | .forS t iter none body (e0 :: es), g, h => by
    have hs : (simpleExpr iter = true ∧ simpleBlock body = true) ∧ simpleBlock (e0 :: es) = true := by
      simpa [simpleStmt] using h
    simp only [cStmt, relStmt, relForIter]
    rw [cExpr_eq_rel iter g hs.1.1, cTarget_eq_rel, cBlock_eq_rel body _ hs.1.2, CG.extend_extend,
      cBlock_eq_rel (e0 :: es) _ hs.2, next_forElse_startIf, aux_forElse_startIf, for_else_block]
    simp [Nat.add_assoc]
  | .forS t iter (some c) body [], g, h => by
    have hs : (simpleExpr iter = true ∧ simpleExpr c = true) ∧ simpleBlock body = true := by
      simpa [simpleStmt, simpleBlock] using h
    simp only [cStmt, relStmt]
    rw [filter_prefix_eq t iter c g hs.1.1 hs.1.2, cTarget_eq_rel, cBlock_eq_rel body _ hs.2,
      CG.extend_extend, for_block]
    simp [Nat.add_assoc]
  | .forS t iter (some c) body (e0 :: es), g, h => by
    have hs : ((simpleExpr iter = true ∧ simpleExpr c = true) ∧ simpleBlock body = true) ∧
        simpleBlock (e0 :: es) = true := by
      simpa [simpleStmt] using h
    simp only [cStmt, relStmt]
    rw [filter_prefix_eq t iter c g hs.1.1.1 hs.1.1.2, cTarget_eq_rel, cBlock_eq_rel body _ hs.1.2,
      CG.extend_extend, cBlock_eq_rel (e0 :: es) _ hs.2, next_forElse_startIf, aux_forElse_startIf, for_else_block]
    simp [Nat.add_assoc]
  | .setBlock x filters body, g, h => by
    have hs : simpleFilters filters = true ∧ simpleBlock body = true := by simpa [simpleStmt] using h
    simp only [cStmt, relStmt]
    rw [cBlock_eq_rel body _ hs.2, scope_block, cFilters_eq_rel filters _ hs.1]
    simp [CG.extend, CG.add, CG.next, CG.startScope, Nat.add_assoc, Nat.add_comm, Nat.add_left_comm]
  | .filterBlock filters body, g, h => by
    have hs : simpleFilters filters = true ∧ simpleBlock body = true := by simpa [simpleStmt] using h
    simp only [cStmt, relStmt]
    rw [cBlock_eq_rel body _ hs.2, scope_block, cFilters_eq_rel filters _ hs.1]
    simp [CG.extend, CG.add, CG.next, CG.startScope, Nat.add_assoc, Nat.add_comm, Nat.add_left_comm]
  | .macroS .., _, h => by simp [simpleStmt] at h
  | .callBlock .., _, h => by simp [simpleStmt] at h
  | .breakS, _, h => by simp [simpleStmt] at h
  | .continueS, _, h => by simp [simpleStmt] at h
theorem cBlock_eq_rel : ∀ (ss : List Stmt) (g : CG), simpleBlock ss = true →
    cBlock ss g = g.extend (relBlock ss g.next g.aux)
  | [], g, _ => by simp [cBlock, relBlock, CG.extend]
  | s :: rest, g, h => by
    have hs : simpleStmt s = true ∧ simpleBlock rest = true := by simpa [simpleBlock] using h
    simp only [cBlock, relBlock]
    rw [cStmt_eq_rel s g hs.1, cBlock_eq_rel rest _ hs.2]
    simp [CG.extend_extend]
end

end MJ.Compile
